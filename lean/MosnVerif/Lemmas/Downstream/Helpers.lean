import MosnVerif.Lemmas.Downstream.P3Base
/-! what the helpers of the machine do to the clause groups of the invariant -/
namespace MosnVerif.Model.Downstream
open MosnVerif.Gen.ProxyPhase MosnVerif.Gen.ProxyReason MosnVerif.Gen.ProxyRetry

/-! ### trace -/

theorem snd_append (t : List Ev) (e : Ev) : snd (t ++ [e]) = sndStep (snd t) e := by
  simp [snd, List.foldl_append]

theorem nLog_append (t : List Ev) (e : Ev) : nLog (t ++ [e]) = nLog t + (if isLog e then 1 else 0) := by
  simp only [nLog, List.filter_append, List.length_append]
  cases h : isLog e <;> simp [h]

theorem snd_append2 (t : List Ev) (a b : Ev) : snd (t ++ [a, b]) = sndStep (sndStep (snd t) a) b := by
  simp [snd, List.foldl_append]

theorem nLog_append2 (t : List Ev) (a b : Ev) :
    nLog (t ++ [a, b]) = nLog t + (if isLog a then 1 else 0) + (if isLog b then 1 else 0) := by
  have : t ++ [a, b] = (t ++ [a]) ++ [b] := by simp
  rw [this, nLog_append, nLog_append]

/-- an upstream attempt (admitted or refused) leaves the client-visible protocol state alone as long as no response
headers went downstream -/
theorem sndStep_un (g : Snd) (k : Nat) (h : g.hdr = false) : sndStep g (.un k) = g := by
  cases g; simp_all [sndStep]

theorem sndStep_uf (g : Snd) (k : Nat) (f : PoolFail) (h : g.hdr = false) : sndStep g (.uf k f) = g := by
  cases g; simp_all [sndStep]

theorem foldl_sndStep_neutral (l : List Ev) (g : Snd) (hl : ∀ e ∈ l, ∀ g, sndStep g e = g) : l.foldl sndStep g = g := by
  induction l generalizing g with
  | nil => rfl
  | cons x r ih =>
    simp only [List.foldl_cons]
    rw [hl x (by simp)]
    exact ih g (fun e he => hl e (by simp [he]))

@[simp] theorem snd_resetUpstream (c : Cfg) (s : S) : snd (resetUpstream c s).trace = snd s.trace := by
  unfold resetUpstream
  split
  · simp only [destroyStream]
    split
    · simp [snd_append, sndStep]
    · rfl
  · rfl

@[simp] theorem nLog_resetUpstream (c : Cfg) (s : S) : nLog (resetUpstream c s).trace = nLog s.trace := by
  unfold resetUpstream
  split
  · simp only [destroyStream]
    split
    · simp [nLog_append, isLog]
    · rfl
  · rfl

/-! ### retry state and the retries resource -/

theorem heldRetry_eq (c : Cfg) (s : S) (r : RetryState) (h : s.rs = some r) : heldRetry c s = heldUnits c r := by
  simp [heldRetry, heldUnits, rsHeld, h]

theorem heldRetry_none (c : Cfg) (s : S) (h : s.rs = none) : heldRetry c s = 0 := by
  simp [heldRetry, rsHeld, h]

theorem rsReset_facts (c : Cfg) (s : S) :
    (rsReset c s).rs.isSome = s.rs.isSome ∧ rsHeld (rsReset c s) = false ∧
    (rsReset c s).retries - heldRetry c (rsReset c s) = s.retries - heldRetry c s := by
  unfold rsReset
  cases h : s.rs with
  | none => simp [rsHeld, h, heldRetry]
  | some r =>
    have := reset_spec c false r s.retries
    simp only at this
    simp only [Option.map_some, Option.isSome_some, rsHeld, heldRetry]
    refine ⟨trivial, this.1, ?_⟩
    have h2 := this.2.2
    simp only [heldUnits] at h2
    simp only [h]
    exact h2

/-- `reset()` gives back exactly what the retry state holds -/
theorem rsReset_retries (c : Cfg) (s : S) : (rsReset c s).retries = s.retries - heldRetry c s := by
  have h := rsReset_facts c s
  have h0 : heldRetry c (rsReset c s) = 0 := by simp [heldRetry, h.2.1]
  have := h.2.2
  omega

theorem rsReset_retries_of_not_held (c : Cfg) (s : S) (h : rsHeld s = false) : (rsReset c s).retries = s.retries := by
  rw [rsReset_retries]; simp [heldRetry, h]

theorem cleanUp_facts (c : Cfg) (s : S) :
    (cleanUp c s).rs.isSome = s.rs.isSome ∧ rsHeld (cleanUp c s) = false ∧
    (cleanUp c s).retries - heldRetry c (cleanUp c s) = s.retries - heldRetry c s ∧
    (cleanUp c s).perTry = false ∧ (cleanUp c s).global = false := by
  have := rsReset_facts c s
  simp only [cleanUp, rsHeld, heldRetry] at this ⊢
  exact ⟨this.1, this.2.1, this.2.2, trivial, trivial⟩

theorem rsRetry_facts (c : Cfg) (s : S) (reason : Option Reason) :
    ((rsRetry c s reason).2 = ShouldRetry ∨ (rsRetry c s reason).2 = NoRetry ∨ (rsRetry c s reason).2 = RetryOverflow) ∧
    (rsRetry c s reason).1.rs.isSome = s.rs.isSome ∧
    (rsHeld (rsRetry c s reason).1 = decide ((rsRetry c s reason).2 = ShouldRetry)) ∧
    (rsRetry c s reason).1.retries - heldRetry c (rsRetry c s reason).1 = s.retries - heldRetry c s := by
  unfold rsRetry retryRes
  cases h : s.rs with
  | none => simp [rsHeld, h, heldRetry, ShouldRetry, NoRetry]
  | some r =>
    have := retry_spec c (retryCheck c s reason) r s.retries
    simp only at this
    simp only [Option.map_some, Option.isSome_some, rsHeld, heldRetry]
    refine ⟨this.1, trivial, this.2.1, ?_⟩
    have h2 := this.2.2.2.2
    simpa [heldUnits, h] using h2

/-! ### client streams and the requests resource -/

theorem streamsOk_iff (s : S) : streamsOk s = true ↔
    allDead s.streams.dropLast = true ∧
    (∀ st, s.streams.getLast? = some st → st.live = true → s.up = some (some (s.streams.length - 1)) ∧ st.real = true) ∧
    (∀ k, s.up = some (some k) → k < s.streams.length) := by
  unfold streamsOk
  simp only [Bool.and_eq_true]
  constructor
  · rintro ⟨⟨h1, h2⟩, h3⟩
    refine ⟨h1, ?_, ?_⟩
    · intro st hst hl
      simp [hst, hl] at h2
      exact h2
    · intro k hk
      simp [hk] at h3
      exact h3
  · rintro ⟨h1, h2, h3⟩
    refine ⟨⟨h1, ?_⟩, ?_⟩
    · cases hl : s.streams.getLast? with
      | none => rfl
      | some st =>
        cases hlive : st.live with
        | false => simp [hlive]
        | true =>
          have := h2 st hl hlive
          simp [this.1, this.2]
    · cases hu : s.up with
      | none => rfl
      | some o =>
        cases o with
        | none => rfl
        | some k => simpa using h3 k hu

/-- under K14 a live stream is the newest one and the current upstream request owns it -/
theorem live_owned (s : S) (h : streamsOk s = true) (k : Nat) (hl : streamLive s k = true) :
    k + 1 = s.streams.length ∧ curStream s = some k := by
  rw [streamsOk_iff] at h
  obtain ⟨h1, h2, _⟩ := h
  unfold streamLive at hl
  cases hk : s.streams[k]? with
  | none => simp [hk] at hl
  | some st =>
    simp [hk] at hl
    have hlast := live_is_last h1 hk hl
    have hg : s.streams.getLast? = some st := by
      rw [List.getLast?_eq_getElem?]
      have : s.streams.length - 1 = k := by omega
      rw [this]; exact hk
    have := (h2 st hg hl).1
    refine ⟨hlast, ?_⟩
    unfold curStream
    have hk2 : s.streams.length - 1 = k := by omega
    simp [this, hk2]

theorem no_live_of_no_cur (s : S) (h : streamsOk s = true) (hc : curStream s = none) : allDead s.streams = true := by
  simp only [allDead, List.all_eq_true, Bool.not_eq_true']
  intro st hst
  obtain ⟨k, hk⟩ := List.getElem?_of_mem hst
  cases hl : st.live with
  | false => rfl
  | true =>
    have : streamLive s k = true := by simp [streamLive, hk, hl]
    have := (live_owned s h k this).2
    rw [hc] at this
    cases this


/-- the ledger/streams group of the invariant -/
def LedgerOk (c : Cfg) (aq : Nat) (s : S) : Prop := K10 c aq s ∧ K11 s ∧ K14 s

theorem streamLiveCounted_le (s : S) (k : Nat) (h : streamLiveCounted s k = true) : streamLive s k = true := by
  unfold streamLiveCounted at h
  unfold streamLive
  cases hk : s.streams[k]? with
  | none => simp [hk] at h
  | some st => simp [hk] at h ⊢; exact h.1

theorem decrease_eq (m : Nat) (n : Int) : Gen.Resource.decrease (m : Int) n = if m != 0 then n - 1 else n := by
  unfold Gen.Resource.decrease
  by_cases h : m = 0 <;> simp [h] <;> omega

/-- on a non-negative counter the breaker's admission test is "unlimited or below the limit" -/
theorem canCreate_iff (m : Nat) (n : Int) (hn : 0 ≤ n) : Gen.Resource.canCreate (m : Int) n = true ↔ (m = 0 ∨ n < m) := by
  unfold Gen.Resource.canCreate
  by_cases hm : m = 0
  · simp [hm]
  · have hneg : ¬ n < 0 := by omega
    simp [hm, hneg]

theorem increase_eq (m : Nat) (n : Int) : Gen.Resource.increase (m : Int) n = if m != 0 then n + 1 else n := by
  unfold Gen.Resource.increase
  by_cases h : m = 0 <;> simp [h]

theorem destroyStream_ledger (c : Cfg) (aq : Nat) (s : S) (k : Nat) (h : LedgerOk c aq s) :
    LedgerOk c aq (destroyStream c s k) ∧ (streamLive s k = true → allDead (destroyStream c s k).streams = true) := by
  obtain ⟨h10, h11, h14⟩ := h
  cases hl : streamLive s k with
  | false =>
    have hlc : streamLiveCounted s k = false := by
      cases hc : streamLiveCounted s k with
      | false => rfl
      | true => rw [streamLiveCounted_le s k hc] at hl; cases hl
    refine ⟨⟨?_, ?_, ?_⟩, by simp⟩
    · simpa [K10, heldRequests, destroyStream, hl, hlc] using h10
    · simpa [K11, destroyStream, hl, hlc] using h11
    · simpa [K14, streamsOk, destroyStream, hl, hlc] using h14
  | true =>
    obtain ⟨hlast, hcur⟩ := live_owned s h14 k hl
    have h14' := (streamsOk_iff s).mp h14
    obtain ⟨st, hk⟩ : ∃ st, s.streams[k]? = some st := by
      unfold streamLive at hl
      cases hk : s.streams[k]? with
      | none => simp [hk] at hl
      | some st => exact ⟨st, rfl⟩
    have hstl : st.live = true := by simpa [streamLive, hk] using hl
    have hlc : streamLiveCounted s k = st.counted := by simp [streamLiveCounted, hk, hstl]
    have hcount := liveCount_setStream_kill s.streams k st hk
    have hk' : s.streams.length - 1 = k := by omega
    have hdead : allDead (setStream s.streams k kill) = true := by
      rw [← hk']; exact allDead_setStream_kill_last h14'.1
    refine ⟨⟨?_, ?_, ?_⟩, fun _ => by simpa [destroyStream, hl] using hdead⟩
    · simp only [K10, heldRequests, destroyStream, hl, hlc, if_true, decrease_eq] at h10 ⊢
      cases hc : st.counted <;> by_cases hm : c.maxRequests = 0 <;> simp [hc, hm, hstl] at hcount h10 ⊢ <;> omega
    · simp only [K11, destroyStream, hl, hlc, if_true] at h11 ⊢
      cases hc : st.counted <;> simp [hc, hstl] at hcount h11 ⊢ <;> omega
    · rw [K14, streamsOk_iff]
      simp only [destroyStream, hl, if_true, setStream_length]
      refine ⟨?_, ?_, h14'.2.2⟩
      · rw [setStream_dropLast]
        exact allDead_setStream h14'.1 k kill (fun _ _ => rfl)
      · intro st' hst' hlive'
        have := allDead_get hdead (k := k) (st := st') (by
          rw [List.getLast?_eq_getElem?, setStream_length, hk'] at hst'; exact hst')
        rw [this] at hlive'; cases hlive'

theorem resetUpstream_ledger (c : Cfg) (aq : Nat) (s : S) (h : LedgerOk c aq s) :
    LedgerOk c aq (resetUpstream c s) ∧ allDead (resetUpstream c s).streams = true := by
  unfold resetUpstream
  cases hc : curStream s with
  | none => exact ⟨h, no_live_of_no_cur s h.2.2 hc⟩
  | some k =>
    simp only
    -- the intermediate state: listener removed, `ur` recorded
    let s1 : S := { s with streams := setStream s.streams k unlisten,
                           trace := if streamLive s k then s.trace ++ [Ev.ur k] else s.trace }
    have h1 : LedgerOk c aq s1 := by
      obtain ⟨h10, h11, h14⟩ := h
      refine ⟨?_, ?_, ?_⟩
      · simpa [K10, heldRequests, s1, liveCount_setStream_unlisten] using h10
      · simpa [K11, s1, liveCount_setStream_unlisten] using h11
      · rw [K14, streamsOk_iff] at h14 ⊢
        simp only [s1, setStream_length]
        refine ⟨?_, ?_, h14.2.2⟩
        · rw [setStream_dropLast, allDead_setStream_unlisten]; exact h14.1
        · intro st hst hl
          rw [getLast?_setStream] at hst
          split at hst
          · cases hg : s.streams.getLast? with
            | none => simp [hg] at hst
            | some st0 =>
              simp [hg] at hst; subst hst
              exact h14.2.1 st0 hg (by simpa [unlisten] using hl)
          · exact h14.2.1 st hst hl
    have hres := destroyStream_ledger c aq s1 k h1
    refine ⟨hres.1, ?_⟩
    cases hl : streamLive s1 k with
    | true => exact hres.2 hl
    | false =>
      -- the current stream is dead, so every stream is
      have hdead1 : allDead s1.streams = true := by
        simp only [allDead, List.all_eq_true, Bool.not_eq_true']
        intro st hst
        obtain ⟨j, hj⟩ := List.getElem?_of_mem hst
        cases hlv : st.live with
        | false => rfl
        | true =>
          have hj1 : streamLive s1 j = true := by simp [streamLive, hj, hlv]
          have := (live_owned s1 h1.2.2 j hj1).2
          have hc1 : curStream s1 = some k := by simpa [curStream, s1] using hc
          rw [hc1] at this
          injection this with hjk
          subst hjk
          rw [hj1] at hl; cases hl
      have hs : (destroyStream c s1 k).streams = s1.streams := by
        simp only [destroyStream, hl, Bool.false_eq_true, if_false]
      exact hs ▸ hdead1


theorem liveCount_append (l : List Stream) (st : Stream) :
    liveCount (l ++ [st]) = liveCount l + (if st.live && st.counted then 1 else 0) := by
  simp only [liveCount, List.filter_append, List.length_append, List.filter_cons, List.filter_nil, liveCounted]
  by_cases h : (st.live && st.counted) = true <;> simp [h]

theorem allDead_of_counted (l : List Stream) (h22 : liveAreCounted l = true) (hlc : liveCount l = 0) : allDead l = true := by
  induction l with
  | nil => rfl
  | cons x r ih =>
    simp only [liveAreCounted, List.all_cons, Bool.and_eq_true] at h22
    rw [liveCount_cons] at hlc
    rw [allDead_cons]
    have hx : x.live = false := by
      cases hl : x.live with
      | false => rfl
      | true =>
        have hc : x.counted = true := by simpa [hl] using h22.1
        simp [hl, hc] at hlc
    have hr : liveCount r = 0 := by omega
    simp [hx, ih h22.2 hr]

/-- a new client stream is appended for the current upstream request while every older one is dead -/
theorem ledger_append (c : Cfg) (aq : Nat) (s : S) (st : Stream) (upv : Option (Option Nat)) (rq ua : Int)
    (hled : LedgerOk c aq s) (hdead : allDead s.streams = true)
    (hst : st.live = true → upv = some (some s.streams.length) ∧ st.real = true)
    (hup : ∀ k, upv = some (some k) → k < s.streams.length + 1)
    (hrq : rq = s.requests + (if c.maxRequests != 0 && st.live && st.counted then 1 else 0))
    (hua : ua = s.upActive + (if st.live && st.counted then 1 else 0)) :
    LedgerOk c aq { s with streams := s.streams ++ [st], up := upv, requests := rq, upActive := ua } := by
  obtain ⟨h10, h11, _⟩ := hled
  have hl0 := allDead_liveCount hdead
  refine ⟨?_, ?_, ?_⟩
  · simp only [K10, heldRequests, liveCount_append, hl0] at h10 ⊢
    rw [hrq, h10]
    cases hl : st.live <;> cases hc : st.counted <;> by_cases hm : c.maxRequests = 0 <;> simp [hm, hl, hc]
  · simp only [K11, liveCount_append, hl0] at h11 ⊢
    rw [hua, h11]
    cases hl : st.live <;> cases hc : st.counted <;> simp [hl, hc]
  · rw [K14, streamsOk_iff]
    refine ⟨?_, ?_, ?_⟩
    · simpa using hdead
    · intro st' hst' hl
      simp at hst'; subst hst'
      have := hst hl
      simp [this.1, this.2]
    · intro k hk; simpa using hup k hk

theorem K22_destroyStream (c : Cfg) (s : S) (k : Nat) (h : K22 c s) : K22 c (destroyStream c s k) := by
  intro ho
  have := h ho
  simp only [destroyStream]
  split
  · exact liveAreCounted_setStream _ _ kill (fun _ _ => by simp [kill]) this
  · exact this

theorem K22_resetUpstream (c : Cfg) (s : S) (h : K22 c s) : K22 c (resetUpstream c s) := by
  unfold resetUpstream
  split
  · apply K22_destroyStream
    intro ho
    exact liveAreCounted_setStream _ _ unlisten (fun st hst => by simpa [unlisten] using hst) (h ho)
  · exact h

/-! ### the pending terminate reply (`direct` between steps) -/

theorem k7_intro {s' : S} (hsr : s'.setupRetry = false) (hd : s'.direct = false) : K7 s' :=
  fun _ => ⟨hsr, fun h => by rw [hd] at h; cases h⟩

theorem not_direct_of_live {s : S} (h7 : K7 s) (hcl : s.cleaned = false) (hl : 0 < liveCount s.streams) :
    s.direct = false := by
  cases hd : s.direct with
  | false => rfl
  | true => have := ((h7 hcl).2 hd).2.2.2.2.2.1; omega

theorem not_direct_of_phase {s : S} (h7 : K7 s) (hcl : s.cleaned = false) (hp : ¬ (s.phase = .WaitNotify ∨ s.phase = .Retry)) :
    s.direct = false := by
  cases hd : s.direct with
  | false => rfl
  | true => exact absurd ((h7 hcl).2 hd).1 hp

/-- away from `WaitNotify` and the back-off no local reply is pending: K7 carries over to any state with the same two flags -/
theorem k7_frame {s s' : S} (h7 : K7 s) (hcl : s.cleaned = false) (hnw : ¬ (s.phase = .WaitNotify ∨ s.phase = .Retry))
    (hsr : s'.setupRetry = s.setupRetry) (hd : s'.direct = s.direct) : K7 s' :=
  k7_intro (by rw [hsr]; exact (h7 hcl).1) (by rw [hd]; exact not_direct_of_phase h7 hcl hnw)

theorem or3_nd {a b : Prop} {d : Bool} (h : a ∨ b ∨ d = true) (hd : d = false) : a ∨ b := by
  rcases h with h | h | h
  · exact Or.inl h
  · exact Or.inr h
  · rw [hd] at h; cases h

theorem not_direct_of_quiet {s : S} (h7 : K7 s) (hcl : s.cleaned = false) (hn : s.notify = false) :
    s.direct = false := by
  cases hd : s.direct with
  | false => rfl
  | true => have := ((h7 hcl).2 hd).2.1; rw [hn] at this; cases this

theorem not_direct_of_timer {s : S} (h7 : K7 s) (hcl : s.cleaned = false) (ht : s.perTry = true ∨ s.global = true) :
    s.direct = false := by
  cases hd : s.direct with
  | false => rfl
  | true =>
    have := (h7 hcl).2 hd
    rcases ht with ht | ht
    · rw [this.2.2.2.2.2.2.1] at ht; cases ht
    · rw [this.2.2.2.2.2.2.2] at ht; cases ht

theorem not_direct_of_not_urr {s : S} (h7 : K7 s) (hcl : s.cleaned = false) (hu : s.urr = false) :
    s.direct = false := by
  cases hd : s.direct with
  | false => rfl
  | true => have := ((h7 hcl).2 hd).2.2.1; rw [hu] at this; cases this

end MosnVerif.Model.Downstream
