import MosnVerif.Lemmas.Downstream.Finish
/-! the worker label `work`, phases before and while the request is forwarded -/
namespace MosnVerif.Model.Downstream
open MosnVerif.Gen.ProxyPhase MosnVerif.Gen.ProxyReason MosnVerif.Gen.ProxyRetry

theorem inv_not_cleaned {c : Cfg} {ar aq : Nat} {s : S} (h : Inv c ar aq s) (hrun : s.running = true) : s.cleaned = false := by
  have := h.k0; simp only [K0, hrun] at this
  cases hc : s.cleaned with
  | false => rfl
  | true => simp [hc] at this

/-- moving from one pre-route phase to the next -/
theorem inv_advance_pre (c : Cfg) (ar aq : Nat) (s : S) (h : Inv c ar aq s) (p : Phase) (hp : prePhase s.phase = true)
    (hq : prePhase p = true) : Inv c ar aq { s with phase := p } := by
  by_cases hcl : s.cleaned = true
  · -- a cleaned state: only the phase-free clauses matter
    have hb := h.base
    have := tail_clean c ar aq s hb hcl h.k33 p s.pass s.notify
    have hr : s.running = false := by have := h.k0; simp only [K0, hcl] at this; simpa using this
    have e : ({ s with running := false, phase := p, pass := s.pass, notify := s.notify } : S) = { s with phase := p } := by
      rw [← hr]
    rw [e] at this; exact this
  · simp only [Bool.not_eq_true] at hcl
    have h17 := h.k17 hcl hp
    have hq2 : fwdPhase p = false ∧ upPhase p = false ∧ p ≠ .End ∧ p ≠ .Retry := by
      cases p <;> simp [prePhase, fwdPhase, upPhase] at hq ⊢
    have hnw : ¬ (s.phase = .WaitNotify ∨ s.phase = .Retry) := by
      intro hh; rcases hh with hh | hh <;> (rw [hh] at hp; simp [prePhase] at hp)
    obtain ⟨k0, k1, k2, k3, k4, k5, k6, k7, k8, k9, k10, k11, k12, k13, k14, k15, k16, k17, k18, k19, k20, k21, k22, k23, k24, k25, k26, k27, k28, k29, k30, k31, k32, k33⟩ := h
    refine ⟨k0, k1, k2, k3, k4, k5, k6, k7_frame k7 hcl hnw rfl rfl, ?_, k9, k10, k11, k12, k13, k14, ?_, ?_, ?_, ?_, ?_, k20, k21, k22, ?_, k24, k25, ?_, ?_, ?_, ?_, ?_, k31, ?_, (fun hh => absurd hh (by simp [hcl]))⟩
    · intro _
      have hp0 : s.pass = 0 := h17.2.2.2.2.2.2.2.2.2
      exact ⟨by show s.pass ≤ 1; omega, Or.inl hp0⟩
    · intro _ hh; simp [hq2.2.1] at hh
    · intro _ _; exact k16 hcl (by cases hph : s.phase <;> simp [hph, prePhase, upPhase] at hp ⊢)
    · intro _ _; exact h17
    · intro _ hh; simp [hq2.1] at hh
    · intro _; exact hq2.2.2.1
    · intro _ hh
      rcases hh with hh | hh
      · rw [h17.2.2.2.2.1] at hh; cases hh
      · exact absurd hh hq2.2.2.2
    · intro _ hh; exact absurd hh hq2.2.2.2
    · intro _ hh; simp [hq2.1] at hh
    · exact k28
    · intro _ _ _
      refine ⟨?_, ?_, ?_⟩ <;> (intro hh; have hh' : p = _ := hh; rw [hh'] at hq; simp [prePhase] at hq)
    · intro _ hh
      rcases hh with hh | hh <;> (have hh' : p = _ := hh; rw [hh'] at hq; simp [prePhase] at hq)
    · intro _ _
      refine ⟨hq2.2.1, ?_, hq2.2.2.2⟩
      intro hh; have hh' : p = _ := hh; rw [hh'] at hq; simp [prePhase] at hq

/-- phases `DownFilter`, `MatchRoute`, `DownFilterAfterRoute` (no stream filters in this model): only `processError` -/
theorem inv_work_pre (c : Cfg) (ar aq : Nat) (s : S) (h : Inv c ar aq s) (hrun : s.running = true)
    (hp : s.phase = .DownFilter ∨ s.phase = .MatchRoute ∨ s.phase = .DownFilterAfterRoute) :
    Inv c ar aq (finishPhase c s) := by
  apply finish_inv c ar aq s h hrun
  · rcases hp with hp | hp | hp <;> (rw [hp]; decide)
  · intro hh; rcases hp with hp | hp | hp <;> (rw [hp] at hh; cases hh)
  · intro _ _
    apply inv_advance_pre c ar aq s h
    · rcases hp with hp | hp | hp <;> simp [hp, prePhase]
    · rcases hp with hp | hp | hp <;> simp [hp, prePhase, Phase.next]

theorem inv_work_init (c : Cfg) (ar aq : Nat) (s : S) (h : Inv c ar aq s) (hp : s.phase = .InitPhase) :
    Inv c ar aq { s with phase := s.phase.next } := by
  apply inv_advance_pre c ar aq s h
  · simp [hp, prePhase]
  · simp [hp, prePhase, Phase.next]

/-- phase `ChooseHost` -/
theorem inv_work_chooseHost (c : Cfg) (ar aq : Nat) (s : S) (h : Inv c ar aq s) (hrun : s.running = true)
    (hp : s.phase = .ChooseHost) : Inv c ar aq (finishPhase c (chooseHost c s)) := by
  have hcl := inv_not_cleaned h hrun
  have hpre : prePhase s.phase = true := by simp [hp, prePhase]
  have h17 := h.k17 hcl hpre
  obtain ⟨hup, hrs, hst, hurr, hur, hpt, hgt, hrq, hge, hps⟩ := h17
  have hsr := (h.k7 hcl).1
  have hdir : s.direct = false := not_direct_of_phase h.k7 hcl (by rw [hp]; decide)
  have hpd : s.procDone = false := by
    cases hh : s.procDone with
    | false => rfl
    | true => have := h.k5 hh; rw [hcl] at this; cases this
  have hrst : s.respStarted = false := h.k16 hcl (by simp [hp, upPhase])
  have hb := h.base
  -- a local reply (no route, no healthy host, direct response)
  have hij : ∀ (f code : Nat) (body : Bool),
      Inv c ar aq (finishPhase c (sendHijack (orFlag { s with recvDone := !c.hasData && !c.hasTrailers } f) code body)) := by
    intro f code body
    apply finish_direct c ar aq _ _ (by simpa [sendHijack, orFlag] using hrun) (by simpa [sendHijack, orFlag] using hcl)
    · simpa [K3, sendHijack, orFlag] using h.k3
    · simpa [K6, sendHijack, orFlag] using h.k6
    · simpa [sendHijack, orFlag] using hpd
    · simpa [sendHijack, orFlag] using hsr
    · simp [sendHijack]
    · simpa [sendHijack, orFlag] using hur
    · simpa [sendHijack, orFlag] using hps
    · simp [rsHeld, sendHijack, orFlag, hrs]
    · simp [sendHijack, orFlag, hst]
    · simp [sendHijack]
    · simpa [sendHijack, orFlag] using hpt
    · simpa [sendHijack, orFlag] using hgt
    · simpa [sendHijack, orFlag] using hrst
    · simp [sendHijack, orFlag, hp]
    · intro hh; simp [sendHijack, orFlag, hurr] at hh
    · obtain ⟨k1, k2, k4, k9, k10, k11, k12, k13, k14, k20, k21, k22, k31⟩ := hb
      exact ⟨k1, k2, k4, k9, k10, k11, k12, k13, k14, k20, k21, k22, k31⟩
  unfold chooseHost
  simp only
  cases hroute : c.route with
  | noRoute => exact hij _ _ _
  | direct code body =>
    have := hij 0 code body
    simpa [orFlag] using this
  | noHost => exact hij _ _ _
  | cluster =>
    simp only
    split
    · exact hij _ _ _
    · -- a host was chosen: retry state and upstream request exist from now on
      generalize hs1 : ({ s with recvDone := !c.hasData && !c.hasTrailers, rs := some (⟨max Gen.ProxyRetry.retriesFloor c.numRetries, false⟩ : RetryState), up := some none } : S) = s1
      have hb1 : Base c ar aq s1 := by
        subst hs1
        obtain ⟨k1, k2, k4, k9, k10, k11, k12, k13, k14, k20, k21, k22, k31⟩ := hb
        refine ⟨k1, k2, k4, ?_, k10, k11, k12, ?_, ?_, k20, k21, k22, ?_⟩
        · simpa [K9, heldRetry, rsHeld, hrs] using k9
        · intro hh; simp [hcl] at hh
        · simp [K14, streamsOk, hst, allDead]
        · intro _; rfl
      apply finish_plain c ar aq s1 hb1
      · subst hs1; exact hrun
      · subst hs1; exact hcl
      · subst hs1; exact h.k3
      · subst hs1; exact h.k6
      · subst hs1; exact hpd
      · subst hs1; exact hsr
      · subst hs1; exact hdir
      · intro hh; subst hs1; simp [hur] at hh
      · intro hh; subst hs1; simp [hur] at hh
      · intro hh; subst hs1; simp [hur] at hh
      · intro _ hdr
        subst hs1
        have hdr : s.downReset = false := hdr
        obtain ⟨k0, k1, k2, k3, k4, k5, k6, k7, k8, k9, k10, k11, k12, k13, k14, k15, k16, k17, k18, k19, k20, k21, k22, k23, k24, k25, k26, k27, k28, k29, k30, k31, k32, k33⟩ := h
        refine ⟨k0, k1, k2, k3, k4, k5, k6, k7_intro hsr hdir, ?_, hb1.k9, k10, k11, k12, ?_, hb1.k14, ?_, ?_, ?_, ?_, ?_, k20, k21, k22, ?_, ?_, ?_, ?_, ?_, ?_, ?_, ?_, ?_, ?_, (fun hh => absurd hh (by simp [hcl]))⟩
        · intro _; exact ⟨by show s.pass ≤ 1; omega, Or.inl hps⟩
        · intro hh; simp [hcl] at hh
        · intro _ hh; simp [hp, Phase.next, upPhase] at hh
        · intro _ _; exact hrst
        · intro _ hh; simp [hp, Phase.next, prePhase] at hh
        · intro _ _
          right
          refine ⟨rfl, rfl, ?_, ?_, ?_, ?_⟩
          · intro hh; simp [hurr, hur, hdr] at hh
          · intro hh; simp [hge] at hh
          · intro _ hh; simp [hrq] at hh
          · intro hh; simp [hp, Phase.next] at hh
        · intro _; simp [hp, Phase.next]
        · intro _ hh; simp [hur, hp, Phase.next] at hh
        · intro _ _ hh; simp [hrq] at hh
        · intro _ _ _; exact hps
        · intro _ hh; simp [hp, Phase.next] at hh
        · intro _ _ hh; simp [hurr] at hh
        · intro _ hh
          have := k28 hcl hh
          simpa [hurr, hur, hdr] using this
        · intro _ _ _
          refine ⟨?_, ?_, ?_⟩ <;> (intro hh; simp [hp, Phase.next] at hh)
        · intro _ _; exact ⟨hst, hrq, hpt, hgt, hurr, hur, hge⟩
        · intro _; rfl
        · intro _ _; simp [hp, Phase.next, upPhase]

end MosnVerif.Model.Downstream
