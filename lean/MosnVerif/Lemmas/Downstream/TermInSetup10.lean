import MosnVerif.Lemmas.Downstream.Window10
import MosnVerif.Lemmas.Downstream.Parked
/-!
proxy10 — `TerminateStream` landing INSIDE the retry set-up (between the retry decision and `processError`): the regenerated
`setupRetry` with the regenerated `TerminateStream` interleaved at the worker's two yield sites, then the regenerated `processError`.
-/
namespace MosnVerif.Model.Downstream
open MosnVerif.Gen.ProxyPhase MosnVerif.Gen.ProxyReason

/-- `TerminateStream(code)` of a handler of this request as the REGENERATED program, wherever the worker is (the label
`terminate` of the machine is this call delivered while the worker is asleep) -/
def termCall (c : Cfg) (code : Nat) (x : S) : S := (Gen.ProxyTerminate.terminateStream (termOps c c.gen code) id x).1

theorem termCall_eq (c : Cfg) (code : Nat) (x : S) :
    termCall c code x = if x.resp.isSome then x else if x.cleaned then x else if x.urr then x else terminateAcc c x code := by
  unfold termCall
  rw [← term_acc_eq]
  unfold Gen.ProxyTerminate.terminateStream Gen.ProxyTerminate.claim Gen.ProxyTerminate.commit
  cases h1 : x.resp.isSome <;> cases h2 : x.cleaned <;> cases h4 : x.urr <;>
    simp only [termOps, id, h1, h2, h4, beq_self_eq_true, Bool.false_eq_true, if_false, if_true, Bool.not_true, Bool.not_false]

theorem abandonRetry_clears (z : S) (hu : z.up.isSome = true) : (abandonRetry z).setupRetry = false ∧ (abandonRetry z).phase = z.phase := by
  unfold abandonRetry
  by_cases hm : z.setupRetry = true
  · rw [if_pos (by simp [hu, hm])]; exact ⟨rfl, rfl⟩
  · rw [if_neg (by simp [hm])]; exact ⟨by simpa using hm, rfl⟩

theorem reenter_mark (y : S) (p : Phase) : (reenter y p).setupRetry = y.setupRetry := by
  unfold reenter
  split
  · rfl
  · simp only; split <;> split <;> rfl

theorem finishOf_mark (r : S × Option Phase) : (finishOf r).setupRetry = r.1.setupRetry := by
  obtain ⟨y, o⟩ := r
  cases o
  · rfl
  · exact reenter_mark y _

/-- **`processError` never hands back the phase `Retry` while a local reply is pending** (regenerated `Gen.ProxyError`, closed
form `peTail`; fix 4e7d4a7f0): the reply goes to the response pass, and the retry that was being set up is abandoned — the mark
is cleared, the given-up request detached -/
theorem direct_abandons_retry (c : Cfg) (x : S) (e : Bool) (hd : x.downReset = false) (hdi : x.direct = true)
    (hu : x.up.isSome = true) :
    (peTail c x e).2 ≠ some .Retry ∧ (peTail c x e).1.setupRetry = false ∧ (finishOf (peTail c x e)).phase ≠ .Retry := by
  have hy := abandonRetry_clears ({ x with direct := false, rs := none, retries := (rsReset c x).retries } : S) hu
  have hpe : peTail c x e = (abandonRetry { x with direct := false, rs := none, retries := (rsReset c x).retries },
      if c.oneway then some Phase.Oneway else if x.phase ≠ .UpFilter then some Phase.UpFilter else none) := by
    unfold peTail
    rw [if_neg (by simp [hd]), if_pos hdi]
    simp only
    split
    · rfl
    · split <;> rfl
  rw [hpe]
  generalize abandonRetry { x with direct := false, rs := none, retries := (rsReset c x).retries } = y at hy
  simp only at hy
  by_cases ho : c.oneway = true
  · simp only [ho, if_true]
    exact ⟨by simp, hy.1, by simp [finishOf, reenter_phase]⟩
  · simp only [ho, Bool.false_eq_true, if_false]
    by_cases hp : x.phase = .UpFilter
    · simp only [hp, ne_eq, not_true_eq_false, if_false]
      refine ⟨by simp, hy.1, ?_⟩
      simp only [finishOf, hy.2, hp, Phase.next]
      decide
    · simp only [ne_eq, hp, not_false_eq_true, if_true]
      exact ⟨by simp, hy.1, by simp [finishOf, reenter_phase]⟩

theorem srRest_frame (c : Cfg) (eos : Bool) (m : S) :
    (srRest c eos m).direct = m.direct ∧ (srRest c eos m).downReset = m.downReset ∧ (srRest c eos m).up = m.up ∧
    (srRest c eos m).cleaned = m.cleaned ∧ (srRest c eos m).resp = m.resp := by
  unfold srRest
  cases eos <;> simp <;> split <;> simp

theorem terminateAcc_frame (c : Cfg) (x : S) (code : Nat) :
    (terminateAcc c x code).direct = true ∧ (terminateAcc c x code).downReset = x.downReset ∧
    (terminateAcc c x code).up = x.up := by
  simp [terminateAcc]

/-- **`TerminateStream` landing inside the retry set-up** (the coordinator's lead; defect fixed by 4e7d4a7f0).  The regenerated
`setupRetry` with the regenerated `TerminateStream` interleaved at a yield site: after the swing of the response slot the call is
ACCEPTED whenever no response headers are stored (the slot was just freed); after the mark it is accepted when the slot is free
(a retry decided on an upstream reset).  In both cases a local reply is pending when `processError` runs, and the regenerated
`processError` then abandons the retry: it does not hand back the phase `Retry` (the only phase besides the first
`receiveHeaders` that creates an attempt), clears the mark and detaches the given-up request -/
theorem terminate_inside_setup_abandons_retry (c : Cfg) (s : S) (eos e : Bool) (code : Nat) (he : s.globalExpired = false)
    (hd : s.downReset = false) (hu : s.up.isSome = true) (hc : s.cleaned = false) (hr : s.resp.isSome = false) :
    (let x := (Gen.ProxyBackoff.setupRetry (srOps c) id (termCall c code) eos s).1
     x.direct = true ∧ (restOfPhase c x e).phase ≠ .Retry ∧ (restOfPhase c x e).setupRetry = false) ∧
    (s.urr = false →
     let x := (Gen.ProxyBackoff.setupRetry (srOps c) (termCall c code) id eos s).1
     x.direct = true ∧ (restOfPhase c x e).phase ≠ .Retry ∧ (restOfPhase c x e).setupRetry = false) := by
  constructor
  · simp only
    rw [gen_setupRetry_after c _ eos s he]
    simp only
    have e0 := srRest_eq c eos s he
    have fr := srRest_frame c eos { s with setupRetry := true }
    rw [← e0] at fr
    have hacc : termCall c code (setupRetry c s eos).1 = terminateAcc c (setupRetry c s eos).1 code := by
      rw [termCall_eq, if_neg (by rw [fr.2.2.2.2]; simpa using hr), if_neg (by rw [fr.2.2.2.1]; simp [hc]),
        if_neg (by rw [e0]; simp [srRest_urr])]
    rw [hacc]
    have ta := terminateAcc_frame c (setupRetry c s eos).1 code
    have := direct_abandons_retry c { terminateAcc c (setupRetry c s eos).1 code with upReset := false } e
      (by rw [show ({ terminateAcc c (setupRetry c s eos).1 code with upReset := false } : S).downReset =
            (terminateAcc c (setupRetry c s eos).1 code).downReset from rfl, ta.2.1, fr.2.1]; exact hd)
      ta.1
      (by rw [show ({ terminateAcc c (setupRetry c s eos).1 code with upReset := false } : S).up =
            (terminateAcc c (setupRetry c s eos).1 code).up from rfl, ta.2.2, fr.2.2.1]; exact hu)
    exact ⟨ta.1, this.2.2, by unfold restOfPhase; rw [finishOf_mark]; exact this.2.1⟩
  · intro hur
    simp only
    rw [gen_setupRetry_before c _ eos s he]
    simp only
    have hacc : termCall c code { s with setupRetry := true } = terminateAcc c { s with setupRetry := true } code := by
      rw [termCall_eq, if_neg (by simpa using hr), if_neg (by simp [hc]), if_neg (by simp [hur])]
    rw [hacc]
    have ta := terminateAcc_frame c { s with setupRetry := true } code
    have fr := srRest_frame c eos (terminateAcc c { s with setupRetry := true } code)
    have := direct_abandons_retry c { srRest c eos (terminateAcc c { s with setupRetry := true } code) with upReset := false } e
      (by rw [show ({ srRest c eos (terminateAcc c { s with setupRetry := true } code) with upReset := false } : S).downReset =
            (srRest c eos (terminateAcc c { s with setupRetry := true } code)).downReset from rfl, fr.2.1, ta.2.1]; exact hd)
      (by rw [show ({ srRest c eos (terminateAcc c { s with setupRetry := true } code) with upReset := false } : S).direct =
            (srRest c eos (terminateAcc c { s with setupRetry := true } code)).direct from rfl, fr.1]; exact ta.1)
      (by rw [show ({ srRest c eos (terminateAcc c { s with setupRetry := true } code) with upReset := false } : S).up =
            (srRest c eos (terminateAcc c { s with setupRetry := true } code)).up from rfl, fr.2.2.1, ta.2.2]; exact hu)
    exact ⟨by rw [fr.1]; exact ta.1, this.2.2, by unfold restOfPhase; rw [finishOf_mark]; exact this.2.1⟩

end MosnVerif.Model.Downstream
