import MosnVerif.Lemmas.Downstream.Async
/-! closed form of the regenerated `processError` instantiated on the machine -/
namespace MosnVerif.Model.Downstream
open MosnVerif.Gen.ProxyPhase MosnVerif.Gen.ProxyReason MosnVerif.Gen.ProxyRetry

/-- [proxy10, fix 4e7d4a7f0] the local-reply branch of `processError` abandons a retry that is being set up: the marked
upstream request is detached (on the machine's own states the mark is never set together with a pending local reply —
`abandonRetry_id` —, the branch is exercised on the implementation at the worker's yield sites inside `setupRetry`) -/
def abandonRetry (s : S) : S :=
  if s.up.isSome && s.setupRetry then { s with up := some none, setupRetry := false } else s

theorem abandonRetry_id {s : S} (h : s.setupRetry = false) : abandonRetry s = s := by
  simp [abandonRetry, h]

/-- the tail of `processError` once the reset flags have been dealt with -/
def peTail (c : Cfg) (s1 : S) (e1 : Bool) : S × Option Phase :=
  if s1.downReset then (dsResetStream c s1, some .End)
  else if s1.direct then
    let s2 := abandonRetry { s1 with direct := false, rs := none, retries := (rsReset c s1).retries }
    if c.oneway then (s2, some .Oneway)
    else if s1.phase ≠ .UpFilter then (s2, some .UpFilter)
    else (s2, none)   -- [proxy7] the response pass goes on with the local reply, whatever set `err` before (fix a3a21969e)
  else if s1.up.isSome && s1.setupRetry then ({ s1 with up := some none, setupRetry := false }, some .Retry)
  else (s1, if e1 || s1.procDone then some .End else none)

/-- the state written by the direct-response branch: `releaseRetry` then `clearRetryState` -/
theorem pe_direct_state (c : Cfg) (s1 : S) :
    { rsReset c { s1 with direct := false } with rs := none } =
      { s1 with direct := false, rs := none, retries := (rsReset c s1).retries } := by
  simp [rsReset]

theorem processError_spec (c : Cfg) (s : S) :
    processError c s =
      if s.cleaned then (s, some .End)
      else if s.upReset then
        if c.oneway then (s, some .Oneway) else peTail c (onUpstreamReset c s) true
      else peTail c s false := by
  unfold processError Gen.ProxyError.processError peTail abandonRetry
  simp only [peOps, Bool.not_true, Bool.false_eq_true, if_false, id, pe_direct_state, Gen.ProxyError.detachFresh, if_true]
  by_cases hc : s.cleaned = true
  · simp [hc]
  · simp only [hc, if_false]
    by_cases hu : s.upReset = true
    · simp only [hu, if_true]
      by_cases ho : c.oneway = true
      · simp [ho]
      · simp only [ho, if_false]
        by_cases hd : (onUpstreamReset c s).downReset = true
        · simp [hd]
        · simp only [hd, if_false]
          by_cases hdi : (onUpstreamReset c s).direct = true
          · simp only [hdi, if_true, ho, if_false]
            cases hm1 : (onUpstreamReset c s).up.isSome <;> cases hm2 : (onUpstreamReset c s).setupRetry <;>
              by_cases hp : (onUpstreamReset c s).phase = Phase.UpFilter <;> simp [hp]
          · simp only [hdi, if_false]
            by_cases hpd : (onUpstreamReset c s).procDone = true <;>
              by_cases hr : ((onUpstreamReset c s).up.isSome && (onUpstreamReset c s).setupRetry) = true <;> simp [hpd, hr]
    · simp only [hu, if_false]
      by_cases hd : s.downReset = true
      · simp [hd]
      · simp only [hd, if_false]
        by_cases hdi : s.direct = true
        · simp only [hdi, if_true]
          cases hm1 : s.up.isSome <;> cases hm2 : s.setupRetry <;> by_cases ho : c.oneway = true <;>
            by_cases hp : s.phase = Phase.UpFilter <;> simp [ho, hp]
        · simp only [hdi, if_false]
          by_cases hpd : s.procDone = true <;> by_cases hr : (s.up.isSome && s.setupRetry) = true <;> simp [hpd, hr]

end MosnVerif.Model.Downstream
