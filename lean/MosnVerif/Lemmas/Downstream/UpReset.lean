import MosnVerif.Lemmas.Downstream.TailUpf
/-! the worker handles a pending upstream reset (`processError` → `onUpstreamReset`) -/
namespace MosnVerif.Model.Downstream
open MosnVerif.Gen.ProxyPhase MosnVerif.Gen.ProxyReason MosnVerif.Gen.ProxyRetry

/-- the regenerated retry gate of `onUpstreamReset` (Gen.ProxyReset) on the machine state: a reset is only retried when
it is not the global timeout, NO response has started going downstream, and a retry state exists.  (This lemma — and
with it every theorem below — stops checking when the regenerated condition tests anything weaker.) -/
theorem retryGate_eq (c : Cfg) (s : S) (r : Reason) :
    Gen.ProxyReset.retryGate r (resetFlags c s) = (decide (r ≠ .UpstreamGlobalTimeout) && !s.respStarted && s.rs.isSome) := rfl

/-- the regenerated second condition of `onUpstreamReset`: reset the client iff a response has started, else answer it -/
theorem resetNotReply_eq (c : Cfg) (s : S) : Gen.ProxyReset.resetNotReply (resetFlags c s) = s.respStarted := rfl

/-- what `finishPhase` does with the outcome of `processError` -/
def finishOf (r : S × Option Phase) : S :=
  match r with
  | (s, some p) => reenter s p
  | (s, none) => { s with phase := s.phase.next }

theorem finishPhase_eq (c : Cfg) (s : S) : finishPhase c s = finishOf (processError c s) := by
  unfold finishPhase finishOf
  split <;> simp_all

/-- `Base` only looks at the trace, the ledger fields and a few flags -/
theorem base_transfer (c : Cfg) (ar aq : Nat) (s s' : S) (b : Base c ar aq s) (hcl : s'.cleaned = false)
    (h21 : K21 c s')
    (ht : s'.trace = s.trace) (hrs : s'.respStarted = s.respStarted) (hst : s'.streams = s.streams)
    (hrq : s'.requests = s.requests) (hua : s'.upActive = s.upActive) (hup : s'.up = s.up)
    (hda : s'.downActive = s.downActive) (hc0 : s.cleaned = false) (h9 : K9 c ar s') (h31 : K31 s') : Base c ar aq s' := by
  obtain ⟨k1, k2, k4, k9, k10, k11, k12, k13, k14, k20, k21, k22, k31⟩ := b
  refine ⟨?_, ?_, ?_, h9, ?_, ?_, ?_, ?_, ?_, ?_, h21, ?_, h31⟩
  · simpa [K1, ht] using k1
  · simpa [K2, ht, hrs] using k2
  · simpa [K4, ht, hcl, hc0] using k4
  · simpa [K10, heldRequests, hrq, hst] using k10
  · simpa [K11, hua, hst] using k11
  · simpa [K12, hda, hcl, hc0] using k12
  · intro hh; simp [hcl] at hh
  · simpa [K14, streamsOk, hst, hup] using k14
  · simpa [K20, hst] using k20
  · simpa [K22, hst] using k22

/-- no retry: clean up the timers and answer with the error reply of the reset reason -/
theorem finish_branch (c : Cfg) (ar aq : Nat) (s : S) (r : Reason) (b : Base c ar aq s) (hrun : s.running = true)
    (hcl : s.cleaned = false) (how : c.oneway = false) (h3 : K3 s) (h6 : K6 s) (hpd : s.procDone = false)
    (hsr : s.setupRetry = false) (hp1 : s.pass ≤ 1) (hpass : s.phase ≠ .UpFilter → s.pass = 0) (hlc : liveCount s.streams = 0)
    (hrst : s.respStarted = false) (hupf : s.phase = .UpFilter → s.urr = true) :   -- [proxy7] also at phase UpFilter
    Inv c ar aq (finishOf (peTail c (onUpstreamResetFinish c s r) true)) := by
  unfold onUpstreamResetFinish
  simp only [resetNotReply_eq, cleanUp_respStarted, hrst, Bool.false_eq_true, if_false]
  have hcu := cleanUp_facts c s
  -- the state carrying the pending error reply
  generalize hh : sendHijack { orFlag (cleanUp c s) (reasonToFlag r) with upReset := false } (reasonToCode r) false = h
  have hb : Base c ar aq h := by
    subst hh
    apply base_transfer c ar aq s _ b (by simp [sendHijack, orFlag, hcl]) (fun ho => by simp [how] at ho) <;> try (simp [sendHijack, orFlag])
    · exact hcl
    · have := hcu.2.2.1
      have h9 := b.k9
      simp only [K9] at h9 ⊢
      show (cleanUp c s).retries = (ar : Int) + heldRetry c (cleanUp c s)
      omega
    · intro hq; rw [hcu.1] at hq; exact b.k31 hq
  have e_cl : h.cleaned = false := by subst hh; simp [sendHijack, orFlag, hcl]
  have e_run : h.running = true := by subst hh; simp [sendHijack, orFlag, hrun]
  have e_dr : h.downReset = s.downReset := by subst hh; simp [sendHijack, orFlag]
  have e_dir : h.direct = true := by subst hh; simp [sendHijack]
  have e_ph : h.phase = s.phase := by subst hh; simp [sendHijack, orFlag]
  have e_sr : h.setupRetry = false := by subst hh; simp [sendHijack, orFlag, hsr]
  have e_ab : abandonRetry { h with direct := false, rs := none, retries := (rsReset c h).retries } =
      { h with direct := false, rs := none, retries := (rsReset c h).retries } := abandonRetry_id e_sr
  by_cases hd : h.downReset = true
  · have : peTail c h true = (dsResetStream c h, some .End) := by
      unfold peTail; rw [if_pos hd]
    rw [this]
    exact tail_down c ar aq h hb e_cl hd (fun _ => by
      subst hh; simp [sendHijack, orFlag, hlc])
  · have e_held : rsHeld h = false := by subst hh; simpa [rsHeld, sendHijack, orFlag] using hcu.2.1
    by_cases hphase : s.phase = .UpFilter
    · -- [proxy7] already in the response pass: no re-entry, the pass goes on with the reply
      have : peTail c h true = ({ h with direct := false, rs := none }, none) := by
        unfold peTail
        rw [if_neg hd, if_pos e_dir]
        simp only []
        rw [e_ab, if_neg (by simp [how]), if_neg (by rw [e_ph]; simp [hphase]), rsReset_retries_of_not_held c h e_held]
      rw [this]
      have e_next : finishOf (({ h with direct := false, rs := none } : S), (none : Option Phase)) =
          { h with direct := false, rs := none, phase := .UpRecvHeader } := by
        simp [finishOf, e_ph, hphase, Phase.next]
      rw [e_next]
      apply tail_direct_upf c ar aq h hb e_run e_cl how
      · subst hh; simpa [K3, sendHijack, orFlag] using h3
      · subst hh; simpa [K6, sendHijack, orFlag] using h6
      · subst hh; simp [sendHijack, orFlag, hpd]
      · subst hh; simp [sendHijack, orFlag, hsr]
      · subst hh; simpa [sendHijack, orFlag] using hp1
      · exact e_held
      · subst hh; simp [sendHijack, orFlag, hlc]
      · subst hh; simp [sendHijack]
      · subst hh; simp [sendHijack]
      · subst hh; simpa [sendHijack, orFlag] using hcu.2.2.2.1
      · subst hh; simpa [sendHijack, orFlag] using hcu.2.2.2.2
      · subst hh; simp [sendHijack, orFlag, hrst]
      · subst hh; simpa [sendHijack, orFlag, cleanUp, rsReset] using hupf hphase
    have hpass := hpass hphase
    have : peTail c h true = ({ h with direct := false, rs := none }, some .UpFilter) := by
      unfold peTail
      rw [if_neg hd, if_pos e_dir]
      simp only []
      rw [e_ab, if_neg (by simp [how]), if_pos (by rw [e_ph]; exact hphase), rsReset_retries_of_not_held c h e_held]
    rw [this]
    show Inv c ar aq (reenter { h with direct := false, rs := none } .UpFilter)
    apply tail_direct c ar aq h hb e_run e_cl how
    · subst hh; simpa [K3, sendHijack, orFlag] using h3
    · subst hh; simpa [K6, sendHijack, orFlag] using h6
    · subst hh; simp [sendHijack, orFlag, hpd]
    · subst hh; simp [sendHijack, orFlag, hsr]
    · subst hh; simp [sendHijack, orFlag, hpass]
    · subst hh; simpa [rsHeld, sendHijack, orFlag] using hcu.2.1
    · subst hh; simp [sendHijack, orFlag, hlc]
    · subst hh; simp [sendHijack]
    · subst hh; simp [sendHijack]
    · subst hh; simpa [sendHijack, orFlag] using hcu.2.2.2.1
    · subst hh; simpa [sendHijack, orFlag] using hcu.2.2.2.2
    · subst hh; simp [sendHijack, orFlag, hrst]

/-- `Base` after the retry decision -/
theorem base_rsRetry (c : Cfg) (ar aq : Nat) (s : S) (reason : Option Reason) (b : Base c ar aq s) (hcl : s.cleaned = false) :
    Base c ar aq (rsRetry c s reason).1 := by
  apply base_transfer c ar aq s _ b (by simp [hcl]) (by simpa [K21] using b.k21) <;> try simp
  · exact hcl
  · have := (rsRetry_facts c s reason).2.2.2
    have h9 := b.k9
    simp only [K9] at h9 ⊢
    omega
  · intro hh
    rw [(rsRetry_facts c s reason).2.1] at hh
    exact b.k31 hh

theorem base_orFlag (c : Cfg) (ar aq : Nat) (s : S) (f : Nat) (b : Base c ar aq s) : Base c ar aq (orFlag s f) := by
  obtain ⟨k1, k2, k4, k9, k10, k11, k12, k13, k14, k20, k21, k22, k31⟩ := b
  exact ⟨k1, k2, k4, k9, k10, k11, k12, k13, k14, k20, k21, k22, k31⟩

/-- the worker handles a pending upstream reset of a two-way request that is being forwarded -/
theorem upreset_branch (c : Cfg) (ar aq : Nat) (s : S) (b : Base c ar aq s) (hrun : s.running = true)
    (hcl : s.cleaned = false) (how : c.oneway = false) (h3 : K3 s) (h6 : K6 s) (hpd : s.procDone = false)
    (hsr : s.setupRetry = false) (hp1 : s.pass ≤ 1) (hpass0 : s.phase ≠ .UpFilter → s.pass = 0)
    (h25 : s.rs.isSome = true → s.pass = 0)
    (hlc : liveCount s.streams = 0) (hrst : s.respStarted = false) (hupf : s.phase = .UpFilter → s.urr = true)
    (h24 : s.rs.isSome = true → s.reqSent = true → s.global = true ∨ s.globalExpired = true)
    (hdirexp : s.direct = true → s.globalExpired = true) :
    Inv c ar aq (finishOf (peTail c (onUpstreamReset c s) true)) := by
  unfold onUpstreamReset
  by_cases hrs : s.rs.isSome = true
  rotate_left
  · -- [proxy7] no retry state (possible at phase UpFilter only as far as the invariant knows): nothing to retry
    simp only [retryGate_eq, hrst, hrs, Bool.and_false, Bool.false_eq_true, if_false]
    exact finish_branch c ar aq s _ b hrun hcl how h3 h6 hpd hsr hp1 hpass0 hlc hrst hupf
  have hpass : s.pass = 0 := h25 hrs
  have hup : s.up.isSome = true := b.k31 hrs
  have h24 := h24 hrs
  simp only [retryGate_eq, hrst, hrs, Bool.not_false, Bool.and_true]
  split
  rotate_left
  · exact finish_branch c ar aq s _ b hrun hcl how h3 h6 hpd hsr hp1 hpass0 hlc hrst hupf
  · -- a retry is considered
    have hf := rsRetry_facts c s (some s.resetReason)
    have hb1 := base_rsRetry c ar aq s (some s.resetReason) b hcl
    generalize hs1 : rsRetry c s (some s.resetReason) = res at hf hb1
    obtain ⟨s1, chk⟩ := res
    simp only at hf hb1 ⊢
    have e_cl : s1.cleaned = false := by have := congrArg (fun x => x.1.cleaned) hs1; simpa [hcl] using this.symm
    have e_run : s1.running = true := by have := congrArg (fun x => x.1.running) hs1; simpa [hrun] using this.symm
    have e_tr : s1.trace = s.trace := by have := congrArg (fun x => x.1.trace) hs1; simpa using this.symm
    have e_dl : s1.downLive = s.downLive := by have := congrArg (fun x => x.1.downLive) hs1; simpa using this.symm
    have e_dr : s1.downReset = s.downReset := by have := congrArg (fun x => x.1.downReset) hs1; simpa using this.symm
    have e_pd : s1.procDone = false := by have := congrArg (fun x => x.1.procDone) hs1; simpa [hpd] using this.symm
    have e_sr : s1.setupRetry = false := by have := congrArg (fun x => x.1.setupRetry) hs1; simpa [hsr] using this.symm
    have e_ps : s1.pass = 0 := by have := congrArg (fun x => x.1.pass) hs1; simpa [hpass] using this.symm
    have e_up : s1.up.isSome = true := by have := congrArg (fun x => x.1.up) hs1; simp at this; rw [← this]; exact hup
    have e_st : s1.streams = s.streams := by have := congrArg (fun x => x.1.streams) hs1; simpa using this.symm
    have e_rst : s1.respStarted = false := by have := congrArg (fun x => x.1.respStarted) hs1; simpa [hrst] using this.symm
    have e_ph : s1.phase = s.phase := by have := congrArg (fun x => x.1.phase) hs1; simpa using this.symm
    have e_cln : s1.cleaned = s.cleaned := by rw [e_cl, hcl]
    have h3' : K3 s1 := by simpa [K3, e_tr, e_cln] using h3
    have h6' : K6 s1 := by simpa [K6, e_dl, e_dr, e_cln] using h6
    have hlc' : liveCount s1.streams = 0 := by rw [e_st]; exact hlc
    have e_urr : s1.urr = s.urr := by have := congrArg (fun x => x.1.urr) hs1; simpa using this.symm
    have hph' : s1.phase = .UpFilter → s1.urr = true := by rw [e_ph, e_urr]; exact hupf
    have e_p1 : s1.pass ≤ 1 := by rw [e_ps]; omega
    have e_p0 : s1.phase ≠ .UpFilter → s1.pass = 0 := fun _ => e_ps
    by_cases hchk : (chk == ShouldRetry) = true
    · simp only [hchk, if_true]
      rw [setupRetry_eq]
      by_cases hexp : (setupRetryChecksExpiry && s1.globalExpired) = true
      · simp only [hexp, if_true]
        exact finish_branch c ar aq s1 _ hb1 e_run e_cl how h3' h6' e_pd e_sr e_p1 e_p0 hlc' e_rst hph'
      · simp only [hexp, Bool.false_eq_true, if_false, Bool.not_true]
        have hck : setupRetryChecksExpiry = true := by decide
        have hge : s1.globalExpired = false := by
          cases hg : s1.globalExpired with
          | false => rfl
          | true => simp [hck, hg] at hexp
        have e_ge : s1.globalExpired = s.globalExpired := by have := congrArg (fun x => x.1.globalExpired) hs1; simpa using this.symm
        have e_dir : s1.direct = s.direct := by have := congrArg (fun x => x.1.direct) hs1; simpa using this.symm
        have hdir : s1.direct = false := by
          cases hd : s1.direct with
          | false => rfl
          | true => rw [e_dir] at hd; have := hdirexp hd; rw [← e_ge, hge] at this; cases this
        have e_rq : s1.reqSent = s.reqSent := by have := congrArg (fun x => x.1.reqSent) hs1; simpa using this.symm
        have e_gl : s1.global = s.global := by have := congrArg (fun x => x.1.global) hs1; simpa using this.symm
        -- the state with the retry set up
        generalize hr : ({ ({ ({ s1 with setupRetry := true } : S) with perTry := false, urr := false } : S) with upReset := false } : S) = r
        have hbr : Base c ar aq r := by
          subst hr
          obtain ⟨k1, k2, k4, k9, k10, k11, k12, k13, k14, k20, k21, k22, k31⟩ := hb1
          refine ⟨k1, k2, k4, k9, k10, k11, k12, ?_, k14, k20, ?_, k22, k31⟩
          · intro hh; simp [e_cl] at hh
          · intro hh; simp [how] at hh
        have r_cl : r.cleaned = false := by subst hr; exact e_cl
        by_cases hd : r.downReset = true
        · have : peTail c r true = (dsResetStream c r, some .End) := by unfold peTail; rw [if_pos hd]
          rw [this]
          exact tail_down c ar aq r hbr r_cl hd (fun hf => by subst hr; simp [e_up, e_pd, how] at hf)
        · have r_dir : r.direct = false := by subst hr; exact hdir
          have r_su : (r.up.isSome && r.setupRetry) = true := by subst hr; simp [e_up]
          have : peTail c r true = ({ r with up := some none, setupRetry := false }, some .Retry) := by
            unfold peTail
            rw [if_neg hd, if_neg (by simp [r_dir]), if_pos r_su]
          rw [this]
          show Inv c ar aq (reenter { r with up := some none, setupRetry := false } .Retry)
          apply tail_retry c ar aq r hbr (by subst hr; exact e_run) r_cl how
          · subst hr; simpa [K3] using h3'
          · subst hr; simpa [K6] using h6'
          · subst hr; exact e_pd
          · exact r_dir
          · simpa using hd
          · subst hr; exact e_ps
          · subst hr; exact e_up
          · subst hr; rw [hf.2.1]; exact hrs
          · subst hr; rfl
          · subst hr; rfl
          · subst hr; exact hge
          · subst hr
            intro hq
            have := h24 (by rw [← e_rq]; exact hq)
            rcases this with h | h
            · show s1.global = true
              rw [e_gl]; exact h
            · rw [← e_ge, hge] at h; cases h
          · subst hr; exact hlc'
          · subst hr; exact e_rst
          · subst hr; rfl
    · simp only [hchk, Bool.false_eq_true, if_false]
      split
      · exact finish_branch c ar aq _ _ (base_orFlag c ar aq s1 _ hb1) e_run e_cl how h3' h6' e_pd e_sr e_p1 e_p0 hlc' e_rst hph'
      · exact finish_branch c ar aq s1 _ hb1 e_run e_cl how h3' h6' e_pd e_sr e_p1 e_p0 hlc' e_rst hph'

end MosnVerif.Model.Downstream
