import MosnVerif.Lemmas.Downstream.Worker2
/-! the worker label `work`: sending data/trailers, the one-way phase, waiting -/
namespace MosnVerif.Model.Downstream
open MosnVerif.Gen.ProxyPhase MosnVerif.Gen.ProxyReason MosnVerif.Gen.ProxyRetry

/-- a forwarding step that only sends (trace grows by upstream-side events), may complete the request
(`reqSent`, timers) and moves to the next forwarding phase -/
theorem inv_fwd_step (c : Cfg) (ar aq : Nat) (s : S) (h : Inv c ar aq s) (hrun : s.running = true)
    (q : Phase) (t : List Ev) (rq pt gt rd : Bool) (gg : Nat) (go : Bool)
    (hp : s.phase = .DownRecvData ∨ s.phase = .DownRecvTrailer ∨ s.phase = .Oneway)
    (hq : (s.phase ≠ .Oneway ∧ q = s.phase.next) ∨ (s.phase = .Oneway ∧ q = .WaitNotify))
    (hone : s.phase = .Oneway → c.oneway = false)
    (ht1 : snd t = snd s.trace) (ht2 : nLog t = nLog s.trace)
    (hrq1 : s.reqSent = true → rq = true) (hpt : c.oneway = true → pt = false) (hgt1 : s.global = true → gt = true)
    (hgt2 : c.oneway = true → gt = false)
    (hgl : c.oneway = false → rq = true → gt = true ∨ s.globalExpired = true)
    (h29 : c.oneway = false → s.pass = 0 →
      (q = .DownRecvTrailer → rq = true ∨ c.hasTrailers = true) ∧ (q = .Oneway → rq = true) ∧ (q = .WaitNotify → rq = true)) :
    Inv c ar aq { s with phase := q, trace := t, reqSent := rq, perTry := pt, global := gt, recvDone := rd, gtGen := gg, gtObj := go } := by
  have hcl := inv_not_cleaned h hrun
  have hfwd : fwdPhase s.phase = true := by rcases hp with hp | hp | hp <;> simp [hp, fwdPhase]
  have hqf : fwdPhase q = true ∧ upPhase q = false ∧ prePhase q = false ∧ q ≠ .End ∧ q ≠ .Retry ∧
      q ≠ .DownFilterAfterChooseHost ∧ q ≠ .DownRecvHeader ∧ q ≠ .DownRecvData := by
    rcases hq with ⟨hq0, hq⟩ | ⟨hq1, hq⟩ <;> rcases hp with hp | hp | hp <;> simp_all [Phase.next, fwdPhase, upPhase, prePhase]
  obtain ⟨hq1, hq2, hq3, hq4, hq5, hq6, hq7, hq8⟩ := hqf
  have h18 := h.k18 hcl hfwd
  have hnr : s.phase ≠ .Retry := by rcases hp with hp | hp | hp <;> (rw [hp]; decide)
  have hmain : s.up.isSome = true ∧ s.rs.isSome = true ∧ (s.globalExpired = true → s.urr = true) ∧
      ((s.urr = true ∨ s.upReset = true ∨ s.downReset = true) → s.notify = true) := by
    rcases h18 with ⟨ho, hh, _⟩ | hm
    · have := hone hh; rw [ho] at this; cases this
    · refine ⟨hm.1, hm.2.1, fun hh => ?_, fun hh => ?_⟩
      · rcases hm.2.2.2.1 hh with h1 | h1
        · exact h1
        · exact absurd h1 hnr
      · rcases hm.2.2.1 hh with h1 | h1
        · exact h1
        · exact absurd h1.1 hnr
  have hps : c.oneway = false → s.pass = 0 := fun ho => h.k25 hcl ho hmain.2.1
  obtain ⟨k0, k1, k2, k3, k4, k5, k6, k7, k8, k9, k10, k11, k12, k13, k14, k15, k16, k17, k18, k19, k20, k21, k22, k23, k24, k25, k26, k27, k28, k29, k30, k31, k32, k33⟩ := h
  have hnw : ¬ (s.phase = .WaitNotify ∨ s.phase = .Retry) := by rcases hp with hp | hp | hp <;> (rw [hp]; decide)
  refine ⟨k0, ?_, ?_, ?_, ?_, k5, k6, k7_frame k7 hcl hnw rfl rfl, ?_, k9, k10, k11, k12, ?_, k14, ?_, ?_, ?_, ?_, ?_, k20, ?_, k22, ?_, ?_, k25, ?_, ?_, k28, ?_, ?_, k31, ?_, (fun hh => absurd hh (by simp [hcl]))⟩
  · simpa [K1, ht1] using k1
  · simpa [K2, ht1] using k2
  · simpa [K3, ht1] using k3
  · show nLog t = _
    rw [ht2]; exact k4
  · intro _
    have := k8 hcl
    refine ⟨this.1, ?_⟩
    rcases this.2 with h0 | h0 | h0
    · exact Or.inl h0
    · rcases hp with hp | hp | hp <;> simp [hp, upPhase] at h0
    · cases how : c.oneway with
      | false => exact Or.inl (hps how)
      | true => have := hone h0; rw [how] at this; cases this
  · intro hh; simp [hcl] at hh
  · intro _ hh; simp [hq2] at hh
  · intro _ _; exact k16 hcl (by rcases hp with hp | hp | hp <;> simp [hp, upPhase])
  · intro _ hh; simp [hq3] at hh
  · intro _ _
    right
    refine ⟨hmain.1, hmain.2.1, fun hh => Or.inl (hmain.2.2.2 hh), fun hh => Or.inl (hmain.2.2.1 hh), ?_, ?_⟩
    · intro how hq'; exact (hgl how hq').elim Or.inl (fun hh => Or.inr (Or.inl hh))
    · intro hw
      cases how : c.oneway with
      | true => right; rfl
      | false => left; exact (h29 how (hps how)).2.2 hw
  · intro _; exact hq4
  · intro how; exact ⟨hpt how, hgt2 how⟩
  · intro _ hh
    rcases hh with hh | hh
    · exact k23 hcl (Or.inl hh)
    · exact absurd hh hq5
  · intro _ how hq' _; exact (hgl how hq').elim Or.inl (fun hh => Or.inr (Or.inl hh))
  · intro _ hh; exact absurd hh hq5
  · intro _ _ hu
    rcases k27 hcl hfwd hu with h1 | h1 | h1
    · exact Or.inl h1
    · exact Or.inr (Or.inl h1)
    · exact absurd h1.1 hnr
  · intro _ how hp0
    have := h29 how hp0
    exact ⟨fun hh => absurd hh hq8, this.1, this.2.1⟩
  · intro _ hh
    rcases hh with hh | hh
    · exact absurd hh hq6
    · exact absurd hh hq7
  · intro _ how
    refine ⟨hq2, ?_, hq5⟩
    intro hw
    rcases hq with ⟨_, hq⟩ | ⟨hq0, _⟩
    · rcases hp with hp | hp | hp <;> simp [hq, hp, Phase.next] at hw
    · have := hone hq0; rw [how] at this; cases this

theorem snd_dataTrace (s : S) (e : Nat → Ev) (he : ∀ k g, sndStep g (e k) = g) : snd (dataTrace s e) = snd s.trace := by
  unfold dataTrace
  split
  · simp [snd_append, he]
  · rfl

theorem nLog_dataTrace (s : S) (e : Nat → Ev) (he : ∀ k, isLog (e k) = false) : nLog (dataTrace s e) = nLog s.trace := by
  unfold dataTrace
  split
  · simp [nLog_append, he]
  · rfl

/-- what a forwarding phase body that sent something leaves behind -/
def sent (s : S) (t : List Ev) (rq pt gt rd : Bool) (gg : Nat) (go : Bool) : S :=
  { s with trace := t, reqSent := rq, perTry := pt, global := gt, recvDone := rd, gtGen := gg, gtObj := go }

/-- end of a sending phase body (`receiveData`, `receiveTrailers`): `processError`, then the next forwarding phase -/
theorem finish_sent (c : Cfg) (ar aq : Nat) (s : S) (h : Inv c ar aq s) (hrun : s.running = true)
    (hpdn : processDone s = false) (t : List Ev) (rq pt gt rd : Bool) (gg : Nat) (go : Bool)
    (hp : s.phase = .DownRecvData ∨ s.phase = .DownRecvTrailer)
    (ht1 : snd t = snd s.trace) (ht2 : nLog t = nLog s.trace)
    (hrq1 : s.reqSent = true → rq = true) (hpt : c.oneway = true → pt = false) (hgt1 : s.global = true → gt = true)
    (hgt2 : c.oneway = true → gt = false)
    (hgl : c.oneway = false → rq = true → gt = true ∨ s.globalExpired = true)
    (h29 : c.oneway = false → s.pass = 0 →
      (s.phase.next = .DownRecvTrailer → rq = true ∨ c.hasTrailers = true) ∧ (s.phase.next = .Oneway → rq = true)) :
    Inv c ar aq (finishPhase c (sent s t rq pt gt rd gg go)) := by
  have hcl := inv_not_cleaned h hrun
  simp only [processDone, Bool.or_eq_false_iff] at hpdn
  obtain ⟨⟨hpd, hdr⟩, hur⟩ := hpdn
  have hsr := (h.k7 hcl).1
  have hdir : s.direct = false := not_direct_of_phase h.k7 hcl (by rcases hp with hp | hp <;> (rw [hp]; decide))
  have hb1 : Base c ar aq (sent s t rq pt gt rd gg go) := by
    obtain ⟨k1, k2, k4, k9, k10, k11, k12, k13, k14, k20, k21, k22, k31⟩ := h.base
    refine ⟨?_, ?_, ?_, k9, k10, k11, k12, ?_, k14, k20, ?_, k22, k31⟩
    · simpa [K1, sent, ht1] using k1
    · simpa [K2, sent, ht1] using k2
    · show nLog t = _
      rw [ht2]; exact k4
    · intro hh; simp [sent, hcl] at hh
    · intro ho; exact ⟨hpt ho, hgt2 ho⟩
  apply finish_plain c ar aq _ hb1 hrun hcl
  · simpa [K3, sent, ht1] using h.k3
  · exact h.k6
  · exact hpd
  · exact hsr
  · exact hdir
  · intro hh; simp [sent, hur] at hh
  · intro hh; simp [sent, hur] at hh
  · intro hh; simp [sent, hur] at hh
  · intro _ _
    have := inv_fwd_step c ar aq s h hrun s.phase.next t rq pt gt rd gg go (by rcases hp with hp | hp <;> simp [hp])
      (Or.inl ⟨by rcases hp with hp | hp <;> simp [hp], rfl⟩) (by intro hh; rcases hp with hp | hp <;> (rw [hp] at hh; cases hh))
      ht1 ht2 hrq1 hpt hgt1 hgt2 hgl
      (by
        intro how hp0
        have := h29 how hp0
        refine ⟨this.1, this.2, ?_⟩
        intro hh; rcases hp with hp | hp <;> simp [hp, Phase.next] at hh)
    exact this

/-- phase `DownRecvData` -/
theorem inv_work_drd (c : Cfg) (ar aq : Nat) (s : S) (h : Inv c ar aq s) (hrun : s.running = true)
    (hp : s.phase = .DownRecvData) :
    Inv c ar aq (if c.hasData then finishPhase c (receiveData c s (!c.hasTrailers)) else { s with phase := s.phase.next }) := by
  have hcl := inv_not_cleaned h hrun
  have hpd : s.procDone = false := by
    cases hh : s.procDone with
    | false => rfl
    | true => have := h.k5 hh; rw [hcl] at this; cases this
  have hfwd : fwdPhase s.phase = true := by simp [hp, fwdPhase]
  have hup : s.up.isSome = true := by
    rcases h.k18 hcl hfwd with ⟨_, hh, _⟩ | hm
    · rw [hp] at hh; cases hh
    · exact hm.1
  have h29 := h.k29 hcl
  have h24 : c.oneway = false → s.reqSent = true → s.rs.isSome = true → s.global = true ∨ s.globalExpired = true :=
    fun a b d => or3_nd (h.k24 hcl a b d) (not_direct_of_phase h.k7 hcl (by rw [hp]; decide))
  have h21 := h.k21
  have hrsome : s.rs.isSome = true := by
    rcases h.k18 hcl hfwd with ⟨_, hh, _⟩ | hm
    · rw [hp] at hh; cases hh
    · exact hm.2.1
  by_cases hd : c.hasData = true
  · simp only [hd, if_true]
    by_cases hpdn : processDone s = true
    · -- a reset arrived meanwhile: nothing is sent, `processError` deals with it
      have e : receiveData c s (!c.hasTrailers) = s := by simp [receiveData, hpdn]
      rw [e]
      apply finish_inv c ar aq s h hrun (by rw [hp]; decide) (by intro hh; rw [hp] at hh; cases hh)
      intro h1 h2
      simp [processDone, hpd, h1, h2] at hpdn
    · simp only [Bool.not_eq_true] at hpdn
      cases ht : c.hasTrailers with
      | true =>
        have e : receiveData c s (!true) = sent s (dataTrace s (fun k => Ev.ud k false)) s.reqSent s.perTry s.global false s.gtGen s.gtObj := by
          unfold receiveData
          rw [if_neg (by simp [hpdn])]
          simp only [Bool.not_true, Bool.false_eq_true, if_false]
          rw [if_neg (by show ¬ s.procDone = true; simp [hpd])]
          rfl
        rw [e]
        apply finish_sent c ar aq s h hrun hpdn _ _ _ _ _ _ _ (Or.inl hp)
        · exact snd_dataTrace s _ (fun _ _ => rfl)
        · exact nLog_dataTrace s _ (fun _ => rfl)
        · exact fun hh => hh
        · intro ho; exact (h21 ho).1
        · exact fun hh => hh
        · intro ho; exact (h21 ho).2
        · intro how hq; exact h24 how hq hrsome
        · intro how hp0
          have := (h29 how hp0).1 hp
          refine ⟨fun _ => ?_, fun hh => by simp [hp, Phase.next] at hh⟩
          right; exact ht
      | false =>
        have e : receiveData c s (!false) = sent s (dataTrace s (fun k => Ev.ud k true))
            true (s.perTry || (s.up.isSome && !c.oneway && c.tryTimeout)) (s.global || (s.up.isSome && !c.oneway)) true
            (if (s.up.isSome && !c.oneway) = true then s.gtGen + 1 else s.gtGen) (s.gtObj || (s.up.isSome && !c.oneway)) := by
          unfold receiveData
          rw [if_neg (by simp [hpdn])]
          simp only [Bool.not_false, if_true]
          rw [if_neg (by show ¬ s.procDone = true; simp [hpd])]
          rfl
        rw [e]
        apply finish_sent c ar aq s h hrun hpdn _ _ _ _ _ _ _ (Or.inl hp)
        · exact snd_dataTrace s _ (fun _ _ => rfl)
        · exact nLog_dataTrace s _ (fun _ => rfl)
        · exact fun _ => rfl
        · intro ho; simp [ho, (h21 ho).1]
        · intro hh; simp [hh]
        · intro ho; simp [ho, (h21 ho).2]
        · intro how _; left; simp [how, hup]
        · intro _ _
          exact ⟨fun _ => Or.inl rfl, fun _ => rfl⟩
  · simp only [hd, Bool.false_eq_true, if_false]
    simp only [Bool.not_eq_true] at hd
    have := inv_fwd_step c ar aq s h hrun s.phase.next s.trace s.reqSent s.perTry s.global s.recvDone s.gtGen s.gtObj (Or.inl hp)
      (Or.inl ⟨by simp [hp], rfl⟩) (by intro hh; rw [hp] at hh; cases hh) rfl rfl (fun hh => hh) (fun ho => (h21 ho).1)
      (fun hh => hh) (fun ho => (h21 ho).2) (fun how hq => h24 how hq hrsome)
      (by
        intro how hp0
        have := (h29 how hp0).1 hp
        simp only [hd, Bool.false_eq_true, false_or] at this
        refine ⟨fun _ => this, ?_, ?_⟩ <;> (intro hh; simp [hp, Phase.next] at hh))
    exact this

/-- phase `DownRecvTrailer` -/
theorem inv_work_drt (c : Cfg) (ar aq : Nat) (s : S) (h : Inv c ar aq s) (hrun : s.running = true)
    (hp : s.phase = .DownRecvTrailer) :
    Inv c ar aq (if c.hasTrailers then finishPhase c (receiveTrailers c s) else { s with phase := s.phase.next }) := by
  have hcl := inv_not_cleaned h hrun
  have hpd : s.procDone = false := by
    cases hh : s.procDone with
    | false => rfl
    | true => have := h.k5 hh; rw [hcl] at this; cases this
  have hfwd : fwdPhase s.phase = true := by simp [hp, fwdPhase]
  have hmain : s.up.isSome = true ∧ s.rs.isSome = true := by
    rcases h.k18 hcl hfwd with ⟨_, hh, _⟩ | hm
    · rw [hp] at hh; cases hh
    · exact ⟨hm.1, hm.2.1⟩
  obtain ⟨hup, hrsome⟩ := hmain
  have h29 := h.k29 hcl
  have h24 : c.oneway = false → s.reqSent = true → s.rs.isSome = true → s.global = true ∨ s.globalExpired = true :=
    fun a b d => or3_nd (h.k24 hcl a b d) (not_direct_of_phase h.k7 hcl (by rw [hp]; decide))
  have h21 := h.k21
  by_cases hd : c.hasTrailers = true
  · simp only [hd, if_true]
    by_cases hpdn : processDone s = true
    · have e : receiveTrailers c s = s := by simp [receiveTrailers, hpdn]
      rw [e]
      apply finish_inv c ar aq s h hrun (by rw [hp]; decide) (by intro hh; rw [hp] at hh; cases hh)
      intro h1 h2
      simp [processDone, hpd, h1, h2] at hpdn
    · simp only [Bool.not_eq_true] at hpdn
      have e : receiveTrailers c s = sent s (dataTrace s Ev.ut)
          true (s.perTry || (s.up.isSome && !c.oneway && c.tryTimeout)) (s.global || (s.up.isSome && !c.oneway)) true
            (if (s.up.isSome && !c.oneway) = true then s.gtGen + 1 else s.gtGen) (s.gtObj || (s.up.isSome && !c.oneway)) := by
        unfold receiveTrailers
        rw [if_neg (by simp [hpdn])]
        simp only []
        rw [if_neg (by show ¬ s.procDone = true; simp [hpd])]
        rfl
      rw [e]
      apply finish_sent c ar aq s h hrun hpdn _ _ _ _ _ _ _ (Or.inr hp)
      · exact snd_dataTrace s _ (fun _ _ => rfl)
      · exact nLog_dataTrace s _ (fun _ => rfl)
      · exact fun _ => rfl
      · intro ho; simp [ho, (h21 ho).1]
      · intro hh; simp [hh]
      · intro ho; simp [ho, (h21 ho).2]
      · intro how _; left; simp [how, hup]
      · intro _ _
        exact ⟨fun _ => Or.inl rfl, fun _ => rfl⟩
  · simp only [hd, Bool.false_eq_true, if_false]
    simp only [Bool.not_eq_true] at hd
    have := inv_fwd_step c ar aq s h hrun s.phase.next s.trace s.reqSent s.perTry s.global s.recvDone s.gtGen s.gtObj (Or.inr (Or.inl hp))
      (Or.inl ⟨by simp [hp], rfl⟩) (by intro hh; rw [hp] at hh; cases hh) rfl rfl (fun hh => hh) (fun ho => (h21 ho).1)
      (fun hh => hh) (fun ho => (h21 ho).2) (fun how hq => h24 how hq hrsome)
      (by
        intro how hp0
        have := (h29 how hp0).2.1 hp
        simp only [hd, Bool.false_eq_true, or_false] at this
        refine ⟨fun _ => Or.inl this, fun _ => this, ?_⟩
        intro hh; simp [hp, Phase.next] at hh)
    exact this

/-- phase `Oneway` -/
theorem inv_work_oneway (c : Cfg) (ar aq : Nat) (s : S) (h : Inv c ar aq s) (hrun : s.running = true)
    (hp : s.phase = .Oneway) :
    Inv c ar aq (if c.oneway then
        match processError c (cleanStream c s) with
        | (s, some p) => reenter s p
        | (s, none) => { s with phase := onewayNext }
      else { s with phase := onewayNext }) := by
  have hcl := inv_not_cleaned h hrun
  have hnext : onewayNext = Phase.WaitNotify := by decide
  by_cases how : c.oneway = true
  · simp only [how, if_true]
    have hcb := cleanBody_base c ar aq s h.base hcl (fun _ => h.k20 how)
    have e : cleanStream c s = cleanBody c s := by simp [cleanStream, hcl]
    rw [e, processError_spec]
    simp only [hcb.2, if_true]
    rw [reenter_end]
    exact tail_clean c ar aq _ hcb.1 hcb.2 (fun _ => Or.inr (Or.inr how)) .End (cleanBody c s).pass (cleanBody c s).notify
  · simp only [how, Bool.false_eq_true, if_false]
    simp only [Bool.not_eq_true] at how
    have hfwd : fwdPhase s.phase = true := by simp [hp, fwdPhase]
    have hrsome : s.rs.isSome = true := by
      rcases h.k18 hcl hfwd with ⟨ho, _, _⟩ | hm
      · rw [how] at ho; cases ho
      · exact hm.2.1
    have h29 := h.k29 hcl
    have h24 : c.oneway = false → s.reqSent = true → s.rs.isSome = true → s.global = true ∨ s.globalExpired = true :=
    fun a b d => or3_nd (h.k24 hcl a b d) (not_direct_of_phase h.k7 hcl (by rw [hp]; decide))
    have h21 := h.k21
    rw [hnext]
    have := inv_fwd_step c ar aq s h hrun .WaitNotify s.trace s.reqSent s.perTry s.global s.recvDone s.gtGen s.gtObj (Or.inr (Or.inr hp))
      (Or.inr ⟨hp, rfl⟩) (fun _ => how) rfl rfl (fun hh => hh) (fun ho => (h21 ho).1)
      (fun hh => hh) (fun ho => (h21 ho).2) (fun how hq => h24 how hq hrsome)
      (by
        intro how' hp0
        have := (h29 how' hp0).2.2 hp
        exact ⟨fun hh => Phase.noConfusion hh, fun hh => Phase.noConfusion hh, fun _ => this⟩)
    exact this

/-- phase `WaitNotify` -/
theorem inv_work_wait (c : Cfg) (ar aq : Nat) (s : S) (h : Inv c ar aq s) (hrun : s.running = true)
    (hp : s.phase = .WaitNotify) :
    Inv c ar aq (if s.notify then finishPhase c { s with notify := false } else s) := by
  have hcl := inv_not_cleaned h hrun
  by_cases hn : s.notify = true
  rotate_left
  · simp only [hn, Bool.false_eq_true, if_false]; exact h
  simp only [hn, if_true]
  have hpd : s.procDone = false := by
    cases hh : s.procDone with
    | false => rfl
    | true => have := h.k5 hh; rw [hcl] at this; cases this
  have hsr := (h.k7 hcl).1
  have hfwd : fwdPhase s.phase = true := by simp [hp, fwdPhase]
  have hupf : upPhase s.phase = false := by simp [hp, upPhase]
  have h18 := h.k18 hcl hfwd
  have hmain : s.up.isSome = true ∧ s.rs.isSome = true := by
    rcases h18 with ⟨_, hh, _⟩ | hm
    · rw [hp] at hh; cases hh
    · exact ⟨hm.1, hm.2.1⟩
  obtain ⟨hup, hrsome⟩ := hmain
  have hrst := h.k16 hcl hupf
  have hb1 : Base c ar aq { s with notify := false } := by
    obtain ⟨k1, k2, k4, k9, k10, k11, k12, k13, k14, k20, k21, k22, k31⟩ := h.base
    exact ⟨k1, k2, k4, k9, k10, k11, k12, k13, k14, k20, k21, k22, k31⟩
  by_cases hdt : s.direct = true
  · -- woken by an asynchronous TerminateStream: the local reply is pending
    obtain ⟨_, _, _, tur, tresp, tlc, tpt, tgt⟩ := (h.k7 hcl).2 hdt
    have how : c.oneway = false := by
      cases ho : c.oneway with
      | false => rfl
      | true => exact absurd hp (h.k32 hcl ho).2.1
    exact finish_direct_gen c ar aq _ hb1 hrun hcl how h.k3 h.k6 hpd hsr hdt tur (h.k25 hcl how hrsome) tlc tresp tpt tgt hrst
      (by show s.phase ≠ .UpFilter; rw [hp]; decide)
  have hdir : s.direct = false := by simpa using hdt
  apply finish_plain c ar aq _ hb1 hrun hcl h.k3 h.k6 hpd hsr hdir
  · intro _
    refine ⟨?_, hrst⟩
    cases how : c.oneway with
    | false => exact h.k25 hcl how hrsome
    | true =>
      rcases (h.k8 hcl).2 with h0 | h0 | h0
      · exact h0
      · rw [hupf] at h0; cases h0
      · rw [hp] at h0; cases h0
  · intro hur _ _; exact Or.inl hur
  · intro hur how
    refine ⟨hup, hrsome, h.k23 hcl (Or.inl hur), by simp [hp], fun hq => or3_nd (h.k24 hcl how hq hrsome) hdir⟩
  · intro hur hdr
    have hur : s.upReset = false := hur
    have hdr : s.downReset = false := hdr
    have hurr : s.urr = true := by
      have := h.k28 hcl hn
      simpa [hur, hdr] using this
    have h27 : s.resp.isSome = true ∧ (liveCount s.streams = 0 ∨ respHasMore s.resp = true) := by
      rcases h.k27 hcl hfwd hurr with h1 | h1 | h1
      · rw [hur] at h1; cases h1
      · exact h1
      · rw [hp] at h1; exact absurd h1.1 (by decide)
    obtain ⟨k0, k1, k2, k3, k4, k5, k6, k7, k8, k9, k10, k11, k12, k13, k14, k15, k16, k17, k18, k19, k20, k21, k22, k23, k24, k25, k26, k27, k28, k29, k30, k31, k32, k33⟩ := h
    refine ⟨k0, k1, k2, k3, k4, k5, k6, k7_intro hsr hdir, ?_, k9, k10, k11, k12, k13, k14, ?_, ?_, ?_, ?_, ?_, k20, k21, k22, ?_, k24, k25, ?_, ?_, ?_, ?_, ?_, k31, ?_, (fun hh => absurd hh (by simp [hcl]))⟩
    · intro _; exact ⟨(k8 hcl).1, Or.inr (Or.inl (by simp [hp, Phase.next, upPhase]))⟩
    · intro _ _
      refine ⟨?_, h27.1, fun hh => by simp [hur] at hh, Or.inr hurr, ?_, ?_, ?_⟩
      · rcases h27.2 with h0 | h1
        · exact Or.inl h0
        · exact Or.inr ⟨hurr, h1, hrsome⟩
      · simp [hp, Phase.next, hrst]
      · intro hh; simp [hp, Phase.next] at hh
      · intro hh; simp [hp, Phase.next] at hh
    · intro _ hh; simp [hp, Phase.next, upPhase] at hh
    · intro _ hh; simp [hp, Phase.next, prePhase] at hh
    · intro _ hh; simp [hp, Phase.next, fwdPhase] at hh
    · intro _; simp [hp, Phase.next]
    · intro _ hh; simp [hp, Phase.next, hur] at hh
    · intro _ hh; simp [hp, Phase.next] at hh
    · intro _ hh; simp [hp, Phase.next, fwdPhase] at hh
    · intro _ hh; simp at hh
    · intro _ _ _
      refine ⟨?_, ?_, ?_⟩ <;> (intro hh; simp [hp, Phase.next] at hh)
    · intro _ hh; simp [hp, Phase.next] at hh
    · intro _ how
      have := (k32 hcl how).2.1
      exact absurd hp this

end MosnVerif.Model.Downstream
