import MosnVerif.Lemmas.Downstream.Helpers
/-! the invariant is preserved by the labels of other goroutines -/
namespace MosnVerif.Model.Downstream
open MosnVerif.Gen.ProxyPhase MosnVerif.Gen.ProxyReason MosnVerif.Gen.ProxyRetry

theorem inv_poolFail (c : Cfg) (ar aq : Nat) (s : S) (f : PoolFail) (h : Inv c ar aq s) :
    Inv c ar aq { s with failNext := s.failNext ++ [f] } := by
  obtain ⟨k0, k1, k2, k3, k4, k5, k6, k7, k8, k9, k10, k11, k12, k13, k14, k15, k16, k17, k18, k19, k20, k21, k22, k23, k24, k25, k26, k27, k28, k29, k30, k31, k32, k33⟩ := h
  exact ⟨k0, k1, k2, k3, k4, k5, k6, k7, k8, k9, k10, k11, k12, k13, k14, k15, k16, k17, k18, k19, k20, k21, k22, k23, k24, k25, k26, k27, k28, k29, k30, k31, k32, k33⟩

theorem inv_hostsGone (c : Cfg) (ar aq : Nat) (s : S) (h : Inv c ar aq s) :
    Inv c ar aq { s with hostsGone := true } := by
  obtain ⟨k0, k1, k2, k3, k4, k5, k6, k7, k8, k9, k10, k11, k12, k13, k14, k15, k16, k17, k18, k19, k20, k21, k22, k23, k24, k25, k26, k27, k28, k29, k30, k31, k32, k33⟩ := h
  exact ⟨k0, k1, k2, k3, k4, k5, k6, k7, k8, k9, k10, k11, k12, k13, k14, k15, k16, k17, k18, k19, k20, k21, k22, k23, k24, k25, k26, k27, k28, k29, k30, k31, k32, k33⟩

theorem inv_dsOnResetStream (c : Cfg) (ar aq : Nat) (s : S) (r : Reason) (dl : Bool)
    (h : Inv c ar aq s) : Inv c ar aq (dsOnResetStream { s with downLive := dl } r) := by
  obtain ⟨k0, k1, k2, k3, k4, k5, k6, k7, k8, k9, k10, k11, k12, k13, k14, k15, k16, k17, k18, k19, k20, k21, k22, k23, k24, k25, k26, k27, k28, k29, k30, k31, k32, k33⟩ := h
  refine ⟨k0, k1, k2, k3, k4, k5, ?_, ?_, k8, k9, k10, k11, k12, k13, k14, k15, k16, k17, ?_, k19, k20, k21, k22, k23, k24, k25, k26, k27, ?_, k29, k30, k31, k32, ?_⟩
  · simp [K6, dsOnResetStream]
  · simp only [K7, Term, dsOnResetStream] at k7 ⊢
    grind
  · simp only [K18, dsOnResetStream] at k18 ⊢
    grind
  · simp only [K28, dsOnResetStream] at k28 ⊢
    grind
  · intro _; exact Or.inr (Or.inl rfl)

theorem inv_connClose (c : Cfg) (ar aq : Nat) (s : S) (h : Inv c ar aq s) : Inv c ar aq (connClose s) := by
  unfold connClose
  split
  · exact h
  · exact inv_dsOnResetStream c ar aq s _ s.downLive h

theorem inv_downReset (c : Cfg) (ar aq : Nat) (s : S) (r : Reason) (h : Inv c ar aq s) : Inv c ar aq (downResetL c s r) := by
  unfold downResetL
  split
  · exact h
  · exact inv_dsOnResetStream c ar aq s r false h

theorem phase_cases (p : Phase) : prePhase p = true ∨ fwdPhase p = true ∨ upPhase p = true ∨ p = .End := by
  cases p <;> simp [prePhase, fwdPhase, upPhase]

theorem phase_excl (p : Phase) : (fwdPhase p = true → prePhase p = false ∧ upPhase p = false ∧ p ≠ .End) := by
  cases p <;> simp [prePhase, fwdPhase, upPhase]

theorem liveCounted_pos (s : S) (k : Nat) (h : streamLiveCounted s k = true) : 0 < liveCount s.streams := by
  unfold streamLiveCounted at h
  cases hk : s.streams[k]? with
  | none => simp [hk] at h
  | some st =>
    simp [hk] at h
    have hm : st ∈ s.streams := List.mem_of_getElem? hk
    have : st ∈ s.streams.filter liveCounted := by
      simp [List.mem_filter, hm, liveCounted, h.1, h.2]
    exact List.length_pos_of_mem this

/-- a live counted client stream only exists while a two-way request is being forwarded, or — as the open stream of a
streamed response whose head was accepted — during the response pass -/
theorem live_ctx (c : Cfg) (ar aq : Nat) (s : S) (h : Inv c ar aq s) (hl : 0 < liveCount s.streams) :
    s.cleaned = false ∧ c.oneway = false ∧
    (fwdPhase s.phase = true ∨ (upPhase s.phase = true ∧ s.urr = true ∧ respHasMore s.resp = true ∧ s.rs.isSome = true)) := by
  have hc : s.cleaned = false := by
    cases hcl : s.cleaned with
    | false => rfl
    | true => have := (h.k13 hcl).2.1; omega
  have ho : c.oneway = false := by
    cases hw : c.oneway with
    | false => rfl
    | true => have := h.k20 hw; omega
  refine ⟨hc, ho, ?_⟩
  rcases phase_cases s.phase with hp | hp | hp | hp
  · have := (h.k17 hc hp).2.2.1
    simp [this] at hl
  · exact Or.inl hp
  · rcases (h.k15 hc hp).1 with h0 | h1
    · omega
    · exact Or.inr ⟨hp, h1.1, h1.2.1, h1.2.2⟩
  · exact absurd hp (h.k19 hc)

/-- the facts available when a counted client stream is live and no response was accepted -/
theorem live_facts (c : Cfg) (ar aq : Nat) (s : S) (k : Nat) (h : Inv c ar aq s) (hlc : streamLiveCounted s k = true)
    (hurr : s.urr = false) :
    s.cleaned = false ∧ c.oneway = false ∧ fwdPhase s.phase = true ∧ prePhase s.phase = false ∧ upPhase s.phase = false ∧
    s.setupRetry = false := by
  obtain ⟨hcl, how, hph⟩ := live_ctx c ar aq s h (liveCounted_pos s k hlc)
  have hfwd : fwdPhase s.phase = true := by
    rcases hph with hf | ⟨_, hu, _⟩
    · exact hf
    · rw [hurr] at hu; cases hu
  obtain ⟨hpre, hup, _⟩ := phase_excl s.phase hfwd
  exact ⟨hcl, how, hfwd, hpre, hup, (h.k7 hcl).1⟩

theorem phase_excl_up (p : Phase) : (upPhase p = true → prePhase p = false ∧ fwdPhase p = false ∧ p ≠ .End ∧ p ≠ .Retry ∧
    p ≠ .DownFilterAfterChooseHost ∧ p ≠ .DownRecvHeader) := by
  cases p <;> simp [prePhase, fwdPhase, upPhase]

/-- destroying a live client stream after an (optional) `upstreamRequest.OnResetStream`: while forwarding, or — for the
open stream of a streamed response — at any later point (a reset is then delivered only while the worker waits for
the body: phases `UpRecvData` / `UpRecvTrailer`) -/
theorem inv_reset_destroy (c : Cfg) (ar aq : Nat) (s : S) (k : Nat) (r : Reason) (fire : Bool) (h : Inv c ar aq s)
    (hlc : streamLiveCounted s k = true) :
    Inv c ar aq (destroyStream c (if fire then upOnResetStream s r else s) k) := by
  have hlpos := liveCounted_pos s k hlc
  obtain ⟨hcl, how, hph⟩ := live_ctx c ar aq s h hlpos
  have hsr : s.setupRetry = false := (h.k7 hcl).1
  have hpre : prePhase s.phase = false := by
    rcases hph with hf | ⟨hu, _⟩
    · exact (phase_excl s.phase hf).1
    · exact (phase_excl_up s.phase hu).1
  have hled : LedgerOk c aq (if fire then upOnResetStream s r else s) := by
    cases fire
    · exact ⟨h.k10, h.k11, h.k14⟩
    · exact ⟨h.k10, h.k11, h.k14⟩
  have hlv : streamLive s k = true := streamLiveCounted_le s k hlc
  have hdd := destroyStream_ledger c aq _ k hled
  have hd := hdd.1
  have hdead : allDead (destroyStream c (if fire then upOnResetStream s r else s) k).streams = true := by
    apply hdd.2
    cases fire
    · exact hlv
    · exact hlv
  have hl0 := allDead_liveCount hdead
  have h23 : K23 (destroyStream c (if fire then upOnResetStream s r else s) k) := fun _ _ => hl0
  have h22 : K22 c (destroyStream c (if fire then upOnResetStream s r else s) k) := by
    apply K22_destroyStream
    cases fire
    · exact h.k22
    · exact h.k22
  have hnd : s.direct = false := not_direct_of_live h.k7 hcl hlpos
  have h7' : K7 (destroyStream c (if fire then upOnResetStream s r else s) k) := by
    apply k7_intro
    · cases fire <;> simp [upOnResetStream, hsr]
    · cases fire <;> simp [upOnResetStream, hnd]
  have hur : s.upReset = false := by
    cases hu : s.upReset with
    | false => rfl
    | true => have := h.k23 hcl (Or.inl hu); omega
  obtain ⟨k0, k1, k2, k3, k4, k5, k6, k7, k8, k9, k10, k11, k12, k13, k14, k15, k16, k17, k18, k19, k20, k21, k22, k23, k24, k25, k26, k27, k28, k29, k30, k31, k32, k33⟩ := h
  have hnr : s.phase ≠ .Retry := by
    intro hp
    have := k23 hcl (Or.inr hp)
    omega
  have hn30 : ¬ (s.phase = .DownFilterAfterChooseHost ∨ s.phase = .DownRecvHeader) := by
    intro hp
    have := (k30 hcl hp).1
    rw [this] at hlpos; simp at hlpos
  have h30 : K30 (destroyStream c (if fire then upOnResetStream s r else s) k) := by
    intro _ hp
    cases fire
    · exact absurd hp hn30
    · exact absurd hp hn30
  cases fire
  · refine ⟨k0, k1, k2, k3, k4, k5, k6, h7', k8, k9, hd.1, hd.2.1, k12, ?_, hd.2.2, ?_, k16, ?_, k18, k19, ?_, k21, h22, h23, k24, k25, k26, ?_, k28, k29, h30, k31, k32, (fun hh => absurd hh (by simp [hcl]))⟩
    · intro hh; exact absurd hh (by simp [hcl])
    · intro _ hupp
      obtain ⟨_, b2, b3, b4, b5, b6, b7⟩ := k15 hcl hupp
      exact ⟨Or.inl hl0, b2, b3, b4, b5, b6, b7⟩
    · intro _ hh; exact absurd hh (by simp [hpre])
    · intro hh; exact absurd hh (by simp [how])
    · intro _ hfwd hu
      rcases k27 hcl hfwd hu with h | ⟨h1, _⟩ | h
      · left; exact h
      · right; left; exact ⟨h1, Or.inl hl0⟩
      · right; right; exact h
  · rcases hph with hfwd | ⟨hupp, hurr, hmore, hrsome⟩
    · -- while forwarding (no response accepted yet, or accepted and still waiting to be picked up)
      obtain ⟨_, hup, _⟩ := phase_excl s.phase hfwd
      refine ⟨k0, k1, k2, k3, k4, k5, k6, h7', k8, k9, hd.1, hd.2.1, k12, ?_, hd.2.2, ?_, k16, ?_, ?_, k19, ?_, k21, h22, h23, k24, k25, ?_, ?_, ?_, k29, h30, k31, k32, (fun hh => absurd hh (by simp [upOnResetStream, hcl]))⟩
      · intro hh; exact absurd hh (by simp [upOnResetStream, hcl])
      · intro _ hh; exact absurd hh (by simp [upOnResetStream, hup])
      · intro _ hh; exact absurd hh (by simp [upOnResetStream, hpre])
      · simp only [K18, upOnResetStream, destroyStream, ite_true] at k18 ⊢
        grind
      · intro hh; exact absurd hh (by simp [how])
      · intro _ hp; exact absurd hp hnr
      · intro _ _ _; left; simp [upOnResetStream, hsr]
      · intro _ _; right; left; simp [upOnResetStream, hsr]
    · -- the open stream of a streamed response is reset while the worker waits for the body
      obtain ⟨hpre', hfw, _, _, _, _⟩ := phase_excl_up s.phase hupp
      have hphase : s.phase = .UpFilter ∨ s.phase = .UpRecvHeader ∨ s.phase = .UpRecvData ∨ s.phase = .UpRecvTrailer := by
        revert hupp; cases s.phase <;> simp [upPhase]
      obtain ⟨_, b2, _, b4, b5, b6, b7⟩ := k15 hcl hupp
      refine ⟨k0, k1, k2, k3, k4, k5, k6, h7', k8, k9, hd.1, hd.2.1, k12, ?_, hd.2.2, ?_, ?_, ?_, ?_, k19, ?_, k21, h22, h23, k24, k25, ?_, ?_, ?_, k29, h30, k31, k32, (fun hh => absurd hh (by simp [upOnResetStream, hcl]))⟩
      · intro hh; exact absurd hh (by simp [upOnResetStream, hcl])
      · intro _ _
        refine ⟨Or.inl hl0, by simpa [upOnResetStream] using b2, fun _ => by
            show s.phase = .UpRecvData ∨ s.phase = .UpRecvTrailer ∨
              ((s.phase = .UpFilter ∨ s.phase = .UpRecvHeader) ∧ s.urr = true ∧ s.rs.isSome = true)
            rcases hphase with hq | hq | hq | hq
            · exact Or.inr (Or.inr ⟨Or.inl hq, hurr, hrsome⟩)
            · exact Or.inr (Or.inr ⟨Or.inr hq, hurr, hrsome⟩)
            · exact Or.inl hq
            · exact Or.inr (Or.inl hq),
          Or.inr (by simpa [upOnResetStream] using hurr), by simpa [upOnResetStream] using b5,
          by simpa [upOnResetStream] using b6, by simpa [upOnResetStream] using b7⟩
      · intro _ hh; exact absurd hh (by simp [upOnResetStream, hupp])
      · intro _ hh; exact absurd hh (by simp [upOnResetStream, hpre'])
      · intro _ hh; exact absurd hh (by simp [upOnResetStream, hfw])
      · intro hh; exact absurd hh (by simp [how])
      · intro _ hp; exact absurd hp hnr
      · intro _ hh; exact absurd hh (by simp [upOnResetStream, hfw])
      · intro _ _; left; simpa [upOnResetStream] using hurr

theorem inv_upReset (c : Cfg) (ar aq : Nat) (s : S) (k : Nat) (r : Reason) (h : Inv c ar aq s) :
    Inv c ar aq (upResetL c s k r) := by
  unfold upResetL
  cases hk : s.streams[k]? with
  | none => exact h
  | some st =>
    simp only
    split
    · exact h
    · rename_i hcond
      simp only [Bool.or_eq_true, Bool.not_eq_true', not_or, Bool.not_eq_false] at hcond
      obtain ⟨⟨hreal, hlive⟩, hcounted⟩ := hcond
      have hlc : streamLiveCounted s k = true := by simp [streamLiveCounted, hk, hlive, hcounted]
      exact inv_reset_destroy c ar aq s k r st.listening h hlc

/-- the streamed body ended: the codec destroys the client stream -/
theorem inv_upEnd (c : Cfg) (ar aq : Nat) (s : S) (k : Nat) (h : Inv c ar aq s) : Inv c ar aq (upEndL c s k) := by
  unfold upEndL
  cases hk : s.streams[k]? with
  | none => exact h
  | some st =>
    simp only
    split
    · exact h
    · rename_i hcond
      simp only [Bool.or_eq_true, Bool.not_eq_true', not_or, Bool.not_eq_false] at hcond
      obtain ⟨⟨⟨hreal, hlive⟩, hcounted⟩, _⟩ := hcond
      have hlc : streamLiveCounted s k = true := by simp [streamLiveCounted, hk, hlive, hcounted]
      have := inv_reset_destroy c ar aq s k .StreamLocalReset false h hlc
      simpa using this

theorem inv_upResp (c : Cfg) (ar aq : Nat) (s : S) (k code : Nat) (d t : Bool) (h : Inv c ar aq s) :
    Inv c ar aq (upResp c s k code d t) := by
  unfold upResp
  cases hk : s.streams[k]? with
  | none => exact h
  | some st =>
    simp only
    split
    · exact h
    · rename_i hcond
      simp only [Bool.or_eq_true, Bool.not_eq_true', not_or, Bool.not_eq_false] at hcond
      obtain ⟨⟨hreal, hcounted⟩, hlive⟩ := hcond
      split
      · exact h
      rename_i hnu
      simp only [Bool.not_eq_true] at hnu
      have hlc : streamLiveCounted s k = true := by simp [streamLiveCounted, hk, hlive, hcounted]
      obtain ⟨hcl, how, hfwd, hpre, hup, hsr⟩ := live_facts c ar aq s k h hlc hnu
      have hdd := destroyStream_ledger c aq s k ⟨h.k10, h.k11, h.k14⟩
      have hd := hdd.1
      have hdead := hdd.2 (streamLiveCounted_le s k hlc)
      have h22 := K22_destroyStream c s k h.k22
      have hnd : s.direct = false := not_direct_of_live h.k7 hcl (liveCounted_pos s k hlc)
      obtain ⟨k0, k1, k2, k3, k4, k5, k6, k7, k8, k9, k10, k11, k12, k13, k14, k15, k16, k17, k18, k19, k20, k21, k22, k23, k24, k25, k26, k27, k28, k29, k30, k31, k32, k33⟩ := h
      refine ⟨k0, k1, k2, k3, k4, k5, k6, k7_intro (by simp [hsr]) (by simp [hnd]), k8, k9, hd.1, hd.2.1, k12, ?_, hd.2.2, ?_, k16, ?_, ?_, k19, ?_, k21, h22,
        fun _ _ => allDead_liveCount hdead, k24, k25, ?_, ?_, ?_, k29, ?_, k31, k32, (fun hh => absurd hh (by simp [hcl]))⟩
      · intro hh; exact absurd hh (by simp [hcl])
      · intro _ hh; exact absurd hh (by simp [hup])
      · intro _ hh; exact absurd hh (by simp [hpre])
      · simp only [K18, processDone, destroyStream] at k18 ⊢
        grind
      · intro hh; exact absurd hh (by simp [how])
      · intro _ hp
        have := k23 hcl (Or.inr hp)
        have hpos := liveCounted_pos s k hlc
        omega
      · have hl0 := allDead_liveCount hdead
        intro _ _
        simp only [processDone, Bool.or_eq_true, Bool.and_eq_true, Bool.not_eq_true']
        intro hu
        by_cases hur : s.upReset = true
        · left; exact hur
        · right; left
          refine ⟨?_, Or.inl hl0⟩
          simp only [Bool.not_eq_true] at hur
          simp [hnu, hur] at hu ⊢
          simp [hu.1, hsr]
      · simp only [K28, processDone, destroyStream] at k28 ⊢
        grind
      · intro _ hp
        have := (k30 hcl hp).1
        have hpos := liveCounted_pos s k hlc
        rw [this] at hpos; simp at hpos

/-- the head of a streamed response is accepted (or dropped): the client stream stays open -/
theorem inv_upRespS (c : Cfg) (ar aq : Nat) (s : S) (k code : Nat) (d t : Bool) (h : Inv c ar aq s) :
    Inv c ar aq (upRespS c s k code d t) := by
  unfold upRespS
  split
  · exact inv_upResp c ar aq s k code d t h
  rename_i hdt
  have hmore : (d || t) = true := by cases d <;> cases t <;> simp at hdt ⊢
  cases hk : s.streams[k]? with
  | none => exact h
  | some st =>
    simp only
    split
    · exact h
    · rename_i hcond
      simp only [Bool.or_eq_true, Bool.not_eq_true', not_or, Bool.not_eq_false] at hcond
      obtain ⟨⟨hreal, hcounted⟩, hlive⟩ := hcond
      split
      · exact h
      rename_i hnu
      simp only [Bool.not_eq_true] at hnu
      have hlc : streamLiveCounted s k = true := by simp [streamLiveCounted, hk, hlive, hcounted]
      obtain ⟨hcl, how, hfwd, hpre, hup, hsr⟩ := live_facts c ar aq s k h hlc hnu
      have hnd : s.direct = false := not_direct_of_live h.k7 hcl (liveCounted_pos s k hlc)
      have hpos := liveCounted_pos s k hlc
      obtain ⟨k0, k1, k2, k3, k4, k5, k6, k7, k8, k9, k10, k11, k12, k13, k14, k15, k16, k17, k18, k19, k20, k21, k22, k23, k24, k25, k26, k27, k28, k29, k30, k31, k32, k33⟩ := h
      refine ⟨k0, k1, k2, k3, k4, k5, k6, k7_intro (by simp [hsr]) (by simp [hnd]), k8, k9, k10, k11, k12, ?_, k14, ?_, k16, ?_, ?_, k19, k20, k21, k22,
        k23, k24, k25, ?_, ?_, ?_, k29, ?_, k31, k32, (fun hh => absurd hh (by simp [hcl]))⟩
      · intro hh; exact absurd hh (by simp [hcl])
      · intro _ hh; exact absurd hh (by simp [hup])
      · intro _ hh; exact absurd hh (by simp [hpre])
      · simp only [K18, processDone] at k18 ⊢
        grind
      · intro _ hp
        have := k23 hcl (Or.inr hp)
        omega
      · intro _ _
        simp only [processDone, Bool.or_eq_true, Bool.and_eq_true, Bool.not_eq_true']
        intro hu
        by_cases hur : s.upReset = true
        · left; exact hur
        · right
          simp only [Bool.not_eq_true] at hur
          simp [hnu, hur] at hu ⊢
          simp [hu.1, hsr, respHasMore, hmore]
      · simp only [K28, processDone] at k28 ⊢
        grind
      · intro _ hp
        have := (k30 hcl hp).1
        rw [this] at hpos; simp at hpos

/-- facts available when a timer is armed and its callback wins the CAS -/
theorem timer_facts (c : Cfg) (ar aq : Nat) (s : S) (h : Inv c ar aq s) (ht : s.perTry = true ∨ s.global = true)
    (hurr : s.urr = false) :
    s.cleaned = false ∧ c.oneway = false ∧ fwdPhase s.phase = true ∧ prePhase s.phase = false ∧ upPhase s.phase = false ∧
    s.setupRetry = false ∧ s.respStarted = false := by
  have hc : s.cleaned = false := by
    cases hcl : s.cleaned with
    | false => rfl
    | true => have := h.k13 hcl; rcases ht with ht | ht <;> simp [this] at ht
  have ho : c.oneway = false := by
    cases hw : c.oneway with
    | false => rfl
    | true => have := h.k21 hw; rcases ht with ht | ht <;> simp [this] at ht
  have hf : fwdPhase s.phase = true := by
    rcases phase_cases s.phase with hp | hp | hp | hp
    · have := h.k17 hc hp; rcases ht with ht | ht <;> simp [this] at ht
    · exact hp
    · have := (h.k15 hc hp).2.2.2.1
      rcases this with ⟨a, b⟩ | a
      · rcases ht with ht | ht <;> simp [a, b] at ht
      · simp [hurr] at a
    · exact absurd hp (h.k19 hc)
  obtain ⟨hpre, hup, _⟩ := phase_excl s.phase hf
  exact ⟨hc, ho, hf, hpre, hup, (h.k7 hc).1, h.k16 hc hup⟩

theorem inv_perTryFire (c : Cfg) (ar aq : Nat) (s : S) (h : Inv c ar aq s) : Inv c ar aq (perTryFire c s) := by
  unfold perTryFire
  split
  · exact h
  · rename_i hpt
    simp only [Bool.not_eq_true', Bool.not_eq_false] at hpt
    simp only
    split
    · -- cleaned: impossible, a cleaned stream has no armed timer
      rename_i hcl
      have := h.k13 hcl
      simp [this] at hpt
    · split
      · -- CAS lost
        obtain ⟨k0, k1, k2, k3, k4, k5, k6, k7, k8, k9, k10, k11, k12, k13, k14, k15, k16, k17, k18, k19, k20, k21, k22, k23, k24, k25, k26, k27, k28, k29, k30, k31, k32, k33⟩ := h
        refine ⟨k0, k1, k2, k3, k4, k5, k6, ?_, k8, k9, k10, k11, k12, ?_, k14, ?_, k16, ?_, k18, k19, k20, ?_, k22, k23, k24, k25, ?_, k27, k28, k29, ?_, k31, k32, k33⟩
        · simp only [K7, Term] at k7 ⊢; grind
        · simp only [K13] at k13 ⊢; grind
        · simp only [K15] at k15 ⊢; grind
        · simp only [K17] at k17 ⊢; grind
        · simp only [K21] at k21 ⊢; grind
        · simp only [K26] at k26 ⊢; grind
        · simp only [K30] at k30 ⊢; grind
      · rename_i hurr
        simp only [Bool.not_eq_true] at hurr
        obtain ⟨hcl, how, hfwd, hpre, hup, hsr, hrs⟩ := timer_facts c ar aq s h (Or.inl hpt) hurr
        have hnd : s.direct = false := not_direct_of_timer h.k7 hcl (Or.inl hpt)
        have hled := resetUpstream_ledger c aq { s with perTry := false, urr := true } ⟨h.k10, h.k11, h.k14⟩
        have h18 := h.k18 hcl hfwd
        obtain ⟨k0, k1, k2, k3, k4, k5, k6, k7, k8, k9, k10, k11, k12, k13, k14, k15, k16, k17, k18, k19, k20, k21, k22, k23, k24, k25, k26, k27, k28, k29, k30, k31, k32, k33⟩ := h
        split
        rotate_left
        · rename_i hh; simp [hrs] at hh
        refine ⟨?_, ?_, ?_, ?_, ?_, ?_, ?_, ?_, ?_, ?_, hled.1.1, hled.1.2.1, ?_, ?_, hled.1.2.2, ?_, ?_, ?_, ?_, ?_, ?_, ?_,
          K22_resetUpstream c _ k22, fun _ _ => allDead_liveCount hled.2, ?_, ?_, ?_, ?_, ?_, ?_, ?_, ?_, ?_, ?_⟩
        · simpa [K0, upOnResetStream, orFlag] using k0
        · simpa [K1, upOnResetStream, orFlag] using k1
        · simpa [K2, upOnResetStream, orFlag] using k2
        · simpa [K3, upOnResetStream, orFlag] using k3
        · simpa [K4, upOnResetStream, orFlag] using k4
        · simpa [K5, upOnResetStream, orFlag] using k5
        · simpa [K6, upOnResetStream, orFlag] using k6
        · exact k7_intro (by simp [upOnResetStream, orFlag, hsr]) (by simp [upOnResetStream, orFlag, hnd])
        · simpa [K8, upOnResetStream, orFlag] using k8
        · simpa [K9, upOnResetStream, orFlag, heldRetry, rsHeld] using k9
        · simpa [K12, upOnResetStream, orFlag] using k12
        · intro hh; exact absurd hh (by simp [upOnResetStream, orFlag, hcl])
        · intro _ hh; exact absurd hh (by simp [upOnResetStream, orFlag, hup])
        · simpa [K16, upOnResetStream, orFlag] using k16
        · intro _ hh; exact absurd hh (by simp [upOnResetStream, orFlag, hpre])
        · simp only [how, Bool.false_eq_true, false_and, false_or] at h18
          intro _ _
          right
          simp only [upOnResetStream, orFlag, resetUpstream_up, resetUpstream_rs, resetUpstream_urr, resetUpstream_upReset,
            resetUpstream_downReset, resetUpstream_notify, resetUpstream_globalExpired, resetUpstream_reqSent,
            resetUpstream_global, resetUpstream_phase, resetUpstream_setupRetry, hsr]
          grind
        · simpa [K19, upOnResetStream, orFlag] using k19
        · intro hh; exact absurd hh (by simp [how])
        · intro hh; exact absurd hh (by simp [how])
        · simpa [K24, upOnResetStream, orFlag] using k24
        · simpa [K25, upOnResetStream, orFlag] using k25
        · intro _ hp
          have := (k26 hcl (by simpa [upOnResetStream, orFlag] using hp)).1
          simp [this] at hpt
        · intro _ _ _; left; simp [upOnResetStream, orFlag, hsr]
        · intro _ _; left; simp [upOnResetStream, orFlag]
        · simpa [K29, upOnResetStream, orFlag] using k29
        · intro _ hp
          have := (k30 hcl (by simpa [upOnResetStream, orFlag] using hp)).2.2.1
          rw [this] at hpt; cases hpt
        · simpa [K31, upOnResetStream, orFlag] using k31
        · simpa [K32, upOnResetStream, orFlag] using k32
        · intro hh; exact absurd hh (by simp [upOnResetStream, orFlag, hcl])

theorem inv_globalFire (c : Cfg) (ar aq : Nat) (s : S) (h : Inv c ar aq s) : Inv c ar aq (globalFire c s) := by
  unfold globalFire
  split
  · exact h
  · rename_i hgt
    simp only [Bool.not_eq_true', Bool.not_eq_false] at hgt
    simp only
    split
    · rename_i hcl
      have := h.k13 hcl
      simp [this] at hgt
    · rename_i hcl
      simp only [Bool.not_eq_true] at hcl
      -- the callback records the expiry (regenerated flag), then tries the CAS
      cases hrec : globalCallbackRecordsExpiry
      · exact absurd hrec (by decide)
      · simp only [ite_true]
        split
        · -- CAS lost: only the timer flag and the expiry record change
          rename_i hurr
          obtain ⟨k0, k1, k2, k3, k4, k5, k6, k7, k8, k9, k10, k11, k12, k13, k14, k15, k16, k17, k18, k19, k20, k21, k22, k23, k24, k25, k26, k27, k28, k29, k30, k31, k32, k33⟩ := h
          refine ⟨k0, k1, k2, k3, k4, k5, k6, ?_, k8, k9, k10, k11, k12, ?_, k14, ?_, k16, ?_, ?_, k19, k20, ?_, k22, k23, ?_, k25, ?_, ?_, k28, k29, ?_, k31, k32, k33⟩
          · simp only [K7, Term] at k7 ⊢; grind
          · simp only [K13] at k13 ⊢; grind
          · simp only [K15] at k15 ⊢; grind
          · simp only [K17] at k17 ⊢; grind
          · simp only [K18] at k18 ⊢; grind
          · simp only [K21] at k21 ⊢; grind
          · simp only [K24] at k24 ⊢; grind
          · simp only [K26] at k26 ⊢; grind
          · simp only [K27] at k27 ⊢; grind
          · intro _ hp
            have := (k30 hcl hp).2.2.2.1
            rw [this] at hgt; cases hgt
        · rename_i hurr
          simp only [Bool.not_eq_true] at hurr
          obtain ⟨hcl, how, hfwd, hpre, hup, hsr, hrs⟩ := timer_facts c ar aq s h (Or.inr hgt) hurr
          have hnd : s.direct = false := not_direct_of_timer h.k7 hcl (Or.inr hgt)
          have h18 := h.k18 hcl hfwd
          simp only [how, Bool.false_eq_true, false_and, false_or] at h18
          have hupsome : s.up.isSome = true := h18.1
          simp only [hupsome, ite_true]
          have hled := resetUpstream_ledger c aq { s with global := false, globalExpired := true, urr := true } ⟨h.k10, h.k11, h.k14⟩
          obtain ⟨k0, k1, k2, k3, k4, k5, k6, k7, k8, k9, k10, k11, k12, k13, k14, k15, k16, k17, k18, k19, k20, k21, k22, k23, k24, k25, k26, k27, k28, k29, k30, k31, k32, k33⟩ := h
          refine ⟨?_, ?_, ?_, ?_, ?_, ?_, ?_, ?_, ?_, ?_, hled.1.1, hled.1.2.1, ?_, ?_, hled.1.2.2, ?_, ?_, ?_, ?_, ?_, ?_, ?_,
            K22_resetUpstream c _ k22, fun _ _ => allDead_liveCount hled.2, ?_, ?_, ?_, ?_, ?_, ?_, ?_, ?_, ?_, ?_⟩
          · simpa [K0, upOnResetStream] using k0
          · simpa [K1, upOnResetStream] using k1
          · simpa [K2, upOnResetStream] using k2
          · simpa [K3, upOnResetStream] using k3
          · simpa [K4, upOnResetStream] using k4
          · simpa [K5, upOnResetStream] using k5
          · simpa [K6, upOnResetStream] using k6
          · exact k7_intro (by simp [upOnResetStream, hsr]) (by simp [upOnResetStream, hnd])
          · simpa [K8, upOnResetStream] using k8
          · simpa [K9, upOnResetStream, heldRetry, rsHeld] using k9
          · simpa [K12, upOnResetStream] using k12
          · intro hh; exact absurd hh (by simp [upOnResetStream, hcl])
          · intro _ hh; exact absurd hh (by simp [upOnResetStream, hup])
          · simpa [K16, upOnResetStream] using k16
          · intro _ hh; exact absurd hh (by simp [upOnResetStream, hpre])
          · intro _ _
            right
            simp only [upOnResetStream, resetUpstream_up, resetUpstream_rs, resetUpstream_urr, resetUpstream_upReset,
              resetUpstream_downReset, resetUpstream_notify, resetUpstream_globalExpired, resetUpstream_reqSent,
              resetUpstream_global, resetUpstream_phase, resetUpstream_setupRetry, hsr]
            grind
          · simpa [K19, upOnResetStream] using k19
          · intro hh; exact absurd hh (by simp [how])
          · intro hh; exact absurd hh (by simp [how])
          · intro _ _ _ _; right; simp [upOnResetStream]
          · simpa [K25, upOnResetStream] using k25
          · intro _ hp
            have h26 := k26 hcl (by simpa [upOnResetStream] using hp)
            have := h26.1
            exact ⟨by simpa [upOnResetStream] using this, fun _ => by simp [upOnResetStream], fun _ => by simp [upOnResetStream, hsr],
              by simpa [upOnResetStream] using h26.2.2.2⟩
          · intro _ _ _; left; simp [upOnResetStream, hsr]
          · intro _ _; left; simp [upOnResetStream]
          · simpa [K29, upOnResetStream] using k29
          · intro _ hp
            have := (k30 hcl (by simpa [upOnResetStream] using hp)).2.2.2.1
            rw [this] at hgt; cases hgt
          · simpa [K31, upOnResetStream] using k31
          · simpa [K32, upOnResetStream] using k32
          · intro hh; exact absurd hh (by simp [upOnResetStream, hcl])

/-- an accepted asynchronous `TerminateStream` while the worker is parked or ([proxy10]) asleep in `doRetry`'s back-off -/
theorem inv_terminateAcc (c : Cfg) (ar aq : Nat) (s : S) (code : Nat) (h : Inv c ar aq s)
    (hp : s.phase = .WaitNotify ∨ s.phase = .Retry) (hcl : s.cleaned = false) (hurr : s.urr = false)
    (hur : s.upReset = false) (hnd : s.direct = false) :
    Inv c ar aq (terminateAcc c s code) := by
  unfold terminateAcc
  have hfwd : fwdPhase s.phase = true := by rcases hp with hp | hp <;> simp [hp, fwdPhase]
  obtain ⟨hpre, hup, _⟩ := phase_excl s.phase hfwd
  have how : c.oneway = false := by
    cases ho : c.oneway with
    | false => rfl
    | true =>
      rcases hp with hp | hp
      · exact absurd hp (h.k32 hcl ho).2.1
      · exact absurd hp (h.k32 hcl ho).2.2
  have hsr : s.setupRetry = false := (h.k7 hcl).1
  have hrst : s.respStarted = false := h.k16 hcl hup
  have h18 := h.k18 hcl hfwd
  simp only [how, Bool.false_eq_true, false_and, false_or] at h18
  have hled := resetUpstream_ledger c aq s ⟨h.k10, h.k11, h.k14⟩
  obtain ⟨k0, k1, k2, k3, k4, k5, k6, k7, k8, k9, k10, k11, k12, k13, k14, k15, k16, k17, k18, k19, k20, k21, k22, k23, k24, k25, k26, k27, k28, k29, k30, k31, k32, k33⟩ := h
  refine ⟨?_, ?_, ?_, ?_, ?_, ?_, ?_, ?_, ?_, ?_, hled.1.1, hled.1.2.1, ?_, ?_, hled.1.2.2, ?_, ?_, ?_, ?_, ?_, ?_, ?_,
    K22_resetUpstream c _ k22, fun _ _ => allDead_liveCount hled.2, ?_, ?_, ?_, ?_, ?_, ?_, ?_, ?_, ?_, ?_⟩
  · simpa [K0] using k0
  · simpa [K1] using k1
  · simpa [K2] using k2
  · simpa [K3] using k3
  · simpa [K4] using k4
  · simpa [K5] using k5
  · simpa [K6] using k6
  · intro _
    refine ⟨by simp [hsr], fun _ => ?_⟩
    exact ⟨by simpa using hp, rfl, rfl, by simp [hur], rfl, allDead_liveCount hled.2, rfl, rfl⟩
  · simpa [K8] using k8
  · simpa [K9, heldRetry, rsHeld] using k9
  · simpa [K12] using k12
  · intro hh; exact absurd hh (by simp [hcl])
  · intro _ hh; exact absurd hh (by simp [hup])
  · simpa [K16] using k16
  · intro _ hh; exact absurd hh (by simp [hpre])
  · intro _ _
    right
    refine ⟨by simpa using h18.1, by simpa using h18.2.1, fun _ => Or.inl rfl, fun _ => Or.inl rfl, fun _ _ => Or.inr (Or.inr rfl), ?_⟩
    intro hw
    have := h18.2.2.2.2.2 (by simpa using hw)
    simp only [how, Bool.false_eq_true, or_false] at this
    left; simpa using this
  · simpa [K19] using k19
  · intro hh; exact absurd hh (by simp [how])
  · intro hh; exact absurd hh (by simp [how])
  · intro _ _ _ _; right; right; rfl
  · simpa [K25] using k25
  · intro _ hh
    have hq : s.phase = .Retry := by simpa using hh
    have h26 := k26 hcl hq
    refine ⟨rfl, fun hu => ?_, fun _ => Or.inr (Or.inl rfl), ?_⟩
    · have : s.upReset = true := by simpa using hu
      rw [hur] at this; cases this
    · have hup2 := h26.2.2.2
      simp [resetUpstream, curStream, hup2]
  · intro _ _ _; right; left; exact ⟨rfl, Or.inl (allDead_liveCount hled.2)⟩
  · intro _ _; left; rfl
  · simpa [K29] using k29
  · intro _ hh
    rcases hp with hp | hp <;> simp [hp] at hh
  · simpa [K31] using k31
  · simpa [K32] using k32
  · intro hh; exact absurd hh (by simp [hcl])

/-- the label `terminate`: refused (no-op) or accepted -/
theorem inv_terminate (c : Cfg) (ar aq : Nat) (s : S) (code : Nat) (h : Inv c ar aq s) :
    Inv c ar aq (terminateL c s code) := by
  rw [terminateL_eq]
  split
  · exact h
  split
  · exact h
  split
  · exact h
  split
  · exact h
  rename_i hpk hresp hcl hurr
  simp only [Bool.not_eq_true] at hresp hcl hurr
  simp only [asleep, Bool.not_eq_true', Bool.not_eq_false, Bool.or_eq_true] at hpk
  rcases hpk with hpk | hpk
  · -- parked in waitNotify, nothing signalled
    simp only [parked, Bool.not_eq_true', Bool.and_eq_true, beq_iff_eq] at hpk
    obtain ⟨⟨hrun, hp⟩, hn⟩ := hpk
    have hfwd : fwdPhase s.phase = true := by simp [hp, fwdPhase]
    have how : c.oneway = false := by
      cases ho : c.oneway with
      | false => rfl
      | true => exact absurd hp (h.k32 hcl ho).2.1
    have h18 := h.k18 hcl hfwd
    simp only [how, Bool.false_eq_true, false_and, false_or] at h18
    have hur : s.upReset = false := by
      cases hh : s.upReset with
      | false => rfl
      | true =>
        rcases h18.2.2.1 (Or.inr (Or.inl hh)) with h1 | h1
        · rw [hn] at h1; cases h1
        · rw [hp] at h1; exact absurd h1.1 (by decide)
    exact inv_terminateAcc c ar aq s code h (Or.inl hp) hcl hurr hur (not_direct_of_quiet h.k7 hcl hn)
  · -- asleep in doRetry's back-off
    simp only [backoff, Bool.and_eq_true, beq_iff_eq] at hpk
    have hur : s.upReset = false := by
      cases hh : s.upReset with
      | false => rfl
      | true => have := ((h.k26 hcl hpk.2).2.1 hh).2; rw [hurr] at this; cases this
    exact inv_terminateAcc c ar aq s code h (Or.inr hpk.2) hcl hurr hur (not_direct_of_not_urr h.k7 hcl hurr)

/-- [proxy10] the global timer callback inside `setupRetry`: timer fired, expiry recorded, the response slot taken or not -/
theorem inv_gtInSetup (c : Cfg) (ar aq : Nat) (s : S) (b : Bool) (h : Inv c ar aq s) : Inv c ar aq (gtInSetup s b) := by
  unfold gtInSetup
  split
  · exact h
  rename_i hcond
  simp only [Bool.not_eq_true', Bool.not_eq_false, Bool.and_eq_true] at hcond
  obtain ⟨hb, hg⟩ := hcond
  simp only [backoff, Bool.and_eq_true, beq_iff_eq] at hb
  obtain ⟨hrun, hp⟩ := hb
  have hcl : s.cleaned = false := by
    have := h.k0; simp only [K0] at this; rw [hrun] at this; simpa using this
  have hfwd : fwdPhase s.phase = true := by simp [hp, fwdPhase]
  obtain ⟨hpre, hup, _⟩ := phase_excl s.phase hfwd
  have how : c.oneway = false := by
    cases ho : c.oneway with
    | false => rfl
    | true => exact absurd hp (h.k32 hcl ho).2.2
  have hnd : s.direct = false := not_direct_of_timer h.k7 hcl (Or.inr hg)
  have hrec : globalCallbackRecordsExpiry = true := by decide
  simp only [hrec, Bool.or_true]
  have h18 := h.k18 hcl hfwd
  simp only [how, Bool.false_eq_true, false_and, false_or] at h18
  have h26 := h.k26 hcl hp
  obtain ⟨k0, k1, k2, k3, k4, k5, k6, k7, k8, k9, k10, k11, k12, k13, k14, k15, k16, k17, k18, k19, k20, k21, k22, k23, k24, k25, k26, k27, k28, k29, k30, k31, k32, k33⟩ := h
  refine ⟨k0, k1, k2, k3, k4, k5, k6, ?_, k8, k9, k10, k11, k12, ?_, k14, ?_, k16, ?_, ?_, k19, k20, ?_, k22, k23, ?_, k25, ?_, ?_, ?_, k29, ?_, k31, k32, k33⟩
  · exact k7_intro (by simpa using (k7 hcl).1) (by simpa using hnd)
  · intro hh; exact absurd hh (by simp [hcl])
  · intro _ hh; exact absurd hh (by simp [hup])
  · intro _ hh; exact absurd hh (by simp [hpre])
  · intro _ _
    right
    refine ⟨h18.1, h18.2.1, ?_, fun _ => Or.inr hp, fun _ _ => Or.inr (Or.inl rfl), fun hw => absurd hw (by simp [hp])⟩
    intro hh
    by_cases hx : s.urr = true ∨ s.upReset = true ∨ s.downReset = true
    · rcases h18.2.2.1 hx with h1 | h1
      · exact Or.inl h1
      · exact Or.inr ⟨hp, rfl, h1.2.2.1, h1.2.2.2⟩
    · simp only [not_or, Bool.not_eq_true] at hx
      exact Or.inr ⟨hp, rfl, hx.2.1, hx.2.2⟩
  · intro hh; exact absurd hh (by simp [how])
  · intro _ _ _ _; right; left; rfl
  · intro _ _
    refine ⟨h26.1, fun hu => ⟨rfl, ?_⟩, fun _ => Or.inr (Or.inr rfl), h26.2.2.2⟩
    have := (h26.2.1 hu).2
    simp [this]
  · intro _ _ _; right; right; exact ⟨hp, rfl⟩
  · intro _ hn
    rcases k28 hcl hn with h1 | h1 | h1
    · left; simp [h1]
    · right; left; exact h1
    · right; right; exact h1
  · intro _ hh
    rcases hh with hh | hh <;> (rw [hp] at hh; cases hh)

/-- **late response during the back-off is ignored**: in every state satisfying the invariant the label is a no-op — while
the worker sleeps in `doRetry` the stream's current upstream request is the fresh one `processError` installed (K26), so
the frame of the attempt that was given up finds no current request -/
theorem lateBackoff_noop (c : Cfg) (ar aq : Nat) (s : S) (k : Nat) (d t : Bool) (h : Inv c ar aq s) :
    lateBackoff s k d t = s := by
  unfold lateBackoff
  by_cases hb : backoff s = true
  · rw [if_pos hb]
    simp only [backoff, Bool.and_eq_true, beq_iff_eq] at hb
    have hcl : s.cleaned = false := by
      have := h.k0; simp only [K0] at this; rw [hb.1] at this; simpa using this
    have hup := (h.k26 hcl hb.2).2.2.2
    unfold lateRecv
    rw [if_pos (by simp [curStream, hup])]
  · rw [if_neg hb]

/-- every label of another goroutine preserves the invariant -/
theorem inv_async (c : Cfg) (ar aq : Nat) (s : S) (l : Label) (hl : l ≠ .work) (h : Inv c ar aq s) :
    Inv c ar aq (step c s l) := by
  cases l with
  | work => exact absurd rfl hl
  | upResp k code d t => exact inv_upResp c ar aq s k code d t h
  | upReset k r => exact inv_upReset c ar aq s k r h
  | upRespS k code d t => exact inv_upRespS c ar aq s k code d t h
  | upEnd k => exact inv_upEnd c ar aq s k h
  | poolFail f => exact inv_poolFail c ar aq s f h
  | hostsGone => exact inv_hostsGone c ar aq s h
  | perTryFire => exact inv_perTryFire c ar aq s h
  | globalFire => exact inv_globalFire c ar aq s h
  | downReset r => exact inv_downReset c ar aq s r h
  | connClose => exact inv_connClose c ar aq s h
  | terminate code => exact inv_terminate c ar aq s code h
  | terminateStale g code =>
    simp only [step]
    rw [terminateStale_eq]
    split
    · exact inv_terminate c ar aq s code h
    · exact h
  | terminateRaced code k d t =>
    simp only [step]
    rw [terminateRaced_eq]
    exact inv_terminate c ar aq s code h
  | lateResp k d t =>
    simp only [step]
    rw [lateBackoff_noop c ar aq s k d t h]
    exact h
  | gtInSetup b => exact inv_gtInSetup c ar aq s b h

end MosnVerif.Model.Downstream
