import MosnVerif.Lemmas.Downstream.Worker4
/-! the worker label `work`: response headers (retry decision), data, trailers -/
namespace MosnVerif.Model.Downstream
open MosnVerif.Gen.ProxyPhase MosnVerif.Gen.ProxyReason MosnVerif.Gen.ProxyRetry

theorem resetUpstream_comm (c : Cfg) (s : S) (b : Bool) :
    resetUpstream c { s with respStarted := b } = { resetUpstream c s with respStarted := b } := by
  unfold resetUpstream
  show (match curStream s with
    | some k => destroyStream c { ({ s with respStarted := b } : S) with
        streams := setStream s.streams k unlisten, trace := if streamLive s k then s.trace ++ [Ev.ur k] else s.trace } k
    | none => ({ s with respStarted := b } : S)) = _
  cases curStream s <;> rfl

theorem recvFinished_comm (c : Cfg) (s : S) (b : Bool) :
    onUpstreamResponseRecvFinished c { s with respStarted := b } =
      { onUpstreamResponseRecvFinished c s with respStarted := b } := by
  unfold onUpstreamResponseRecvFinished
  simp only
  split
  · rw [resetUpstream_comm]; rfl
  · rfl

/-- facts about the response pass that every one of its phases starts from -/
structure UpCtx (c : Cfg) (s : S) : Prop where
  cl : s.cleaned = false
  pd : s.procDone = false
  sr : s.setupRetry = false
  dir : s.direct = false
  ur : s.upReset = true → s.phase = .UpRecvData ∨ s.phase = .UpRecvTrailer ∨
    ((s.phase = .UpFilter ∨ s.phase = .UpRecvHeader) ∧ s.urr = true ∧ s.rs.isSome = true)
  lc : liveCount s.streams = 0 ∨ (s.urr = true ∧ respHasMore s.resp = true ∧ s.rs.isSome = true)
  tm : (s.perTry = false ∧ s.global = false) ∨ s.urr = true

theorem upCtx {c : Cfg} {ar aq : Nat} {s : S} (h : Inv c ar aq s) (hrun : s.running = true) (hupp : upPhase s.phase = true) :
    UpCtx c s := by
  have hcl := inv_not_cleaned h hrun
  obtain ⟨hlc, _, hur, htm, _, _, _⟩ := h.k15 hcl hupp
  have hsr := (h.k7 hcl).1
  have hdir : s.direct = false := not_direct_of_phase h.k7 hcl
    (by intro hh; rcases hh with hh | hh <;> (rw [hh] at hupp; simp [upPhase] at hupp))
  have hpd : s.procDone = false := by
    cases hh : s.procDone with
    | false => rfl
    | true => have := h.k5 hh; rw [hcl] at this; cases this
  exact ⟨hcl, hpd, hsr, hdir, hur, hlc, htm⟩

/-- the clauses that say how far the response pass has come, for the state `s'` at phase `q` -/
def UpAt (s' : S) (q : Phase) : Prop :=
  s'.phase = q ∧ upPhase q = true ∧ s'.resp.isSome = true ∧
  (s'.respStarted = (q == .UpRecvData || q == .UpRecvTrailer)) ∧
  (q = .UpRecvData → respHasMore s'.resp = true) ∧ (q = .UpRecvTrailer → respHasTrailers s'.resp = true)

/-- a not cleaned state in the response pass satisfies the invariant once the stable clauses and the pass facts hold -/
theorem inv_up_state (c : Cfg) (ar aq : Nat) (s' : S) (q : Phase) (b : Base c ar aq s') (hrun : s'.running = true)
    (hcl : s'.cleaned = false) (h3 : K3 s') (h6 : K6 s') (hpd : s'.procDone = false) (hsr : s'.setupRetry = false)
    (hdir : s'.direct = false) (h8 : s'.pass ≤ 1) (hur : s'.upReset = false)
    (hlc : liveCount s'.streams = 0 ∨ (s'.urr = true ∧ respHasMore s'.resp = true ∧ s'.rs.isSome = true))
    (htm : (s'.perTry = false ∧ s'.global = false) ∨ s'.urr = true) (hat : UpAt s' q)
    (h24 : K24 c s') (h25 : K25 c s') (h28 : K28 s') (how : c.oneway = false) : Inv c ar aq s' := by
  obtain ⟨hph, hupq, hresp, hrst, hd, ht⟩ := hat
  have hq : fwdPhase q = false ∧ prePhase q = false ∧ q ≠ .End ∧ q ≠ .Retry ∧ q ≠ .DownFilterAfterChooseHost ∧
      q ≠ .DownRecvHeader ∧ q ≠ .DownRecvData ∧ q ≠ .DownRecvTrailer ∧ q ≠ .Oneway := by
    cases q <;> simp [upPhase, fwdPhase, prePhase] at hupq ⊢
  obtain ⟨k1, k2, k4, k9, k10, k11, k12, k13, k14, k20, k21, k22, k31⟩ := b
  refine ⟨?_, k1, k2, h3, k4, ?_, h6, ?_, ?_, k9, k10, k11, k12, k13, k14, ?_, ?_, ?_, ?_, ?_, k20, k21, k22, ?_, h24, h25, ?_, ?_, h28, ?_, ?_, k31, ?_, (fun hh => absurd hh (by simp [hcl]))⟩
  · simp [K0, hrun, hcl]
  · intro hh; rw [hpd] at hh; cases hh
  · exact k7_intro hsr hdir
  · intro _; exact ⟨h8, Or.inr (Or.inl (by rw [hph]; exact hupq))⟩
  · intro _ _
    refine ⟨hlc, hresp, ?_, htm, ?_, ?_, ?_⟩
    · intro hh; rw [hur] at hh; cases hh
    · rw [hph]; exact hrst
    · intro hh; rw [hph] at hh; exact hd hh
    · intro hh; rw [hph] at hh; exact ht hh
  · intro _ hh; rw [hph, hupq] at hh; cases hh
  · intro _ hh; rw [hph, hq.2.1] at hh; cases hh
  · intro _ hh; rw [hph, hq.1] at hh; cases hh
  · intro _; rw [hph]; exact hq.2.2.1
  · intro _ hh
    rcases hh with hh | hh
    · rw [hur] at hh; cases hh
    · rw [hph] at hh; exact absurd hh hq.2.2.2.1
  · intro _ hh; rw [hph] at hh; exact absurd hh hq.2.2.2.1
  · intro _ hh; rw [hph, hq.1] at hh; cases hh
  · intro _ _ _
    refine ⟨?_, ?_, ?_⟩
    · intro hh; rw [hph] at hh; exact absurd hh hq.2.2.2.2.2.2.1
    · intro hh; rw [hph] at hh; exact absurd hh hq.2.2.2.2.2.2.2.1
    · intro hh; rw [hph] at hh; exact absurd hh hq.2.2.2.2.2.2.2.2
  · intro _ hh
    rcases hh with hh | hh
    · rw [hph] at hh; exact absurd hh hq.2.2.2.2.1
    · rw [hph] at hh; exact absurd hh hq.2.2.2.2.2.1
  · intro _ hh; rw [how] at hh; cases hh

/-- the response headers go to the client (no retry): either the whole response ends here, or data/trailers follow -/
theorem headers_finish (c : Cfg) (ar aq : Nat) (s : S) (eos : Bool) (r : Resp) (b : Base c ar aq s)
    (hrun : s.running = true) (hcl : s.cleaned = false) (h3 : K3 s) (h6 : K6 s) (hpd : s.procDone = false)
    (hsr : s.setupRetry = false) (hdir : s.direct = false) (h8 : s.pass ≤ 1) (hur : s.upReset = false)
    (hlc : liveCount s.streams = 0 ∨ (s.urr = true ∧ respHasMore s.resp = true ∧ s.rs.isSome = true))
    (htm : (s.perTry = false ∧ s.global = false) ∨ s.urr = true)
    (hph : s.phase = .UpRecvHeader) (hresp : s.resp = some r) (heos : eos = (!r.hasData && !r.hasTrailers))
    (hrst : s.respStarted = false)
    (hopen : (snd s.trace).ended = false ∧ (snd s.trace).reset = false ∧ (snd s.trace).bad = false ∧ (snd s.trace).hdr = false)
    (h24 : K24 c s) (h25 : K25 c s) (h28 : K28 s) (how : c.oneway = false) :
    Inv c ar aq (finishPhase c (onUpstreamHeadersFinish c s eos)) := by
  obtain ⟨ho1, ho2, ho3, ho4⟩ := hopen
  cases eos with
  | true =>
    have e : onUpstreamHeadersFinish c s true = endStream c
        { onUpstreamResponseRecvFinished c s with
          respStarted := true, procDone := true,
          trace := (onUpstreamResponseRecvFinished c s).trace ++ [Ev.dh (s.statusVar.getD 0) true], downLive := false } := by
      unfold onUpstreamHeadersFinish dsAppendHeaders emit
      simp only [if_true, recvFinished_comm, recvFinished_statusVar]
    rw [e]
    have hlc0 : liveCount s.streams = 0 := by
      rcases hlc with h0 | ⟨_, h1, _⟩
      · exact h0
      · rw [hresp] at h1
        simp only [respHasMore] at h1
        cases hd : r.hasData <;> cases ht : r.hasTrailers <;> simp [hd, ht] at heos h1
    obtain ⟨hb, hlc', _, _, _, hs, _⟩ := recvFinished_base c ar aq s b hcl hlc0
    apply respond_eos c ar aq _ _ true hb (by simpa using hcl) hlc'
    · simp [sndStep, hs, ho1, ho2, ho3, ho4]
    · simp [sndStep]
    · rfl
    · simp [sndStep]
  | false =>
    have e : onUpstreamHeadersFinish c s false =
        { s with respStarted := true, procDone := false, trace := s.trace ++ [Ev.dh (s.statusVar.getD 0) false] } := by
      unfold onUpstreamHeadersFinish dsAppendHeaders emit
      simp only [Bool.false_eq_true, if_false]
    rw [e]
    have hb := respond_more_base c ar aq s (Ev.dh (s.statusVar.getD 0) false) true b
      (by simp [sndStep, ho1, ho2, ho3, ho4]) (by simp [sndStep]) rfl
    have h3' : K3 { s with respStarted := true, procDone := false, trace := s.trace ++ [Ev.dh (s.statusVar.getD 0) false] } := by
      intro hh
      simp [snd_append, sndStep, ho1, ho2] at hh
    apply finish_plain c ar aq _ hb hrun hcl h3' h6 rfl hsr hdir
    · intro hh; simp [hur] at hh
    · intro hh; simp [hur] at hh
    · intro hh; simp [hur] at hh
    · intro _ _
      have hmore : r.hasData = true ∨ r.hasTrailers = true := by
        cases hd : r.hasData <;> cases ht : r.hasTrailers <;> simp [hd, ht] at heos ⊢
      apply inv_up_state c ar aq _ .UpRecvData
      · obtain ⟨k1, k2, k4, k9, k10, k11, k12, k13, k14, k20, k21, k22, k31⟩ := hb
        exact ⟨k1, k2, k4, k9, k10, k11, k12, k13, k14, k20, k21, k22, k31⟩
      · exact hrun
      · exact hcl
      · exact h3'
      · exact h6
      · rfl
      · exact hsr
      · exact hdir
      · exact h8
      · exact hur
      · exact hlc
      · exact htm
      · refine ⟨by simp [hph, Phase.next], by simp [upPhase], by simp [hresp], by simp, ?_, ?_⟩
        · intro _; simp [respHasMore, hresp]; exact hmore
        · intro hh; cases hh
      · exact h24
      · exact h25
      · exact h28
      · exact how

theorem base_rsReset (c : Cfg) (ar aq : Nat) (s : S) (b : Base c ar aq s) (hcl : s.cleaned = false) :
    Base c ar aq (rsReset c s) := by
  obtain ⟨k1, k2, k4, k9, k10, k11, k12, k13, k14, k20, k21, k22, k31⟩ := b
  have hf := rsReset_facts c s
  refine ⟨k1, k2, k4, ?_, k10, k11, k12, ?_, k14, k20, k21, k22, ?_⟩
  · simp only [K9] at k9 ⊢
    have := hf.2.2
    omega
  · intro hh; simp [hcl] at hh
  · intro hh; rw [hf.1] at hh; exact k31 hh

/-- phase `UpRecvHeader`: retry decision on the upstream response, otherwise the headers go to the client -/
theorem inv_work_urh (c : Cfg) (ar aq : Nat) (s : S) (h : Inv c ar aq s) (hrun : s.running = true)
    (hp : s.phase = .UpRecvHeader) :
    Inv c ar aq (match s.resp with
      | some r => finishPhase c (if processDone s || s.setupRetry then s
                                 else onUpstreamHeaders c s (!r.hasData && !r.hasTrailers))
      | none => { s with phase := s.phase.next }) := by
  have hupp : upPhase s.phase = true := by simp [hp, upPhase]
  obtain ⟨hcl, hpd, hsr, hdir, hur0, hlc, htm⟩ := upCtx h hrun hupp
  obtain ⟨_, hresp, _, _, hrst0, _, _⟩ := h.k15 hcl hupp
  have hrst : s.respStarted = false := by rw [hrst0, hp]; decide
  obtain ⟨r, hr⟩ : ∃ r, s.resp = some r := by
    cases hh : s.resp with
    | none => simp [hh] at hresp
    | some r => exact ⟨r, rfl⟩
  have hopen := snd_open h hcl
  have hopen' : (snd s.trace).ended = false ∧ (snd s.trace).reset = false ∧ (snd s.trace).bad = false ∧ (snd s.trace).hdr = false :=
    ⟨hopen.1, hopen.2.1, hopen.2.2.1, by rw [hopen.2.2.2, hrst]⟩
  have h8 := (h.k8 hcl).1
  have how : c.oneway = false := by
    cases ho : c.oneway with
    | false => rfl
    | true => have := (h.k32 hcl ho).1; rw [hupp] at this; cases this
  rw [hr]
  simp only
  by_cases hdr : s.downReset = true ∨ s.upReset = true
  · -- the client is gone, or ([proxy10]) the open stream of the streamed response was reset before its head went downstream
    have e : (processDone s || s.setupRetry) = true := by rcases hdr with hdr | hdr <;> simp [processDone, hdr]
    rw [if_pos e]
    apply finish_inv c ar aq s h hrun (by rw [hp]; decide) (by intro hh; rw [hp] at hh; cases hh)
    intro h1 h2
    rcases hdr with hdr | hdr
    · rw [hdr] at h2; cases h2
    · rw [hdr] at h1; cases h1
  · simp only [not_or, Bool.not_eq_true] at hdr
    obtain ⟨hdr, hur⟩ := hdr
    have e : (processDone s || s.setupRetry) = false := by simp [processDone, hpd, hdr, hur, hsr]
    rw [if_neg (by simp [e])]
    generalize heos : (!r.hasData && !r.hasTrailers) = eos
    unfold onUpstreamHeaders
    by_cases hrs : s.rs.isSome = true
    rotate_left
    · rw [if_neg hrs]
      exact headers_finish c ar aq s eos r h.base hrun hcl h.k3 h.k6 hpd hsr hdir h8 hur hlc htm hp hr heos.symm hrst hopen'
        h.k24 h.k25 h.k28 how
    rw [if_pos hrs]
    -- the retry decision: only the retry state and the retries resource change
    have hf := rsRetry_facts c s none
    have hb1 := base_rsRetry c ar aq s none h.base hcl
    generalize hs1 : rsRetry c s none = res at hf hb1
    obtain ⟨s1, chk⟩ := res
    simp only at hf hb1 ⊢
    have fr : s1.cleaned = s.cleaned ∧ s1.running = s.running ∧ s1.trace = s.trace ∧ s1.downLive = s.downLive ∧
        s1.downReset = s.downReset ∧ s1.procDone = s.procDone ∧ s1.setupRetry = s.setupRetry ∧ s1.pass = s.pass ∧
        s1.up = s.up ∧ s1.streams = s.streams ∧ s1.respStarted = s.respStarted ∧ s1.phase = s.phase ∧
        s1.direct = s.direct ∧ s1.upReset = s.upReset ∧ s1.perTry = s.perTry ∧ s1.global = s.global ∧ s1.urr = s.urr ∧
        s1.resp = s.resp ∧ s1.reqSent = s.reqSent ∧ s1.globalExpired = s.globalExpired ∧ s1.notify = s.notify ∧
        s1.statusVar = s.statusVar := by
      have := congrArg Prod.fst hs1
      simp only at this
      subst this
      simp
    obtain ⟨f_cl, f_run, f_tr, f_dl, f_dr, f_pd, f_sr, f_ps, f_up, f_st, f_rst, f_ph, f_dir, f_ur, f_pt, f_gt, f_urr, f_resp,
      f_rq, f_ge, f_nt, f_sv⟩ := fr
    have hcl1 : s1.cleaned = false := by rw [f_cl]; exact hcl
    have h3_1 : K3 s1 := by simpa [K3, f_tr, f_cl] using h.k3
    have h6_1 : K6 s1 := by simpa [K6, f_dl, f_dr, f_cl] using h.k6
    have hopen1 : (snd s1.trace).ended = false ∧ (snd s1.trace).reset = false ∧ (snd s1.trace).bad = false ∧
        (snd s1.trace).hdr = false := by rw [f_tr]; exact hopen'
    have htm1 : (s1.perTry = false ∧ s1.global = false) ∨ s1.urr = true := by rw [f_pt, f_gt, f_urr]; exact htm
    have hrs1 : s1.rs.isSome = true := by rw [hf.2.1]; exact hrs
    have h25_1 : K25 c s1 := by intro _ how _; rw [f_ps]; exact h.k25 hcl how hrs
    have h24_1 : K24 c s1 := by
      intro _ how hq _; rw [f_gt, f_ge, f_dir]; exact h.k24 hcl how (by rw [← f_rq]; exact hq) hrs
    have h28_1 : K28 s1 := by
      intro _ hn; rw [f_urr, f_ur, f_dr]; exact h.k28 hcl (by rw [← f_nt]; exact hn)
    -- sending the headers after the decision "no retry"
    have nofin : ∀ s3 : S, (s3 = s1 ∨ s3 = orFlag s1 UpstreamOverflow) →
        Inv c ar aq (finishPhase c (onUpstreamHeadersFinish c (rsReset c s3) eos)) := by
      intro s3 hs3
      have hb3 : Base c ar aq s3 := by
        rcases hs3 with rfl | rfl
        · exact hb1
        · exact base_orFlag c ar aq s1 _ hb1
      have hcl3 : s3.cleaned = false := by rcases hs3 with rfl | rfl <;> simpa [orFlag] using hcl1
      have hb4 := base_rsReset c ar aq s3 hb3 hcl3
      have hf4 := rsReset_facts c s3
      apply headers_finish c ar aq (rsReset c s3) eos r hb4
      · rcases hs3 with rfl | rfl <;> simp [orFlag, f_run, hrun]
      · rcases hs3 with rfl | rfl <;> simp [orFlag, hcl1]
      · rcases hs3 with rfl | rfl <;> simpa [K3, orFlag] using h3_1
      · rcases hs3 with rfl | rfl <;> simpa [K6, orFlag] using h6_1
      · rcases hs3 with rfl | rfl <;> simp [orFlag, f_pd, hpd]
      · rcases hs3 with rfl | rfl <;> simp [orFlag, f_sr, hsr]
      · rcases hs3 with rfl | rfl <;> simp [orFlag, f_dir, hdir]
      · rcases hs3 with rfl | rfl <;> simp [orFlag, f_ps, h8]
      · rcases hs3 with rfl | rfl <;> simp [orFlag, f_ur, hur]
      · have e4 : (rsReset c s3).rs.isSome = s.rs.isSome := by
          rw [hf4.1]; rcases hs3 with rfl | rfl <;> simp [orFlag, hf.2.1]
        rcases hlc with h0 | ⟨h1, h2, h3⟩
        · left; rcases hs3 with rfl | rfl <;> simpa [orFlag, f_st] using h0
        · right
          refine ⟨?_, ?_, by rw [e4]; exact h3⟩
          · rcases hs3 with rfl | rfl <;> simpa [orFlag, f_urr] using h1
          · rcases hs3 with rfl | rfl <;> simpa [orFlag, f_resp] using h2
      · rcases hs3 with rfl | rfl <;> simpa [orFlag] using htm1
      · rcases hs3 with rfl | rfl <;> simp [orFlag, f_ph, hp]
      · rcases hs3 with rfl | rfl <;> simp [orFlag, f_resp, hr]
      · exact heos.symm
      · rcases hs3 with rfl | rfl <;> simp [orFlag, f_rst, hrst]
      · rcases hs3 with rfl | rfl <;> simpa [orFlag] using hopen1
      · intro _ how hq _
        have : s1.reqSent = true := by rcases hs3 with rfl | rfl <;> simpa [orFlag] using hq
        have := h24_1 hcl1 how this hrs1
        rcases hs3 with rfl | rfl <;> simpa [orFlag] using this
      · intro _ how _
        have := h25_1 hcl1 how hrs1
        rcases hs3 with rfl | rfl <;> simpa [orFlag] using this
      · intro _ hn
        have hn1 : s1.notify = true := by rcases hs3 with rfl | rfl <;> simpa [orFlag] using hn
        have := h28_1 hcl1 hn1
        rcases hs3 with rfl | rfl <;> simpa [orFlag] using this
      · exact how
    by_cases hchk : (chk == ShouldRetry) = true
    · simp only [hchk, if_true]
      rw [setupRetry_eq]
      by_cases hexp : (setupRetryChecksExpiry && s1.globalExpired) = true
      · -- the global timeout has expired: no retry, the response goes to the client
        simp only [hexp, if_true, Bool.false_eq_true, if_false]
        have hno : (chk == RetryOverflow) = false := by
          have : chk = ShouldRetry := by simpa using hchk
          rw [this]; decide
        simp only [hno, Bool.false_eq_true, if_false]
        exact nofin s1 (Or.inl rfl)
      · simp only [hexp, Bool.false_eq_true, if_false, if_true]
        have hck : setupRetryChecksExpiry = true := by decide
        have hge : s1.globalExpired = false := by
          cases hg : s1.globalExpired with
          | false => rfl
          | true => simp [hck, hg] at hexp
        -- the retry is set up
        have hled := resetUpstream_ledger c aq { s1 with setupRetry := true } ⟨hb1.k10, hb1.k11, hb1.k14⟩
        have key : ∀ s2 : S, (s2 = { s1 with setupRetry := true } ∨ s2 = resetUpstream c { s1 with setupRetry := true }) →
            liveCount s2.streams = 0 →
            Inv c ar aq (finishPhase c { s2 with perTry := false, urr := false }) := by
          intro s2 hs2 hl20
          have hfr2 : s2.cleaned = false ∧ s2.running = true ∧ snd s2.trace = snd s.trace ∧ nLog s2.trace = nLog s.trace ∧
              s2.downLive = s.downLive ∧ s2.downReset = false ∧ s2.procDone = false ∧ s2.setupRetry = true ∧ s2.pass = s.pass ∧
              s2.up = s.up ∧ s2.respStarted = false ∧ s2.direct = false ∧ s2.upReset = false ∧ s2.global = s.global ∧
              s2.reqSent = s.reqSent ∧ s2.globalExpired = false ∧ s2.rs = s1.rs ∧ s2.retries = s1.retries ∧
              s2.downActive = s1.downActive := by
            rcases hs2 with rfl | rfl
            · simp [hcl1, f_run, hrun, f_tr, f_dl, f_dr, hdr, f_pd, hpd, f_ps, f_up, f_rst, hrst, f_dir, hdir, f_ur, hur, f_gt, f_rq, hge]
            · simp [hcl1, f_run, hrun, f_tr, f_dl, f_dr, hdr, f_pd, hpd, f_ps, f_up, f_rst, hrst, f_dir, hdir, f_ur, hur, f_gt, f_rq, hge]
          obtain ⟨g_cl, g_run, g_snd, g_nl, g_dl, g_dr, g_pd, g_sr, g_ps, g_up, g_rst, g_dir, g_ur, g_gt, g_rq, g_ge, g_rs, g_ret, g_da⟩ := hfr2
          have hl2 : LedgerOk c aq s2 ∧ liveCount s2.streams = 0 ∧ K22 c s2 := by
            rcases hs2 with rfl | rfl
            · exact ⟨⟨hb1.k10, hb1.k11, hb1.k14⟩, hl20, hb1.k22⟩
            · exact ⟨hled.1, allDead_liveCount hled.2, K22_resetUpstream c _ hb1.k22⟩
          have hb2 : Base c ar aq { s2 with perTry := false, urr := false } := by
            obtain ⟨k1, k2, k4, k9, k10, k11, k12, k13, k14, k20, k21, k22, k31⟩ := hb1
            refine ⟨?_, ?_, ?_, ?_, hl2.1.1, hl2.1.2.1, ?_, ?_, hl2.1.2.2, ?_, ?_, hl2.2.2, ?_⟩
            · have := h.k1; simpa [K1, g_snd] using this
            · have := h.k2; simpa [K2, g_snd, g_rst, hrst] using this
            · show nLog s2.trace = _
              rw [g_nl]; have := h.k4; simpa [K4, g_cl, hcl] using this
            · have e1 : heldRetry c { s2 with perTry := false, urr := false } = heldRetry c s1 := by
                unfold heldRetry rsHeld; simp only [g_rs]
              simp only [K9] at k9 ⊢
              rw [e1]; show s2.retries = _; rw [g_ret]; exact k9
            · simpa [K12, g_da, g_cl, hcl1] using k12
            · intro hh; simp [g_cl] at hh
            · intro _; exact hl2.2.1
            · intro ho; exact ⟨rfl, by show s2.global = false; rw [g_gt]; exact (h.k21 ho).2⟩
            · intro hh
              show s2.up.isSome = true
              rw [g_up]; exact h.k31 hrs
          rw [finishPhase_eq, processError_spec]
          rw [if_neg (show ¬ ({ s2 with perTry := false, urr := false } : S).cleaned = true from by simp [g_cl]),
            if_neg (show ¬ ({ s2 with perTry := false, urr := false } : S).upReset = true from by simp [g_ur])]
          have : peTail c { s2 with perTry := false, urr := false } false =
              ({ ({ s2 with perTry := false, urr := false } : S) with up := some none, setupRetry := false }, some .Retry) := by
            unfold peTail
            rw [if_neg (by simp [g_dr]), if_neg (by simp [g_dir]), if_pos (by simp [g_sr, g_up, h.k31 hrs])]
          rw [this]
          show Inv c ar aq (reenter { ({ s2 with perTry := false, urr := false } : S) with up := some none, setupRetry := false } .Retry)
          apply tail_retry c ar aq _ hb2 g_run g_cl how
          · have := h.k3; simpa [K3, g_snd, g_cl, hcl] using this
          · have := h.k6; simpa [K6, g_dl, g_dr, hdr, g_cl, hcl] using this
          · exact g_pd
          · exact g_dir
          · exact g_dr
          · show s2.pass = 0
            rw [g_ps]
            exact h.k25 hcl how hrs
          · show s2.up.isSome = true
            rw [g_up]; exact h.k31 hrs
          · show s2.rs.isSome = true
            rw [g_rs]; exact hrs1
          · rfl
          · exact g_ur
          · exact g_ge
          · intro hq
            show s2.global = true
            rw [g_gt]
            have hq' : s.reqSent = true := by rw [← g_rq]; exact hq
            rcases or3_nd (h.k24 hcl how hq' hrs) hdir with hh | hh
            · exact hh
            · rw [← f_ge, hge] at hh; cases hh
          · exact hl2.2.1
          · exact g_rst
          · rfl
        cases heq : eos with
        | true =>
          simp only [Bool.not_true, Bool.false_eq_true, if_false]
          apply key _ (Or.inl rfl)
          show liveCount s1.streams = 0
          rw [f_st]
          rcases hlc with h0 | ⟨_, h1, _⟩
          · exact h0
          · rw [hr] at h1
            simp only [respHasMore] at h1
            rw [heq] at heos
            cases hd : r.hasData <;> cases ht : r.hasTrailers <;> simp [hd, ht] at heos h1
        | false => simp only [Bool.not_false, if_true]; exact key _ (Or.inr rfl) (allDead_liveCount hled.2)
    · simp only [hchk, Bool.false_eq_true, if_false]
      split
      · exact nofin _ (Or.inr rfl)
      · exact nofin _ (Or.inl rfl)

end MosnVerif.Model.Downstream
