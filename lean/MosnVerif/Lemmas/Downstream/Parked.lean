import MosnVerif.Lemmas.DownstreamProps
/-!
# A waiting worker waits for a live upstream request

Second invariant of the downstream machine, proved on top of `Inv`: every live client stream is listened to by the
proxy's upstream request (`ListenOk`), and while a two-way request is being forwarded / awaited with no event
signalled (no response accepted, no upstream reset, no client reset) its current upstream attempt is live (`AwaitOk`).
Consequence (`parked_live`): a worker parked in `waitNotify` waits for a live upstream request — the Spec clause
"an unfinished started exchange has upActive ≥ 1".
-/
namespace MosnVerif.Model.Downstream
open MosnVerif.Gen.ProxyPhase MosnVerif.Gen.ProxyReason MosnVerif.Gen.ProxyRetry

/-- every live client stream still has the proxy's upstream request as event listener -/
def listenOk (l : List Stream) : Bool := l.all (fun st => !st.live || st.listening)

/-- the phases in which the request is (being) sent and the answer awaited -/
def awaiting (p : Phase) : Bool :=
  p == .DownRecvData || p == .DownRecvTrailer || p == .Oneway || p == .WaitNotify

/-- nothing has been signalled to the worker -/
def quietS (s : S) : Bool := !s.cleaned && awaiting s.phase && !s.urr && !s.upReset && !s.downReset

structure Inv2 (c : Cfg) (s : S) : Prop where
  listen : listenOk s.streams = true
  await : c.oneway = false → quietS s = true → 0 < liveCount s.streams

/-! ### streams -/

theorem listenOk_setStream (l : List Stream) (k : Nat) (f : Stream → Stream)
    (hf : ∀ st, (!st.live || st.listening) = true → (!(f st).live || (f st).listening) = true)
    (h : listenOk l = true) : listenOk (setStream l k f) = true := by
  induction l generalizing k with
  | nil => simpa [setStream] using h
  | cons x r ih =>
    simp only [listenOk, List.all_cons, Bool.and_eq_true] at h
    cases k with
    | zero => simp only [setStream, listenOk, List.all_cons, Bool.and_eq_true]; exact ⟨hf x h.1, h.2⟩
    | succ k =>
      simp only [setStream, listenOk, List.all_cons, Bool.and_eq_true]
      exact ⟨h.1, ih k h.2⟩

theorem listenOk_destroy (c : Cfg) (s : S) (k : Nat) (h : listenOk s.streams = true) :
    listenOk (destroyStream c s k).streams = true := by
  simp only [destroyStream]
  split
  · exact listenOk_setStream _ _ kill (fun _ _ => by simp [kill]) h
  · exact h

theorem listenOk_kill_unlisten (l : List Stream) (k : Nat) (h : listenOk l = true) :
    listenOk (setStream (setStream l k unlisten) k kill) = true := by
  induction l generalizing k with
  | nil => simpa [setStream] using h
  | cons x r ih =>
    simp only [listenOk, List.all_cons, Bool.and_eq_true] at h
    cases k with
    | zero => simp only [setStream, listenOk, List.all_cons, Bool.and_eq_true]; exact ⟨by simp [kill], h.2⟩
    | succ k => simp only [setStream, listenOk, List.all_cons, Bool.and_eq_true]; exact ⟨h.1, ih k h.2⟩

theorem listenOk_unlisten_dead (l : List Stream) (k : Nat) (h : listenOk l = true)
    (hd : (match l[k]? with | some st => st.live | none => false) = false) : listenOk (setStream l k unlisten) = true := by
  induction l generalizing k with
  | nil => simpa [setStream] using h
  | cons x r ih =>
    simp only [listenOk, List.all_cons, Bool.and_eq_true] at h
    cases k with
    | zero =>
      simp at hd
      simp only [setStream, listenOk, List.all_cons, Bool.and_eq_true]
      exact ⟨by simp [unlisten, hd], h.2⟩
    | succ k =>
      simp at hd
      simp only [setStream, listenOk, List.all_cons, Bool.and_eq_true]
      exact ⟨h.1, ih k h.2 (by simpa using hd)⟩

/-- `resetStream()` of the upstream request: the listener is removed and the stream reset — it is dead afterwards -/
theorem listenOk_resetUpstream (c : Cfg) (s : S) (h : listenOk s.streams = true) :
    listenOk (resetUpstream c s).streams = true := by
  unfold resetUpstream
  cases hc : curStream s with
  | none => exact h
  | some k =>
    simp only
    have key : ∀ s1 : S, s1.streams = setStream s.streams k unlisten → listenOk (destroyStream c s1 k).streams = true := by
      intro s1 hs1
      simp only [destroyStream]
      have hl : streamLive s1 k = streamLive s k := by
        simp only [streamLive, hs1, setStream_get]
        cases hk : s.streams[k]? <;> simp [hk, unlisten]
      rw [hl, hs1]
      cases hlv : streamLive s k with
      | true => simp only [if_true]; exact listenOk_kill_unlisten _ _ h
      | false =>
        simp only [Bool.false_eq_true, if_false]
        exact listenOk_unlisten_dead _ _ h (by unfold streamLive at hlv; exact hlv)
    exact key _ rfl

theorem listenOk_append (l : List Stream) (st : Stream) (h : listenOk l = true) (hs : (!st.live || st.listening) = true) :
    listenOk (l ++ [st]) = true := by
  simp only [listenOk, List.all_append, List.all_cons, List.all_nil, Bool.and_true, Bool.and_eq_true] at h ⊢
  exact ⟨h, hs⟩

theorem liveCount_resetUpstream_le (c : Cfg) (aq : Nat) (s : S) (h : LedgerOk c aq s) :
    liveCount (resetUpstream c s).streams = 0 := allDead_liveCount (resetUpstream_ledger c aq s h).2

/-- a live counted stream that is listened to: its reset reaches the proxy -/
theorem listening_of_live (s : S) (k : Nat) (st : Stream) (h : listenOk s.streams = true) (hk : s.streams[k]? = some st)
    (hl : st.live = true) : st.listening = true := by
  simp only [listenOk, List.all_eq_true] at h
  have := h st (List.mem_of_getElem? hk)
  simpa [hl] using this

end MosnVerif.Model.Downstream

namespace MosnVerif.Model.Downstream
open MosnVerif.Gen.ProxyPhase MosnVerif.Gen.ProxyReason MosnVerif.Gen.ProxyRetry

/-! ### `listenOk` through the helpers of the machine -/

theorem listen_cleanUp (c : Cfg) (s : S) : (cleanUp c s).streams = s.streams := by simp

theorem listen_cleanBody (c : Cfg) (s : S) (h : listenOk s.streams = true) : listenOk (cleanBody c s).streams = true := by
  unfold cleanBody
  simp only
  split
  · simpa using listenOk_resetUpstream c _ (by simpa using h)
  · simpa using h

theorem listen_cleanStream (c : Cfg) (s : S) (h : listenOk s.streams = true) : listenOk (cleanStream c s).streams = true := by
  unfold cleanStream; split
  · exact h
  · exact listen_cleanBody c s h

theorem listen_recvFinished (c : Cfg) (s : S) (h : listenOk s.streams = true) :
    listenOk (onUpstreamResponseRecvFinished c s).streams = true := by
  unfold onUpstreamResponseRecvFinished
  simp only
  split
  · simpa using listenOk_resetUpstream c s h
  · simpa using h

theorem listen_setupRetry (c : Cfg) (s : S) (eos : Bool) (h : listenOk s.streams = true) :
    listenOk (setupRetry c s eos).1.streams = true := by
  rw [setupRetry_eq]
  split
  · exact h
  · simp only
    split
    · simpa using listenOk_resetUpstream c _ (by simpa using h)
    · simpa using h

theorem rsRetry_streams' (c : Cfg) (s : S) (r : Option Reason) : (rsRetry c s r).1.streams = s.streams := by simp

theorem listen_resetDownstream (c : Cfg) (s : S) : (resetDownstream c s).streams = s.streams := by
  unfold resetDownstream; split
  · simp only; split <;> simp [dsOnResetStream]
  · rfl

theorem listen_onUpstreamResetFinish (c : Cfg) (s : S) (r : Reason) : (onUpstreamResetFinish c s r).streams = s.streams := by
  unfold onUpstreamResetFinish
  simp only
  split
  · rw [listen_resetDownstream]; simp
  · simp [sendHijack, orFlag]

theorem listen_onUpstreamReset (c : Cfg) (s : S) (h : listenOk s.streams = true) :
    listenOk (onUpstreamReset c s).streams = true := by
  unfold onUpstreamReset
  simp only
  split
  · split
    · -- setupRetry with eos = true never resets the upstream stream
      have : ∀ x : S, (setupRetry c x true).1.streams = x.streams := by
        intro x; rw [setupRetry_eq]; split <;> simp
      split
      · rename_i hs; have := this (rsRetry c s (some s.resetReason)).1; rw [hs] at this; simp at this; simpa [this] using h
      · rename_i hs; have := this (rsRetry c s (some s.resetReason)).1; rw [hs] at this
        rw [listen_onUpstreamResetFinish]; simp at this; simpa [this] using h
    · split
      · rw [listen_onUpstreamResetFinish]; simpa [orFlag] using h
      · rw [listen_onUpstreamResetFinish]; simpa using h
  · rw [listen_onUpstreamResetFinish]; exact h

theorem reenter_streams (s : S) (p : Phase) : (reenter s p).streams = s.streams := by
  unfold reenter; split
  · rfl
  · simp only; split <;> split <;> rfl

theorem reenter_phase (s : S) (p : Phase) : (reenter s p).phase = p := by
  unfold reenter; split
  · rename_i h; simp at h; simp [h]
  · simp only; split <;> split <;> rfl

theorem listen_dsResetStream (c : Cfg) (s : S) (h : listenOk s.streams = true) : listenOk (dsResetStream c s).streams = true := by
  unfold dsResetStream; exact listen_cleanStream c _ h

theorem abandonRetry_streams (s : S) : (abandonRetry s).streams = s.streams := by
  unfold abandonRetry; split <;> rfl

theorem listen_peTail (c : Cfg) (s : S) (e : Bool) (h : listenOk s.streams = true) :
    listenOk (finishOf (peTail c s e)).streams = true := by
  unfold peTail
  split
  · simp only [finishOf, reenter_streams]; exact listen_dsResetStream c s h
  · split
    · simp only []
      split
      · simp only [finishOf, reenter_streams, abandonRetry_streams]; exact h
      · split
        · simp only [finishOf, reenter_streams, abandonRetry_streams]; exact h
        · simp only [finishOf, reenter_streams, abandonRetry_streams]; exact h
    · split
      · simp only [finishOf, reenter_streams]; exact h
      · split <;> (simp only [finishOf, reenter_streams]; exact h)

theorem listen_finishPhase (c : Cfg) (s : S) (h : listenOk s.streams = true) : listenOk (finishPhase c s).streams = true := by
  rw [finishPhase_eq, processError_spec]
  split
  · simp only [finishOf, reenter_streams]; exact h
  · split
    · split
      · simp only [finishOf, reenter_streams]; exact h
      · exact listen_peTail c _ _ (listen_onUpstreamReset c s h)
    · exact listen_peTail c _ _ h

theorem listen_processError (c : Cfg) (s : S) (h : listenOk s.streams = true) :
    listenOk (finishOf (processError c s)).streams = true := by
  rw [← finishPhase_eq]; exact listen_finishPhase c s h

theorem finishOf_streams (r : S × Option Phase) : (finishOf r).streams = r.1.streams := by
  obtain ⟨x, o⟩ := r
  cases o <;> simp [finishOf, reenter_streams]

theorem listen_upAppendHeaders (c : Cfg) (s : S) (eos : Bool) (h : listenOk s.streams = true) :
    listenOk (upAppendHeaders c s eos).streams = true := by
  unfold upAppendHeaders
  split
  · exact h
  · simp only
    split
    · simp only [upOnResetStream]; exact listenOk_append _ _ h rfl
    · exact listenOk_append _ _ h rfl

theorem onUpstreamRequestSent_streams (c : Cfg) (s : S) : (onUpstreamRequestSent c s).streams = s.streams := rfl

theorem listen_receiveHeaders (c : Cfg) (s : S) (eos : Bool) (h : listenOk s.streams = true) :
    listenOk (receiveHeaders c s eos).streams = true := by
  unfold receiveHeaders
  simp only
  split
  · rw [onUpstreamRequestSent_streams]; exact listen_upAppendHeaders c s eos h
  · exact listen_upAppendHeaders c s eos h

theorem listen_receiveData (c : Cfg) (s : S) (eos : Bool) (h : listenOk s.streams = true) :
    listenOk (receiveData c s eos).streams = true := by
  unfold receiveData
  split
  · exact h
  · simp only
    have key : ∀ x : S, x.streams = s.streams → listenOk (if x.procDone = true then cleanStream c x else x).streams = true := by
      intro x hx
      split
      · apply listen_cleanStream; rw [hx]; exact h
      · rw [hx]; exact h
    apply key
    simp only [upAppendData]
    split <;> rfl

theorem listen_receiveTrailers (c : Cfg) (s : S) (h : listenOk s.streams = true) :
    listenOk (receiveTrailers c s).streams = true := by
  unfold receiveTrailers
  split
  · exact h
  · simp only
    have key : ∀ x : S, x.streams = s.streams → listenOk (if x.procDone = true then cleanStream c x else x).streams = true := by
      intro x hx
      split
      · apply listen_cleanStream; rw [hx]; exact h
      · rw [hx]; exact h
    apply key
    rfl

theorem listen_chooseHost (c : Cfg) (s : S) : (chooseHost c s).streams = s.streams := by
  unfold chooseHost
  simp only
  split <;> (try split) <;> simp [sendHijack, orFlag]

theorem listen_doRetry (c : Cfg) (s : S) (h : listenOk s.streams = true) : listenOk (doRetry c s).streams = true := by
  rw [doRetry_eq]
  split
  · exact h
  split
  · simpa [upOnResetStream] using h
  unfold doRetryBody
  split
  · split <;> simpa [sendHijack] using h
  · simp only
    have h1 := listen_upAppendHeaders c { s with up := some none, setupRetry := false } (!c.hasData && !c.hasTrailers) h
    generalize upAppendHeaders c { s with up := some none, setupRetry := false } (!c.hasData && !c.hasTrailers) = a at h1
    have h2 : listenOk (if c.hasData = true then upAppendData a (!c.hasTrailers) else a).streams = true := by
      split <;> simpa [upAppendData] using h1
    generalize (if c.hasData = true then upAppendData a (!c.hasTrailers) else a) = b at h2
    have h3 : listenOk (if c.hasTrailers = true then upAppendTrailers b else b).streams = true := by
      split <;> simpa [upAppendTrailers] using h2
    generalize (if c.hasTrailers = true then upAppendTrailers b else b) = d at h3
    split <;> simpa [onUpstreamRequestSent, setupPerReqTimeout] using h3

theorem listen_dsAppend (c : Cfg) (s : S) (h : listenOk s.streams = true) :
    (∀ eos, listenOk (dsAppendHeaders c s eos).streams = true) ∧ (∀ eos, listenOk (dsAppendData c s eos).streams = true) ∧
    listenOk (dsAppendTrailers c s).streams = true := by
  refine ⟨fun eos => ?_, fun eos => ?_, ?_⟩
  · unfold dsAppendHeaders emit endStream; simp only; split
    · apply listen_cleanStream; simpa using h
    · simpa using h
  · unfold dsAppendData emit endStream; simp only; split
    · apply listen_cleanStream; simpa using h
    · simpa using h
  · unfold dsAppendTrailers emit endStream; simp only
    apply listen_cleanStream; simpa using h

theorem listen_headersFinish (c : Cfg) (s : S) (eos : Bool) (h : listenOk s.streams = true) :
    listenOk (onUpstreamHeadersFinish c s eos).streams = true := by
  unfold onUpstreamHeadersFinish
  simp only
  apply (listen_dsAppend c _ _).1
  split
  · exact listen_recvFinished c _ (by simpa using h)
  · simpa using h

theorem rsReset_streams' (c : Cfg) (s : S) : (rsReset c s).streams = s.streams := by simp

theorem listen_onUpstreamHeaders (c : Cfg) (s : S) (eos : Bool) (h : listenOk s.streams = true) :
    listenOk (onUpstreamHeaders c s eos).streams = true := by
  unfold onUpstreamHeaders
  split
  · simp only
    have h1 : listenOk (rsRetry c s none).1.streams = true := by rw [rsRetry_streams']; exact h
    generalize rsRetry c s none = res at h1
    obtain ⟨s1, chk⟩ := res
    simp only at h1 ⊢
    by_cases hc : (chk == ShouldRetry) = true
    · simp only [hc, if_true]
      have h2 := listen_setupRetry c s1 eos h1
      generalize setupRetry c s1 eos = r2 at h2
      obtain ⟨s2, b⟩ := r2
      simp only at h2 ⊢
      cases b
      · simp only [Bool.false_eq_true, if_false]
        split
        · apply listen_headersFinish; rw [rsReset_streams']; simpa [orFlag] using h2
        · apply listen_headersFinish; rw [rsReset_streams']; exact h2
      · simpa using h2
    · simp only [hc, Bool.false_eq_true, if_false]
      split
      · apply listen_headersFinish; rw [rsReset_streams']; simpa [orFlag] using h1
      · apply listen_headersFinish; rw [rsReset_streams']; exact h1
  · exact listen_headersFinish c s eos h

theorem listen_onUpstreamData (c : Cfg) (s : S) (eos : Bool) (h : listenOk s.streams = true) :
    listenOk (onUpstreamData c s eos).streams = true := by
  unfold onUpstreamData
  simp only
  apply (listen_dsAppend c _ _).2.1
  split
  · exact listen_recvFinished c s h
  · exact h

theorem listen_onUpstreamTrailers (c : Cfg) (s : S) (h : listenOk s.streams = true) :
    listenOk (onUpstreamTrailers c s).streams = true := by
  unfold onUpstreamTrailers
  exact (listen_dsAppend c _ (listen_recvFinished c s h)).2.2

/-- the worker label keeps every live stream listened to -/
theorem listen_work (c : Cfg) (s : S) (h : listenOk s.streams = true) : listenOk (work c s).streams = true := by
  unfold work
  split
  · exact h
  split
  · exact h
  split
  · exact h
  · exact listen_finishPhase c s h
  · exact listen_finishPhase c s h
  · exact listen_finishPhase c s h
  · apply listen_finishPhase; rw [listen_chooseHost]; exact h
  · exact listen_finishPhase c s h
  · exact listen_finishPhase c _ (listen_receiveHeaders c s _ h)
  · split
    · exact listen_finishPhase c _ (listen_receiveData c s _ h)
    · exact h
  · split
    · exact listen_finishPhase c _ (listen_receiveTrailers c s h)
    · exact h
  · split
    · have h1 := listen_processError c _ (listen_cleanStream c s h)
      rw [finishOf_streams] at h1
      generalize processError c (cleanStream c s) = r at h1 ⊢
      obtain ⟨x, o⟩ := r
      cases o <;> simpa [reenter_streams] using h1
    · exact h
  · exact listen_finishPhase c _ (listen_doRetry c s h)
  · split
    · exact listen_finishPhase c _ (by simpa using h)
    · exact h
  · have h1 := listen_processError c s h
    rw [finishOf_streams] at h1
    generalize processError c s = r at h1 ⊢
    obtain ⟨x, o⟩ := r
    cases o <;> simpa [reenter_streams] using h1
  · split
    · apply listen_finishPhase
      split
      · exact h
      · exact listen_onUpstreamHeaders c s _ h
    · exact h
  · split
    · split
      · apply listen_finishPhase
        split
        · exact h
        · exact listen_onUpstreamData c s _ h
      · exact h
    · exact h
  · split
    · split
      · apply listen_finishPhase
        split
        · exact h
        · exact listen_onUpstreamTrailers c s h
      · exact h
    · exact h
  · exact h

end MosnVerif.Model.Downstream

namespace MosnVerif.Model.Downstream
open MosnVerif.Gen.ProxyPhase MosnVerif.Gen.ProxyReason MosnVerif.Gen.ProxyRetry

theorem quietS_iff (s : S) : quietS s = true ↔
    s.cleaned = false ∧ awaiting s.phase = true ∧ s.urr = false ∧ s.upReset = false ∧ s.downReset = false := by
  simp only [quietS, Bool.and_eq_true, Bool.not_eq_true']
  constructor
  · rintro ⟨⟨⟨⟨a, b⟩, c⟩, d⟩, e⟩; exact ⟨a, b, c, d, e⟩
  · rintro ⟨a, b, c, d, e⟩; exact ⟨⟨⟨⟨a, b⟩, c⟩, d⟩, e⟩

/-- two states that agree on what `quietS` reads and on the client streams -/
theorem await_transfer {c : Cfg} {s r : S} (h2 : Inv2 c s) (hcl : r.cleaned = s.cleaned) (hph : r.phase = s.phase)
    (hu : r.urr = s.urr) (hur : r.upReset = s.upReset) (hdr : r.downReset = s.downReset) (hst : r.streams = s.streams) :
    c.oneway = false → quietS r = true → 0 < liveCount r.streams := by
  intro how hq
  rw [hst]
  apply h2.await how
  rw [quietS_iff] at hq ⊢
  rw [← hcl, ← hph, ← hu, ← hur, ← hdr]; exact hq

theorem not_cleaned_facts {c : Cfg} {ar aq : Nat} {s : S} (h : Inv c ar aq s) (hcl : s.cleaned = false) :
    s.procDone = false ∧ s.setupRetry = false := by
  refine ⟨?_, (h.k7 hcl).1⟩
  cases hp : s.procDone with
  | false => rfl
  | true => have := h.k5 hp; rw [hcl] at this; cases this

/-! ### the labels of other goroutines -/

theorem inv2_terminate (c : Cfg) (s : S) (code : Nat) (h2 : Inv2 c s) : Inv2 c (terminateL c s code) := by
  rw [terminateL_eq]
  unfold terminateAcc
  split
  · exact h2
  split
  · exact h2
  split
  · exact h2
  split
  · exact h2
  · refine ⟨by simpa using listenOk_resetUpstream c s h2.listen, fun how hq => ?_⟩
    exfalso
    rw [quietS_iff] at hq
    have := hq.2.2.1
    simp at this

theorem inv2_async (c : Cfg) (ar aq : Nat) (s : S) (l : Label) (hl : l ≠ .work) (h : Inv c ar aq s) (h2 : Inv2 c s) :
    Inv2 c (step c s l) := by
  cases l with
  | work => exact absurd rfl hl
  | gtInSetup b =>
    simp only [step, gtInSetup]
    split
    · exact h2
    · rename_i hcond
      simp only [Bool.not_eq_true', Bool.not_eq_false, Bool.and_eq_true, backoff, beq_iff_eq] at hcond
      refine ⟨h2.listen, fun how hq => ?_⟩
      exfalso
      rw [quietS_iff] at hq
      have := hq.2.1
      simp [hcond.1.2, awaiting] at this
  | lateResp k d t =>
    simp only [step]
    rw [lateBackoff_noop c ar aq s k d t h]
    exact h2
  | poolFail f => exact ⟨h2.listen, await_transfer h2 rfl rfl rfl rfl rfl rfl⟩
  | hostsGone => exact ⟨h2.listen, await_transfer h2 rfl rfl rfl rfl rfl rfl⟩
  | upResp k code d t =>
    simp only [step, upResp]
    cases hk : s.streams[k]? with
    | none => exact h2
    | some st =>
      simp only
      split
      · exact h2
      · split
        · exact h2
        · rename_i _ hnu
          simp only [Bool.not_eq_true] at hnu
          refine ⟨by simpa using listenOk_destroy c s k h2.listen, fun how hq => ?_⟩
          exfalso
          rw [quietS_iff] at hq
          obtain ⟨q1, _, q3, q4, q5⟩ := hq
          have q1 : s.cleaned = false := by simpa using q1
          obtain ⟨hpd, hsr⟩ := not_cleaned_facts h q1
          have q4 : s.upReset = false := by simpa using q4
          have q5 : s.downReset = false := by simpa using q5
          simp [processDone, hpd, hsr, q4, q5, hnu] at q3
  | upRespS k code d t =>
    simp only [step, upRespS]
    split
    · -- a head that ends the stream is a complete response
      simp only [upResp]
      cases hk : s.streams[k]? with
      | none => exact h2
      | some st =>
        simp only
        split
        · exact h2
        · split
          · exact h2
          · rename_i _ hnu
            simp only [Bool.not_eq_true] at hnu
            refine ⟨by simpa using listenOk_destroy c s k h2.listen, fun how hq => ?_⟩
            exfalso
            rw [quietS_iff] at hq
            obtain ⟨q1, _, q3, q4, q5⟩ := hq
            have q1 : s.cleaned = false := by simpa using q1
            obtain ⟨hpd, hsr⟩ := not_cleaned_facts h q1
            have q4 : s.upReset = false := by simpa using q4
            have q5 : s.downReset = false := by simpa using q5
            simp [processDone, hpd, hsr, q4, q5, hnu] at q3
    · cases hk : s.streams[k]? with
      | none => exact h2
      | some st =>
        simp only
        split
        · exact h2
        · split
          · exact h2
          · rename_i _ hnu
            simp only [Bool.not_eq_true] at hnu
            refine ⟨h2.listen, fun how hq => ?_⟩
            exfalso
            rw [quietS_iff] at hq
            obtain ⟨q1, _, q3, q4, q5⟩ := hq
            have q1 : s.cleaned = false := q1
            obtain ⟨hpd, hsr⟩ := not_cleaned_facts h q1
            have q4 : s.upReset = false := q4
            have q5 : s.downReset = false := q5
            simp [processDone, hpd, hsr, q4, q5, hnu] at q3
  | upEnd k =>
    simp only [step, upEndL]
    cases hk : s.streams[k]? with
    | none => exact h2
    | some st =>
      simp only
      split
      · exact h2
      · rename_i hcond
        simp only [Bool.or_eq_true, Bool.not_eq_true', not_or, Bool.not_eq_false] at hcond
        refine ⟨listenOk_destroy c s k h2.listen, fun how hq => ?_⟩
        exfalso
        rw [quietS_iff] at hq
        have : s.urr = false := by simpa using hq.2.2.1
        rw [hcond.2] at this; cases this
  | upReset k r =>
    simp only [step, upResetL]
    cases hk : s.streams[k]? with
    | none => exact h2
    | some st =>
      simp only
      split
      · exact h2
      · rename_i hcond
        simp only [Bool.or_eq_true, Bool.not_eq_true', not_or, Bool.not_eq_false] at hcond
        obtain ⟨⟨hreal, hlive⟩, hcounted⟩ := hcond
        · have hlis := listening_of_live s k st h2.listen hk hlive
          rw [hlis]
          simp only [if_true]
          refine ⟨by simpa [upOnResetStream] using listenOk_destroy c (upOnResetStream s r) k (by simpa [upOnResetStream] using h2.listen),
            fun how hq => ?_⟩
          exfalso
          rw [quietS_iff] at hq
          obtain ⟨q1, _, _, q4, _⟩ := hq
          have q1 : s.cleaned = false := by simpa [upOnResetStream] using q1
          obtain ⟨_, hsr⟩ := not_cleaned_facts h q1
          simp [upOnResetStream, hsr] at q4
  | perTryFire =>
    simp only [step, perTryFire]
    split
    · exact h2
    · split
      · exact ⟨h2.listen, await_transfer h2 rfl rfl rfl rfl rfl rfl⟩
      · split
        · exact ⟨h2.listen, await_transfer h2 rfl rfl rfl rfl rfl rfl⟩
        · split
          · refine ⟨by simpa [upOnResetStream, orFlag] using listenOk_resetUpstream c _ (by simpa using h2.listen), fun how hq => ?_⟩
            exfalso
            rw [quietS_iff] at hq
            have := hq.2.2.1
            simp [upOnResetStream, orFlag] at this
          · refine ⟨h2.listen, fun how hq => ?_⟩
            exfalso
            rw [quietS_iff] at hq
            have := hq.2.2.1
            simp at this
  | globalFire =>
    simp only [step, globalFire]
    split
    · exact h2
    · split
      · exact ⟨h2.listen, await_transfer h2 rfl rfl rfl rfl rfl rfl⟩
      · split
        · split
          · exact ⟨h2.listen, await_transfer h2 rfl rfl rfl rfl rfl rfl⟩
          · split
            · refine ⟨by simpa [upOnResetStream] using listenOk_resetUpstream c _ (by simpa using h2.listen), fun how hq => ?_⟩
              exfalso
              rw [quietS_iff] at hq
              have := hq.2.2.1
              simp [upOnResetStream] at this
            · refine ⟨h2.listen, fun how hq => ?_⟩
              exfalso
              rw [quietS_iff] at hq
              have := hq.2.2.1
              simp at this
        · split
          · exact ⟨h2.listen, await_transfer h2 rfl rfl rfl rfl rfl rfl⟩
          · split
            · refine ⟨by simpa [upOnResetStream] using listenOk_resetUpstream c _ (by simpa using h2.listen), fun how hq => ?_⟩
              exfalso
              rw [quietS_iff] at hq
              have := hq.2.2.1
              simp [upOnResetStream] at this
            · refine ⟨h2.listen, fun how hq => ?_⟩
              exfalso
              rw [quietS_iff] at hq
              have := hq.2.2.1
              simp at this
  | downReset r =>
    simp only [step, downResetL]
    split
    · exact h2
    · refine ⟨h2.listen, fun how hq => ?_⟩
      exfalso
      rw [quietS_iff] at hq
      have := hq.2.2.2.2
      simp [dsOnResetStream] at this
  | connClose =>
    simp only [step, connClose]
    split
    · exact h2
    · refine ⟨h2.listen, fun how hq => ?_⟩
      exfalso
      rw [quietS_iff] at hq
      have := hq.2.2.2.2
      simp [dsOnResetStream] at this
  | terminate code => exact inv2_terminate c s code h2
  | terminateStale g code =>
    simp only [step]
    rw [terminateStale_eq]
    split
    · exact inv2_terminate c s code h2
    · exact h2
  | terminateRaced code k d t =>
    simp only [step]
    rw [terminateRaced_eq]
    exact inv2_terminate c s code h2

end MosnVerif.Model.Downstream

namespace MosnVerif.Model.Downstream
open MosnVerif.Gen.ProxyPhase MosnVerif.Gen.ProxyReason MosnVerif.Gen.ProxyRetry

/-! ### the worker label -/

theorem not_quiet_reenter (s : S) (p : Phase) (hp : awaiting p = false) : quietS (reenter s p) = false := by
  cases hq : quietS (reenter s p) with
  | false => rfl
  | true =>
    rw [quietS_iff] at hq
    rw [reenter_phase, hp] at hq
    cases hq.2.1

/-- the end of a phase leaves the worker quiet only when `processError` found nothing: it just moved on -/
theorem finish_quiet (c : Cfg) (s : S) (how : c.oneway = false) (hcl : s.cleaned = false)
    (hq : quietS (finishPhase c s) = true) :
    finishPhase c s = { s with phase := s.phase.next } ∧ s.upReset = false ∧ s.downReset = false ∧ s.direct = false := by
  have tail : ∀ (g : S) (e : Bool), quietS (finishOf (peTail c g e)) = true →
      e = false ∧ finishOf (peTail c g e) = { g with phase := g.phase.next } ∧ g.downReset = false ∧ g.direct = false := by
    intro g e hq
    unfold peTail at hq ⊢
    by_cases hd : g.downReset = true
    · rw [if_pos hd] at hq
      simp only [finishOf] at hq
      rw [not_quiet_reenter _ _ (by decide)] at hq; cases hq
    · rw [if_neg hd] at hq ⊢
      by_cases hdi : g.direct = true
      · rw [if_pos hdi] at hq
        simp only [how, Bool.false_eq_true, if_false] at hq
        by_cases hp : g.phase ≠ .UpFilter
        · rw [if_pos hp] at hq
          simp only [finishOf] at hq
          rw [not_quiet_reenter _ _ (by decide)] at hq; cases hq
        · rw [if_neg hp] at hq
          have hp : g.phase = .UpFilter := by simpa using hp
          have hph : (abandonRetry { g with direct := false, rs := none, retries := (rsReset c g).retries }).phase = g.phase := by
            unfold abandonRetry; split <;> rfl
          generalize abandonRetry { g with direct := false, rs := none, retries := (rsReset c g).retries } = y at hq hph
          simp only [finishOf] at hq
          rw [quietS_iff] at hq
          have := hq.2.1
          simp [hph, hp, Phase.next, awaiting] at this
      · rw [if_neg hdi] at hq ⊢
        by_cases hsr : (g.up.isSome && g.setupRetry) = true
        · rw [if_pos hsr] at hq
          simp only [finishOf] at hq
          rw [not_quiet_reenter _ _ (by decide)] at hq; cases hq
        · rw [if_neg hsr] at hq ⊢
          by_cases he : (e || g.procDone) = true
          · rw [if_pos he] at hq
            simp only [finishOf] at hq
            rw [not_quiet_reenter _ _ (by decide)] at hq; cases hq
          · rw [if_neg he]
            simp only [Bool.or_eq_true, not_or, Bool.not_eq_true] at he
            exact ⟨he.1, rfl, by simpa using hd, by simpa using hdi⟩
  rw [finishPhase_eq, processError_spec] at hq ⊢
  rw [if_neg (by simp [hcl])] at hq ⊢
  by_cases hur : s.upReset = true
  · rw [if_pos hur, if_neg (by simp [how])] at hq
    have := (tail _ _ hq).1
    cases this
  · rw [if_neg hur] at hq ⊢
    obtain ⟨_, h2, h3, h4⟩ := tail _ _ hq
    exact ⟨h2, by simpa using hur, h3, h4⟩

/-- a freshly admitted client stream of a two-way request is live and counted -/
theorem upAppendHeaders_quiet (c : Cfg) (s : S) (eos : Bool) (how : c.oneway = false) (hpd : s.procDone = false)
    (hsr : s.setupRetry = false)
    (hq : (upAppendHeaders c s eos).upReset = false ∧ (upAppendHeaders c s eos).downReset = false) :
    0 < liveCount (upAppendHeaders c s eos).streams := by
  unfold upAppendHeaders at hq ⊢
  by_cases hp : processDone s = true
  · rw [if_pos hp] at hq
    simp [processDone, hpd, hq.1, hq.2] at hp
  · rw [if_neg hp] at hq ⊢
    simp only at hq ⊢
    cases ho : poolOutcome c s with
    | some f =>
      simp only [ho] at hq
      have hur : s.upReset = false := by
        cases hu : s.upReset with
        | false => rfl
        | true => simp [processDone, hu] at hp
      simp [upOnResetStream, hsr, hur] at hq
    | none =>
      simp only [ho]
      rw [liveCount_append]
      simp [how]

theorem receiveHeaders_quiet (c : Cfg) (s : S) (eos : Bool) (how : c.oneway = false) (hpd : s.procDone = false)
    (hsr : s.setupRetry = false)
    (hq : (receiveHeaders c s eos).upReset = false ∧ (receiveHeaders c s eos).downReset = false) :
    0 < liveCount (receiveHeaders c s eos).streams := by
  unfold receiveHeaders at hq ⊢
  simp only at hq ⊢
  cases eos
  · simp only [Bool.false_eq_true, if_false] at hq ⊢
    exact upAppendHeaders_quiet c s _ how hpd hsr hq
  · simp only [if_true] at hq ⊢
    exact upAppendHeaders_quiet c s _ how hpd hsr hq

theorem doRetry_quiet (c : Cfg) (s : S) (how : c.oneway = false) (hpd : s.procDone = false) (hsr : s.setupRetry = false)
    (hq : (doRetry c s).upReset = false ∧ (doRetry c s).downReset = false ∧ (doRetry c s).direct = false) :
    0 < liveCount (doRetry c s).streams := by
  rw [doRetry_eq] at hq ⊢
  by_cases hdt : s.direct = true
  · rw [if_pos hdt] at hq
    have := hq.2.2; rw [hdt] at this; cases this
  rw [if_neg hdt] at hq ⊢
  by_cases hx : (s.globalExpired && s.up.isSome) = true
  · -- the global timeout is raised: an upstream reset is pending
    rw [if_pos hx] at hq
    have := hq.1
    simp [upOnResetStream, hsr] at this
  rw [if_neg hx] at hq ⊢
  unfold doRetryBody at hq ⊢
  by_cases hg : s.hostsGone = true
  · rw [if_pos hg] at hq
    have := hq.2.2
    simp [sendHijack] at this
  · rw [if_neg hg] at hq ⊢
    simp only at hq ⊢
    -- the data / trailers / timer steps do not touch the streams and the reset flags
    have key : ∀ a : S,
        (({ (if (!(hasTimerObj (if c.hasTrailers = true then upAppendTrailers (if c.hasData = true then upAppendData a (!c.hasTrailers) else a) else (if c.hasData = true then upAppendData a (!c.hasTrailers) else a)))) = true
            then onUpstreamRequestSent c (if c.hasTrailers = true then upAppendTrailers (if c.hasData = true then upAppendData a (!c.hasTrailers) else a) else (if c.hasData = true then upAppendData a (!c.hasTrailers) else a))
            else setupPerReqTimeout c (if c.hasTrailers = true then upAppendTrailers (if c.hasData = true then upAppendData a (!c.hasTrailers) else a) else (if c.hasData = true then upAppendData a (!c.hasTrailers) else a)))
            with reqSent := true, recvDone := true } : S).streams = a.streams) ∧
        (({ (if (!(hasTimerObj (if c.hasTrailers = true then upAppendTrailers (if c.hasData = true then upAppendData a (!c.hasTrailers) else a) else (if c.hasData = true then upAppendData a (!c.hasTrailers) else a)))) = true
            then onUpstreamRequestSent c (if c.hasTrailers = true then upAppendTrailers (if c.hasData = true then upAppendData a (!c.hasTrailers) else a) else (if c.hasData = true then upAppendData a (!c.hasTrailers) else a))
            else setupPerReqTimeout c (if c.hasTrailers = true then upAppendTrailers (if c.hasData = true then upAppendData a (!c.hasTrailers) else a) else (if c.hasData = true then upAppendData a (!c.hasTrailers) else a)))
            with reqSent := true, recvDone := true } : S).upReset = a.upReset) ∧
        (({ (if (!(hasTimerObj (if c.hasTrailers = true then upAppendTrailers (if c.hasData = true then upAppendData a (!c.hasTrailers) else a) else (if c.hasData = true then upAppendData a (!c.hasTrailers) else a)))) = true
            then onUpstreamRequestSent c (if c.hasTrailers = true then upAppendTrailers (if c.hasData = true then upAppendData a (!c.hasTrailers) else a) else (if c.hasData = true then upAppendData a (!c.hasTrailers) else a))
            else setupPerReqTimeout c (if c.hasTrailers = true then upAppendTrailers (if c.hasData = true then upAppendData a (!c.hasTrailers) else a) else (if c.hasData = true then upAppendData a (!c.hasTrailers) else a)))
            with reqSent := true, recvDone := true } : S).downReset = a.downReset) := by
      intro a
      refine ⟨?_, ?_, ?_⟩ <;>
        (cases c.hasData <;> cases c.hasTrailers <;>
          simp [upAppendData, upAppendTrailers, onUpstreamRequestSent, setupPerReqTimeout] <;> split <;> rfl)
    obtain ⟨k1, k2, k3⟩ := key (upAppendHeaders c { s with up := some none, setupRetry := false } (!c.hasData && !c.hasTrailers))
    rw [k1]
    exact upAppendHeaders_quiet c { s with up := some none, setupRetry := false } _ how hpd rfl
      ⟨by rw [← k2]; exact hq.1, by rw [← k3]; exact hq.2.1⟩

/-! the response-side bodies leave the phase alone -/

theorem cleanStream_phase (c : Cfg) (s : S) : (cleanStream c s).phase = s.phase := by
  unfold cleanStream; split <;> simp

theorem dsAppend_phase (c : Cfg) (s : S) :
    (∀ eos, (dsAppendHeaders c s eos).phase = s.phase) ∧ (∀ eos, (dsAppendData c s eos).phase = s.phase) ∧
    (dsAppendTrailers c s).phase = s.phase := by
  refine ⟨fun eos => ?_, fun eos => ?_, ?_⟩
  · unfold dsAppendHeaders emit endStream; simp only; split <;> simp [cleanStream_phase]
  · unfold dsAppendData emit endStream; simp only; split <;> simp [cleanStream_phase]
  · unfold dsAppendTrailers emit endStream; simp [cleanStream_phase]

theorem headersFinish_phase (c : Cfg) (s : S) (eos : Bool) : (onUpstreamHeadersFinish c s eos).phase = s.phase := by
  unfold onUpstreamHeadersFinish
  simp only
  rw [(dsAppend_phase c _).1]
  split <;> simp

theorem setupRetry_phase (c : Cfg) (s : S) (eos : Bool) : (setupRetry c s eos).1.phase = s.phase := by
  rw [setupRetry_eq]; split
  · rfl
  · simp only; split <;> simp

theorem onUpstreamHeaders_phase (c : Cfg) (s : S) (eos : Bool) : (onUpstreamHeaders c s eos).phase = s.phase := by
  unfold onUpstreamHeaders
  split
  · simp only
    have h1 : (rsRetry c s none).1.phase = s.phase := by simp
    generalize rsRetry c s none = res at h1
    obtain ⟨s1, chk⟩ := res
    simp only at h1 ⊢
    by_cases hc : (chk == ShouldRetry) = true
    · simp only [hc, if_true]
      have h2 := setupRetry_phase c s1 eos
      generalize setupRetry c s1 eos = r2 at h2
      obtain ⟨s2, b⟩ := r2
      simp only at h2 ⊢
      cases b
      · simp only [Bool.false_eq_true, if_false]
        split <;> simp [headersFinish_phase, orFlag, h2, h1]
      · simp [h2, h1]
    · simp only [hc, Bool.false_eq_true, if_false]
      split <;> simp [headersFinish_phase, orFlag, h1]
  · exact headersFinish_phase c s eos

theorem onUpstreamData_phase (c : Cfg) (s : S) (eos : Bool) : (onUpstreamData c s eos).phase = s.phase := by
  unfold onUpstreamData
  simp only
  rw [(dsAppend_phase c _).2.1]
  split <;> simp

theorem onUpstreamTrailers_phase (c : Cfg) (s : S) : (onUpstreamTrailers c s).phase = s.phase := by
  unfold onUpstreamTrailers
  rw [(dsAppend_phase c _).2.2]; simp

theorem chooseHost_phase (c : Cfg) (s : S) : (chooseHost c s).phase = s.phase := by
  unfold chooseHost; simp only; split <;> (try split) <;> simp [sendHijack, orFlag]

theorem inv2_work (c : Cfg) (ar aq : Nat) (s : S) (h : Inv c ar aq s) (h2 : Inv2 c s) : Inv2 c (work c s) := by
  refine ⟨listen_work c s h2.listen, fun how hq => ?_⟩
  by_cases hrun : s.running = true
  rotate_left
  · have : work c s = s := by unfold work; simp [hrun]
    rw [this] at hq ⊢; exact h2.await how hq
  have hcl := inv_not_cleaned h hrun
  obtain ⟨hpd, hsr⟩ := not_cleaned_facts h hcl
  by_cases hbw : bodyWait s = true
  · have : work c s = s := by unfold work; simp [hrun, hbw]
    rw [this] at hq ⊢; exact h2.await how hq
  -- a phase whose successor is not an awaiting phase: `finishPhase` cannot leave the worker quiet
  have dead : ∀ g : S, awaiting g.phase.next = false → quietS (finishPhase c g) = true → False := by
    intro g hn hq'
    cases hg : g.cleaned with
    | false =>
      have := (finish_quiet c g how hg hq').1
      rw [this, quietS_iff] at hq'
      have h1 : awaiting g.phase.next = true := hq'.2.1
      rw [hn] at h1; cases h1
    | true =>
      rw [finishPhase_eq, processError_spec] at hq'
      simp only [hg, if_true, finishOf] at hq'
      rw [not_quiet_reenter _ _ (by decide)] at hq'; cases hq'
  have nxt : ∀ g : S, awaiting g.phase = false → quietS g = true → False := by
    intro g hn hq'
    rw [quietS_iff] at hq'
    have := hq'.2.1; rw [hn] at this; cases this
  -- the forwarding phases keep the client streams and the flags of the state they start from
  have pass : ∀ g : S, g.streams = s.streams → g.urr = s.urr → g.upReset = s.upReset → g.downReset = s.downReset →
      g.cleaned = false → g.phase = s.phase → awaiting s.phase = true → quietS (finishPhase c g) = true →
      0 < liveCount (finishPhase c g).streams := by
    intro g e1 e2 e3 e4 e5 e6 hph hq'
    obtain ⟨f1, f2, f3, _⟩ := finish_quiet c g how e5 hq'
    rw [f1] at hq' ⊢
    show 0 < liveCount g.streams
    rw [e1]
    apply h2.await how
    rw [quietS_iff] at hq' ⊢
    exact ⟨hcl, hph, by rw [← e2]; exact hq'.2.2.1, by rw [← e3]; exact f2, by rw [← e4]; exact f3⟩
  unfold work at hq ⊢
  rw [if_neg (by simp [hrun]), if_neg hbw] at hq ⊢
  split at hq
  · exact (nxt _ (by rename_i hp; simp [hp, Phase.next, awaiting]) hq).elim
  · exact (dead s (by rename_i hp; rw [hp]; decide) hq).elim
  · exact (dead s (by rename_i hp; rw [hp]; decide) hq).elim
  · exact (dead s (by rename_i hp; rw [hp]; decide) hq).elim
  · exact (dead _ (by rename_i hp; rw [chooseHost_phase, hp]; decide) hq).elim
  · exact (dead s (by rename_i hp; rw [hp]; decide) hq).elim
  · -- DownRecvHeader: the first NewStream
    rename_i hp
    have hcl' : (receiveHeaders c s (!c.hasData && !c.hasTrailers)).cleaned = false := by
      unfold receiveHeaders upAppendHeaders
      simp only
      split <;> (try split) <;> (try split) <;> simp [onUpstreamRequestSent, upOnResetStream, hcl]
    obtain ⟨f1, f2, f3, _⟩ := finish_quiet c _ how hcl' hq
    rw [f1]
    exact receiveHeaders_quiet c s _ how hpd hsr ⟨f2, f3⟩
  · -- DownRecvData
    rename_i hp
    split at hq
    · rename_i hd
      simp only [hd, if_true]
      have e : ∀ eos, (receiveData c s eos).streams = s.streams ∧ (receiveData c s eos).urr = s.urr ∧
          (receiveData c s eos).upReset = s.upReset ∧ (receiveData c s eos).downReset = s.downReset ∧
          (receiveData c s eos).cleaned = false ∧ (receiveData c s eos).phase = s.phase := by
        intro eos
        unfold receiveData
        split
        · exact ⟨rfl, rfl, rfl, rfl, hcl, rfl⟩
        · simp only
          have hpd' : (upAppendData (if eos = true then onUpstreamRequestSent c { s with recvDone := eos } else { s with recvDone := eos }) eos).procDone = false := by
            simp only [upAppendData]; split <;> simp [onUpstreamRequestSent, hpd]
          rw [if_neg (by simp [hpd'])]
          simp only [upAppendData]
          split <;> simp [onUpstreamRequestSent, hcl]
      obtain ⟨e1, e2, e3, e4, e5, e6⟩ := e (!c.hasTrailers)
      exact pass _ e1 e2 e3 e4 e5 e6 (by rw [hp]; decide) hq
    · rename_i hd
      simp only [hd, Bool.false_eq_true, if_false]
      show 0 < liveCount s.streams
      apply h2.await how
      rw [quietS_iff] at hq ⊢
      exact ⟨hcl, by rw [hp]; decide, hq.2.2.1, hq.2.2.2.1, hq.2.2.2.2⟩
  · -- DownRecvTrailer
    rename_i hp
    split at hq
    · rename_i hd
      simp only [hd, if_true]
      have e : (receiveTrailers c s).streams = s.streams ∧ (receiveTrailers c s).urr = s.urr ∧
          (receiveTrailers c s).upReset = s.upReset ∧ (receiveTrailers c s).downReset = s.downReset ∧
          (receiveTrailers c s).cleaned = false ∧ (receiveTrailers c s).phase = s.phase := by
        unfold receiveTrailers
        split
        · exact ⟨rfl, rfl, rfl, rfl, hcl, rfl⟩
        · simp only
          have hpd' : (upAppendTrailers (onUpstreamRequestSent c { s with recvDone := true })).procDone = false := by
            simp [upAppendTrailers, onUpstreamRequestSent, hpd]
          rw [if_neg (by simp [hpd'])]
          simp [upAppendTrailers, onUpstreamRequestSent, hcl]
      obtain ⟨e1, e2, e3, e4, e5, e6⟩ := e
      exact pass _ e1 e2 e3 e4 e5 e6 (by rw [hp]; decide) hq
    · rename_i hd
      simp only [hd, Bool.false_eq_true, if_false]
      show 0 < liveCount s.streams
      apply h2.await how
      rw [quietS_iff] at hq ⊢
      exact ⟨hcl, by rw [hp]; decide, hq.2.2.1, hq.2.2.2.1, hq.2.2.2.2⟩
  · -- Oneway (a two-way request just moves on)
    rename_i hp
    simp only [how, Bool.false_eq_true, if_false] at hq ⊢
    show 0 < liveCount s.streams
    apply h2.await how
    rw [quietS_iff] at hq ⊢
    exact ⟨hcl, by rw [hp]; decide, hq.2.2.1, hq.2.2.2.1, hq.2.2.2.2⟩
  · -- Retry: the next NewStream
    rename_i hp
    have hcl' : (doRetry c s).cleaned = false := by
      rw [doRetry_eq]
      split
      · exact hcl
      split
      · simp [upOnResetStream, hcl]
      unfold doRetryBody
      split
      · split <;> simp [sendHijack, hcl]
      · simp only
        have a1 : ∀ x : S, x.cleaned = false → ∀ eos, (upAppendHeaders c x eos).cleaned = false := by
          intro x hx eos; unfold upAppendHeaders; split
          · exact hx
          · simp only; split <;> simp [upOnResetStream, hx]
        have h1 := a1 { s with up := some none, setupRetry := false } hcl (!c.hasData && !c.hasTrailers)
        generalize upAppendHeaders c { s with up := some none, setupRetry := false } (!c.hasData && !c.hasTrailers) = a at h1
        have h2' : (if c.hasData = true then upAppendData a (!c.hasTrailers) else a).cleaned = false := by
          split <;> simpa [upAppendData] using h1
        generalize (if c.hasData = true then upAppendData a (!c.hasTrailers) else a) = b at h2'
        have h3 : (if c.hasTrailers = true then upAppendTrailers b else b).cleaned = false := by
          split <;> simpa [upAppendTrailers] using h2'
        generalize (if c.hasTrailers = true then upAppendTrailers b else b) = d at h3
        split <;> simpa [onUpstreamRequestSent, setupPerReqTimeout] using h3
    obtain ⟨f1, f2, f3, f4⟩ := finish_quiet c _ how hcl' hq
    rw [f1]
    exact doRetry_quiet c s how hpd hsr ⟨f2, f3, f4⟩
  · -- WaitNotify
    rename_i hp
    split at hq
    · exact (dead _ (by show awaiting s.phase.next = false; rw [hp]; decide) hq).elim
    · rename_i hn
      simp only [hn, Bool.false_eq_true, if_false]
      exact h2.await how hq
  · -- UpFilter: what `quietS` reads does not depend on the fake upstream request
    rename_i hp
    exfalso
    have e : quietS (match processError c s with
        | (s, some p) => reenter s p
        | (s, none) => { s with up := (if s.up.isNone then some none else s.up), phase := s.phase.next }) =
        quietS (finishPhase c s) := by
      unfold finishPhase
      generalize processError c s = r
      obtain ⟨x, o⟩ := r
      cases o <;> rfl
    have hq' : quietS (finishPhase c s) = true := by rw [← e]; exact hq
    exact dead s (by rw [hp]; decide) hq'
  · rename_i hp
    exfalso
    split at hq
    · refine dead _ ?_ hq
      split
      · rw [hp]; decide
      · rw [onUpstreamHeaders_phase, hp]; decide
    · exact nxt _ (by simp [hp, Phase.next, awaiting]) hq
  · rename_i hp
    exfalso
    split at hq
    · split at hq
      · refine dead _ ?_ hq
        split
        · rw [hp]; decide
        · rw [onUpstreamData_phase, hp]; decide
      · exact nxt _ (by simp [hp, Phase.next, awaiting]) hq
    · exact nxt _ (by simp [hp, Phase.next, awaiting]) hq
  · rename_i hp
    exfalso
    split at hq
    · split at hq
      · refine dead _ ?_ hq
        split
        · rw [hp]; decide
        · rw [onUpstreamTrailers_phase, hp]; decide
      · exact nxt _ (by simp [hp, Phase.next, awaiting]) hq
    · exact nxt _ (by simp [hp, Phase.next, awaiting]) hq
  · -- End: unreachable for a running worker
    rename_i hp
    exact absurd hp (h.k19 hcl)

end MosnVerif.Model.Downstream

namespace MosnVerif.Model.Downstream
open MosnVerif.Gen.ProxyPhase MosnVerif.Gen.ProxyReason MosnVerif.Gen.ProxyRetry

theorem inv2_step (c : Cfg) (ar aq : Nat) (s : S) (l : Label) (h : Inv c ar aq s) (h2 : Inv2 c s) : Inv2 c (step c s l) := by
  by_cases hl : l = .work
  · subst hl; exact inv2_work c ar aq s h h2
  · exact inv2_async c ar aq s l hl h h2

theorem inv2_init (c : Cfg) (ar aq : Nat) : Inv2 c (init ar aq) :=
  ⟨rfl, fun _ hq => by simp [quietS, init, awaiting] at hq⟩

/-- both invariants hold after every schedule -/
theorem inv2_run (c : Cfg) (ar aq : Nat) (l : List Label) : Inv2 c (run c (init ar aq) l) := by
  unfold run
  have : ∀ (s : S), Inv c ar aq s → Inv2 c s → Inv c ar aq (l.foldl (step c) s) ∧ Inv2 c (l.foldl (step c) s) := by
    induction l with
    | nil => intro s h h2; exact ⟨h, h2⟩
    | cons a r ih => intro s h h2; exact ih _ (inv_step c ar aq s a h) (inv2_step c ar aq s a h h2)
  exact (this _ (inv_init c ar aq) (inv2_init c ar aq)).2

/-- a parked worker waits for a live upstream request: its request holds exactly one active upstream stream -/
theorem parked_live (c : Cfg) (ar aq : Nat) (s : S) (h : Inv c ar aq s) (h2 : Inv2 c s) (hb : blocked s = true) :
    0 < liveCount s.streams ∧ 1 ≤ s.upActive := by
  obtain ⟨hcl, how, _, hurr, hur, hdr, _⟩ := blocked_facts c ar aq s h hb
  simp only [blocked, Bool.and_eq_true, Bool.not_eq_true', beq_iff_eq] at hb
  have hl := h2.await how (by rw [quietS_iff]; exact ⟨hcl, by rw [hb.1.2]; decide, hurr, hur, hdr⟩)
  refine ⟨hl, ?_⟩
  have := h.k11
  simp only [K11] at this
  omega

end MosnVerif.Model.Downstream
