import MosnVerif.Model.Downstream
/-!
proxy10 — the regenerated step program of `downStream.doRetry` (`Gen.ProxyBackoff.doRetry`) in closed form on the machine.
-/
namespace MosnVerif.Model.Downstream
open MosnVerif.Gen.ProxyPhase MosnVerif.Gen.ProxyReason

/-- `doRetry` past its two early returns: no host → local reply; else the fresh upstream request, the send calls (each guarded
by `processDone()`), the timers (both when no timer object exists yet, else the per-try timer only), request sent -/
def doRetryBody (c : Cfg) (s : S) : S :=
  if s.hostsGone then
    cleanUp c (sendHijack (if s.up.isSome then { s with setupRetry := false } else s) NoHealthUpstreamCode false)
  else
    let s := { s with up := some none, setupRetry := false }
    let s := upAppendHeaders c s (!c.hasData && !c.hasTrailers)
    let s := if c.hasData then upAppendData s (!c.hasTrailers) else s
    let s := if c.hasTrailers then upAppendTrailers s else s
    let s := if !(hasTimerObj s) then onUpstreamRequestSent c s else setupPerReqTimeout c s
    { s with reqSent := true, recvDone := true }

/-- [proxy10] the regenerated `doRetry` in closed form: after the sleep it returns at once when a local reply is pending; it
raises the global timeout on the fresh upstream request when the expiry was recorded; otherwise `doRetryBody` -/
theorem doRetry_eq (c : Cfg) (s : S) :
    doRetry c s =
      if s.direct then s
      else if s.globalExpired && s.up.isSome then upOnResetStream s .UpstreamGlobalTimeout
      else doRetryBody c s := by
  unfold doRetry Gen.ProxyBackoff.doRetry doRetryBody
  simp only [drOps, id]
  by_cases h1 : s.direct = true
  · simp [h1]
  · simp only [h1, Bool.false_eq_true, if_false]
    by_cases h2 : (s.globalExpired && s.up.isSome) = true
    · simp [h2]
    · simp only [h2, Bool.false_eq_true, if_false]
      by_cases h3 : s.hostsGone = true
      · simp only [h3, if_true]
        by_cases h4 : s.up.isSome = true <;> simp [h4, NoHealthUpstreamCode]
      · simp only [h3, Bool.false_eq_true, if_false]
        cases hd : c.hasData <;> cases ht : c.hasTrailers <;>
          (simp only [Bool.false_eq_true, if_false, if_true]
           split <;> rfl)

end MosnVerif.Model.Downstream
