import MosnVerif.Lemmas.Downstream.Attempts10
import MosnVerif.Lemmas.Downstream.Parked
/-!
proxy9 → proxy10: the back-off sleep of `doRetry` as a state of the machine.  What the state looks like, what an asynchronous
`TerminateStream` delivered there does (label `terminate`, regenerated step program), and what the wake-up (`work` in the
back-off: the regenerated `doRetry` + `processError`) does when something landed during the sleep: no upstream attempt is
created for a denied request, for a client that is gone, after the global timeout.
-/
namespace MosnVerif.Model.Downstream
open MosnVerif.Gen.ProxyPhase MosnVerif.Gen.ProxyReason MosnVerif.Gen.ProxyRetry

/-- what the back-off state looks like (facts of the invariant) -/
theorem backoff_facts (c : Cfg) (ar aq : Nat) (s : S) (h : Inv c ar aq s) (hb : backoff s = true) :
    s.cleaned = false ∧ s.setupRetry = false ∧ s.up = some none ∧ s.perTry = false ∧
    (s.upReset = true → s.globalExpired = true ∧ s.urr = true) ∧
    (s.urr = true → s.upReset = true ∨ s.direct = true ∨ s.globalExpired = true) ∧
    c.oneway = false ∧ s.pass = 0 ∧ s.rs.isSome = true ∧ liveCount s.streams = 0 ∧ s.respStarted = false ∧
    (s.direct = true → s.urr = true ∧ s.upReset = false ∧ s.resp.isSome = true ∧ s.global = false) := by
  simp only [backoff, Bool.and_eq_true, beq_iff_eq] at hb
  have hcl : s.cleaned = false := by
    have := h.k0; simp only [K0] at this; rw [hb.1] at this; simpa using this
  have h7 := h.k7 hcl
  have h26 := h.k26 hcl hb.2
  have how : c.oneway = false := by
    cases ho : c.oneway with
    | false => rfl
    | true => exact absurd hb.2 (h.k32 hcl ho).2.2
  have hfwd : fwdPhase s.phase = true := by simp [hb.2, fwdPhase]
  have h18 := h.k18 hcl hfwd
  simp only [how, Bool.false_eq_true, false_and, false_or] at h18
  refine ⟨hcl, h7.1, h26.2.2.2, h26.1, h26.2.1, h26.2.2.1, how, h.k25 hcl how h18.2.1, h18.2.1, h.k23 hcl (Or.inr hb.2),
    h.k16 hcl (by simp [hb.2, upPhase]), fun hd => ?_⟩
  obtain ⟨_, _, t1, t2, t3, _, _, t4⟩ := h7.2 hd
  exact ⟨t1, t2, t3, t4⟩

/-- the back-off is a state in which the worker is asleep: the asynchronous `TerminateStream` is delivered there -/
theorem asleep_of_backoff {s : S} (hb : backoff s = true) : asleep s = true := by simp [asleep, hb]

/-- **an asynchronous `TerminateStream` during the back-off** (label `terminate`, regenerated program `Gen.ProxyTerminate`): the
call is accepted exactly when no response headers are stored and the response slot is free; it leaves the local reply pending
(`direct`), the worker still asleep in the Retry phase, and writes nothing to the trace (the detached upstream request owns no
client stream: nothing to reset) -/
theorem terminate_backoff_spec (c : Cfg) (ar aq : Nat) (s : S) (code : Nat) (h : Inv c ar aq s) (hb : backoff s = true) :
    let s2 := terminateL c s code
    s2.trace = s.trace ∧ s2.streams = s.streams ∧ backoff s2 = true ∧ s2.cleaned = false ∧
    s2.downReset = s.downReset ∧
    (s2.direct = true ↔ (s.direct = true ∨ (s.resp.isSome = false ∧ s.urr = false))) ∧
    (s.direct = false → s2.direct = true → s2.upReset = false ∧ s2.respCode = code ∧ s2.resp = some ⟨false, false⟩) := by
  obtain ⟨hcl, _, hup, _, hur, _, _, _, _, _, _, hdf⟩ := backoff_facts c ar aq s h hb
  have hb' := hb
  simp only [backoff, Bool.and_eq_true, beq_iff_eq] at hb'
  simp only
  rw [terminateL_eq]
  rw [if_neg (by simp [asleep_of_backoff hb])]
  by_cases hr : s.resp.isSome = true
  · rw [if_pos hr]
    refine ⟨rfl, rfl, hb, hcl, rfl, ?_, fun hd hd2 => by rw [hd] at hd2; cases hd2⟩
    simp [hr]
  · rw [if_neg hr, if_neg (by simp [hcl])]
    have hnd : s.direct = false := by
      cases hd : s.direct with
      | false => rfl
      | true => exact absurd (hdf hd).2.2.1 hr
    by_cases hu : s.urr = true
    · rw [if_pos hu]
      refine ⟨rfl, rfl, hb, hcl, rfl, ?_, fun _ hd2 => by rw [hnd] at hd2; cases hd2⟩
      simp [hu, hnd]
    · rw [if_neg hu]
      have hu' : s.urr = false := by simpa using hu
      have hur' : s.upReset = false := by
        cases hh : s.upReset with
        | false => rfl
        | true => have := (hur hh).2; rw [hu'] at this; cases this
      have hr' : s.resp.isSome = false := by simpa using hr
      simp [terminateAcc, resetUpstream, curStream, hup, backoff, hb'.1, hb'.2, hcl, hur', hr', hu']

/-- **the wake-up with a pending local reply creates no upstream attempt** (needs the regenerated guard of `doRetry`:
`if s.directResponse { return }` after the sleep): for ANY state asleep in the back-off with `directResponse` set, one worker
step leaves the client streams and the attempt events of the trace as they are, and the worker leaves the Retry phase —
whether or not the client left meanwhile -/
theorem wake_direct_no_attempt (c : Cfg) (s : S) (hb : backoff s = true) (hd : s.direct = true) (hcl : s.cleaned = false)
    (hur : s.upReset = false) :
    (work c s).streams.length = s.streams.length ∧ att (work c s).trace = att s.trace ∧
    ((work c s).running = false ∨ (work c s).phase ≠ .Retry) := by
  simp only [backoff, Bool.and_eq_true, beq_iff_eq] at hb
  have hbw : bodyWait s = false := by simp [bodyWait, hb.2]
  have ew : work c s = finishPhase c (doRetry c s) := by
    unfold work
    rw [if_neg (by simp [hb.1]), if_neg (by simp [hbw])]
    simp only [hb.2]
  have ed : doRetry c s = s := by rw [doRetry_eq, if_pos hd]
  rw [ew, ed]
  refine ⟨(noAtt_finishPhase c s).2, (noAtt_finishPhase c s).1, ?_⟩
  · rw [finishPhase_eq, processError_spec]
    simp only [hcl, Bool.false_eq_true, if_false, hur]
    unfold peTail
    by_cases hdr : s.downReset = true
    · rw [if_pos hdr]
      left
      simp [finishOf, reenter_end]
    · rw [if_neg hdr, if_pos hd]
      simp only []
      by_cases ho : c.oneway = true
      · rw [if_pos ho]
        right
        simp only [finishOf, reenter_phase]
        decide
      · rw [if_neg ho, if_pos (by rw [hb.2]; decide)]
        right
        simp only [finishOf, reenter_phase]
        decide

/-- **the wake-up creates no attempt for a client that is gone, after a raised reset, or once the global timeout expired**
(the regenerated guards: `upstreamRequest.appendHeaders` starts with `processDone()`, `doRetry` re-checks
`globalTimeoutExpired`): one worker step from the back-off leaves the attempt events of the trace as they are -/
theorem wake_no_attempt (c : Cfg) (s : S) (hb : backoff s = true)
    (h : s.direct = true ∨ (s.globalExpired = true ∧ s.up.isSome = true) ∨ s.downReset = true ∨ s.upReset = true) :
    att (work c s).trace = att s.trace := by
  simp only [backoff, Bool.and_eq_true, beq_iff_eq] at hb
  have hbw : bodyWait s = false := by simp [bodyWait, hb.2]
  have ew : work c s = finishPhase c (doRetry c s) := by
    unfold work
    rw [if_neg (by simp [hb.1]), if_neg (by simp [hbw])]
    simp only [hb.2]
  rw [ew]
  exact (NoAtt.trans (doRetry_no_attempt c s h).1 (noAtt_finishPhase c _)).1

end MosnVerif.Model.Downstream
