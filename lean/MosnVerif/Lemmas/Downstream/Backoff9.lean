import MosnVerif.Model.DownstreamBackoff
import MosnVerif.Lemmas.Downstream.ProcErr
/-! proxy9: `terminate during the back-off` — the Retry pass with a pending local reply creates no upstream attempt -/
namespace MosnVerif.Model.Downstream
open MosnVerif.Gen.ProxyPhase MosnVerif.Gen.ProxyReason MosnVerif.Gen.ProxyRetry

/-- on the machine's own states (invariant) the extension is the machine: no local reply is pending in the Retry phase -/
theorem workB_eq_work (c : Cfg) (ar aq : Nat) (s : S) (h : Inv c ar aq s) : workB c s = work c s := by
  unfold workB
  by_cases hr : (s.running && s.phase == .Retry) = true
  · rw [if_pos hr]
    simp only [Bool.and_eq_true, beq_iff_eq] at hr
    have hcl : s.cleaned = false := by
      have := h.k0; simp only [K0] at this; rw [hr.1] at this; simpa using this
    have hnd : s.direct = false := by
      cases hd : s.direct with
      | false => rfl
      | true =>
        have h1 : s.phase = .WaitNotify := ((h.k7 hcl).2 hd).1
        rw [hr.2] at h1; cases h1
    have hbw : bodyWait s = false := by simp [bodyWait, hr.2]
    simp [doRetryB, hnd, work, hr.1, hr.2, hbw]
  · rw [if_neg hr]

/-- what the back-off state looks like (facts of the invariant used below) -/
theorem backoff_facts (c : Cfg) (ar aq : Nat) (s : S) (h : Inv c ar aq s) (hb : backoff s = true) :
    s.cleaned = false ∧ s.direct = false ∧ s.setupRetry = false ∧ s.up = some none ∧ s.perTry = false ∧
    (s.urr = false → s.upReset = false) ∧ c.oneway = false ∧ s.pass = 0 ∧ s.rs.isSome = true := by
  simp only [backoff, Bool.and_eq_true, beq_iff_eq] at hb
  have hcl : s.cleaned = false := by
    have := h.k0; simp only [K0] at this; rw [hb.1] at this; simpa using this
  have h7 := h.k7 hcl
  have h26 := h.k26 hcl hb.2
  have hnd : s.direct = false := by
    cases hd : s.direct with
    | false => rfl
    | true =>
      have h1 : s.phase = .WaitNotify := (h7.2 hd).1
      rw [hb.2] at h1; cases h1
  have how : c.oneway = false := by
    cases ho : c.oneway with
    | false => rfl
    | true => exact absurd hb.2 (h.k32 hcl ho).2.2
  have hfwd : fwdPhase s.phase = true := by simp [hb.2, fwdPhase]
  have h18 := h.k18 hcl hfwd
  simp only [how, Bool.false_eq_true, false_and, false_or] at h18
  refine ⟨hcl, hnd, h7.1, h26.2.2.2, h26.1, ?_, how, h.k25 hcl how h18.2.1, h18.2.1⟩
  intro hu
  cases hur : s.upReset with
  | false => rfl
  | true =>
    have hg := h26.2.1 hur
    have := h18.2.2.2.1 hg
    rw [hu] at this; cases this

/-- **an accepted `TerminateStream` during the back-off**: the call is accepted exactly when no response headers are stored
and the response slot is free; it leaves the local reply pending (`direct`), the worker still in the Retry phase, and writes
nothing to the trace (the detached upstream request owns no client stream: nothing to reset) -/
theorem terminateB_spec (c : Cfg) (ar aq : Nat) (s : S) (code : Nat) (h : Inv c ar aq s) (hb : backoff s = true) :
    let s2 := terminateB c s code
    s2.trace = s.trace ∧ s2.streams = s.streams ∧ s2.phase = .Retry ∧ s2.running = true ∧ s2.cleaned = false ∧
    s2.downReset = s.downReset ∧ s2.pass = 0 ∧
    (s2.direct = true ↔ (s.resp.isSome = false ∧ s.urr = false)) ∧
    (s2.direct = true → s2.upReset = false ∧ s2.respCode = code ∧ s2.resp = some ⟨false, false⟩) := by
  obtain ⟨hcl, hnd, _, hup, _, hur, _, hpass, _⟩ := backoff_facts c ar aq s h hb
  have hb' := hb
  simp only [backoff, Bool.and_eq_true, beq_iff_eq] at hb'
  simp only [terminateB, hb, Bool.not_true, Bool.false_eq_true, if_false]
  simp only [Gen.ProxyTerminate.terminateStream, Gen.ProxyTerminate.claim, Gen.ProxyTerminate.commit, termOps, id,
    beq_self_eq_true, Bool.not_true, Bool.false_eq_true, if_false, hcl]
  by_cases hr : s.resp.isSome = true
  · simp [hr, hnd, hb'.1, hb'.2, hcl, hpass]
  · simp only [hr, if_false]
    by_cases hu : s.urr = true
    · simp [hu, hr, hnd, hb'.1, hb'.2, hcl, hpass]
    · have hu' : s.urr = false := by simpa using hu
      have hur' := hur hu'
      simp [hu, hr, resetUpstream, curStream, hup, sendHijack, sendNotify, orFlag, hb'.1, hb'.2, hcl, hpass, hur',
        applyEff, hijackDataEff, hijackTrailersEff, Gen.ProxyReply.hijackData, Gen.ProxyReply.hijackTrailers, heldData, heldTrailers]

/-- **the Retry pass with a pending local reply creates no upstream attempt** (needs the regenerated guard of `doRetry`):
for ANY state in the Retry phase with `directResponse` set (no reset pending: the client has not left meanwhile), one worker step leaves the client streams' number and the
attempt events of the trace as they are, and the worker does not stay in the Retry phase -/
theorem workB_direct_no_attempt (c : Cfg) (s : S) (hrun : s.running = true) (hp : s.phase = .Retry) (hd : s.direct = true)
    (hcl : s.cleaned = false) (hur : s.upReset = false) (hdr : s.downReset = false) :
    (workB c s).streams.length = s.streams.length ∧
    (workB c s).trace.filter attemptEv = s.trace.filter attemptEv ∧
    (workB c s).phase ≠ .Retry := by
  have hskip : Gen.ProxyPhase.retrySkipsOnDirect = true := by decide
  simp only [workB, hrun, hp, beq_self_eq_true, Bool.and_self, if_true, doRetryB, hskip, hd]
  unfold finishPhase
  rw [processError_spec]
  simp only [hcl, Bool.false_eq_true, if_false, hur, peTail, hd, if_true]
  simp only [hdr, Bool.false_eq_true, if_false]
  by_cases ho : c.oneway = true
  · simp [ho, reenter, retryKeepsBudget, loopBudget]
    split <;> simp
  · simp only [ho, Bool.false_eq_true, if_false, hp]
    simp [reenter, retryKeepsBudget, loopBudget]
    split <;> simp

end MosnVerif.Model.Downstream
