import MosnVerif.Lemmas.Downstream.Worker6
/-! the worker label `work`: the retry phase (`doRetry`) -/
namespace MosnVerif.Model.Downstream
open MosnVerif.Gen.ProxyPhase MosnVerif.Gen.ProxyReason MosnVerif.Gen.ProxyRetry

/-- what `doRetry` leaves behind: new upstream request, new streams/ledger, trace, flags and timers -/
def retried (s : S) (upv : Option (Option Nat)) (sts : List Stream) (rq ua : Int) (t : List Ev) (fn : List PoolFail)
    (ur : Bool) (rr : Reason) (nt pt gt : Bool) (gg : Nat) (go : Bool) : S :=
  { s with up := upv, setupRetry := false, streams := sts, requests := rq, upActive := ua, trace := t, failNext := fn,
           upReset := ur, resetReason := rr, notify := nt, perTry := pt, global := gt, reqSent := true, recvDone := true,
           gtGen := gg, gtObj := go }

/-- facts the retry phase starts from -/
structure RetryCtx (c : Cfg) (s : S) : Prop where
  cl : s.cleaned = false
  how : c.oneway = false
  up : s.up.isSome = true
  rs : s.rs.isSome = true
  lc : liveCount s.streams = 0
  dead : allDead s.streams = true
  pt : s.perTry = false
  ure : s.upReset = true → s.globalExpired = true
  urr : s.urr = true → s.upReset = true
  exp : s.globalExpired = true → s.urr = true
  ps : s.pass = 0
  rst : s.respStarted = false
  sr : s.setupRetry = false
  dir : s.direct = false
  pd : s.procDone = false
  gl : s.reqSent = true → s.global = true ∨ s.globalExpired = true

theorem retryCtx {c : Cfg} {ar aq : Nat} {s : S} (h : Inv c ar aq s) (hrun : s.running = true) (hp : s.phase = .Retry)
    (hdir : s.direct = false) (hnexp : s.globalExpired = false) :
    RetryCtx c s := by
  have hcl := inv_not_cleaned h hrun
  have hfwd : fwdPhase s.phase = true := by simp [hp, fwdPhase]
  have how : c.oneway = false := by
    cases ho : c.oneway with
    | false => rfl
    | true => have := (h.k32 hcl ho).2.2; exact absurd hp this
  have hm : s.up.isSome = true ∧ s.rs.isSome = true ∧ (s.globalExpired = true → s.urr = true) := by
    rcases h.k18 hcl hfwd with ⟨ho, _, _⟩ | hm
    · rw [how] at ho; cases ho
    · exact ⟨hm.1, hm.2.1, fun hh => by rw [hnexp] at hh; cases hh⟩
  have hlc := h.k23 hcl (Or.inr hp)
  obtain ⟨hpt, hure0, hurr0, _hdet⟩ := h.k26 hcl hp
  have hure : s.upReset = true → s.globalExpired = true := fun hh => (hure0 hh).1
  have hurr : s.urr = true → s.upReset = true := by
    intro hu
    rcases hurr0 hu with h1 | h1 | h1
    · exact h1
    · rw [hdir] at h1; cases h1
    · rw [hnexp] at h1; cases h1
  have hsr := (h.k7 hcl).1
  have hpd : s.procDone = false := by
    cases hh : s.procDone with
    | false => rfl
    | true => have := h.k5 hh; rw [hcl] at this; cases this
  exact ⟨hcl, how, hm.1, hm.2.1, hlc, allDead_of_counted _ (h.k22 how) hlc, hpt, hure, hurr, hm.2.2, h.k25 hcl how hm.2.1,
    h.k16 hcl (by simp [hp, upPhase]), hsr, hdir, hpd, fun hq => or3_nd (h.k24 hcl how hq hm.2.1) hdir⟩

/-- the end of the retry phase for the state `retried …` -/
theorem finish_retried (c : Cfg) (ar aq : Nat) (s : S) (h : Inv c ar aq s) (hrun : s.running = true) (hp : s.phase = .Retry)
    (x : RetryCtx c s) (upv : Option (Option Nat)) (sts : List Stream) (rq ua : Int) (t : List Ev) (fn : List PoolFail)
    (ur : Bool) (rr : Reason) (nt pt gt : Bool) (gg : Nat) (go : Bool)
    (hled : LedgerOk c aq { s with up := upv, streams := sts, requests := rq, upActive := ua })
    (h22 : liveAreCounted sts = true)
    (hups : upv.isSome = true)
    (ht1 : snd t = snd s.trace) (ht2 : nLog t = nLog s.trace)
    (hgt : s.global = true → gt = true) (hgl : gt = true ∨ s.globalExpired = true)
    (hur1 : s.upReset = true → ur = true) (hnt : (ur = true ∨ s.downReset = true) → nt = true)
    (hntb : nt = true → ur = true ∨ s.downReset = true ∨ s.urr = true)
    (hlc : ur = true ∨ s.downReset = true → liveCount sts = 0)
    (hexp : ur = true → s.upReset = false → s.globalExpired = false) :
    Inv c ar aq (finishPhase c (retried s upv sts rq ua t fn ur rr nt pt gt gg go)) := by
  obtain ⟨hcl, how, hup, hrs, hlc0, hdead, hpt0, hure, hurr, hexp0, hps, hrst, hsr, hdir, hpd, hgl0⟩ := x
  have hb1 : Base c ar aq (retried s upv sts rq ua t fn ur rr nt pt gt gg go) := by
    obtain ⟨k1, k2, k4, k9, k10, k11, k12, k13, k14, k20, k21, k22, k31⟩ := h.base
    refine ⟨?_, ?_, ?_, k9, hled.1, hled.2.1, k12, ?_, hled.2.2, ?_, ?_, ?_, ?_⟩
    · simpa [K1, retried, ht1] using k1
    · simpa [K2, retried, ht1] using k2
    · show nLog t = _
      rw [ht2]; exact k4
    · intro hh; simp [retried, hcl] at hh
    · intro ho; rw [how] at ho; cases ho
    · intro ho; rw [how] at ho; cases ho
    · intro _; exact h22
    · intro _; exact hups
  have h3' : K3 (retried s upv sts rq ua t fn ur rr nt pt gt gg go) := by simpa [K3, retried, ht1] using h.k3
  apply finish_plain c ar aq _ hb1 hrun hcl h3' h.k6 hpd rfl hdir
  · intro _; exact ⟨hps, hrst⟩
  · intro _ ho; rw [how] at ho; cases ho
  · intro hu _
    have hu : ur = true := hu
    refine ⟨hups, hrs, hlc (Or.inl hu), by simp [retried, hp], ?_⟩
    intro _
    rcases hgl with hh | hh
    · left; exact hh
    · right; exact hh
  · intro hu hd
    have hu : ur = false := hu
    have hd : s.downReset = false := hd
    have hur0 : s.upReset = false := by
      cases hh : s.upReset with
      | false => rfl
      | true => have := hur1 hh; rw [hu] at this; cases this
    have hurr0 : s.urr = false := by
      cases hh : s.urr with
      | false => rfl
      | true => have := hurr hh; rw [hur0] at this; cases this
    have hge0 : s.globalExpired = false := by
      cases hh : s.globalExpired with
      | false => rfl
      | true => have := hexp0 hh; rw [hurr0] at this; cases this
    have hnt0 : nt = false := by
      cases hh : nt with
      | false => rfl
      | true => have := hntb hh; simp [hu, hd, hurr0] at this
    have hgt1 : gt = true := by
      rcases hgl with hh | hh
      · exact hh
      · rw [hge0] at hh; cases hh
    unfold retried at hb1 h3' ⊢
    obtain ⟨k0, k1, k2, k3, k4, k5, k6, k7, k8, k9, k10, k11, k12, k13, k14, k15, k16, k17, k18, k19, k20, k21, k22, k23, k24, k25, k26, k27, k28, k29, k30, k31, k32, k33⟩ := h
    refine ⟨k0, hb1.k1, hb1.k2, h3', hb1.k4, k5, k6, ?_, ?_, k9, hb1.k10, hb1.k11, k12, hb1.k13, hb1.k14, ?_, ?_, ?_, ?_, ?_, hb1.k20, hb1.k21, hb1.k22, ?_, ?_, k25, ?_, ?_, ?_, ?_, ?_, hb1.k31, ?_, (fun hh => absurd hh (by simp [hcl]))⟩
    · exact k7_intro rfl hdir
    · intro _; exact ⟨by show s.pass ≤ 1; omega, Or.inl hps⟩
    · intro _ hh; simp [hp, Phase.next, upPhase] at hh
    · intro _ _; exact hrst
    · intro _ hh; simp [hp, Phase.next, prePhase] at hh
    · intro _ _
      right
      refine ⟨hups, hrs, ?_, ?_, ?_, ?_⟩
      · intro hh; simp [hurr0, hu, hd] at hh
      · intro hh; simp [hge0] at hh
      · intro _ _; left; exact hgt1
      · intro _; left; rfl
    · intro _; simp [hp, Phase.next]
    · intro _ hh; simp [hu, hp, Phase.next] at hh
    · intro _ _ _ _; left; exact hgt1
    · intro _ hh; simp [hp, Phase.next] at hh
    · intro _ _ hh; simp [hurr0] at hh
    · intro _ hh; simp [hnt0] at hh
    · intro _ _ _
      refine ⟨?_, ?_, ?_⟩ <;> (intro hh; simp [hp, Phase.next] at hh)
    · intro _ hh; simp [hp, Phase.next] at hh
    · intro _ ho; rw [how] at ho; cases ho

theorem dataTrace_done (s : S) (e : Nat → Ev) (h : processDone s = true) : dataTrace s e = s.trace := by
  unfold dataTrace; rw [h]

theorem dataTrace_live (s : S) (e : Nat → Ev) (k : Nat) (h : processDone s = false) (hk : curStream s = some k) :
    dataTrace s e = s.trace ++ [e k] := by
  unfold dataTrace; rw [h, hk]

theorem upAppendHeaders_fail (c : Cfg) (s : S) (eos : Bool) (f : PoolFail) (hpd : processDone s = false)
    (ho : poolOutcome c s = some f) :
    upAppendHeaders c s eos = upOnResetStream
      { s with
        failNext := s.failNext.drop 1, streams := s.streams ++ [(⟨false, false, false, false⟩ : Stream)],
        trace := s.trace ++ [Ev.uf s.streams.length f] } (failReason f) := by
  unfold upAppendHeaders
  rw [if_neg (by simp [hpd])]
  simp only [ho]

theorem upAppendHeaders_ok (c : Cfg) (s : S) (eos : Bool) (hpd : processDone s = false) (ho : poolOutcome c s = none) :
    upAppendHeaders c s eos =
      { s with
        failNext := s.failNext.drop 1,
        streams := s.streams ++ [(⟨true, true, true, !c.oneway⟩ : Stream)],
        requests := if !c.oneway then Gen.Resource.increase c.maxRequests s.requests else s.requests,
        upActive := if !c.oneway then s.upActive + 1 else s.upActive,
        up := some (some s.streams.length), trace := (s.trace ++ [Ev.un s.streams.length]) ++ [Ev.uh s.streams.length eos] } := by
  unfold upAppendHeaders
  rw [if_neg (by simp [hpd])]
  simp only [ho]

/-- the timers after `doRetry` -/
def retryPt (c : Cfg) (s : S) : Bool := s.perTry || c.tryTimeout
def retryGt (c : Cfg) (s : S) : Bool := if !(hasTimerObj s) then true else s.global
/-- the number of global timers armed so far after `doRetry`: one more exactly when no timer object existed yet -/
def retryGg (s : S) : Nat := if !(hasTimerObj s) then s.gtGen + 1 else s.gtGen
/-- `s.responseTimer != nil` after `doRetry` -/
def retryGo (s : S) : Bool := if !(hasTimerObj s) then true else s.gtObj

/-- [proxy10] the wake-up with a pending local reply (an asynchronous `TerminateStream` was accepted during the back-off):
`doRetry` returns at once, `processError` hands the reply to the response pass -/
theorem inv_work_retry_direct (c : Cfg) (ar aq : Nat) (s : S) (h : Inv c ar aq s) (hrun : s.running = true)
    (hp : s.phase = .Retry) (hdt : s.direct = true) : Inv c ar aq (finishPhase c s) := by
  have hcl := inv_not_cleaned h hrun
  have hfwd : fwdPhase s.phase = true := by simp [hp, fwdPhase]
  have how : c.oneway = false := by
    cases ho : c.oneway with
    | false => rfl
    | true => exact absurd hp (h.k32 hcl ho).2.2
  have hrsome : s.rs.isSome = true := by
    rcases h.k18 hcl hfwd with ⟨ho, _, _⟩ | hm
    · rw [how] at ho; cases ho
    · exact hm.2.1
  have hpd : s.procDone = false := by
    cases hh : s.procDone with
    | false => rfl
    | true => have := h.k5 hh; rw [hcl] at this; cases this
  obtain ⟨_, _, _, tur, tresp, tlc, tpt, tgt⟩ := (h.k7 hcl).2 hdt
  exact finish_direct_gen c ar aq s h.base hrun hcl how h.k3 h.k6 hpd (h.k7 hcl).1 hdt tur (h.k25 hcl how hrsome) tlc tresp tpt tgt
    (h.k16 hcl (by simp [hp, upPhase])) (by rw [hp]; decide)

/-- [proxy10] the wake-up after the global timeout expired while the retry was being set up, or during the back-off: `doRetry`
raises the global timeout on the fresh upstream request (a no-op when the callback got through and raised it already),
`processError` answers it — no retry: `setupRetry` refuses once the expiry is recorded -/
theorem inv_work_retry_expired (c : Cfg) (ar aq : Nat) (s : S) (h : Inv c ar aq s) (hrun : s.running = true)
    (hp : s.phase = .Retry) (hdir : s.direct = false) (hexp : s.globalExpired = true) :
    Inv c ar aq (finishPhase c (upOnResetStream s .UpstreamGlobalTimeout)) := by
  have hcl := inv_not_cleaned h hrun
  have hfwd : fwdPhase s.phase = true := by simp [hp, fwdPhase]
  have how : c.oneway = false := by
    cases ho : c.oneway with
    | false => rfl
    | true => exact absurd hp (h.k32 hcl ho).2.2
  have hsr := (h.k7 hcl).1
  have hpd : s.procDone = false := by
    cases hh : s.procDone with
    | false => rfl
    | true => have := h.k5 hh; rw [hcl] at this; cases this
  have hrsome : s.rs.isSome = true := by
    rcases h.k18 hcl hfwd with ⟨ho, _, _⟩ | hm
    · rw [how] at ho; cases ho
    · exact hm.2.1
  have hlc := h.k23 hcl (Or.inr hp)
  generalize hm : upOnResetStream s .UpstreamGlobalTimeout = m
  have fm : m.cleaned = false ∧ m.running = true ∧ m.trace = s.trace ∧ m.respStarted = s.respStarted ∧ m.streams = s.streams ∧
      m.requests = s.requests ∧ m.upActive = s.upActive ∧ m.up = s.up ∧ m.downActive = s.downActive ∧
      m.upReset = true ∧ m.downReset = s.downReset ∧ m.downLive = s.downLive ∧ m.procDone = false ∧
      m.setupRetry = false ∧ m.pass = s.pass ∧ m.direct = false ∧ m.phase = s.phase ∧
      m.globalExpired = true ∧ m.rs = s.rs ∧ m.retries = s.retries ∧ m.perTry = s.perTry ∧ m.global = s.global := by
    subst hm
    simp [upOnResetStream, hcl, hrun, hpd, hsr, hdir, hexp]
  obtain ⟨m_cl, m_run, m_tr, m_rst, m_st, m_rq, m_ua, m_up, m_da, m_ur, m_dr, m_dl, m_pd, m_sr, m_ps, m_dir, m_ph, m_ge, m_rs, m_ret, m_pt, m_gt⟩ := fm
  have hrst : s.respStarted = false := h.k16 hcl (by simp [hp, upPhase])
  have hps : s.pass = 0 := h.k25 hcl how hrsome
  have hbm : Base c ar aq m := by
    apply base_transfer c ar aq s m h.base m_cl (fun ho => by rw [how] at ho; cases ho) m_tr m_rst m_st m_rq m_ua m_up m_da hcl
    · have h9 := h.k9
      simp only [K9, heldRetry, rsHeld, m_rs, m_ret] at h9 ⊢
      exact h9
    · intro _; rw [m_up]; exact h.k31 hrsome
  have h3m : K3 m := by simpa [K3, m_tr, m_cl, hcl] using h.k3
  have h6m : K6 m := by simpa [K6, m_dl, m_dr, m_cl, hcl] using h.k6
  rw [finishPhase_eq, processError_spec, if_neg (by simp [m_cl]), if_pos m_ur, if_neg (by simp [how])]
  apply upreset_branch c ar aq m hbm m_run m_cl how h3m h6m m_pd m_sr (by rw [m_ps, hps]; omega) (fun _ => by rw [m_ps]; exact hps)
    (fun _ => by rw [m_ps]; exact hps) (by rw [m_st]; exact hlc) (by rw [m_rst]; exact hrst)
    (by rw [m_ph, hp]; intro hh; cases hh)
  · intro _ _; right; exact m_ge
  · intro _; exact m_ge

/-- phase `Retry`: the wake-up from `doRetry`'s back-off sleep -/
theorem inv_work_retry (c : Cfg) (ar aq : Nat) (s : S) (h : Inv c ar aq s) (hrun : s.running = true)
    (hp : s.phase = .Retry) : Inv c ar aq (finishPhase c (doRetry c s)) := by
  rw [doRetry_eq]
  by_cases hdt : s.direct = true
  · rw [if_pos hdt]; exact inv_work_retry_direct c ar aq s h hrun hp hdt
  rw [if_neg hdt]
  simp only [Bool.not_eq_true] at hdt
  have hup0 : s.up.isSome = true := by
    have hcl := inv_not_cleaned h hrun
    rw [(h.k26 hcl hp).2.2.2]; rfl
  by_cases hex : s.globalExpired = true
  · rw [if_pos (by simp [hex, hup0])]; exact inv_work_retry_expired c ar aq s h hrun hp hdt hex
  rw [if_neg (by simp [hex])]
  simp only [Bool.not_eq_true] at hex
  have x := retryCtx h hrun hp hdt hex
  obtain ⟨hcl, how, hup, hrs, hlc0, hdead, hpt0, hure, hurr, hexp0, hps, hrst, hsr, hdir, hpd, hgl0⟩ := x
  have hhdr : (snd s.trace).hdr = false := by rw [h.k2]; exact hrst
  have hglT : retryGt c s = true ∨ s.globalExpired = true := by
    unfold retryGt
    cases hq : hasTimerObj s with
    | false => left; simp
    | true =>
      simp only [Bool.not_true, Bool.false_eq_true, if_false]
      simp only [hasTimerObj, Bool.and_eq_true] at hq
      exact hgl0 hq.2
  have hgtm : s.global = true → retryGt c s = true := by
    intro hg; unfold retryGt; split
    · rfl
    · exact hg
  unfold doRetryBody
  by_cases hhg : s.hostsGone = true
  · -- no host can be chosen any more: local reply 502 (unless the global timer fired meanwhile)
    rw [if_pos hhg]
    simp only [hup, if_true]
    generalize hm : cleanUp c (sendHijack { s with setupRetry := false } NoHealthUpstreamCode false) = m
    have hcu := cleanUp_facts c (sendHijack { s with setupRetry := false } NoHealthUpstreamCode false)
    rw [hm] at hcu
    have fm : m.cleaned = false ∧ m.running = true ∧ m.trace = s.trace ∧ m.respStarted = false ∧ m.streams = s.streams ∧
        m.requests = s.requests ∧ m.upActive = s.upActive ∧ m.up = s.up ∧ m.downActive = s.downActive ∧
        m.upReset = s.upReset ∧ m.downReset = s.downReset ∧ m.downLive = s.downLive ∧ m.procDone = false ∧
        m.setupRetry = false ∧ m.pass = 0 ∧ m.direct = true ∧ m.resp.isSome = true ∧ m.phase = s.phase ∧
        m.globalExpired = s.globalExpired ∧ m.urr = s.urr := by
      subst hm
      simp [sendHijack, hcl, hrun, hrst, hpd, hps]
    obtain ⟨m_cl, m_run, m_tr, m_rst, m_st, m_rq, m_ua, m_up, m_da, m_ur, m_dr, m_dl, m_pd, m_sr, m_ps, m_dir, m_resp, m_ph, m_ge, m_urr⟩ := fm
    have hbm : Base c ar aq m := by
      apply base_transfer c ar aq s m h.base m_cl (fun ho => by rw [how] at ho; cases ho) m_tr (by rw [m_rst, hrst]) m_st m_rq m_ua m_up m_da hcl
      · have h9 := h.k9
        have := hcu.2.2.1
        have e0 : heldRetry c (sendHijack { s with setupRetry := false } NoHealthUpstreamCode false) = heldRetry c s := rfl
        have e1 : (sendHijack { s with setupRetry := false } NoHealthUpstreamCode false).retries = s.retries := rfl
        simp only [K9] at h9 ⊢
        omega
      · intro _; rw [m_up]; exact hup
    have h3m : K3 m := by simpa [K3, m_tr, m_cl, hcl] using h.k3
    have h6m : K6 m := by simpa [K6, m_dl, m_dr, m_cl, hcl] using h.k6
    have hlcm : liveCount m.streams = 0 := by rw [m_st]; exact hlc0
    have hrsm : m.rs.isSome = true := by
      rw [hcu.1]; exact hrs
    by_cases hur : s.upReset = true
    · rw [finishPhase_eq, processError_spec, if_neg (by simp [m_cl]), if_pos (by rw [m_ur]; exact hur), if_neg (by simp [how])]
      apply upreset_branch c ar aq m hbm m_run m_cl how h3m h6m m_pd m_sr (by rw [m_ps]; omega) (fun _ => m_ps) (fun _ => m_ps) hlcm m_rst
        (by rw [m_ph, hp]; intro hh; cases hh)
      · intro _ _; right; rw [m_ge]; exact hure hur
      · intro _; rw [m_ge]; exact hure hur
    · simp only [Bool.not_eq_true] at hur
      apply finish_direct c ar aq m hbm m_run m_cl h3m h6m m_pd m_sr m_dir (by rw [m_ur]; exact hur) m_ps hcu.2.1 hlcm m_resp
        hcu.2.2.2.1 hcu.2.2.2.2 m_rst (by rw [m_ph, hp]; intro hh; cases hh)
      intro _; right; exact ⟨m_resp, Or.inl hlcm⟩
  · rw [if_neg hhg]
    simp only
    by_cases hpdn : processDone s = true
    · -- a reset is pending: nothing is sent, only the timers are armed; `processError` handles the reset
      have hflag : s.upReset = true ∨ s.downReset = true := by
        simp only [processDone, hpd, Bool.false_or, Bool.or_eq_true] at hpdn
        rcases hpdn with hh | hh
        · exact Or.inr hh
        · exact Or.inl hh
      have e : (let s := { s with up := some none, setupRetry := false };
          let s := upAppendHeaders c s (!c.hasData && !c.hasTrailers);
          let s := if c.hasData = true then upAppendData s (!c.hasTrailers) else s;
          let s := if c.hasTrailers = true then upAppendTrailers s else s;
          let s := if (!(hasTimerObj s)) = true then onUpstreamRequestSent c s else setupPerReqTimeout c s;
          ({ s with reqSent := true, recvDone := true } : S)) =
          retried s (some none) s.streams s.requests s.upActive s.trace s.failNext s.upReset s.resetReason s.notify
            (retryPt c s) (retryGt c s) (retryGg s) (retryGo s) := by
        have hp1 : processDone ({ s with up := some none, setupRetry := false } : S) = true := hpdn
        simp only [upAppendHeaders, hp1, if_true]
        have d1 : ∀ e, dataTrace ({ s with up := some none, setupRetry := false } : S) e = s.trace := fun e => dataTrace_done _ e hp1
        cases hd : c.hasData <;> cases ht : c.hasTrailers <;>
          simp [upAppendData, upAppendTrailers, d1, dataTrace_done, processDone, hpdn, retried, retryPt, retryGt, retryGg,
            retryGo, onUpstreamRequestSent, setupPerReqTimeout, how] <;>
          cases hq : s.reqSent <;> cases hgo : s.gtObj <;> cases hgl1 : s.global <;> simp [hasTimerObj, hq, hgo, hgl1]
      rw [e]
      apply finish_retried c ar aq s h hrun hp (retryCtx h hrun hp hdt hex)
      · refine ⟨h.k10, h.k11, ?_⟩
        rw [K14, streamsOk_iff]
        have := (streamsOk_iff s).mp h.k14
        refine ⟨this.1, ?_, by intro k hk; cases hk⟩
        intro st hst hl
        have := allDead_get hdead (k := s.streams.length - 1) (st := st) (by rw [← List.getLast?_eq_getElem?]; exact hst)
        rw [this] at hl; cases hl
      · exact h.k22 how
      · rfl
      · rfl
      · rfl
      · exact hgtm
      · exact hglT
      · exact fun hh => hh
      · intro hh
        have hfwd : fwdPhase s.phase = true := by simp [hp, fwdPhase]
        rcases h.k18 hcl hfwd with ⟨ho, _, _⟩ | hm
        · rw [how] at ho; cases ho
        · have hx : s.urr = true ∨ s.upReset = true ∨ s.downReset = true := by
            rcases hh with hh | hh
            · exact Or.inr (Or.inl hh)
            · exact Or.inr (Or.inr hh)
          rcases hm.2.2.1 hx with h1 | h1
          · exact h1
          · rw [hex] at h1; exact absurd h1.2.1 (by decide)
      · intro hn
        have := h.k28 hcl hn
        rcases this with hh | hh | hh
        · right; right; exact hh
        · left; exact hh
        · right; left; exact hh
      · intro _; exact hlc0
      · intro hu hu0; rw [hu0] at hu; cases hu
    · simp only [Bool.not_eq_true] at hpdn
      have hnf : s.upReset = false ∧ s.downReset = false := by
        simp only [processDone, hpd, Bool.false_or, Bool.or_eq_false_iff] at hpdn
        exact ⟨hpdn.2, hpdn.1⟩
      have hp1 : processDone ({ s with up := some none, setupRetry := false } : S) = false := hpdn
      have hurr0 : s.urr = false := by
        cases hh : s.urr with
        | false => rfl
        | true => have := hurr hh; rw [hnf.1] at this; cases this
      have hge0 : s.globalExpired = false := by
        cases hh : s.globalExpired with
        | false => rfl
        | true => have := hexp0 hh; rw [hurr0] at this; cases this
      have hpo : poolOutcome c ({ s with up := some none, setupRetry := false } : S) = poolOutcome c s := rfl
      cases hout : poolOutcome c s with
      | some f =>
        -- the pool refused the new attempt: an upstream reset is recorded
        have e : (let s := { s with up := some none, setupRetry := false };
            let s := upAppendHeaders c s (!c.hasData && !c.hasTrailers);
            let s := if c.hasData = true then upAppendData s (!c.hasTrailers) else s;
            let s := if c.hasTrailers = true then upAppendTrailers s else s;
            let s := if (!(hasTimerObj s)) = true then onUpstreamRequestSent c s else setupPerReqTimeout c s;
            ({ s with reqSent := true, recvDone := true } : S)) =
            retried s (some none) (s.streams ++ [(⟨false, false, false, false⟩ : Stream)]) s.requests s.upActive
              (s.trace ++ [Ev.uf s.streams.length f]) (s.failNext.drop 1) true (failReason f) true
              (retryPt c s) (retryGt c s) (retryGg s) (retryGo s) := by
          have e1 := upAppendHeaders_fail c ({ s with up := some none, setupRetry := false } : S) (!c.hasData && !c.hasTrailers) f hp1 hout
          simp only [e1]
          have d1 : ∀ (z : S) e, z.upReset = true → dataTrace z e = z.trace := by
            intro z e hz; exact dataTrace_done z e (by simp [processDone, hz])
          cases hd : c.hasData <;> cases ht : c.hasTrailers <;>
            simp [upOnResetStream, hnf.1, upAppendData, upAppendTrailers, d1, retried, retryPt, retryGt, retryGg,
              retryGo, onUpstreamRequestSent, setupPerReqTimeout, how] <;>
            cases hq : s.reqSent <;> cases hgo : s.gtObj <;> cases hgl1 : s.global <;> simp [hasTimerObj, hq, hgo, hgl1]
        rw [e]
        apply finish_retried c ar aq s h hrun hp (retryCtx h hrun hp hdt hex)
        · apply ledger_append c aq s _ (some none) s.requests s.upActive ⟨h.k10, h.k11, h.k14⟩ hdead
          · intro hh; cases hh
          · intro k hk; cases hk
          · simp
          · simp
        · exact liveAreCounted_append _ _ (h.k22 how) (by simp)
        · rfl
        · rw [snd_append, sndStep_uf _ _ _ hhdr]
        · simp [nLog_append, isLog]
        · exact hgtm
        · exact hglT
        · intro _; rfl
        · intro _; rfl
        · intro _; left; rfl
        · intro _; rw [liveCount_append, hlc0]; simp
        · intro _ _; exact hge0
      | none =>
        -- admitted: the client stream of the new attempt exists now
        have e : (let s := { s with up := some none, setupRetry := false };
            let s := upAppendHeaders c s (!c.hasData && !c.hasTrailers);
            let s := if c.hasData = true then upAppendData s (!c.hasTrailers) else s;
            let s := if c.hasTrailers = true then upAppendTrailers s else s;
            let s := if (!(hasTimerObj s)) = true then onUpstreamRequestSent c s else setupPerReqTimeout c s;
            ({ s with reqSent := true, recvDone := true } : S)) =
            retried s (some (some s.streams.length)) (s.streams ++ [(⟨true, true, true, true⟩ : Stream)])
              (Gen.Resource.increase c.maxRequests s.requests) (s.upActive + 1)
              (((s.trace ++ [Ev.un s.streams.length]) ++ [Ev.uh s.streams.length (!c.hasData && !c.hasTrailers)]) ++
                (if c.hasData then [Ev.ud s.streams.length (!c.hasTrailers)] else []) ++
                (if c.hasTrailers then [Ev.ut s.streams.length] else []))
              (s.failNext.drop 1) s.upReset s.resetReason s.notify (retryPt c s) (retryGt c s) (retryGg s) (retryGo s) := by
          have e1 := upAppendHeaders_ok c ({ s with up := some none, setupRetry := false } : S) (!c.hasData && !c.hasTrailers) hp1 hout
          simp only [e1]
          have d2 : ∀ (z : S) e, z.procDone = false → z.downReset = false → z.upReset = false →
              z.up = some (some s.streams.length) → dataTrace z e = z.trace ++ [e s.streams.length] := by
            intro z e h1 h2 h3 h4
            exact dataTrace_live z e _ (by simp [processDone, h1, h2, h3]) (by simp [curStream, h4])
          cases hd : c.hasData <;> cases ht : c.hasTrailers <;>
            simp [upAppendData, upAppendTrailers, d2, hpd, hnf.1, hnf.2, retried, retryPt, retryGt, retryGg,
              retryGo, onUpstreamRequestSent, setupPerReqTimeout, how] <;>
            cases hq : s.reqSent <;> cases hgo : s.gtObj <;> cases hgl1 : s.global <;> simp [hasTimerObj, hq, hgo, hgl1]
        rw [e]
        apply finish_retried c ar aq s h hrun hp (retryCtx h hrun hp hdt hex)
        · apply ledger_append c aq s _ _ _ _ ⟨h.k10, h.k11, h.k14⟩ hdead
          · intro _; exact ⟨rfl, rfl⟩
          · intro k hk; simp at hk; omega
          · rw [increase_eq]; by_cases hm : c.maxRequests = 0 <;> simp [hm]
          · simp
        · exact liveAreCounted_append _ _ (h.k22 how) (by simp)
        · rfl
        · have e0 : ∀ l : List Ev, (∀ e ∈ l, ∀ g, sndStep g e = g) →
              snd (s.trace ++ Ev.un s.streams.length :: l) = snd s.trace := by
            intro l hl
            have e1 : s.trace ++ Ev.un s.streams.length :: l = (s.trace ++ [Ev.un s.streams.length]) ++ l := by simp
            have h1 := snd_append s.trace (Ev.un s.streams.length)
            rw [sndStep_un _ _ hhdr] at h1
            rw [e1]
            unfold snd at h1 ⊢
            rw [List.foldl_append, h1]
            exact foldl_sndStep_neutral l _ hl
          cases hd : c.hasData <;> cases ht : c.hasTrailers <;> simp <;> exact e0 _ (by simp [sndStep])
        · cases hd : c.hasData <;> cases ht : c.hasTrailers <;> simp [nLog, List.filter_append, isLog]
        · exact hgtm
        · exact hglT
        · exact fun hh => hh
        · intro hh; rcases hh with hh | hh
          · rw [hnf.1] at hh; cases hh
          · rw [hnf.2] at hh; cases hh
        · intro hn
          have := h.k28 hcl hn
          rcases this with hh | hh | hh
          · right; right; exact hh
          · left; exact hh
          · right; left; exact hh
        · intro hh; rcases hh with hh | hh
          · rw [hnf.1] at hh; cases hh
          · rw [hnf.2] at hh; cases hh
        · intro hu _; rw [hnf.1] at hu; cases hu

end MosnVerif.Model.Downstream
