import MosnVerif.Lemmas.Downstream.ProcErr
/-! the ways a worker step can end: cleaned, downstream reset, direct response, retry, advance -/
namespace MosnVerif.Model.Downstream
open MosnVerif.Gen.ProxyPhase MosnVerif.Gen.ProxyReason MosnVerif.Gen.ProxyRetry

/-- the clauses of the invariant that hold at every function boundary inside a worker step -/
structure Base (c : Cfg) (ar aq : Nat) (s : S) : Prop where
  k1 : K1 s
  k2 : K2 s
  k4 : K4 s
  k9 : K9 c ar s
  k10 : K10 c aq s
  k11 : K11 s
  k12 : K12 s
  k13 : K13 s
  k14 : K14 s
  k20 : K20 c s
  k21 : K21 c s
  k22 : K22 c s
  k31 : K31 s

theorem Inv.base {c : Cfg} {ar aq : Nat} {s : S} (h : Inv c ar aq s) : Base c ar aq s :=
  ⟨h.k1, h.k2, h.k4, h.k9, h.k10, h.k11, h.k12, h.k13, h.k14, h.k20, h.k21, h.k22, h.k31⟩

/-- a cleaned state with the worker gone satisfies the invariant -/
theorem tail_clean (c : Cfg) (ar aq : Nat) (s : S) (b : Base c ar aq s) (hcl : s.cleaned = true) (h33 : K33 c s)
    (ph : Phase) (ps : Nat) (nt : Bool) :
    Inv c ar aq { s with running := false, phase := ph, pass := ps, notify := nt } := by
  obtain ⟨k1, k2, k4, k9, k10, k11, k12, k13, k14, k20, k21, k22, k31⟩ := b
  refine ⟨?_, k1, k2, ?_, k4, ?_, ?_, ?_, ?_, k9, k10, k11, k12, k13, k14, ?_, ?_, ?_, ?_, ?_, k20, k21, k22, ?_, ?_, ?_, ?_, ?_, ?_, ?_, ?_, k31, ?_, h33⟩
  · simp [K0, hcl]
  · intro _; exact hcl
  · intro _; exact hcl
  · intro _; right; exact hcl
  all_goals (intro hh; simp [hcl] at hh)

/-- last part of `cleanBody`: clean up, count down, log -/
def cleanFinish (c : Cfg) (s2 : S) : S :=
  { cleanUp c s2 with downActive := (cleanUp c s2).downActive - 1,
                      trace := (cleanUp c s2).trace ++ [Ev.log (cleanUp c s2).respCode (cleanUp c s2).flags] }

theorem cleanFinish_base (c : Cfg) (ar aq : Nat) (s2 : S) (hcl2 : s2.cleaned = true)
    (h1 : K1 s2) (h2 : K2 s2) (hnl : nLog s2.trace = 0) (h9 : K9 c ar s2) (hled : LedgerOk c aq s2)
    (hda : s2.downActive = 1) (hlc : liveCount s2.streams = 0) (h22 : K22 c s2) (h31 : K31 s2) :
    Base c ar aq (cleanFinish c s2) ∧ (cleanFinish c s2).cleaned = true := by
  have hcu := cleanUp_facts c s2
  unfold cleanFinish
  refine ⟨⟨?_, ?_, ?_, ?_, ?_, ?_, ?_, ?_, ?_, ?_, ?_, ?_, ?_⟩, ?_⟩
  · simp only [K1, snd_append, sndStep, cleanUp_trace]; exact h1
  · simp only [K2, snd_append, sndStep, cleanUp_trace, cleanUp_respStarted]; exact h2
  · simp only [K4, nLog_append, isLog, cleanUp_trace, hnl, cleanUp_cleaned, hcl2]; rfl
  · have := hcu.2.2.1
    simp only [K9] at h9 ⊢
    show (cleanUp c s2).retries = (ar : Int) + heldRetry c (cleanUp c s2)
    omega
  · exact hled.1
  · exact hled.2.1
  · simp only [K12, cleanUp_downActive, hda, cleanUp_cleaned, hcl2]; rfl
  · intro _
    exact ⟨hcu.2.1, hlc, hcu.2.2.2.1, hcu.2.2.2.2⟩
  · exact hled.2.2
  · intro _; exact hlc
  · intro _; exact ⟨hcu.2.2.2.1, hcu.2.2.2.2⟩
  · exact h22
  · intro hh; apply h31; rw [← hcu.1]; exact hh
  · exact hcl2

@[simp] theorem cleanBody_cleaned (c : Cfg) (s : S) : (cleanBody c s).cleaned = true := by
  unfold cleanBody
  simp only
  split <;> simp

/-- without an upstream reset `cleanBody` appends exactly the access-log event -/
theorem cleanBody_trace_done (c : Cfg) (s : S) (h : s.procDone = true) :
    (cleanBody c s).trace = s.trace ++ [Ev.log s.respCode s.flags] := by
  unfold cleanBody
  simp [h]

/-- `cleanBody` only appends upstream-reset events and the access-log event -/
theorem cleanBody_snd (c : Cfg) (s : S) : snd (cleanBody c s).trace = snd s.trace := by
  unfold cleanBody
  simp only
  split <;> simp [snd_append, sndStep]

/-- `cleanBody` on a not yet cleaned state whose client stream is dead or will be reset -/
theorem cleanBody_base (c : Cfg) (ar aq : Nat) (s : S) (b : Base c ar aq s) (hcl : s.cleaned = false)
    (hlive : (s.up.isSome && !s.procDone && !c.oneway) = false → liveCount s.streams = 0) :
    Base c ar aq (cleanBody c s) ∧ (cleanBody c s).cleaned = true := by
  obtain ⟨k1, k2, k4, k9, k10, k11, k12, k13, k14, k20, k21, k22, k31⟩ := b
  have hnl : nLog s.trace = 0 := by simpa [K4, hcl] using k4
  have hda : s.downActive = 1 := by simpa [K12, hcl] using k12
  cases hdr : (s.up.isSome && !s.procDone && !c.oneway) with
  | true =>
    have heq : cleanBody c s = cleanFinish c (resetUpstream c { s with cleaned := true, procDone := s.procDone || true }) := by
      unfold cleanBody cleanFinish; simp only [hdr, ite_true]
    rw [heq]
    have hl := resetUpstream_ledger c aq { s with cleaned := true, procDone := s.procDone || true } ⟨k10, k11, k14⟩
    apply cleanFinish_base
    · simp
    · simpa [K1] using k1
    · simpa [K2] using k2
    · simpa using hnl
    · simpa [K9, heldRetry, rsHeld] using k9
    · exact hl.1
    · simpa using hda
    · exact allDead_liveCount hl.2
    · exact K22_resetUpstream c _ k22
    · simpa [K31] using k31
  | false =>
    have heq : cleanBody c s = cleanFinish c { s with cleaned := true, procDone := s.procDone || false } := by
      unfold cleanBody cleanFinish; simp only [hdr, Bool.false_eq_true, ite_false]
    rw [heq]
    apply cleanFinish_base
    · rfl
    · exact k1
    · exact k2
    · exact hnl
    · exact k9
    · exact ⟨k10, k11, k14⟩
    · exact hda
    · exact hlive hdr
    · exact k22
    · exact k31

theorem reenter_end (s : S) : reenter s .End = { s with running := false, phase := .End } := by
  simp [reenter]

/-- the downstream was reset: `ResetStream` cleans the stream and the worker returns -/
theorem tail_down (c : Cfg) (ar aq : Nat) (s : S) (b : Base c ar aq s) (hcl : s.cleaned = false) (hdr : s.downReset = true)
    (hlive : (s.up.isSome && !s.procDone && !c.oneway) = false → liveCount s.streams = 0) :
    Inv c ar aq (reenter (dsResetStream c s) .End) := by
  rw [reenter_end]
  unfold dsResetStream cleanStream
  simp only [hcl, Bool.false_eq_true, if_false]
  have hb : Base c ar aq { s with respCode := TimeoutExceptionCode } := by
    obtain ⟨k1, k2, k4, k9, k10, k11, k12, k13, k14, k20, k21, k22, k31⟩ := b
    exact ⟨k1, k2, k4, k9, k10, k11, k12, k13, k14, k20, k21, k22, k31⟩
  have := cleanBody_base c ar aq { s with respCode := TimeoutExceptionCode } hb hcl hlive
  have h := tail_clean c ar aq _ this.1 this.2 (fun _ => Or.inr (Or.inl (by simpa using hdr))) .End (cleanBody c { s with respCode := TimeoutExceptionCode }).pass
    (cleanBody c { s with respCode := TimeoutExceptionCode }).notify
  exact h

/-- a local reply is pending (two-way): the worker re-enters at `UpFilter` -/
theorem tail_direct_gen (c : Cfg) (ar aq : Nat) (s : S) (b : Base c ar aq s) (hrun : s.running = true) (hcl : s.cleaned = false)
    (how : c.oneway = false) (h3 : K3 s) (h6 : K6 s) (hpd : s.procDone = false) (hsr : s.setupRetry = false)
    (hpass : s.pass = 0) (hlc : liveCount s.streams = 0) (hresp : s.resp.isSome = true)
    (hur : s.upReset = false) (hpt : s.perTry = false) (hgt : s.global = false) (hrs : s.respStarted = false) :
    Inv c ar aq (reenter { s with direct := false, rs := none, retries := (rsReset c s).retries } .UpFilter) := by
  have hre : reenter { s with direct := false, rs := none, retries := (rsReset c s).retries } .UpFilter =
      { s with direct := false, rs := none, retries := (rsReset c s).retries, pass := 1, phase := .UpFilter, notify := false } := by
    simp [reenter, hpass, loopBudget]
  rw [hre]
  obtain ⟨k1, k2, k4, k9, k10, k11, k12, k13, k14, k20, k21, k22, k31⟩ := b
  refine ⟨?_, k1, k2, h3, k4, ?_, h6, ?_, ?_, ?_, k10, k11, k12, ?_, k14, ?_, ?_, ?_, ?_, ?_, k20, k21, k22, ?_, ?_, ?_, ?_, ?_, ?_, ?_, ?_, ?_, ?_, (fun hh => absurd hh (by simp [hcl]))⟩
  · simp [K0, hrun, hcl]
  · intro hh; simp [hpd] at hh
  · exact k7_intro hsr rfl
  · intro _; simp [upPhase]
  · have h0 := rsReset_retries c s
    simp only [K9] at k9
    simp only [K9, heldRetry, rsHeld, Bool.and_false, Bool.false_eq_true, if_false]
    omega
  · intro hh; simp [hcl] at hh
  · intro _ _; simp [hlc, hresp, hur, hpt, hgt, hrs]
  · intro _ hh; simp [upPhase] at hh
  · intro _ hh; simp [prePhase] at hh
  · intro _ hh; simp [fwdPhase] at hh
  · intro _; simp
  · intro _ hh; simp [hur] at hh
  · intro _ _ _ hh; simp at hh
  · intro _ _ hh; simp at hh
  · intro _ hh; simp at hh
  · intro _ hh; simp [fwdPhase] at hh
  · intro _ hh; simp at hh
  · intro _ _ hh; simp at hh
  · intro _ hh; simp at hh
  · intro hh; simp at hh
  · intro _ hh; simp [how] at hh

/-- the same when the retry state holds no slot: nothing is given back -/
theorem tail_direct (c : Cfg) (ar aq : Nat) (s : S) (b : Base c ar aq s) (hrun : s.running = true) (hcl : s.cleaned = false)
    (how : c.oneway = false) (h3 : K3 s) (h6 : K6 s) (hpd : s.procDone = false) (hsr : s.setupRetry = false)
    (hpass : s.pass = 0) (hheld : rsHeld s = false) (hlc : liveCount s.streams = 0) (hresp : s.resp.isSome = true)
    (hur : s.upReset = false) (hpt : s.perTry = false) (hgt : s.global = false) (hrs : s.respStarted = false) :
    Inv c ar aq (reenter { s with direct := false, rs := none } .UpFilter) := by
  have := tail_direct_gen c ar aq s b hrun hcl how h3 h6 hpd hsr hpass hlc hresp hur hpt hgt hrs
  rwa [rsReset_retries_of_not_held c s hheld] at this

/-- a local reply is pending or the upstream was reset (one-way): the worker re-enters at `Oneway` -/
theorem tail_oneway (c : Cfg) (ar aq : Nat) (s : S) (b : Base c ar aq s) (hrun : s.running = true) (hcl : s.cleaned = false)
    (how : c.oneway = true) (h3 : K3 s) (h6 : K6 s) (hpd : s.procDone = false) (hsr : s.setupRetry = false)
    (hpass : s.pass = 0) (hrs : s.respStarted = false) (rs' : Option RetryState) (hheld : rs' = s.rs ∨ (rs' = none ∧ rsHeld s = false))
    (h27 : s.urr = true → s.upReset = true ∨ (s.resp.isSome = true ∧ (liveCount s.streams = 0 ∨ respHasMore s.resp = true))) :
    Inv c ar aq (reenter { s with direct := false, rs := rs' } .Oneway) := by
  have hre : reenter { s with direct := false, rs := rs' } .Oneway =
      { s with direct := false, rs := rs', pass := 1, phase := .Oneway, notify := false } := by
    simp [reenter, hpass, loopBudget]
  rw [hre]
  obtain ⟨k1, k2, k4, k9, k10, k11, k12, k13, k14, k20, k21, k22, k31⟩ := b
  have hlc := k20 how
  refine ⟨?_, k1, k2, h3, k4, ?_, h6, ?_, ?_, ?_, k10, k11, k12, ?_, k14, ?_, ?_, ?_, ?_, ?_, k20, k21, k22, ?_, ?_, ?_, ?_, ?_, ?_, ?_, ?_, ?_, ?_, (fun hh => absurd hh (by simp [hcl]))⟩
  · simp [K0, hrun, hcl]
  · intro hh; simp [hpd] at hh
  · exact k7_intro hsr rfl
  · intro _; simp
  · rcases hheld with h | ⟨h, h'⟩
    · simp only [K9, heldRetry, rsHeld, h] at k9 ⊢; exact k9
    · have h0 : heldRetry c s = 0 := by simp [heldRetry, h']
      simp only [K9, h0] at k9
      simpa [K9, heldRetry, rsHeld, h] using k9
  · intro hh; simp [hcl] at hh
  · intro _ hh; simp [upPhase] at hh
  · intro _ _; exact hrs
  · intro _ hh; simp [prePhase] at hh
  · intro _ _; left; exact ⟨how, rfl, rfl⟩
  · intro _; simp
  · intro _ _; exact hlc
  · intro _ hh; simp [how] at hh
  · intro _ hh; simp [how] at hh
  · intro _ hh; simp at hh
  · intro _ _ hu
    rcases h27 hu with h | h
    · exact Or.inl h
    · exact Or.inr (Or.inl h)
  · intro _ hh; simp at hh
  · intro _ _ hh; simp at hh
  · intro _ hh; simp at hh
  · rcases hheld with h | ⟨h, _⟩
    · simpa [K31, h] using k31
    · simp [K31, h]
  · intro _ _; simp [upPhase]

/-- a retry was set up: the worker re-enters at `Retry` (a retry pass keeps the loop budget) -/
theorem tail_retry (c : Cfg) (ar aq : Nat) (s : S) (b : Base c ar aq s) (hrun : s.running = true) (hcl : s.cleaned = false)
    (how : c.oneway = false) (h3 : K3 s) (h6 : K6 s) (hpd : s.procDone = false) (hdir : s.direct = false)
    (hdr : s.downReset = false) (hpass : s.pass = 0) (hup : s.up.isSome = true) (hrs : s.rs.isSome = true)
    (hurr : s.urr = false) (hur : s.upReset = false) (hexp : s.globalExpired = false)
    (h24 : s.reqSent = true → s.global = true) (hlc : liveCount s.streams = 0) (hrst : s.respStarted = false)
    (hpt : s.perTry = false) :
    Inv c ar aq (reenter { s with up := some none, setupRetry := false } .Retry) := by
  have hre : reenter { s with up := some none, setupRetry := false } .Retry =
      { s with up := some none, setupRetry := false, pass := 0, phase := .Retry, notify := false } := by
    have hk : retryKeepsBudget = true := by decide
    simp [reenter, hpass, loopBudget, hk]
  rw [hre]
  obtain ⟨k1, k2, k4, k9, k10, k11, k12, k13, k14, k20, k21, k22, k31⟩ := b
  -- the request given up for the retry is detached: no client stream is live any more, so none needs an owner
  have hdead : allDead s.streams = true := allDead_of_counted s.streams (by simpa [K22, liveAreCounted] using k22 how) hlc
  have h14 : K14 { s with up := some none, setupRetry := false, pass := 0, phase := .Retry, notify := false } := by
    have h14s := (streamsOk_iff s).1 k14
    refine (streamsOk_iff _).2 ⟨h14s.1, ?_, ?_⟩
    · intro st hst hl
      have hm : st ∈ s.streams := List.mem_of_getLast? hst
      have := (List.all_eq_true.1 hdead) st hm
      simp [hl] at this
    · intro k hk; simp at hk
  refine ⟨?_, k1, k2, h3, k4, ?_, h6, ?_, ?_, k9, k10, k11, k12, ?_, h14, ?_, ?_, ?_, ?_, ?_, k20, k21, k22, ?_, ?_, ?_, ?_, ?_, ?_, ?_, ?_, (fun _ => rfl), ?_, (fun hh => absurd hh (by simp [hcl]))⟩
  · simp [K0, hrun, hcl]
  · intro hh; simp [hpd] at hh
  · exact k7_intro rfl hdir
  · intro _; simp
  · intro hh; simp [hcl] at hh
  · intro _ hh; simp [upPhase] at hh
  · intro _ _; exact hrst
  · intro _ hh; simp [prePhase] at hh
  · intro _ _
    right
    refine ⟨rfl, hrs, ?_, ?_, ?_, ?_⟩
    · intro hh; simp [hurr, hur, hdr] at hh
    · intro hh; simp [hexp] at hh
    · intro _ hh; left; exact h24 hh
    · intro hh; simp at hh
  · intro _; simp
  · intro _ _; exact hlc
  · intro _ _ hh _; left; exact h24 hh
  · intro _ _ _; rfl
  · intro _ _; exact ⟨hpt, fun hh => by simp [hur] at hh, fun hh => by simp [hurr] at hh, rfl⟩
  · intro _ _ hh; simp [hurr] at hh
  · intro _ hh; simp at hh
  · intro _ _ _; simp
  · intro _ hh; simp at hh
  · intro _ hh; simp [how] at hh

end MosnVerif.Model.Downstream
