import MosnVerif.Lemmas.Downstream.Budget10
/-!
proxy10 — **the global timer object**: `doRetry` decides with `s.responseTimer != nil` whether it arms both timers or only the
per-try timer.  The machine writes that test as `hasTimerObj s = (gtObj || global) && reqSent` (so that the main invariant needs
no fact about the pointer field); here: on every reachable state an armed timer has an object and an object exists only after
the request was sent (`global → gtObj → reqSent`), hence `hasTimerObj s = s.gtObj` — the test of the machine IS the test on the
pointer field `gtObj` (set where the timer is created, kept when it fires or is stopped, forgotten by `cleanUp`).

No other invariant is needed: every function of the machine, and every label, is related by `TR` below.
-/
namespace MosnVerif.Model.Downstream
open MosnVerif.Gen.ProxyPhase MosnVerif.Gen.ProxyReason MosnVerif.Gen.ProxyRetry

/-- the three fields the argument looks at -/
def tk (s : S) : Bool × Bool × Bool := (s.global, s.gtObj, s.reqSent)

/-- `reqSent` is never taken back; a timer object appears only together with `reqSent`; an armed timer either has an object
or was armed before and the object it had is still there -/
def TR (s t : S) : Prop :=
  (t.reqSent = false → s.reqSent = false) ∧
  (t.gtObj = true → s.gtObj = true ∨ t.reqSent = true) ∧
  (t.global = true → t.gtObj = true ∨ (s.global = true ∧ (s.gtObj = true → t.gtObj = true)))

theorem TR.refl (s : S) : TR s s := ⟨id, fun h => Or.inl h, fun h => Or.inr ⟨h, id⟩⟩

theorem TR.trans {s m t : S} (h1 : TR s m) (h2 : TR m t) : TR s t := by
  obtain ⟨a1, a2, a3⟩ := h1
  obtain ⟨b1, b2, b3⟩ := h2
  refine ⟨fun h => a1 (b1 h), fun h => ?_, fun h => ?_⟩
  · rcases b2 h with hm | hm
    · rcases a2 hm with hs | hs
      · exact Or.inl hs
      · right
        cases ht : t.reqSent with
        | true => rfl
        | false => rw [b1 ht] at hs; cases hs
    · exact Or.inr hm
  · rcases b3 h with hm | ⟨hm, hmo⟩
    · exact Or.inl hm
    · rcases a3 hm with hs | ⟨hs, hso⟩
      · exact Or.inl (hmo hs)
      · exact Or.inr ⟨hs, fun hh => hmo (hso hh)⟩

/-- a function that at most stops the timer -/
theorem TR.of_le {s t : S} (hg : t.global = true → s.global = true) (ho : t.gtObj = s.gtObj) (hr : t.reqSent = s.reqSent) :
    TR s t :=
  ⟨fun h => by rw [← hr]; exact h, fun h => Or.inl (by rw [← ho]; exact h), fun h => Or.inr ⟨hg h, fun hh => by rw [ho]; exact hh⟩⟩

theorem TR.of_key {s t : S} (h : tk t = tk s) : TR s t := by
  simp only [tk, Prod.mk.injEq] at h
  exact TR.of_le (fun hh => by rw [← h.1]; exact hh) h.2.1 h.2.2

/-- the object invariant -/
def TObj (s : S) : Prop := (s.global = true → s.gtObj = true) ∧ (s.gtObj = true → s.reqSent = true)

theorem TObj.step {s t : S} (h : TObj s) (r : TR s t) : TObj t := by
  obtain ⟨a1, a2, a3⟩ := r
  refine ⟨fun hg => ?_, fun ho => ?_⟩
  · rcases a3 hg with x | ⟨x, y⟩
    · exact x
    · exact y (h.1 x)
  · rcases a2 ho with x | x
    · cases ht : t.reqSent with
      | true => rfl
      | false => have := h.2 x; rw [a1 ht] at this; cases this
    · exact x

/-! ### the functions of the machine -/

@[simp] theorem tk_resetUpstream (c : Cfg) (s : S) : tk (resetUpstream c s) = tk s := by
  unfold resetUpstream; split
  · split <;> rfl
  · rfl
@[simp] theorem resetUpstream_gtObj (c : Cfg) (s : S) : (resetUpstream c s).gtObj = s.gtObj := by
  have := tk_resetUpstream c s
  simp only [tk, Prod.mk.injEq] at this
  exact this.2.1
@[simp] theorem tk_destroyStream (c : Cfg) (s : S) (k : Nat) : tk (destroyStream c s k) = tk s := rfl
@[simp] theorem tk_rsReset (c : Cfg) (s : S) : tk (rsReset c s) = tk s := rfl
@[simp] theorem tk_rsRetry (c : Cfg) (s : S) (r : Option Reason) : tk (rsRetry c s r).1 = tk s := rfl
@[simp] theorem tk_sendHijack (s : S) (code : Nat) (b : Bool) : tk (sendHijack s code b) = tk s := rfl
@[simp] theorem tk_upOnResetStream (s : S) (r : Reason) : tk (upOnResetStream s r) = tk s := rfl

theorem tr_resetUpstream (c : Cfg) (s : S) : TR s (resetUpstream c s) := TR.of_key (tk_resetUpstream c s)

/-- `cleanUp` stops the timer AND forgets the object -/
theorem tr_cleanUp (c : Cfg) (s : S) : TR s (cleanUp c s) :=
  ⟨fun h => h, fun h => by simp [cleanUp] at h, fun h => by simp [cleanUp] at h⟩

/-- `onUpstreamRequestSent` — the one arm site: the object is created with the timer, the request is marked sent -/
theorem tr_onUpstreamRequestSent (c : Cfg) (s : S) : TR s (onUpstreamRequestSent c s) := by
  refine ⟨fun h => by simp [onUpstreamRequestSent] at h, fun _ => Or.inr (by simp [onUpstreamRequestSent]), fun h => ?_⟩
  simp only [onUpstreamRequestSent, Bool.or_eq_true] at h ⊢
  rcases h with h | h
  · exact Or.inr ⟨h, fun hh => Or.inl hh⟩
  · exact Or.inl (Or.inr h)

theorem tr_cleanFinish (c : Cfg) (x : S) : TR x (cleanFinish c x) :=
  TR.trans (tr_cleanUp c x) (TR.of_key rfl)

theorem tr_cleanBody (c : Cfg) (s : S) : TR s (cleanBody c s) := by
  by_cases hdo : (s.up.isSome && !s.procDone && !c.oneway) = true
  · have heq : cleanBody c s = cleanFinish c (resetUpstream c { s with cleaned := true, procDone := s.procDone || true }) := by
      unfold cleanBody cleanFinish; simp only [hdo, ite_true]
    rw [heq]
    exact TR.trans (TR.trans (TR.of_key rfl : TR s { s with cleaned := true, procDone := s.procDone || true })
      (tr_resetUpstream c _)) (tr_cleanFinish c _)
  · have heq : cleanBody c s = cleanFinish c { s with cleaned := true, procDone := s.procDone || false } := by
      unfold cleanBody cleanFinish; simp only [hdo, Bool.false_eq_true, ite_false]
    rw [heq]
    exact TR.trans (TR.of_key rfl : TR s { s with cleaned := true, procDone := s.procDone || false }) (tr_cleanFinish c _)

theorem tr_cleanStream (c : Cfg) (s : S) : TR s (cleanStream c s) := by
  unfold cleanStream; split
  · exact TR.refl s
  · exact tr_cleanBody c s

theorem tr_dsResetStream (c : Cfg) (s : S) : TR s (dsResetStream c s) := by
  unfold dsResetStream
  exact TR.trans (TR.of_key rfl : TR s { s with respCode := TimeoutExceptionCode }) (tr_cleanStream c _)

theorem tr_resetDownstream (c : Cfg) (s : S) : TR s (resetDownstream c s) := by
  unfold resetDownstream
  split
  · simp only; split <;> exact TR.of_key rfl
  · exact TR.refl s

theorem tr_onUpstreamResetFinish (c : Cfg) (s : S) (r : Reason) : TR s (onUpstreamResetFinish c s r) := by
  unfold onUpstreamResetFinish
  simp only
  split
  · exact TR.trans (tr_cleanUp c s) (tr_resetDownstream c _)
  · exact TR.trans (tr_cleanUp c s) (TR.of_key rfl)

/-- `setupRetry` may stop the timer (it does not: `Gen.ProxyTimers`), it never forgets the object -/
theorem tr_setupRetry (c : Cfg) (s : S) (eos : Bool) : TR s (setupRetry c s eos).1 := by
  unfold setupRetry
  split
  · exact TR.refl s
  · simp only
    refine TR.of_le (fun h => ?_) ?_ ?_
    · simp only [Bool.and_eq_true] at h
      have := h.1
      split at this <;> simpa using this
    · split <;> simp
    · split <;> simp

theorem tr_onUpstreamReset (c : Cfg) (s : S) : TR s (onUpstreamReset c s) := by
  unfold onUpstreamReset
  simp only
  split
  · have h1 : TR s (rsRetry c s (some s.resetReason)).1 := TR.of_key rfl
    generalize rsRetry c s (some s.resetReason) = res at h1 ⊢
    obtain ⟨s1, chk⟩ := res
    simp only at h1 ⊢
    split
    · have h2 := tr_setupRetry c s1 true
      generalize setupRetry c s1 true = r2 at h2 ⊢
      obtain ⟨s2, ok⟩ := r2
      cases ok
      · exact TR.trans h1 (TR.trans h2 (tr_onUpstreamResetFinish c _ _))
      · exact TR.trans h1 (TR.trans h2 (TR.of_key rfl))
    · refine TR.trans h1 ?_
      split
      · exact TR.trans (TR.of_key rfl : TR s1 (orFlag s1 UpstreamOverflow)) (tr_onUpstreamResetFinish c _ _)
      · exact tr_onUpstreamResetFinish c _ _
  · exact tr_onUpstreamResetFinish c s _

theorem tr_abandonRetry (s : S) : TR s (abandonRetry s) := by
  unfold abandonRetry; split
  · exact TR.of_key rfl
  · exact TR.refl s

theorem tr_peTail (c : Cfg) (s : S) (e : Bool) : TR s (peTail c s e).1 := by
  unfold peTail
  split
  · exact tr_dsResetStream c s
  · split
    · simp only
      have h0 : TR s ({ s with direct := false, rs := none, retries := (rsReset c s).retries } : S) := TR.of_key rfl
      have hs := TR.trans h0 (tr_abandonRetry _)
      split
      · exact hs
      · split <;> exact hs
    · split
      · exact TR.of_key rfl
      · exact TR.refl s

theorem tr_processError (c : Cfg) (s : S) : TR s (processError c s).1 := by
  rw [processError_spec]
  split
  · exact TR.refl s
  · split
    · split
      · exact TR.refl s
      · exact TR.trans (tr_onUpstreamReset c s) (tr_peTail c _ _)
    · exact tr_peTail c s _

theorem tr_reenter (s : S) (p : Phase) : TR s (reenter s p) := by
  unfold reenter; split
  · exact TR.of_key rfl
  · simp only; split <;> split <;> exact TR.of_key rfl

theorem tr_finishPhase (c : Cfg) (s : S) : TR s (finishPhase c s) := by
  unfold finishPhase
  have h1 := tr_processError c s
  generalize processError c s = r at h1 ⊢
  obtain ⟨x, o⟩ := r
  cases o
  · exact TR.trans h1 (TR.of_key rfl)
  · exact TR.trans h1 (tr_reenter x _)

theorem tr_dsAppendHeaders (c : Cfg) (s : S) (eos : Bool) : TR s (dsAppendHeaders c s eos) := by
  unfold dsAppendHeaders endStream emit
  simp only
  split
  · exact TR.trans (TR.of_key rfl) (tr_cleanStream c _)
  · exact TR.of_key rfl

theorem tr_dsAppendData (c : Cfg) (s : S) (eos : Bool) : TR s (dsAppendData c s eos) := by
  unfold dsAppendData endStream emit
  simp only
  split
  · exact TR.trans (TR.of_key rfl) (tr_cleanStream c _)
  · exact TR.of_key rfl

theorem tr_dsAppendTrailers (c : Cfg) (s : S) : TR s (dsAppendTrailers c s) := by
  unfold dsAppendTrailers endStream emit
  simp only
  exact TR.trans (TR.of_key rfl) (tr_cleanStream c _)

theorem tr_recvFinished (c : Cfg) (s : S) : TR s (onUpstreamResponseRecvFinished c s) := by
  unfold onUpstreamResponseRecvFinished
  simp only
  refine TR.trans ?_ (tr_cleanUp c _)
  split
  · exact tr_resetUpstream c s
  · exact TR.refl s

theorem tr_headersFinish (c : Cfg) (s : S) (eos : Bool) : TR s (onUpstreamHeadersFinish c s eos) := by
  unfold onUpstreamHeadersFinish
  simp only
  refine TR.trans ?_ (tr_dsAppendHeaders c _ eos)
  split
  · exact TR.trans (TR.of_key rfl : TR s { s with respStarted := true }) (tr_recvFinished c _)
  · exact TR.of_key rfl

theorem tr_onUpstreamData (c : Cfg) (s : S) (eos : Bool) : TR s (onUpstreamData c s eos) := by
  unfold onUpstreamData
  simp only
  refine TR.trans ?_ (tr_dsAppendData c _ eos)
  split
  · exact tr_recvFinished c s
  · exact TR.refl s

theorem tr_onUpstreamTrailers (c : Cfg) (s : S) : TR s (onUpstreamTrailers c s) := by
  unfold onUpstreamTrailers
  exact TR.trans (tr_recvFinished c s) (tr_dsAppendTrailers c _)

theorem tr_onUpstreamHeaders (c : Cfg) (s : S) (eos : Bool) : TR s (onUpstreamHeaders c s eos) := by
  unfold onUpstreamHeaders
  split
  · have h1 : TR s (rsRetry c s none).1 := TR.of_key rfl
    generalize rsRetry c s none = res at h1 ⊢
    obtain ⟨s1, chk⟩ := res
    simp only at h1 ⊢
    have fin : ∀ x : S, TR s x → TR s (onUpstreamHeadersFinish c
        (rsReset c (if (chk == Gen.ProxyRetry.RetryOverflow) = true then orFlag x UpstreamOverflow else x)) eos) := by
      intro x hx
      refine TR.trans hx (TR.trans (TR.trans ?_ (TR.of_key (tk_rsReset c _))) (tr_headersFinish c _ eos))
      split
      · exact TR.of_key rfl
      · exact TR.refl x
    by_cases hc : (chk == ShouldRetry) = true
    · simp only [hc, if_true]
      have h3 := tr_setupRetry c s1 eos
      generalize setupRetry c s1 eos = r2 at h3 ⊢
      obtain ⟨s2, ok⟩ := r2
      cases ok
      · simp only [Bool.false_eq_true, if_false]; exact fin s2 (TR.trans h1 h3)
      · simp only [if_true]; exact TR.trans h1 h3
    · simp only [hc, Bool.false_eq_true, if_false]
      exact fin s1 h1
  · exact tr_headersFinish c s eos

theorem tr_upAppendHeaders (c : Cfg) (s : S) (eos : Bool) : TR s (upAppendHeaders c s eos) := by
  unfold upAppendHeaders
  split
  · exact TR.refl s
  · simp only; split <;> exact TR.of_key rfl

theorem tr_upAppendData (s : S) (eos : Bool) : TR s (upAppendData s eos) := TR.of_key rfl
theorem tr_upAppendTrailers (s : S) : TR s (upAppendTrailers s) := TR.of_key rfl

theorem tr_receiveHeaders (c : Cfg) (s : S) (eos : Bool) : TR s (receiveHeaders c s eos) := by
  unfold receiveHeaders
  simp only
  split
  · exact TR.trans (tr_upAppendHeaders c s eos) (tr_onUpstreamRequestSent c _)
  · exact tr_upAppendHeaders c s eos

theorem tr_receiveData (c : Cfg) (s : S) (eos : Bool) : TR s (receiveData c s eos) := by
  unfold receiveData
  split
  · exact TR.refl s
  · simp only
    have key : ∀ x : S, TR s x → TR s (if x.procDone = true then cleanStream c x else x) := by
      intro x hx; split
      · exact TR.trans hx (tr_cleanStream c x)
      · exact hx
    apply key
    refine TR.trans ?_ (tr_upAppendData _ eos)
    split
    · exact TR.trans (TR.of_key rfl : TR s { s with recvDone := eos }) (tr_onUpstreamRequestSent c _)
    · exact TR.of_key rfl

theorem tr_receiveTrailers (c : Cfg) (s : S) : TR s (receiveTrailers c s) := by
  unfold receiveTrailers
  split
  · exact TR.refl s
  · simp only
    have key : ∀ x : S, TR s x → TR s (if x.procDone = true then cleanStream c x else x) := by
      intro x hx; split
      · exact TR.trans hx (tr_cleanStream c x)
      · exact hx
    apply key
    exact TR.trans (TR.trans (TR.of_key rfl : TR s { s with recvDone := true }) (tr_onUpstreamRequestSent c _))
      (tr_upAppendTrailers _)

theorem tr_chooseHost (c : Cfg) (s : S) : TR s (chooseHost c s) := by
  unfold chooseHost
  simp only
  split
  · exact TR.of_key rfl
  · exact TR.of_key rfl
  · exact TR.of_key rfl
  · split <;> exact TR.of_key rfl

theorem tr_doRetry (c : Cfg) (s : S) : TR s (doRetry c s) := by
  rw [doRetry_eq]
  split
  · exact TR.refl s
  split
  · exact TR.of_key rfl
  unfold doRetryBody
  split
  · refine TR.trans ?_ (tr_cleanUp c _)
    split <;> exact TR.of_key rfl
  · simp only
    have h1 : TR s (upAppendHeaders c { s with up := some none, setupRetry := false } (!c.hasData && !c.hasTrailers)) :=
      TR.trans (TR.of_key rfl : TR s { s with up := some none, setupRetry := false }) (tr_upAppendHeaders c _ _)
    generalize upAppendHeaders c { s with up := some none, setupRetry := false } (!c.hasData && !c.hasTrailers) = a at h1
    have h2 : TR s (if c.hasData = true then upAppendData a (!c.hasTrailers) else a) := by
      split
      · exact TR.trans h1 (tr_upAppendData a _)
      · exact h1
    generalize (if c.hasData = true then upAppendData a (!c.hasTrailers) else a) = b at h2
    have h3 : TR s (if c.hasTrailers = true then upAppendTrailers b else b) := by
      split
      · exact TR.trans h2 (tr_upAppendTrailers b)
      · exact h2
    generalize (if c.hasTrailers = true then upAppendTrailers b else b) = d at h3
    have h4 : TR s (if (!hasTimerObj d) = true then onUpstreamRequestSent c d else setupPerReqTimeout c d) := by
      split
      · exact TR.trans h3 (tr_onUpstreamRequestSent c d)
      · exact TR.trans h3 (TR.of_key rfl)
    refine TR.trans h4 ⟨fun h => (by cases h), fun h => Or.inl h, fun h => Or.inr ⟨h, id⟩⟩

/-- the worker label -/
theorem tr_work (c : Cfg) (s : S) : TR s (work c s) := by
  unfold work
  split
  · exact TR.refl s
  split
  · exact TR.refl s
  have pe : ∀ x : S, TR s x → ∀ r : S × Option Phase, r = processError c x → TR s r.1 :=
    fun x hx r hr => by rw [hr]; exact TR.trans hx (tr_processError c x)
  split
  · exact TR.of_key rfl
  · exact tr_finishPhase c s
  · exact tr_finishPhase c s
  · exact tr_finishPhase c s
  · exact TR.trans (tr_chooseHost c s) (tr_finishPhase c _)
  · exact tr_finishPhase c s
  · exact TR.trans (tr_receiveHeaders c s _) (tr_finishPhase c _)
  · split
    · exact TR.trans (tr_receiveData c s _) (tr_finishPhase c _)
    · exact TR.of_key rfl
  · split
    · exact TR.trans (tr_receiveTrailers c s) (tr_finishPhase c _)
    · exact TR.of_key rfl
  · split
    · have h1 := pe _ (tr_cleanStream c s) _ rfl
      generalize processError c (cleanStream c s) = r at h1 ⊢
      obtain ⟨x, o⟩ := r
      cases o
      · exact TR.trans h1 (TR.of_key rfl)
      · exact TR.trans h1 (tr_reenter x _)
    · exact TR.of_key rfl
  · exact TR.trans (tr_doRetry c s) (tr_finishPhase c _)
  · split
    · exact TR.trans (TR.of_key rfl : TR s { s with notify := false }) (tr_finishPhase c _)
    · exact TR.refl s
  · have h1 := pe _ (TR.refl s) _ rfl
    generalize processError c s = r at h1 ⊢
    obtain ⟨x, o⟩ := r
    cases o
    · exact TR.trans h1 (TR.of_key rfl)
    · exact TR.trans h1 (tr_reenter x _)
  · split
    · refine TR.trans ?_ (tr_finishPhase c _)
      split
      · exact TR.refl s
      · exact tr_onUpstreamHeaders c s _
    · exact TR.of_key rfl
  · split
    · split
      · refine TR.trans ?_ (tr_finishPhase c _)
        split
        · exact TR.refl s
        · exact tr_onUpstreamData c s _
      · exact TR.of_key rfl
    · exact TR.of_key rfl
  · split
    · split
      · refine TR.trans ?_ (tr_finishPhase c _)
        split
        · exact TR.refl s
        · exact tr_onUpstreamTrailers c s
      · exact TR.of_key rfl
    · exact TR.of_key rfl
  · exact TR.of_key rfl

theorem tr_terminateL (c : Cfg) (s : S) (code : Nat) : TR s (terminateL c s code) := by
  rw [terminateL_eq]
  split <;> (try split) <;> (try split) <;> (try split) <;> first
    | exact TR.refl s
    | exact TR.of_le (fun h => by simp [terminateAcc] at h) (by simp [terminateAcc]) (by simp [terminateAcc])

/-- every label -/
theorem tr_step (c : Cfg) (s : S) (l : Label) : TR s (step c s l) := by
  cases l with
  | work => exact tr_work c s
  | upResp k code d t =>
    simp only [step, upResp]
    cases hk : s.streams[k]? with
    | none => exact TR.refl s
    | some st => simp only; split <;> (try split) <;> first | exact TR.refl s | exact TR.of_key (by simp [tk])
  | upRespS k code d t =>
    simp only [step, upRespS, upResp]
    split
    · cases hk : s.streams[k]? with
      | none => exact TR.refl s
      | some st => simp only; split <;> (try split) <;> first | exact TR.refl s | exact TR.of_key (by simp [tk])
    · cases hk : s.streams[k]? with
      | none => exact TR.refl s
      | some st => simp only; split <;> (try split) <;> first | exact TR.refl s | exact TR.of_key (by simp [tk])
  | upReset k r =>
    simp only [step, upResetL]
    cases hk : s.streams[k]? with
    | none => exact TR.refl s
    | some st => simp only; split <;> (try split) <;> first | exact TR.refl s | exact TR.of_key (by simp [tk])
  | upEnd k =>
    simp only [step, upEndL]
    cases hk : s.streams[k]? with
    | none => exact TR.refl s
    | some st => simp only; split <;> first | exact TR.refl s | exact TR.of_key (by simp [tk])
  | poolFail f => exact TR.of_key rfl
  | hostsGone => exact TR.of_key rfl
  | perTryFire =>
    simp only [step, perTryFire]
    split
    · exact TR.refl s
    · split <;> (try split) <;> (try split) <;> first | exact TR.of_key rfl | exact TR.of_key (by simp [tk, orFlag, upOnResetStream])
  | globalFire =>
    simp only [step, globalFire]
    split
    · exact TR.refl s
    · split <;> (try split) <;> (try split) <;> (try split) <;>
        exact TR.of_le (fun h => by simp [upOnResetStream] at h) (by simp [upOnResetStream]) (by simp [upOnResetStream])
  | downReset r =>
    simp only [step, downResetL]
    split <;> exact TR.of_key rfl
  | connClose =>
    simp only [step, connClose]
    split <;> exact TR.of_key rfl
  | terminate code => exact tr_terminateL c s code
  | terminateStale g code =>
    simp only [step]; rw [terminateStale_eq]
    split
    · exact tr_terminateL c s code
    · exact TR.refl s
  | terminateRaced code k d t =>
    simp only [step]; rw [terminateRaced_eq]; exact tr_terminateL c s code
  | lateResp k d t =>
    simp only [step, lateBackoff, lateRecv]
    split
    · split <;> exact TR.of_key rfl
    · exact TR.refl s
  | gtInSetup b =>
    simp only [step, gtInSetup]
    split
    · exact TR.refl s
    · exact TR.of_le (fun h => by simp at h) rfl rfl

/-- **the timer object on every schedule**: an armed global timer has an object, an object exists only once the request was
sent -/
theorem timer_object_run (c : Cfg) (ar aq : Nat) (l : List Label) : TObj (run c (init ar aq) l) := by
  have : ∀ (l : List Label) (s : S), TObj s → TObj (l.foldl (step c) s) := by
    intro l
    induction l with
    | nil => intro s t; exact t
    | cons a r ih => intro s t; exact ih _ (t.step (tr_step c s a))
  exact this l _ ⟨fun h => by simp [init] at h, fun h => by simp [init] at h⟩

/-- **`hasTimerObj` is the pointer test**: on every reachable state the machine's reading of `s.responseTimer != nil` equals
the field `gtObj` -/
theorem hasTimerObj_eq (c : Cfg) (ar aq : Nat) (l : List Label) :
    hasTimerObj (run c (init ar aq) l) = (run c (init ar aq) l).gtObj := by
  have h := timer_object_run c ar aq l
  generalize run c (init ar aq) l = s at h ⊢
  unfold hasTimerObj
  unfold TObj at h
  revert h
  cases s.global <;> cases s.gtObj <;> cases s.reqSent <;> simp

end MosnVerif.Model.Downstream
