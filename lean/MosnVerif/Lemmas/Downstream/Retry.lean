import MosnVerif.Lemmas.Downstream.Streams
/-! facts about the regenerated retry-state functions on the small state (retry state × Retries().Cur()) -/
namespace MosnVerif.Model.Downstream
open MosnVerif.Gen.ProxyRetry MosnVerif.Gen.Resource

/-- units of the retries resource a retry state accounts for -/
def heldUnits (c : Cfg) (r : RetryState) : Int := if c.maxRetries != 0 && r.held then 1 else 0

theorem reset_spec (c : Cfg) (chk : Bool) (r : RetryState) (n : Int) :
    let p := reset (retryOps c chk) (r, n)
    p.1.held = false ∧ p.1.remaining = r.remaining ∧ p.2 - heldUnits c p.1 = n - heldUnits c r := by
  simp only [reset, retryOps, heldUnits, decrease]
  cases hh : r.held <;> by_cases hm : c.maxRetries = 0 <;> simp [hh, hm] <;> omega

/-- the admission rule of one retry decision on the small state: with `a ≥ 0` slots held by OTHER requests, budget left and
a retriable failure, the decision is "retry" iff the resource is unlimited or `a` is below the limit — whether or not
this request still holds the slot of its previous retry: the regenerated `retry` gives that slot back (`reset`) BEFORE it
asks `CanCreate` -/
theorem retry_admit (c : Cfg) (r : RetryState) (n a : Int) (ha : 0 ≤ a) (hn : n = a + heldUnits c r) (hrem : r.remaining ≠ 0) :
    ((retry (retryOps c true) (r, n)).2 = ShouldRetry ↔ (c.maxRetries = 0 ∨ a < (c.maxRetries : Int))) ∧
    ((retry (retryOps c true) (r, n)).2 = RetryOverflow ↔ ¬ (c.maxRetries = 0 ∨ a < (c.maxRetries : Int))) := by
  subst hn
  simp only [retry, shouldRetry, reset, retryOps, heldUnits, decrease, increase, canCreate, id,
    ShouldRetry, NoRetry, RetryOverflow]
  cases hh : r.held <;> by_cases hm : c.maxRetries = 0 <;> simp [hh, hm, hrem] <;> (try split) <;> (try simp_all) <;> (try omega)

theorem retry_spec (c : Cfg) (chk : Bool) (r : RetryState) (n : Int) :
    let res := retry (retryOps c chk) (r, n)
    (res.2 = ShouldRetry ∨ res.2 = NoRetry ∨ res.2 = RetryOverflow) ∧
    (res.1.1.held = decide (res.2 = ShouldRetry)) ∧
    res.1.1.remaining ≤ r.remaining ∧
    (res.2 = ShouldRetry → res.1.1.remaining < r.remaining) ∧
    res.1.2 - heldUnits c res.1.1 = n - heldUnits c r := by
  simp only [retry, shouldRetry, reset, retryOps, heldUnits, decrease, increase, canCreate, id,
    ShouldRetry, NoRetry, RetryOverflow]
  cases hh : r.held <;> by_cases hm : c.maxRetries = 0 <;> cases chk <;> by_cases hr : r.remaining = 0 <;>
    simp [hh, hm, hr] <;> (try split) <;> (try simp_all) <;> (try omega)
