import MosnVerif.Lemmas.Downstream.Timer10
import MosnVerif.Lemmas.Downstream.Backoff9
/-!
proxy10 — **the number of upstream attempts is bounded by the retry budget**, on every schedule of the extended machine (the
back-off sleep a state, every label possible during it).

`budget c = max retriesFloor numRetries` is what `newRetryState` starts with; every retry decision (`retryState.retry`, the
regenerated `Gen.ProxyRetry.retry`) that answers `ShouldRetry` has taken one unit; an attempt is created only by
`upstreamRequest.appendHeaders` — once in `receiveHeaders`, once per wake-up of `doRetry` — and a wake-up happens only after a
`ShouldRetry` (the Retry phase is entered only through the detach branch of `processError`, which needs the mark
`upstreamRequest.setupRetry`, which only `setupRetry` sets, which is only called after `ShouldRetry`).  So
`attempts + remaining ≤ budget + 1` always, `≤ budget` while a retry is set up or slept on: `attempts ≤ budget + 1`.
-/
namespace MosnVerif.Model.Downstream
open MosnVerif.Gen.ProxyPhase MosnVerif.Gen.ProxyReason MosnVerif.Gen.ProxyRetry

/-- what `newRetryState` starts with -/
def budget (c : Cfg) : Nat := max Gen.ProxyRetry.retriesFloor c.numRetries

/-! ### the retry state -/

theorem rsReset_remaining (c : Cfg) (s : S) : rsRemaining (rsReset c s) = rsRemaining s := by
  unfold rsReset rsRemaining
  cases h : s.rs with
  | none => simp
  | some r =>
    obtain ⟨n, hd⟩ := r
    cases hd <;> simp [Gen.ProxyRetry.reset, retryOps]

theorem rsRetry_remaining (c : Cfg) (s : S) (reason : Option Reason) :
    rsRemaining (rsRetry c s reason).1 ≤ rsRemaining s ∧
    ((rsRetry c s reason).2 = ShouldRetry → rsRemaining (rsRetry c s reason).1 + 1 ≤ rsRemaining s) := by
  unfold rsRetry retryRes rsRemaining
  cases h : s.rs with
  | none => simp [ShouldRetry, NoRetry]
  | some r =>
    obtain ⟨n, hd⟩ := r
    cases hd <;> cases n <;> cases retryCheck c s reason <;>
      simp [Gen.ProxyRetry.retry, Gen.ProxyRetry.reset, Gen.ProxyRetry.shouldRetry, retryOps, ShouldRetry, NoRetry, RetryOverflow] <;>
      (try split) <;> simp

/-! ### what the budget argument looks at -/

/-- the attempt events of the trace, the number of client streams, the remaining retry budget, the retry mark -/
def key (s : S) : List Ev × Nat × Nat × Bool := (att s.trace, s.streams.length, rsRemaining s, s.setupRetry)

/-- `t` has the attempts of `s`, no more retry budget, and is marked for a retry only if `s` was -/
def Mono (s t : S) : Prop := NoAtt s t ∧ rsRemaining t ≤ rsRemaining s ∧ (t.setupRetry = true → s.setupRetry = true)

theorem Mono.refl (s : S) : Mono s s := ⟨NoAtt.refl s, Nat.le_refl _, id⟩
theorem Mono.trans {s t u : S} (h1 : Mono s t) (h2 : Mono t u) : Mono s u :=
  ⟨NoAtt.trans h1.1 h2.1, Nat.le_trans h2.2.1 h1.2.1, fun h => h1.2.2 (h2.2.2 h)⟩
theorem Mono.of_key {s t : S} (h : key t = key s) : Mono s t := by
  simp only [key, Prod.mk.injEq] at h
  exact ⟨⟨h.1, h.2.1⟩, Nat.le_of_eq h.2.2.1, fun hh => by rw [← h.2.2.2]; exact hh⟩

@[simp] theorem att_resetUpstream (c : Cfg) (s : S) : att (resetUpstream c s).trace = att s.trace := (noAtt_resetUpstream c s).1
@[simp] theorem rem_resetUpstream (c : Cfg) (s : S) : rsRemaining (resetUpstream c s) = rsRemaining s := by simp [rsRemaining]
@[simp] theorem rem_destroyStream (c : Cfg) (s : S) (k : Nat) : rsRemaining (destroyStream c s k) = rsRemaining s := by simp [rsRemaining]
@[simp] theorem rem_cleanUp (c : Cfg) (s : S) : rsRemaining (cleanUp c s) = rsRemaining s := rsReset_remaining c s

@[simp] theorem key_resetUpstream (c : Cfg) (s : S) : key (resetUpstream c s) = key s := by simp [key]
@[simp] theorem key_destroyStream (c : Cfg) (s : S) (k : Nat) : key (destroyStream c s k) = key s := by
  simp [key]
@[simp] theorem key_rsReset (c : Cfg) (s : S) : key (rsReset c s) = key s := by simp [key, rsReset_remaining]
@[simp] theorem key_cleanUp (c : Cfg) (s : S) : key (cleanUp c s) = key s := by simp [key]
@[simp] theorem key_sendHijack (s : S) (code : Nat) (b : Bool) : key (sendHijack s code b) = key s := by simp [key, sendHijack, rsRemaining]
@[simp] theorem key_orFlag (s : S) (f : Nat) : key (orFlag s f) = key s := rfl
@[simp] theorem key_upOnResetStream (s : S) (r : Reason) : key (upOnResetStream s r) = key s := by
  rfl
@[simp] theorem key_dsOnResetStream (s : S) (r : Reason) : key (dsOnResetStream s r) = key s := rfl

theorem mono_rsRetry (c : Cfg) (s : S) (r : Option Reason) : Mono s (rsRetry c s r).1 :=
  ⟨NoAtt.of_trace (by simp [rsRetry]) (by simp [rsRetry]), (rsRetry_remaining c s r).1, fun h => h⟩

theorem mono_resetUpstream (c : Cfg) (s : S) : Mono s (resetUpstream c s) := Mono.of_key (key_resetUpstream c s)

theorem mono_cleanFinish (c : Cfg) (x : S) : Mono x (cleanFinish c x) := by
  refine ⟨noAtt_cleanFinish c x, ?_, fun h => ?_⟩
  · show rsRemaining (cleanUp c x) ≤ rsRemaining x
    simp
  · have : (cleanFinish c x).setupRetry = x.setupRetry := by simp [cleanFinish]
    rw [← this]; exact h

theorem mono_cleanBody (c : Cfg) (s : S) : Mono s (cleanBody c s) := by
  by_cases hdo : (s.up.isSome && !s.procDone && !c.oneway) = true
  · have heq : cleanBody c s = cleanFinish c (resetUpstream c { s with cleaned := true, procDone := s.procDone || true }) := by
      unfold cleanBody cleanFinish; simp only [hdo, ite_true]
    rw [heq]
    exact Mono.trans (Mono.trans (Mono.of_key rfl : Mono s { s with cleaned := true, procDone := s.procDone || true })
      (mono_resetUpstream c _)) (mono_cleanFinish c _)
  · have heq : cleanBody c s = cleanFinish c { s with cleaned := true, procDone := s.procDone || false } := by
      unfold cleanBody cleanFinish; simp only [hdo, Bool.false_eq_true, ite_false]
    rw [heq]
    exact Mono.trans (Mono.of_key rfl : Mono s { s with cleaned := true, procDone := s.procDone || false })
      (mono_cleanFinish c _)

theorem mono_cleanStream (c : Cfg) (s : S) : Mono s (cleanStream c s) := by
  unfold cleanStream; split
  · exact Mono.refl s
  · exact mono_cleanBody c s

theorem mono_dsResetStream (c : Cfg) (s : S) : Mono s (dsResetStream c s) := by
  unfold dsResetStream
  exact Mono.trans (Mono.of_key rfl : Mono s { s with respCode := TimeoutExceptionCode }) (mono_cleanStream c _)

theorem mono_resetDownstream (c : Cfg) (s : S) : Mono s (resetDownstream c s) :=
  ⟨noAtt_resetDownstream c s, by unfold resetDownstream; split <;> (try split) <;> simp [rsRemaining, dsOnResetStream],
    fun h => by
      have : (resetDownstream c s).setupRetry = s.setupRetry := by
        unfold resetDownstream; split <;> (try split) <;> simp [dsOnResetStream]
      rw [← this]; exact h⟩

theorem mono_onUpstreamResetFinish (c : Cfg) (s : S) (r : Reason) : Mono s (onUpstreamResetFinish c s r) := by
  unfold onUpstreamResetFinish
  simp only
  split
  · exact Mono.trans (Mono.of_key (key_cleanUp c s)) (mono_resetDownstream c _)
  · refine Mono.trans (Mono.of_key (key_cleanUp c s)) (Mono.of_key ?_)
    simp [key, sendHijack, orFlag, rsRemaining]

theorem mono_abandonRetry (s : S) : Mono s (abandonRetry s) := by
  unfold abandonRetry; split
  · exact ⟨NoAtt.of_trace rfl, Nat.le_refl _, fun h => by cases h⟩
  · exact Mono.refl s

theorem mono_reenter (s : S) (p : Phase) : Mono s (reenter s p) := by
  unfold reenter; split
  · exact Mono.of_key rfl
  · simp only; split <;> split <;> exact Mono.of_key rfl

/-! ### the budget predicate (holds inside a worker step too) -/

/-- every client stream is an attempt event of the trace; the budget left is at most the initial one; attempts + budget left is
at most the initial budget + 1 (the first attempt is free), and at most the initial budget once a retry is being set up -/
structure W (F : Nat) (s : S) : Prop where
  cnt : (att s.trace).length = s.streams.length
  rem : rsRemaining s ≤ F
  tot : s.streams.length + rsRemaining s ≤ F + 1
  set : s.setupRetry = true → s.streams.length + rsRemaining s ≤ F

theorem W.mono {F : Nat} {s t : S} (h : W F s) (m : Mono s t) : W F t := by
  obtain ⟨⟨ha, hl⟩, hr, hf⟩ := m
  refine ⟨by rw [ha, hl]; exact h.cnt, Nat.le_trans hr h.rem, ?_, fun hh => ?_⟩
  · rw [hl]; have := h.tot; omega
  · rw [hl]; have := h.set (hf hh); omega

/-- the bound that holds while a retry is set up or slept on -/
def Low (F : Nat) (s : S) : Prop := s.streams.length + rsRemaining s ≤ F

theorem Low.mono {F : Nat} {s t : S} (h : Low F s) (m : Mono s t) : Low F t := by
  unfold Low at *; rw [m.1.2]; have := m.2.1; omega

/-- `setupRetry` after a `ShouldRetry` -/
theorem w_setupRetry (F : Nat) (c : Cfg) (s : S) (eos : Bool) (h : W F s) (hl : Low F s) : W F (setupRetry c s eos).1 := by
  have hn := noAtt_setupRetry c s eos
  have hr : rsRemaining (setupRetry c s eos).1 = rsRemaining s := by
    unfold setupRetry; split
    · rfl
    · simp only; split <;> simp [rsRemaining]
  unfold Low at hl
  refine ⟨by rw [hn.1, hn.2]; exact h.cnt, by rw [hr]; exact h.rem, by rw [hr, hn.2]; exact h.tot, fun _ => by rw [hr, hn.2]; exact hl⟩

/-- `onUpstreamReset`: the mark `setupRetry` is set only after `retryState.retry` answered `ShouldRetry` — one unit taken -/
theorem w_onUpstreamReset (F : Nat) (c : Cfg) (s : S) (h : W F s) : W F (onUpstreamReset c s) := by
  unfold onUpstreamReset
  simp only
  split
  · have h1 := mono_rsRetry c s (some s.resetReason)
    have h2 := (rsRetry_remaining c s (some s.resetReason)).2
    generalize rsRetry c s (some s.resetReason) = res at h1 h2 ⊢
    obtain ⟨s1, chk⟩ := res
    simp only at h1 h2 ⊢
    have w1 := h.mono h1
    split
    · rename_i hc
      have hlow : Low F s1 := by
        have := h2 (by simpa using hc)
        have := h.tot
        unfold Low; rw [h1.1.2]; omega
      have h3 := w_setupRetry F c s1 true w1 hlow
      generalize setupRetry c s1 true = r2 at h3 ⊢
      obtain ⟨s2, ok⟩ := r2
      cases ok
      · exact W.mono h3 (mono_onUpstreamResetFinish c _ _)
      · exact W.mono h3 (Mono.of_key rfl)
    · split
      · exact W.mono (W.mono w1 (Mono.of_key rfl : Mono s1 (orFlag s1 UpstreamOverflow))) (mono_onUpstreamResetFinish c _ _)
      · exact W.mono w1 (mono_onUpstreamResetFinish c _ _)
  · exact h.mono (mono_onUpstreamResetFinish c s _)

/-- the tail of `processError`: the phase `Retry` is handed back only for a marked request -/
theorem w_peTail (F : Nat) (c : Cfg) (s : S) (e : Bool) (h : W F s) :
    W F (peTail c s e).1 ∧ ((peTail c s e).2 = some .Retry → Low F (peTail c s e).1) := by
  unfold peTail
  split
  · exact ⟨h.mono (mono_dsResetStream c s), fun hh => by cases hh⟩
  · split
    · simp only
      have h0 : Mono s ({ s with direct := false, rs := none, retries := (rsReset c s).retries } : S) :=
        ⟨NoAtt.of_trace rfl, by simp [rsRemaining], id⟩
      have hs : Mono s (abandonRetry { s with direct := false, rs := none, retries := (rsReset c s).retries }) :=
        Mono.trans h0 (mono_abandonRetry _)
      split
      · exact ⟨h.mono hs, fun hh => by cases hh⟩
      · split
        · exact ⟨h.mono hs, fun hh => by cases hh⟩
        · exact ⟨h.mono hs, fun hh => by cases hh⟩
    · split
      · rename_i hm
        simp only [Bool.and_eq_true] at hm
        have hm' : Mono s { s with up := some none, setupRetry := false } := ⟨NoAtt.of_trace rfl, Nat.le_refl _, fun hh => by cases hh⟩
        exact ⟨h.mono hm', fun _ => Low.mono (h.set hm.2) hm'⟩
      · refine ⟨h, fun hh => ?_⟩
        simp only at hh
        split at hh <;> cases hh

theorem w_processError (F : Nat) (c : Cfg) (s : S) (h : W F s) :
    W F (processError c s).1 ∧ ((processError c s).2 = some .Retry → Low F (processError c s).1) := by
  rw [processError_spec]
  split
  · exact ⟨h, fun hh => by cases hh⟩
  · split
    · split
      · exact ⟨h, fun hh => by cases hh⟩
      · exact w_peTail F c _ _ (w_onUpstreamReset F c s h)
    · exact w_peTail F c s _ h

/-- the end of a phase: the worker goes to sleep in the back-off only with `attempts + budget left ≤ initial budget` -/
theorem w_finishPhase (F : Nat) (c : Cfg) (s : S) (h : W F s) (hp : s.phase ≠ .Oneway) :
    W F (finishPhase c s) ∧ ((finishPhase c s).phase = .Retry → Low F (finishPhase c s)) := by
  unfold finishPhase
  have h1 := w_processError F c s h
  cases hr : processError c s with
  | mk x o =>
    rw [hr] at h1
    simp only at h1
    cases o with
    | none =>
      simp only
      refine ⟨h1.1.mono (Mono.of_key rfl), fun hh => ?_⟩
      exfalso
      have := finishOf_pe_none_phase c s x hr
      simp only [this] at hh
      revert hp hh
      cases s.phase <;> simp [Phase.next]
    | some p =>
      simp only
      refine ⟨h1.1.mono (mono_reenter x p), fun hh => ?_⟩
      rw [reenter_phase] at hh
      subst hh
      exact Low.mono (h1.2 rfl) (mono_reenter x _)

/-! ### the phase bodies -/

theorem w_grow (F : Nat) (s x : S) (e : Ev) (h : W F s) (hl : Low F s)
    (hx1 : att x.trace = att s.trace ++ [e]) (hx2 : x.streams.length = s.streams.length + 1)
    (hx3 : rsRemaining x = rsRemaining s) (hx4 : x.setupRetry = false) : W F x := by
  unfold Low at hl
  refine ⟨?_, by rw [hx3]; exact h.rem, by rw [hx2, hx3]; omega, fun hh => by rw [hx4] at hh; cases hh⟩
  rw [hx1, hx2, List.length_append, h.cnt]; rfl

/-- `upstreamRequest.appendHeaders`: the one place an attempt is created — at most one, and the trace says so -/
theorem w_upAppendHeaders (F : Nat) (c : Cfg) (s : S) (eos : Bool) (h : W F s) (hl : Low F s) (hsr : s.setupRetry = false) :
    W F (upAppendHeaders c s eos) ∧ (upAppendHeaders c s eos).setupRetry = false := by
  unfold upAppendHeaders
  split
  · exact ⟨h, hsr⟩
  · simp only
    split
    · rename_i f _
      refine ⟨W.mono ?_ (Mono.of_key (key_upOnResetStream _ _)), hsr⟩
      exact w_grow F s _ (.uf s.streams.length f) h hl (by simp [att, attemptEv]) (by simp) rfl hsr
    · exact ⟨w_grow F s _ (.un s.streams.length) h hl (by simp [att, List.filter, attemptEv]) (by simp) rfl hsr, hsr⟩

theorem mono_onUpstreamRequestSent (c : Cfg) (s : S) : Mono s (onUpstreamRequestSent c s) := Mono.of_key rfl
theorem mono_setupPerReqTimeout (c : Cfg) (s : S) : Mono s (setupPerReqTimeout c s) := Mono.of_key rfl

theorem att_dataTrace (s : S) (e : Nat → Ev) (he : ∀ k, attemptEv (e k) = false) : att (dataTrace s e) = att s.trace := by
  unfold dataTrace
  split
  · simp [att, he]
  · rfl

theorem mono_upAppendData (s : S) (eos : Bool) : Mono s (upAppendData s eos) :=
  ⟨⟨att_dataTrace s _ (fun _ => rfl), rfl⟩, Nat.le_refl _, id⟩
theorem mono_upAppendTrailers (s : S) : Mono s (upAppendTrailers s) :=
  ⟨⟨att_dataTrace s _ (fun _ => rfl), rfl⟩, Nat.le_refl _, id⟩

theorem w_receiveHeaders (F : Nat) (c : Cfg) (s : S) (eos : Bool) (h : W F s) (hl : Low F s) (hsr : s.setupRetry = false) :
    W F (receiveHeaders c s eos) := by
  unfold receiveHeaders
  simp only
  split
  · exact (w_upAppendHeaders F c s eos h hl hsr).1.mono (mono_onUpstreamRequestSent c _)
  · exact (w_upAppendHeaders F c s eos h hl hsr).1

theorem mono_receiveData (c : Cfg) (s : S) (eos : Bool) : Mono s (receiveData c s eos) := by
  unfold receiveData
  split
  · exact Mono.refl s
  · simp only
    have key : ∀ x : S, Mono s x → Mono s (if x.procDone = true then cleanStream c x else x) := by
      intro x hx; split
      · exact Mono.trans hx (mono_cleanStream c x)
      · exact hx
    apply key
    refine Mono.trans ?_ (mono_upAppendData _ eos)
    split
    · exact Mono.trans (Mono.of_key rfl : Mono s { s with recvDone := eos }) (mono_onUpstreamRequestSent c _)
    · exact Mono.of_key rfl

theorem mono_receiveTrailers (c : Cfg) (s : S) : Mono s (receiveTrailers c s) := by
  unfold receiveTrailers
  split
  · exact Mono.refl s
  · simp only
    have key : ∀ x : S, Mono s x → Mono s (if x.procDone = true then cleanStream c x else x) := by
      intro x hx; split
      · exact Mono.trans hx (mono_cleanStream c x)
      · exact hx
    apply key
    exact Mono.trans (Mono.trans (Mono.of_key rfl : Mono s { s with recvDone := true }) (mono_onUpstreamRequestSent c _))
      (mono_upAppendTrailers _)

/-- `chooseHost` creates the retry state with the initial budget — before any attempt -/
theorem w_chooseHost (c : Cfg) (s : S) (h : W (budget c) s) (hs : s.streams = []) (hsr : s.setupRetry = false) :
    W (budget c) (chooseHost c s) := by
  have hm : ∀ (x : S) (code : Nat) (b : Bool), Mono s x → W (budget c) (sendHijack x code b) :=
    fun x code b hx => h.mono (Mono.trans hx (Mono.of_key (key_sendHijack x code b)))
  unfold chooseHost
  simp only
  split
  · exact hm _ _ _ (Mono.of_key rfl)
  · exact hm _ _ _ (Mono.of_key rfl)
  · exact hm _ _ _ (Mono.of_key rfl)
  · split
    · exact hm _ _ _ (Mono.of_key rfl)
    · refine ⟨h.cnt, ?_, ?_, fun hh => ?_⟩
      · simp [rsRemaining, budget]
      · simp [rsRemaining, budget, hs]
      · simp [hsr] at hh

/-- `doRetry` after its sleep: at most one more attempt, paid for by the unit the retry decision took -/
theorem w_doRetry (F : Nat) (c : Cfg) (s : S) (h : W F s) (hl : Low F s) : W F (doRetry c s) := by
  rw [doRetry_eq]
  split
  · exact h
  split
  · exact h.mono (Mono.of_key (key_upOnResetStream s _))
  unfold doRetryBody
  split
  · refine h.mono (Mono.trans (Mono.trans ?_ (Mono.of_key (key_sendHijack _ _ _))) (Mono.of_key (key_cleanUp c _)))
    split
    · exact ⟨NoAtt.of_trace rfl, Nat.le_refl _, fun hh => by cases hh⟩
    · exact Mono.refl s
  · simp only
    have h0 : W F ({ s with up := some none, setupRetry := false } : S) :=
      h.mono ⟨NoAtt.of_trace rfl, Nat.le_refl _, fun hh => by cases hh⟩
    have h1 := (w_upAppendHeaders F c { s with up := some none, setupRetry := false } (!c.hasData && !c.hasTrailers) h0 hl rfl).1
    generalize upAppendHeaders c { s with up := some none, setupRetry := false } (!c.hasData && !c.hasTrailers) = a at h1
    have h2 : W F (if c.hasData = true then upAppendData a (!c.hasTrailers) else a) := by
      split
      · exact h1.mono (mono_upAppendData a _)
      · exact h1
    generalize (if c.hasData = true then upAppendData a (!c.hasTrailers) else a) = b at h2
    have h3 : W F (if c.hasTrailers = true then upAppendTrailers b else b) := by
      split
      · exact h2.mono (mono_upAppendTrailers b)
      · exact h2
    generalize (if c.hasTrailers = true then upAppendTrailers b else b) = d at h3
    have h4 : W F (if (!hasTimerObj d) = true then onUpstreamRequestSent c d else setupPerReqTimeout c d) := by
      split
      · exact h3.mono (mono_onUpstreamRequestSent c d)
      · exact h3.mono (mono_setupPerReqTimeout c d)
    exact h4.mono (Mono.of_key rfl)

/-! ### the response pass -/

theorem mono_emit (s : S) (e : Ev) (he : attemptEv e = false) : Mono s (emit s e) :=
  ⟨NoAtt.of_append [e] rfl (by simp [att, he]), Nat.le_refl _, id⟩

theorem mono_dsAppendHeaders (c : Cfg) (s : S) (eos : Bool) : Mono s (dsAppendHeaders c s eos) := by
  unfold dsAppendHeaders endStream
  simp only
  have h1 : Mono s (emit { s with procDone := eos } (.dh (s.statusVar.getD 0) eos)) :=
    Mono.trans (Mono.of_key rfl : Mono s { s with procDone := eos }) (mono_emit _ _ rfl)
  split
  · exact Mono.trans h1 (Mono.trans (Mono.of_key rfl) (mono_cleanStream c _))
  · exact h1

theorem mono_dsAppendData (c : Cfg) (s : S) (eos : Bool) : Mono s (dsAppendData c s eos) := by
  unfold dsAppendData endStream
  simp only
  have h1 : Mono s (emit { s with procDone := eos } (.dd eos)) :=
    Mono.trans (Mono.of_key rfl : Mono s { s with procDone := eos }) (mono_emit _ _ rfl)
  split
  · exact Mono.trans h1 (Mono.trans (Mono.of_key rfl) (mono_cleanStream c _))
  · exact h1

theorem mono_dsAppendTrailers (c : Cfg) (s : S) : Mono s (dsAppendTrailers c s) := by
  unfold dsAppendTrailers endStream
  simp only
  have h1 : Mono s (emit { s with procDone := true } .dt) :=
    Mono.trans (Mono.of_key rfl : Mono s { s with procDone := true }) (mono_emit _ _ rfl)
  exact Mono.trans h1 (Mono.trans (Mono.of_key rfl) (mono_cleanStream c _))

theorem mono_recvFinished (c : Cfg) (s : S) : Mono s (onUpstreamResponseRecvFinished c s) := by
  unfold onUpstreamResponseRecvFinished
  simp only
  refine Mono.trans ?_ (Mono.of_key (key_cleanUp c _))
  split
  · exact mono_resetUpstream c s
  · exact Mono.refl s

theorem mono_headersFinish (c : Cfg) (s : S) (eos : Bool) : Mono s (onUpstreamHeadersFinish c s eos) := by
  unfold onUpstreamHeadersFinish
  simp only
  refine Mono.trans ?_ (mono_dsAppendHeaders c _ eos)
  split
  · exact Mono.trans (Mono.of_key rfl : Mono s { s with respStarted := true }) (mono_recvFinished c _)
  · exact Mono.of_key rfl

theorem mono_onUpstreamData (c : Cfg) (s : S) (eos : Bool) : Mono s (onUpstreamData c s eos) := by
  unfold onUpstreamData
  simp only
  refine Mono.trans ?_ (mono_dsAppendData c _ eos)
  split
  · exact mono_recvFinished c s
  · exact Mono.refl s

theorem mono_onUpstreamTrailers (c : Cfg) (s : S) : Mono s (onUpstreamTrailers c s) := by
  unfold onUpstreamTrailers
  exact Mono.trans (mono_recvFinished c s) (mono_dsAppendTrailers c _)

/-- `onUpstreamHeaders`: a retry on the response status is set up only after `ShouldRetry` — one unit taken -/
theorem w_onUpstreamHeaders (F : Nat) (c : Cfg) (s : S) (eos : Bool) (h : W F s) : W F (onUpstreamHeaders c s eos) := by
  unfold onUpstreamHeaders
  split
  · have h1 := mono_rsRetry c s none
    have h2 := (rsRetry_remaining c s none).2
    generalize rsRetry c s none = res at h1 h2 ⊢
    obtain ⟨s1, chk⟩ := res
    simp only at h1 h2 ⊢
    have w1 := h.mono h1
    have fin : ∀ x : S, W F x → W F (onUpstreamHeadersFinish c
        (rsReset c (if (chk == Gen.ProxyRetry.RetryOverflow) = true then orFlag x UpstreamOverflow else x)) eos) := by
      intro x hx
      refine hx.mono (Mono.trans (Mono.trans ?_ (Mono.of_key (key_rsReset c _))) (mono_headersFinish c _ eos))
      split
      · exact Mono.of_key rfl
      · exact Mono.refl x
    by_cases hc : (chk == ShouldRetry) = true
    · simp only [hc, if_true]
      have hlow : Low F s1 := by
        have := h2 (by simpa using hc)
        have := h.tot
        unfold Low; rw [h1.1.2]; omega
      have h3 := w_setupRetry F c s1 eos w1 hlow
      generalize setupRetry c s1 eos = r2 at h3 ⊢
      obtain ⟨s2, ok⟩ := r2
      cases ok
      · simp only [Bool.false_eq_true, if_false]; exact fin s2 h3
      · simp only [if_true]; exact h3
    · simp only [hc, Bool.false_eq_true, if_false]
      exact fin s1 w1
  · exact h.mono (mono_headersFinish c s eos)

/-! ### the labels of other goroutines -/

theorem key_terminateAcc (c : Cfg) (s : S) (code : Nat) : key (terminateAcc c s code) = key s := by
  simp [key, terminateAcc, rsRemaining]

theorem key_terminateL (c : Cfg) (s : S) (code : Nat) : key (terminateL c s code) = key s := by
  rw [terminateL_eq]
  split <;> (try split) <;> (try split) <;> (try split) <;> first | rfl | exact key_terminateAcc c s code

theorem key_lateRecv (s : S) (k : Nat) (d t : Bool) : key (lateRecv s k d t) = key s := by
  unfold lateRecv; split <;> rfl

/-- no label of another goroutine — a response, a reset, a timer, the client leaving, `TerminateStream`, anything landing in
the back-off — creates an attempt, gives budget back or marks a request for a retry -/
theorem key_async (c : Cfg) (s : S) (l : Label) (hl : l ≠ .work) : key (step c s l) = key s := by
  cases l with
  | work => exact absurd rfl hl
  | upResp k code d t =>
    simp only [step, upResp]
    cases hk : s.streams[k]? with
    | none => rfl
    | some st => simp only; split <;> (try split) <;> first | rfl | simp [key, rsRemaining]
  | upRespS k code d t =>
    simp only [step, upRespS, upResp]
    split
    · cases hk : s.streams[k]? with
      | none => rfl
      | some st => simp only; split <;> (try split) <;> first | rfl | simp [key, rsRemaining]
    · cases hk : s.streams[k]? with
      | none => rfl
      | some st => simp only; split <;> (try split) <;> first | rfl | simp [key, rsRemaining]
  | upReset k r =>
    simp only [step, upResetL]
    cases hk : s.streams[k]? with
    | none => rfl
    | some st => simp only; split <;> (try split) <;> first | rfl | simp
  | upEnd k =>
    simp only [step, upEndL]
    cases hk : s.streams[k]? with
    | none => rfl
    | some st => simp only; split <;> first | rfl | simp
  | poolFail f => rfl
  | hostsGone => rfl
  | perTryFire =>
    simp only [step, perTryFire]
    split
    · rfl
    · split <;> (try split) <;> (try split) <;> first | rfl | simp [key, rsRemaining, orFlag, upOnResetStream]
  | globalFire =>
    simp only [step, globalFire]
    split
    · rfl
    · split <;> (try split) <;> (try split) <;> (try split) <;> first | rfl | simp [key, rsRemaining, upOnResetStream]
  | downReset r =>
    simp only [step, downResetL]
    split <;> rfl
  | connClose =>
    simp only [step, connClose]
    split <;> rfl
  | terminate code => exact key_terminateL c s code
  | terminateStale g code =>
    simp only [step]; rw [terminateStale_eq]
    split
    · exact key_terminateL c s code
    · rfl
  | terminateRaced code k d t =>
    simp only [step]; rw [terminateRaced_eq]; exact key_terminateL c s code
  | lateResp k d t =>
    simp only [step, lateBackoff]
    split
    · exact key_lateRecv s k d t
    · rfl
  | gtInSetup b =>
    simp only [step, gtInSetup]
    split <;> rfl

/-! ### between the steps of a schedule -/

/-- the budget predicate, and the sharper bound while the worker sleeps in the back-off (phase `Retry`) -/
structure BInv (c : Cfg) (s : S) : Prop where
  w : W (budget c) s
  slp : s.phase = .Retry → Low (budget c) s

theorem binv_init (c : Cfg) (ar aq : Nat) : BInv c (init ar aq) :=
  ⟨⟨rfl, Nat.zero_le _, Nat.zero_le _, fun h => by cases h⟩, fun h => by cases h⟩

theorem binv_async (c : Cfg) (ar aq : Nat) (s : S) (l : Label) (hl : l ≠ .work) (h : Inv c ar aq s) (b : BInv c s) :
    BInv c (step c s l) := by
  have hk := key_async c s l hl
  have hp := (async_phase c ar aq s l hl h).1
  exact ⟨b.w.mono (Mono.of_key hk), fun hh => Low.mono (b.slp (by rw [← hp]; exact hh)) (Mono.of_key hk)⟩

theorem binv_work (c : Cfg) (ar aq : Nat) (s : S) (h : Inv c ar aq s) (b : BInv c s) : BInv c (work c s) := by
  by_cases hrun : s.running = true
  rotate_left
  · have : work c s = s := by unfold work; simp [hrun]
    rw [this]; exact b
  have hcl := inv_not_cleaned h hrun
  have hsr : s.setupRetry = false := (h.k7 hcl).1
  by_cases hbw : bodyWait s = true
  · have : work c s = s := by unfold work; simp [hrun, hbw]
    rw [this]; exact b
  have fin : ∀ x : S, W (budget c) x → x.phase ≠ .Oneway → BInv c (finishPhase c x) :=
    fun x hx hp => ⟨(w_finishPhase _ c x hx hp).1, (w_finishPhase _ c x hx hp).2⟩
  have nxt : ∀ x : S, Mono s x → x.phase ≠ .Retry → BInv c x :=
    fun x hx hp => ⟨b.w.mono hx, fun hh => absurd hh hp⟩
  have hon : onewayNext ≠ Phase.Retry := by decide
  unfold work
  rw [if_neg (by simp [hrun]), if_neg hbw]
  split
  · rename_i hp
    exact nxt _ (Mono.of_key rfl) (by simp [hp, Phase.next])
  · rename_i hp; exact fin s b.w (by rw [hp]; decide)
  · rename_i hp; exact fin s b.w (by rw [hp]; decide)
  · rename_i hp; exact fin s b.w (by rw [hp]; decide)
  · rename_i hp
    have hs := (h.k17 hcl (by simp [hp, prePhase])).2.2.1
    exact fin _ (w_chooseHost c s b.w hs hsr) (by rw [chooseHost_phase, hp]; decide)
  · rename_i hp; exact fin s b.w (by rw [hp]; decide)
  · rename_i hp
    have hs := (h.k30 hcl (Or.inr hp)).1
    have hlow : Low (budget c) s := by unfold Low; rw [hs]; simpa using b.w.rem
    exact fin _ (w_receiveHeaders _ c s _ b.w hlow hsr) (by rw [receiveHeaders_phase, hp]; decide)
  · rename_i hp
    split
    · exact fin _ (b.w.mono (mono_receiveData c s _)) (by rw [receiveData_phase, hp]; decide)
    · exact nxt _ (Mono.of_key rfl) (by simp [hp, Phase.next])
  · rename_i hp
    split
    · exact fin _ (b.w.mono (mono_receiveTrailers c s)) (by rw [receiveTrailers_phase, hp]; decide)
    · exact nxt _ (Mono.of_key rfl) (by simp [hp, Phase.next])
  · rename_i hp
    split
    · have h1 := w_processError (budget c) c (cleanStream c s) (b.w.mono (mono_cleanStream c s))
      cases hr : processError c (cleanStream c s) with
      | mk x o =>
        rw [hr] at h1
        simp only at h1
        cases o with
        | none => exact ⟨h1.1.mono (Mono.of_key rfl), fun hh => absurd hh hon⟩
        | some p =>
          simp only
          refine ⟨h1.1.mono (mono_reenter x p), fun hh => ?_⟩
          rw [reenter_phase] at hh
          subst hh
          exact Low.mono (h1.2 rfl) (mono_reenter x _)
    · exact nxt _ (Mono.of_key rfl) hon
  · rename_i hp
    exact fin _ (w_doRetry _ c s b.w (b.slp hp)) (by rw [doRetry_phase, hp]; decide)
  · rename_i hp
    split
    · exact fin _ (b.w.mono (Mono.of_key rfl)) (by simp [hp])
    · exact b
  · rename_i hp
    have h1 := w_processError (budget c) c s b.w
    cases hr : processError c s with
    | mk x o =>
      rw [hr] at h1
      simp only at h1
      cases o with
      | none =>
        simp only
        refine ⟨h1.1.mono (Mono.of_key rfl), fun hh => ?_⟩
        have := finishOf_pe_none_phase c s x hr
        simp only [this, hp, Phase.next] at hh
        cases hh
      | some p =>
        simp only
        refine ⟨h1.1.mono (mono_reenter x p), fun hh => ?_⟩
        rw [reenter_phase] at hh
        subst hh
        exact Low.mono (h1.2 rfl) (mono_reenter x _)
  · rename_i hp
    split
    · refine fin _ ?_ ?_
      · split
        · exact b.w
        · exact w_onUpstreamHeaders _ c s _ b.w
      · split
        · rw [hp]; decide
        · rw [onUpstreamHeaders_phase, hp]; decide
    · exact nxt _ (Mono.of_key rfl) (by simp [hp, Phase.next])
  · rename_i hp
    split
    · split
      · refine fin _ ?_ ?_
        · split
          · exact b.w
          · exact b.w.mono (mono_onUpstreamData c s _)
        · split
          · rw [hp]; decide
          · rw [onUpstreamData_phase, hp]; decide
      · exact nxt _ (Mono.of_key rfl) (by simp [hp, Phase.next])
    · exact nxt _ (Mono.of_key rfl) (by simp [hp, Phase.next])
  · rename_i hp
    split
    · split
      · refine fin _ ?_ ?_
        · split
          · exact b.w
          · exact b.w.mono (mono_onUpstreamTrailers c s)
        · split
          · rw [hp]; decide
          · rw [onUpstreamTrailers_phase, hp]; decide
      · exact nxt _ (Mono.of_key rfl) (by simp [hp, Phase.next])
    · exact nxt _ (Mono.of_key rfl) (by simp [hp, Phase.next])
  · rename_i hp
    exact nxt _ (Mono.of_key rfl) (by simp [hp])

theorem binv_step (c : Cfg) (ar aq : Nat) (s : S) (l : Label) (h : Inv c ar aq s) (b : BInv c s) : BInv c (step c s l) := by
  by_cases hl : l = .work
  · subst hl; exact binv_work c ar aq s h b
  · exact binv_async c ar aq s l hl h b

/-- the budget invariant holds after every schedule -/
theorem binv_run (c : Cfg) (ar aq : Nat) (l : List Label) : BInv c (run c (init ar aq) l) := by
  have : ∀ (l : List Label) (s : S), Inv c ar aq s → BInv c s → BInv c (l.foldl (step c) s) := by
    intro l
    induction l with
    | nil => intro s _ t; exact t
    | cons a r ih => intro s hi t; exact ih _ (inv_step c ar aq s a hi) (binv_step c ar aq s a hi t)
  exact this l _ (inv_init c ar aq) (binv_init c ar aq)

/-- **the attempts of a request are bounded by its retry budget** — on every schedule of the extended machine, the back-off a
state in which every label may fire: the `NewStream` calls of the trace (admitted `un` and refused `uf`) are at most
`1 + max retriesFloor numRetries` -/
theorem attempts_le_budget (c : Cfg) (ar aq : Nat) (l : List Label) :
    (att (run c (init ar aq) l).trace).length ≤ 1 + max Gen.ProxyRetry.retriesFloor c.numRetries := by
  have b := (binv_run c ar aq l).w
  have := b.tot
  rw [b.cnt]; unfold budget at this; omega

end MosnVerif.Model.Downstream
