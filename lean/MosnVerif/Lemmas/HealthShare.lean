import MosnVerif.Model.HealthShare
import MosnVerif.Lemmas.HealthLifecycle
import MosnVerif.Lemmas.HealthLifecycleRef
/-! Lemmas for C16 part D (one health word per address for the whole process, checkers per cluster). Core Lean only. -/
namespace MosnVerif.Model.HealthShare
open MosnVerif.Model.HealthLifecycle (Addr Cid Word World Checker upd upd2 runOps Good fresh freshOr)
open MosnVerif.Model.HealthCheck (Result Out trail)
open MosnVerif.Model

/-! ### what the regenerated module says about the current source -/
theorem gen_updateHosts_no_flag_write : Gen.HealthShare.updateHostsWrites = [] := rfl
theorem gen_newHost_no_flag_write : Gen.HealthShare.newHostWrites = [] := rfl
theorem gen_word_by_address : Gen.HealthShare.wordByAddress = true := rfl
theorem gen_initZero (t : Nat × Nat) : initZero t = true := by
  simp [initZero, Gen.HealthShare.newCheckerUn, Gen.HealthShare.newCheckerHc]

theorem updateHostsEffects_id (ck : Bool) (hs : List Addr) (w : World) : updateHostsEffects ck hs w = w := by
  simp [updateHostsEffects, gen_updateHosts_no_flag_write]
theorem newHostEffects_id (l : List Addr) (w : World) : newHostEffects l w = w := by
  simp [newHostEffects, gen_newHost_no_flag_write]
theorem patchNew_id (k : Cid) (hs : List Addr) (b a : World) : patchNew k hs b a = a := by
  simp [patchNew, gen_initZero]

theorem cfg_step_none (c : Cfg) (op : SOp) (h : c.target op = none) : c.step op = c := by
  simp [Cfg.step, h]

/-- with the regenerated effects empty, one cluster-manager operation is the run of its compiled cluster-level operations -/
theorem step_eq (s : St) (op : SOp) :
    step s op = (⟨(runLc s.w (compile s.c op)).1, s.c.step op⟩, (runLc s.w (compile s.c op)).2) := by
  unfold step
  cases h : s.c.target op with
  | none => simp [cfg_step_none _ _ h]
  | some p =>
    obtain ⟨k, hs⟩ := p
    simp [newHostEffects_id, patchNew_id, updateHostsEffects_id]

theorem foldl_step_fst (l : List HealthLifecycle.Op) (w : World) (o : Option Out) :
    (l.foldl (fun p op => HealthLifecycle.step p.1 op) (w, o)).1 = runOps w l := by
  induction l generalizing w o with
  | nil => rfl
  | cons x l ih => simp only [List.foldl_cons, runOps]; rw [ih]; rfl

theorem runLc_fst (w : World) (l : List HealthLifecycle.Op) : (runLc w l).1 = runOps w l := foldl_step_fst l w none

theorem runOps_append (w : World) (l1 l2 : List HealthLifecycle.Op) : runOps w (l1 ++ l2) = runOps (runOps w l1) l2 := by
  simp [runOps, List.foldl_append]

def cfgRun (c : Cfg) (ops : List SOp) : Cfg := ops.foldl Cfg.step c

theorem compileAll_append (c : Cfg) (l1 l2 : List SOp) :
    compileAll c (l1 ++ l2) = compileAll c l1 ++ compileAll (cfgRun c l1) l2 := by
  induction l1 generalizing c with
  | nil => rfl
  | cons x l ih => simp [compileAll, cfgRun, ih, List.append_assoc]

/-- refinement: a run of the process model is the life-cycle run of the compiled operation list -/
theorem run_eq (s : St) (ops : List SOp) :
    (run s ops).w = runOps s.w (compileAll s.c ops) ∧ (run s ops).c = cfgRun s.c ops := by
  induction ops generalizing s with
  | nil => exact ⟨rfl, rfl⟩
  | cons op ops ih =>
    have e : (step s op).1 = ⟨runOps s.w (compile s.c op), s.c.step op⟩ := by
      rw [step_eq, runLc_fst]
    have h := ih (step s op).1
    rw [e] at h
    simp only [run, List.foldl_cons] at h ⊢
    rw [e]
    refine ⟨?_, ?_⟩
    · rw [h.1, compileAll, runOps_append]
    · rw [h.2]; rfl

theorem good_run (checked : Cid → Bool) (cfg : Cid → Nat × Nat) (words0 : Addr → Word) (ops : List SOp) :
    Good (run (St.init checked cfg words0) ops).w := by
  rw [(run_eq _ ops).1]
  exact HealthLifecycle.good_runOps _ _ (HealthLifecycle.good_init cfg words0)

/-! ### host-set and cluster updates compile to life-cycle operations only -/
def isHostOp : SOp → Bool
  | .result .. => false
  | .outlier .. => false
  | _ => true

theorem compile_lifecycle (c : Cfg) (op : SOp) (h : isHostOp op = true) : ∀ o ∈ compile c op, o.isLifecycle = true := by
  cases op with
  | update k hs => simp only [compile]; split <;> simp [HealthLifecycle.Op.isLifecycle]
  | append k a => simp only [compile]; split <;> simp [HealthLifecycle.Op.isLifecycle]
  | remove k a => simp only [compile]; split <;> simp [HealthLifecycle.Op.isLifecycle]
  | reconf k cf =>
    cases cf with
    | none => simp [compile, HealthLifecycle.Op.isLifecycle]
    | some p => obtain ⟨u, h'⟩ := p; simp [compile, HealthLifecycle.Op.isLifecycle]
  | result k a r => simp [isHostOp] at h
  | outlier a on => simp [isHostOp] at h

theorem step_lifecycle_out (w : World) (o : HealthLifecycle.Op) (h : o.isLifecycle = true) : (HealthLifecycle.step w o).2 = none := by
  cases o <;> first | rfl | simp [HealthLifecycle.Op.isLifecycle] at h

theorem foldl_lifecycle (l : List HealthLifecycle.Op) (h : ∀ o ∈ l, o.isLifecycle = true) (w : World) :
    (l.foldl (fun p op => HealthLifecycle.step p.1 op) (w, none)).1.words = w.words ∧
    (l.foldl (fun p op => HealthLifecycle.step p.1 op) (w, none)).2 = none := by
  induction l generalizing w with
  | nil => exact ⟨rfl, rfl⟩
  | cons x l ih =>
    have hx := h x (List.mem_cons_self ..)
    have hl : ∀ o ∈ l, o.isLifecycle = true := fun o ho => h o (List.mem_cons_of_mem _ ho)
    simp only [List.foldl_cons]
    have e : HealthLifecycle.step w x = ((HealthLifecycle.step w x).1, none) := by
      rw [← step_lifecycle_out w x hx]
    rw [e]
    have := ih hl (HealthLifecycle.step w x).1
    rw [HealthLifecycle.step_lifecycle_words w x hx] at this
    exact this

/-- **no host-set update and no cluster update — of a cluster with or without a health checker — changes any health
word or delivers a callback** (in every state) -/
theorem hostOp_preserves (s : St) (op : SOp) (h : isHostOp op = true) :
    (step s op).1.w.words = s.w.words ∧ (step s op).2 = none := by
  rw [step_eq]
  exact foldl_lifecycle _ (compile_lifecycle s.c op h) s.w

theorem step_result (s : St) (k : Cid) (a : Addr) (r : Result) :
    (step s (.result k a r)).1.w = (HealthLifecycle.step s.w (.result k a r)).1 ∧
    (step s (.result k a r)).2 = (HealthLifecycle.step s.w (.result k a r)).2 := by
  rw [step_eq]; exact ⟨rfl, rfl⟩

theorem step_outlier (s : St) (a : Addr) (on : Bool) :
    (step s (.outlier a on)).1.w = (HealthLifecycle.step s.w (.outlier a on)).1 := by
  rw [step_eq]; rfl

/-! ### the model's observations satisfy the property predicate -/
open MosnVerif.Model.HealthLifecycle (Sim) in
theorem holdsStep_lifecycle_id (n : Nat) (all : List HealthLifecycle.Op) (r : HealthLifecycle.Ref) (wds : Addr → Word)
    (o : HealthLifecycle.Op) (h : o.isLifecycle = true) : HealthLifecycle.holdsStep n all r wds wds none o = true := by
  have t : (Option.isNone (none : Option Out) && (List.range n).all (fun x => wds x == wds x)) = true := by
    simp only [Option.isNone_none, Bool.true_and]
    exact HealthLifecycle.all_range _ _ (fun x => by simp)
  cases o with
  | setHosts k hs => exact t
  | stopAll k => exact t
  | recreate k u h' => exact t
  | result k a r' => simp [HealthLifecycle.Op.isLifecycle] at h
  | outlier a on => simp [HealthLifecycle.Op.isLifecycle] at h

theorem holdsSeq_lifecycle (n : Nat) (all : List HealthLifecycle.Op) (l : List HealthLifecycle.Op)
    (hl : ∀ o ∈ l, o.isLifecycle = true) (r : HealthLifecycle.Ref) (wds : Addr → Word) :
    holdsSeq n all r wds wds none l = true := by
  induction l generalizing r with
  | nil => rfl
  | cons x l ih =>
    simp only [holdsSeq, Bool.and_eq_true]
    exact ⟨holdsStep_lifecycle_id n all r wds x (hl x (List.mem_cons_self ..)),
      ih (fun o ho => hl o (List.mem_cons_of_mem _ ho)) _⟩

theorem unchanged_refl (n : Nat) (w : Addr → Word) : unchanged n w w = true :=
  HealthLifecycle.all_range _ _ (fun x => by simp)

theorem holdsStep_model (m n : Nat) (all : List HealthLifecycle.Op) (s : St) (r : HealthLifecycle.Ref)
    (hs : HealthLifecycle.Sim all s.w r) (op : SOp) :
    holdsStep m n all s.c r s.w.words
      ⟨(step s op).1.w.words, (step s op).2, viewsOf m (step s op).1.w.words (step s op).1.c⟩ op = true := by
  have hc : (step s op).1.c = s.c.step op := by rw [step_eq]
  simp only [holdsStep, hc, beq_self_eq_true, Bool.and_true]
  by_cases hh : isHostOp op = true
  · have hp := hostOp_preserves s op hh
    rw [hp.1, hp.2]
    cases hcm : compile s.c op with
    | nil => simp [unchanged_refl]
    | cons x l =>
      simp only []
      exact holdsSeq_lifecycle n all _ (by rw [← hcm]; exact compile_lifecycle s.c op hh) r _
  · cases op with
    | result k a rr =>
      rw [(step_result s k a rr).1, (step_result s k a rr).2]
      simp only [compile, holdsSeq, Bool.and_true]
      exact HealthLifecycle.holds_step n all s.w r hs _
    | outlier a on =>
      rw [step_eq]
      simp only [compile, holdsSeq, Bool.and_true, runLc, List.foldl_cons, List.foldl_nil]
      exact HealthLifecycle.holds_step n all s.w r hs _
    | update k hs => simp [isHostOp] at hh
    | append k x => simp [isHostOp] at hh
    | remove k x => simp [isHostOp] at hh
    | reconf k cf => simp [isHostOp] at hh

theorem holdsFrom_trace (m n : Nat) (all : List HealthLifecycle.Op) (ops : List SOp) (s : St) (r : HealthLifecycle.Ref)
    (hs : HealthLifecycle.Sim all s.w r) (hsub : ∀ o ∈ compileAll s.c ops, o ∈ all) :
    holdsFrom m n all s.c r s.w.words ops (trace m s ops) = true := by
  induction ops generalizing s r with
  | nil => rfl
  | cons op ops ih =>
    simp only [trace, holdsFrom, Bool.and_eq_true]
    refine ⟨holdsStep_model m n all s r hs op, ?_⟩
    have e : (step s op).1 = ⟨runOps s.w (compile s.c op), s.c.step op⟩ := by rw [step_eq, runLc_fst]
    have h1 : ∀ o ∈ compile s.c op, o ∈ all := fun o ho => hsub o (by simp only [compileAll]; exact List.mem_append_left _ ho)
    have h2 : ∀ o ∈ compileAll (s.c.step op) ops, o ∈ all := fun o ho => hsub o (by simp only [compileAll]; exact List.mem_append_right _ ho)
    have hsim := HealthLifecycle.sim_runOps all (compile s.c op) s.w r hs h1
    have := ih (step s op).1 (refRun r (compile s.c op)) (by rw [e]; exact hsim) (by rw [e]; exact h2)
    rw [e] at this ⊢
    exact this

/-! ### a cluster without a health checker keeps no session checker -/
/-- a cluster without a health checker keeps no session checker -/
def NoChk (s : St) : Prop := ∀ k, s.c.checked k = false → ∀ a, s.w.chk k a = none

theorem result_chk_other (k : Cid) (a : Addr) (r : Result) (w : World) (k' : Cid) (a' : Addr) (h : w.chk k' a' = none) :
    (HealthLifecycle.result k a r w).1.chk k' a' = none := by
  unfold HealthLifecycle.result
  split
  · exact h
  · rename_i c hc
    split
    · exact h
    · simp only [HealthLifecycle.upd2_apply]
      split
      · rename_i e; obtain ⟨e1, e2⟩ := e; subst e1 e2; rw [hc] at h; cases h
      · exact h

theorem noChk_step (s : St) (op : SOp) (hi : NoChk s) : NoChk (step s op).1 := by
  intro k hk a
  rw [step_eq, runLc_fst] at hk ⊢
  simp only at hk ⊢
  cases op with
  | result k0 a0 r =>
    have hk' : s.c.checked k = false := by simpa [Cfg.step, Cfg.target] using hk
    simp only [compile, runOps, List.foldl_cons, List.foldl_nil, HealthLifecycle.step]
    exact result_chk_other k0 a0 r s.w k a (hi k hk' a)
  | outlier a0 on =>
    have hk' : s.c.checked k = false := by simpa [Cfg.step, Cfg.target] using hk
    simp only [compile, runOps, List.foldl_cons, List.foldl_nil, HealthLifecycle.step]
    exact hi k hk' a
  | update k0 hs =>
    have hk' : s.c.checked k = false := by simpa [Cfg.step, Cfg.target] using hk
    simp only [compile]
    split
    · rename_i hc
      simp only [runOps, List.foldl_cons, List.foldl_nil, HealthLifecycle.step]
      rw [HealthLifecycle.setHosts_chk]
      have : k ≠ k0 := by intro e; subst e; rw [hk'] at hc; cases hc
      simp [this, hi k hk' a]
    · exact hi k hk' a
  | append k0 x =>
    have hk' : s.c.checked k = false := by simpa [Cfg.step, Cfg.target] using hk
    simp only [compile]
    split
    · rename_i hc
      simp only [runOps, List.foldl_cons, List.foldl_nil, HealthLifecycle.step]
      rw [HealthLifecycle.setHosts_chk]
      have : k ≠ k0 := by intro e; subst e; rw [hk'] at hc; cases hc
      simp [this, hi k hk' a]
    · exact hi k hk' a
  | remove k0 x =>
    have hk' : s.c.checked k = false := by simpa [Cfg.step, Cfg.target] using hk
    simp only [compile]
    split
    · rename_i hc
      simp only [runOps, List.foldl_cons, List.foldl_nil, HealthLifecycle.step]
      rw [HealthLifecycle.setHosts_chk]
      have : k ≠ k0 := by intro e; subst e; rw [hk'] at hc; cases hc
      simp [this, hi k hk' a]
    · exact hi k hk' a
  | reconf k0 cf =>
    cases cf with
    | none =>
      simp only [compile, runOps, List.foldl_cons, List.foldl_nil, HealthLifecycle.step]
      by_cases e : k = k0
      · simp [e]
      · have hk' : s.c.checked k = false := by simpa [Cfg.step, Cfg.target, HealthLifecycle.upd_apply, e] using hk
        simp [e, HealthLifecycle.stopAll_chk, hi k hk' a]
    | some p =>
      obtain ⟨u, h⟩ := p
      have e : k ≠ k0 := by
        intro e; subst e
        simp [Cfg.step, Cfg.target, HealthLifecycle.upd_apply] at hk
      have hk' : s.c.checked k = false := by simpa [Cfg.step, Cfg.target, HealthLifecycle.upd_apply, e] using hk
      simp only [compile, runOps, List.foldl_cons, List.foldl_nil, HealthLifecycle.step]
      rw [HealthLifecycle.setHosts_chk]
      simp [e, HealthLifecycle.stopAll_chk, hi k hk' a]

theorem noChk_run (s : St) (ops : List SOp) (hi : NoChk s) : NoChk (run s ops) := by
  induction ops generalizing s with
  | nil => exact hi
  | cons op ops ih => exact ih _ (noChk_step s op hi)

theorem noChk_init (checked : Cid → Bool) (cfg : Cid → Nat × Nat) (words0 : Addr → Word) : NoChk (St.init checked cfg words0) :=
  fun _ _ _ => rfl

end MosnVerif.Model.HealthShare
