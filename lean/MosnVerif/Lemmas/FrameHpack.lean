import MosnVerif.Model.FrameHpack
/-! bounds of the HPACK primitives -/
namespace MosnVerif.Model.FrameHpack
open MosnVerif.Model.Framing

theorem varLoop_suffix : ∀ (p : Bytes) (i m v : Nat) (r : Bytes), varLoop p i m = .ok v r →
    ∃ k, 0 < k ∧ k ≤ p.length ∧ r = p.drop k := by
  intro p
  induction p with
  | nil => intro i m v r h; simp [varLoop] at h
  | cons x xs ih =>
    intro i m v r h
    simp only [varLoop] at h
    split at h
    · simp only [VarRes.ok.injEq] at h
      exact ⟨1, by omega, by simp, by simp [h.2]⟩
    · split at h
      · simp at h
      · obtain ⟨k, hk0, hkl, hr⟩ := ih _ _ v r h
        exact ⟨k + 1, by omega, by simp; omega, by simp [hr]⟩

/-- a decoded integer consumed at least one byte and only bytes of the input: what remains is a proper suffix -/
theorem readVarInt_suffix (n : Nat) (p : Bytes) (v : Nat) (r : Bytes) (h : readVarInt n p = .ok v r) :
    ∃ k, 0 < k ∧ k ≤ p.length ∧ r = p.drop k := by
  unfold readVarInt at h
  cases p with
  | nil => simp at h
  | cons x xs =>
    simp only at h
    split at h
    · simp only [VarRes.ok.injEq] at h
      exact ⟨1, by omega, by simp, by simp [h.2]⟩
    · obtain ⟨k, hk0, hkl, hr⟩ := varLoop_suffix _ _ _ v r h
      exact ⟨k + 1, by omega, by simp; omega, by simp [hr]⟩

/-- a raw string is only produced when all its announced bytes have arrived; it is made of input bytes -/
theorem readString_bounded (maxStrLen : Nat) (p s r : Bytes) (h : readString maxStrLen p = .ok s r) :
    s.length + r.length < p.length ∧ (maxStrLen ≠ 0 → s.length ≤ maxStrLen) := by
  unfold readString at h
  cases p with
  | nil => simp at h
  | cons x xs =>
    simp only at h
    cases hv : readVarInt 7 (x :: xs) with
    | needMore => simp [hv] at h
    | overflow => simp [hv] at h
    | ok strLen r0 =>
      simp only [hv] at h
      obtain ⟨k, hk0, hkl, hr⟩ := readVarInt_suffix 7 _ strLen r0 hv
      split at h
      · simp at h
      · rename_i hmax
        split at h
        · simp at h
        · rename_i hlen
          split at h
          · simp at h
          · simp only [StrRes.ok.injEq] at h
            obtain ⟨rfl, rfl⟩ := h
            have hr0 : r0.length = (x :: xs).length - k := by rw [hr]; simp
            constructor
            · simp only [List.length_take, List.length_drop]
              have : min strLen r0.length = strLen := Nat.min_eq_left (by omega)
              rw [this]; simp at hkl hr0 ⊢; omega
            · intro hm
              simp only [List.length_take]
              have : ¬ (strLen > maxStrLen) := by intro hc; exact hmax ⟨hm, hc⟩
              omega

end MosnVerif.Model.FrameHpack
