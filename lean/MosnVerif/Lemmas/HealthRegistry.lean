import MosnVerif.Lemmas.HealthFlags
import MosnVerif.Model.HealthRegistry
/-! Lemmas for C16, allocation of the shared word: the registry invariant, the per-address view as a configuration of
`Model.HealthFlags`, and the executable predicate on the model's observation. Core Lean only. -/
namespace MosnVerif.Model.HealthRegistry
open MosnVerif.Gen.HealthFlags (Atom Prog PtrAtom)
open MosnVerif.Model.HealthFlags

/-- the registry invariant: every registered pointer is allocated, two addresses never share a word, and a host object
that has its pointer holds the REGISTERED word of its address -/
structure WInv (w : World) : Prop where
  bound : ∀ a id, w.reg.lookup a = some id → id < w.heap.length
  inj : ∀ a b id, w.reg.lookup a = some id → w.reg.lookup b = some id → a = b
  ptr : ∀ t ∈ w.threads, ∀ id, t.ptr = some id → w.reg.lookup t.addr = some id

theorem safe_no_store (PP : List PtrAtom) (hs : SafePP PP = true) (k : Nat) : PP[k]? ≠ some .storeRet := by
  intro h
  have hm : PtrAtom.storeRet ∈ PP := List.mem_of_getElem? h
  have := (List.all_eq_true.mp hs) _ hm
  simp at this

/-- the three things one scheduler step of a thread can be, for a pointer program without a blind `Store`:
quiet (nothing shared changes; the thread may have received the REGISTERED pointer of its address), the registration of
a fresh word for an address that had none, or one atomic access of the thread's word. -/
theorem hthread_step_cases (PP : List PtrAtom) (P : Op → Prog) (hs : SafePP PP = true) (reg : Reg) (heap : List Word)
    (t : HThread) :
    ((t.step PP P reg heap).1 = reg ∧ (t.step PP P reg heap).2.1 = heap ∧ (t.step PP P reg heap).2.2.addr = t.addr ∧
      (t.step PP P reg heap).2.2.th = t.th ∧ t.ptr = none ∧
      ((t.step PP P reg heap).2.2.ptr = none ∨
        ∃ id, (t.step PP P reg heap).2.2.ptr = some id ∧ reg.lookup t.addr = some id)) ∨
    (t.ptr = none ∧ reg.lookup t.addr = none ∧ (t.step PP P reg heap).1 = (t.addr, heap.length) :: reg ∧
      (t.step PP P reg heap).2.1 = heap ++ [Gen.HealthFlags.ptrFresh] ∧
      (t.step PP P reg heap).2.2 = { t with ptr := some heap.length }) ∨
    (∃ id, t.ptr = some id ∧ (t.step PP P reg heap).1 = reg ∧
      (t.step PP P reg heap).2.1 = heap.set id (t.th.step P (heap[id]?.getD 0)).1 ∧
      (t.step PP P reg heap).2.2 = { t with th := (t.th.step P (heap[id]?.getD 0)).2.1 }) := by
  obtain ⟨addr, ptr, ppc, th⟩ := t
  cases ptr with
  | some id => right; right; exact ⟨id, rfl, rfl, rfl, rfl⟩
  | none =>
    simp only [HThread.step]
    cases hp : PP[ppc]? with
    | none => left; simp
    | some atm =>
      cases atm with
      | storeRet => exact absurd hp (safe_no_store PP hs ppc)
      | loadRet =>
        cases hl : reg.lookup addr with
        | none => left; simp
        | some id => left; simp
      | loadOrStoreRet =>
        cases hl : reg.lookup addr with
        | none => right; left; simp
        | some id => left; simp


theorem lookup_cons_self (a : Addr) (id : Nat) (reg : Reg) : List.lookup a ((a, id) :: reg) = some id := by
  simp [List.lookup]

theorem lookup_cons_ne (a b : Addr) (id : Nat) (reg : Reg) (h : b ≠ a) :
    List.lookup b ((a, id) :: reg) = List.lookup b reg := by
  have : (b == a) = false := by simp [h]
  simp [List.lookup, this]

theorem threads_step_length (PP : List PtrAtom) (P : Op → Prog) (w : World) (i : Nat) :
    (w.step PP P i).threads.length = w.threads.length := by
  unfold World.step
  cases w.threads[i]? <;> simp

/-- **the invariant is preserved by every scheduler step** of a pointer program without a blind `Store` -/
theorem winv_step (PP : List PtrAtom) (P : Op → Prog) (hs : SafePP PP = true) (w : World) (hw : WInv w) (i : Nat) :
    WInv (w.step PP P i) := by
  unfold World.step
  cases hti : w.threads[i]? with
  | none => exact hw
  | some t =>
    have hmem : t ∈ w.threads := List.mem_of_getElem? hti
    rcases hthread_step_cases PP P hs w.reg w.heap t with ⟨h1, h2, h3, _, h5, h6⟩ | ⟨h1, h2, h3, h4, h5⟩ | ⟨id, h1, h2, h3, h4⟩
    · -- quiet
      refine ⟨?_, ?_, ?_⟩
      · simp only [h1, h2]; exact hw.bound
      · simp only [h1]; exact hw.inj
      · intro t' ht' id hid
        simp only [h1]
        rcases List.mem_or_eq_of_mem_set ht' with hm | he
        · exact hw.ptr t' hm id hid
        · subst he
          rw [h3]
          rcases h6 with h6 | ⟨id', h6, h7⟩
          · rw [h6] at hid; cases hid
          · rw [h6] at hid; cases hid; exact h7
    · -- registration of a fresh word
      refine ⟨?_, ?_, ?_⟩
      · intro a id
        simp only [h3, h4, List.length_append, List.length_singleton]
        by_cases ha : a = t.addr
        · subst ha; rw [lookup_cons_self]; intro h; cases h; omega
        · rw [lookup_cons_ne _ _ _ _ ha]; intro h; have := hw.bound a id h; omega
      · intro a b id
        simp only [h3]
        by_cases ha : a = t.addr <;> by_cases hb : b = t.addr
        · intro _ _; rw [ha, hb]
        · subst ha; rw [lookup_cons_self, lookup_cons_ne _ _ _ _ hb]
          intro h1' h2'; cases h1'
          have := hw.bound b _ h2'; omega
        · subst hb; rw [lookup_cons_self, lookup_cons_ne _ _ _ _ ha]
          intro h1' h2'; cases h2'
          have := hw.bound a _ h1'; omega
        · rw [lookup_cons_ne _ _ _ _ ha, lookup_cons_ne _ _ _ _ hb]; exact hw.inj a b id
      · intro t' ht' id hid
        simp only [h3]
        rcases List.mem_or_eq_of_mem_set ht' with hm | he
        · have hold := hw.ptr t' hm id hid
          have hne : t'.addr ≠ t.addr := by
            intro he; rw [he, h2] at hold; cases hold
          rw [lookup_cons_ne _ _ _ _ hne]; exact hold
        · subst he
          rw [h5] at hid ⊢
          simp only [Option.some.injEq] at hid
          subst hid
          exact lookup_cons_self _ _ _
    · -- an atomic access of the thread's word
      refine ⟨?_, ?_, ?_⟩
      · simp only [h2, h3, List.length_set]; exact hw.bound
      · simp only [h2]; exact hw.inj
      · intro t' ht' id' hid
        simp only [h2]
        rcases List.mem_or_eq_of_mem_set ht' with hm | he
        · exact hw.ptr t' hm id' hid
        · subst he
          rw [h4] at hid ⊢
          exact hw.ptr t hmem id' hid

theorem winv_run (PP : List PtrAtom) (P : Op → Prog) (hs : SafePP PP = true) (w : World) (hw : WInv w) (s : List Nat) :
    WInv (w.run PP P s) := by
  induction s generalizing w with
  | nil => exact hw
  | cons i s ih => exact ih _ (winv_step PP P hs w hw i)

/-- a registry the initial world may start from: allocated, injective -/
structure RegOK (reg : Reg) (heap : List Word) : Prop where
  bound : ∀ a id, reg.lookup a = some id → id < heap.length
  inj : ∀ a b id, reg.lookup a = some id → reg.lookup b = some id → a = b

theorem regOK_nil : RegOK [] [] := ⟨by simp [List.lookup], by simp [List.lookup]⟩

theorem winv_init (reg : Reg) (heap : List Word) (h : RegOK reg heap) (specs : List (Addr × List Op)) :
    WInv (World.init reg heap specs) := by
  refine ⟨h.bound, h.inj, ?_⟩
  intro t ht id hid
  simp only [World.init, List.mem_map] at ht
  obtain ⟨sp, _, rfl⟩ := ht
  simp [HThread.init] at hid


/-! ### the view of one address is a configuration of `Model.HealthFlags`, and the world steps it -/

theorem set_same {α : Type} (l : List α) (i : Nat) (x : α) (h : l[i]? = some x) : l.set i x = l := by
  have hlt : i < l.length := (List.getElem?_eq_some_iff.mp h).1
  apply List.ext_getElem?
  intro j
  by_cases hij : i = j
  · subst hij; simp [hlt, (List.getElem?_eq_some_iff.mp h).2]
  · simp [hij]

/-- replacing thread `i` by one with the same address and the same Set/Clear state does not change any view -/
theorem set_getElem?' {α : Type} (l : List α) (i : Nat) (t t' : α) (h : l[i]? = some t) : (l.set i t')[i]? = some t' := by
  have hlt : i < l.length := (List.getElem?_eq_some_iff.mp h).1
  simp [hlt]

theorem view_threads_same (a : Addr) (l : List HThread) (i : Nat) (t t' : HThread) (h : l[i]? = some t)
    (haddr : t'.addr = t.addr) (hth : t'.th = t.th ∨ t.addr ≠ a) :
    (l.set i t').map (fun t => if t.addr = a then t.th else idle) = l.map (fun t => if t.addr = a then t.th else idle) := by
  rw [List.map_set]
  apply set_same
  rw [List.getElem?_map, h]
  rcases hth with hth | hne
  · simp [haddr, hth]
  · simp [haddr, hne]

theorem view_step (PP : List PtrAtom) (P : Op → Prog) (hs : SafePP PP = true) (w : World) (hw : WInv w) (a : Addr) (i : Nat) :
    (w.step PP P i).view a = if w.flagStep a i = true then ((w.view a).step P i).1 else w.view a := by
  unfold World.step World.flagStep
  cases hti : w.threads[i]? with
  | none => simp
  | some t =>
    have hmem : t ∈ w.threads := List.mem_of_getElem? hti
    have hlt : i < w.threads.length := (List.getElem?_eq_some_iff.mp hti).1
    rcases hthread_step_cases PP P hs w.reg w.heap t with ⟨h1, h2, h3, h4, h5, _⟩ | ⟨h1, h2, h3, h4, h5⟩ | ⟨id, h1, h2, h3, h4⟩
    · -- quiet
      simp only [h5, Option.isSome_none, Bool.and_false, Bool.false_eq_true, if_false]
      simp only [World.view, World.wordOf, h1, h2]
      rw [view_threads_same a w.threads i t _ hti h3 (Or.inl h4)]
    · -- registration of a fresh word: the word of every address is what it was
      simp only [h1, Option.isSome_none, Bool.and_false, Bool.false_eq_true, if_false]
      simp only [World.view, World.wordOf, h3, h4]
      rw [view_threads_same a w.threads i t _ hti (by rw [h5]) (Or.inl (by rw [h5]))]
      congr 1
      by_cases ha : a = t.addr
      · subst ha
        rw [lookup_cons_self, h2]
        simp
      · rw [lookup_cons_ne _ _ _ _ ha]
        cases hl : List.lookup a w.reg with
        | none => rfl
        | some id' =>
          have := hw.bound a id' hl
          simp [List.getElem?_append_left this]
    · -- an atomic access of the thread's word
      have hreg : w.reg.lookup t.addr = some id := hw.ptr t hmem id h1
      have hid : id < w.heap.length := hw.bound _ _ hreg
      by_cases ha : t.addr = a
      · subst ha
        simp only [h1, Option.isSome_some, Bool.and_true, beq_self_eq_true, if_true]
        have hv : (w.view t.addr).threads[i]? = some t.th := by
          simp [World.view, List.getElem?_map, hti]
        have hword : (w.view t.addr).word = w.heap[id]?.getD 0 := by
          simp [World.view, World.wordOf, hreg]
        simp only [Config.step, hv, hword]
        simp only [World.view, World.wordOf, h2, h3, h4, hreg, List.map_set]
        simp [hid]
      · have hne : (t.addr == a) = false := by simp [ha]
        simp only [hne, Bool.false_and, Bool.false_eq_true, if_false]
        simp only [World.view, World.wordOf, h2, h3]
        rw [view_threads_same a w.threads i t _ hti (by rw [h4]) (Or.inr ha)]
        congr 1
        cases hl : List.lookup a w.reg with
        | none => rfl
        | some id' =>
          have hne' : id ≠ id' := by
            intro he; subst he
            exact ha (hw.inj _ _ _ hreg hl)
          simp [List.getElem?_set_ne hne']


/-- **simulation**: under every schedule, what the host objects of address `a` do to the word of `a` is a run of the
one-word model `Model.HealthFlags` on the view of `a`, under the sub-schedule of the accesses of that word -/
theorem view_run (PP : List PtrAtom) (P : Op → Prog) (hs : SafePP PP = true) (w : World) (hw : WInv w) (a : Addr)
    (s : List Nat) :
    (w.run PP P s).view a = (w.view a).run P (w.flagSched PP P a s) := by
  induction s generalizing w with
  | nil => rfl
  | cons i s ih =>
    simp only [World.run, World.flagSched]
    rw [ih _ (winv_step PP P hs w hw i), view_step PP P hs w hw a i, run_append]
    by_cases hf : w.flagStep a i = true
    · simp [hf, Config.run]
    · simp [hf, Config.run]

theorem run_threads_length (PP : List PtrAtom) (P : Op → Prog) (w : World) (s : List Nat) :
    (w.run PP P s).threads.length = w.threads.length := by
  induction s generalizing w with
  | nil => rfl
  | cons i s ih => simp only [World.run]; rw [ih, threads_step_length]

theorem step_addr (PP : List PtrAtom) (P : Op → Prog) (hs : SafePP PP = true) (w : World) (i : Nat) :
    (w.step PP P i).threads.map (·.addr) = w.threads.map (·.addr) := by
  unfold World.step
  cases hti : w.threads[i]? with
  | none => rfl
  | some t =>
    simp only [List.map_set]
    apply set_same
    rw [List.getElem?_map, hti]
    rcases hthread_step_cases PP P hs w.reg w.heap t with ⟨_, _, h3, _⟩ | ⟨_, _, _, _, h5⟩ | ⟨id, _, _, _, h4⟩
    · simp [h3]
    · simp [h5]
    · simp [h4]

theorem run_addr (PP : List PtrAtom) (P : Op → Prog) (hs : SafePP PP = true) (w : World) (s : List Nat) :
    (w.run PP P s).threads.map (·.addr) = w.threads.map (·.addr) := by
  induction s generalizing w with
  | nil => rfl
  | cons i s ih => simp only [World.run]; rw [ih, step_addr PP P hs]

theorem init_addr (reg : Reg) (heap : List Word) (specs : List (Addr × List Op)) :
    (World.init reg heap specs).threads.map (·.addr) = specs.map (·.1) := by
  simp [World.init, HThread.init, Function.comp_def]

theorem init_view_pendingAt (reg : Reg) (heap : List Word) (specs : List (Addr × List Op)) (a : Addr) (j : Nat) :
    ((World.init reg heap specs).view a).pendingAt j = (callsOf specs a)[j]?.getD [] := by
  simp only [Config.pendingAt, World.view, World.init, callsOf, List.getElem?_map, Option.map_map]
  cases specs[j]? with
  | none => rfl
  | some sp =>
    simp only [Option.map_some, Function.comp, HThread.init, Option.getD_some]
    by_cases h : sp.1 = a <;> simp [h, Thread.init, idle]

theorem done_view_pendingAt (w : World) (h : w.done = true) (a : Addr) (j : Nat) : (w.view a).pendingAt j = [] := by
  simp only [Config.pendingAt, World.view, List.getElem?_map, Option.map_map]
  cases hj : w.threads[j]? with
  | none => rfl
  | some t =>
    have hm : t ∈ w.threads := List.mem_of_getElem? hj
    have := (List.all_eq_true.mp h) t hm
    simp only [Bool.and_eq_true, List.isEmpty_iff] at this
    simp only [Option.map_some, Function.comp, Option.getD_some]
    by_cases h : t.addr = a <;> simp [h, this.2, idle]

/-! ### the declarative sequential check accepts every linearization -/

theorem totalOps_set (pend : List (List Op)) (t : Nat) (op : Op) (r : List Op) (h : pend[t]? = some (op :: r)) :
    totalOps pend = totalOps (pend.set t r) + 1 := by
  induction pend generalizing t with
  | nil => simp at h
  | cons x xs ih =>
    cases t with
    | zero => simp at h; subst h; simp [totalOps]; omega
    | succ k =>
      simp only [List.getElem?_cons_succ] at h
      have := ih k h
      simp only [List.set_cons_succ, totalOps]; omega

theorem proj_cons (j : Nat) (e : Nat × Op) (l : List (Nat × Op)) :
    proj j (e :: l) = if e.1 = j then e.2 :: proj j l else proj j l := by
  by_cases h : e.1 = j
  · simp [proj, h]
  · have : (e.1 == j) = false := by simp [h]
    simp [proj, h, this]

theorem seqCheck_of_log (log : List (Nat × Op)) (pend : List (List Op)) (w : Word)
    (hp : ∀ j, proj j log = pend[j]?.getD []) :
    seqCheck (totalOps pend + 1) pend w (applyAll w log) = true := by
  induction log generalizing pend w with
  | nil =>
    simp only [seqCheck, Bool.or_eq_true, Bool.and_eq_true]
    left
    refine ⟨?_, by simp [applyAll]⟩
    rw [List.all_eq_true]
    intro l hl
    obtain ⟨j, hj, rfl⟩ := List.getElem_of_mem hl
    have := hp j
    rw [List.getElem?_eq_getElem hj] at this
    simp only [proj_nil, Option.getD_some] at this
    simp [← this]
  | cons e rest ih =>
    obtain ⟨t, op⟩ := e
    have ht := hp t
    rw [proj_cons] at ht
    simp only [if_true] at ht
    have hpt : pend[t]? = some (op :: proj t rest) := by
      cases hq : pend[t]? with
      | none => rw [hq] at ht; simp at ht
      | some l => rw [hq] at ht; simp only [Option.getD_some] at ht; rw [ht]
    have hlt : t < pend.length := (List.getElem?_eq_some_iff.mp hpt).1
    simp only [seqCheck, Bool.or_eq_true]
    right
    rw [List.any_eq_true]
    refine ⟨t, by simp [hlt], ?_⟩
    simp only [hpt]
    have hfin : applyAll w ((t, op) :: rest) = applyAll (op.ref w) rest := by
      show applyAll (op.apply w) rest = _
      rw [apply_eq_ref]
    rw [hfin, totalOps_set pend t op _ hpt]
    apply ih
    intro j
    by_cases hj : t = j
    · subst hj; simp [hlt]
    · have := hp j
      rw [proj_cons] at this
      simp only [hj, if_false] at this
      rw [this]; simp [hj]


/-! ### linearizability across the host objects of one address (CAS-loop shape of Set/Clear) -/

theorem across_cas (PP : List PtrAtom) (hs : SafePP PP = true) (reg : Reg) (heap : List Word) (hreg : RegOK reg heap)
    (specs : List (Addr × List Op)) (s : List Nat) (a : Addr)
    (hdone : ((World.init reg heap specs).run PP casLoopP s).done = true) :
    ((World.init reg heap specs).run PP casLoopP s).wordOf a =
      applyAll ((World.init reg heap specs).wordOf a)
        (((World.init reg heap specs).view a).log casLoopP ((World.init reg heap specs).flagSched PP casLoopP a s)) ∧
    ∀ j, proj j (((World.init reg heap specs).view a).log casLoopP ((World.init reg heap specs).flagSched PP casLoopP a s))
      = (callsOf specs a)[j]?.getD [] := by
  have hv := view_run PP casLoopP hs (World.init reg heap specs) (winv_init reg heap hreg specs) a s
  obtain ⟨hw, hp⟩ := run_cas ((World.init reg heap specs).view a) ((World.init reg heap specs).flagSched PP casLoopP a s)
  rw [← hv] at hw hp
  refine ⟨hw, fun j => ?_⟩
  have := hp j
  rw [done_view_pendingAt _ hdone, List.append_nil, init_view_pendingAt] at this
  exact this

/-! ### the observation of a completed world satisfies the executable predicate -/

theorem ptrFresh_zero : Gen.HealthFlags.ptrFresh = 0 := rfl

theorem health_eq (x : Word) : health x = (x == 0) := by
  simp only [health, Gen.HealthFlags.health]
  cases h : (x == 0#64) <;> simp_all

theorem or_and_self (x p : Word) : (x ||| p) &&& p = p := by
  apply BitVec.eq_of_getLsbD_eq
  intro i _
  simp only [BitVec.getLsbD_and, BitVec.getLsbD_or]
  cases x.getLsbD i <;> cases p.getLsbD i <;> rfl

theorem contain_probe_set (x : Word) : Gen.HealthFlags.containFlag (x ||| probeFlag) probeFlag = true := by
  simp only [Gen.HealthFlags.containFlag, or_and_self]
  decide

theorem health_probe_set (x : Word) : health (x ||| probeFlag) = false := by
  simp only [health, Gen.HealthFlags.health, decide_eq_false_iff_not]
  intro h
  have := or_and_self x probeFlag
  rw [h] at this
  exact absurd this (by decide)

theorem contain_probe_clear (x : Word) (h : x &&& probeFlag = 0) : Gen.HealthFlags.containFlag x probeFlag = false := by
  simp only [Gen.HealthFlags.containFlag, h]
  decide

theorem set_probe_apply (x : Word) : Op.apply (.set probeFlag) x = x ||| probeFlag := rfl

/-- in a completed world every host object holds the registered word of its address -/
theorem done_ptr (w : World) (hw : WInv w) (hd : w.done = true) (t : HThread) (ht : t ∈ w.threads) :
    ∃ id, t.ptr = some id ∧ w.reg.lookup t.addr = some id ∧ id < w.heap.length ∧ w.hostWord t = w.wordOf t.addr := by
  have := (List.all_eq_true.mp hd) t ht
  simp only [Bool.and_eq_true] at this
  cases hp : t.ptr with
  | none => rw [hp] at this; simp at this
  | some id =>
    have hl := hw.ptr t ht id hp
    exact ⟨id, rfl, hl, hw.bound _ _ hl, by simp [World.hostWord, World.wordOf, hp, hl]⟩

/-- one cell of the probe: after a condition was set THROUGH host object `ti`, host object `tj` sees it exactly when
it is of the same address -/
theorem probe_cell (w : World) (hw : WInv w) (hd : w.done = true) (ti tj : HThread) (hti : ti ∈ w.threads)
    (htj : tj ∈ w.threads) (idi : Nat) (hi : ti.ptr = some idi) :
    ({ w with heap := w.heap.set idi (Op.apply (.set probeFlag) (w.heap[idi]?.getD 0)) } : World).hostWord tj =
      if ti.addr = tj.addr then w.hostWord tj ||| probeFlag else w.hostWord tj := by
  obtain ⟨idi', hi', hli, hbi, _⟩ := done_ptr w hw hd ti hti
  rw [hi] at hi'; cases hi'
  obtain ⟨idj, hj, hlj, hbj, _⟩ := done_ptr w hw hd tj htj
  simp only [World.hostWord, hj, set_probe_apply]
  by_cases ha : ti.addr = tj.addr
  · have : idi = idj := by rw [ha, hlj] at hli; cases hli; rfl
    subst this
    simp [ha, hbi]
  · have hne : idi ≠ idj := by
      intro he; subst he
      exact ha (hw.inj _ _ _ hli hlj)
    simp [ha, List.getElem?_set_ne hne]


/-- the observation of a completed world in which the word of every address is explained by the calls made through all
host objects of the address satisfies the executable predicate -/
theorem holds_observe (specs : List (Addr × List Op)) (w0 : Addr → Word) (w : World) (hw : WInv w) (hd : w.done = true)
    (haddr : w.threads.map (·.addr) = specs.map (·.1))
    (hlin : ∀ a, seqCheck (totalOps (callsOf specs a) + 1) (callsOf specs a) (w0 a) (w.wordOf a) = true) :
    holds specs w0 w.observe = true := by
  have hlen : w.threads.length = specs.length := by simpa using congrArg List.length haddr
  have addr_at : ∀ (k : Nat) (t : HThread) (sp : Addr × List Op), w.threads[k]? = some t → specs[k]? = some sp → t.addr = sp.1 := by
    intro k t sp h1 h2
    have := congrArg (·[k]?) haddr
    simpa [h1, h2] using this
  simp only [holds, World.observe, List.length_map, hlen, beq_self_eq_true, Bool.true_and, List.all_eq_true,
    List.mem_range]
  intro i hi
  obtain ⟨si, hsi⟩ : ∃ si, specs[i]? = some si := ⟨specs[i], List.getElem?_eq_getElem hi⟩
  obtain ⟨ti, hti⟩ : ∃ ti, w.threads[i]? = some ti := ⟨w.threads[i], List.getElem?_eq_getElem (by omega)⟩
  have hai := addr_at i ti si hti hsi
  have hmi : ti ∈ w.threads := List.mem_of_getElem? hti
  obtain ⟨idi, hpi, _, _, hwi⟩ := done_ptr w hw hd ti hmi
  simp only [hsi, List.getElem?_map, hti, Option.map_some, List.length_map, hlen, beq_self_eq_true, Bool.and_true,
    Bool.and_eq_true, List.all_eq_true, List.mem_range]
  refine ⟨⟨?_, ?_⟩, ?_⟩
  · rw [health_eq]; simp
  · rw [hwi, hai]; exact hlin si.1
  · intro j hj
    obtain ⟨sj, hsj⟩ : ∃ sj, specs[j]? = some sj := ⟨specs[j], List.getElem?_eq_getElem hj⟩
    obtain ⟨tj, htj⟩ : ∃ tj, w.threads[j]? = some tj := ⟨w.threads[j], List.getElem?_eq_getElem (by omega)⟩
    have haj := addr_at j tj sj htj hsj
    have hmj : tj ∈ w.threads := List.mem_of_getElem? htj
    obtain ⟨idj, _, _, _, hwj⟩ := done_ptr w hw hd tj hmj
    simp only [hsj, htj, Option.map_some, hpi]
    rw [probe_cell w hw hd ti tj hmi hmj idi hpi, hai, haj]
    by_cases ha : si.1 = sj.1
    · have hww : w.hostWord ti = w.hostWord tj := by rw [hwi, hwj, hai, haj, ha]
      simp [ha, hww, contain_probe_set, health_probe_set]
    · simp only [ha, if_false, Bool.and_eq_true, Bool.or_eq_true]
      refine ⟨Or.inl (by simp [ha]), ?_⟩
      by_cases hg : w.hostWord tj &&& probeFlag = 0
      · right
        rw [contain_probe_clear _ hg, health_eq]
        simp [ha]
      · left; simp only [bne_iff_ne, ne_eq]; exact hg


/-! ### the current source -/

/-- The pointer program of the current source never overwrites an entry of `healthStore`.  This is the lemma that stops
compiling when the regenerated step program of `GetHealthFlagPointer` contains a blind `Store` (e.g. "Load, and on a miss
allocate + Store"). -/
theorem genPP_safe : SafePP genPP = true := by decide

/-- the view of the initial world IS the initial configuration of the one-word model: the calls of the host objects of
the address over the address' word, host objects of other addresses idle -/
theorem init_view (reg : Reg) (heap : List Word) (specs : List (Addr × List Op)) (a : Addr) :
    (World.init reg heap specs).view a = Config.init ((World.init reg heap specs).wordOf a) (callsOf specs a) := by
  simp only [World.view, World.init, Config.init, callsOf, List.map_map]
  congr 1
  apply List.map_congr_left
  intro sp _
  by_cases h : sp.1 = a <;> simp [h, HThread.init, Thread.init, idle]

theorem init_wordOf (reg : Reg) (heap : List Word) (specs : List (Addr × List Op)) (a : Addr) :
    (World.init reg heap specs).wordOf a = match reg.lookup a with
      | some id => heap[id]?.getD 0
      | none => 0 := by
  simp only [World.wordOf, World.init, ptrFresh_zero]
  cases List.lookup a reg <;> rfl

theorem done_view (w : World) (h : w.done = true) (a : Addr) : (w.view a).done = true := by
  simp only [Config.done, World.view, List.all_map, List.all_eq_true]
  intro t ht
  have := (List.all_eq_true.mp h) t ht
  simp only [Bool.and_eq_true] at this
  by_cases ha : t.addr = a <;> simp [ha, this.2, idle]

/-- an entry of `healthStore` is never replaced: later lookups of the address see the same word -/
theorem reg_stable_step (PP : List PtrAtom) (P : Op → Prog) (hs : SafePP PP = true) (w : World) (i : Nat) (a : Addr)
    (id : Nat) (h : w.reg.lookup a = some id) : (w.step PP P i).reg.lookup a = some id := by
  unfold World.step
  cases hti : w.threads[i]? with
  | none => exact h
  | some t =>
    rcases hthread_step_cases PP P hs w.reg w.heap t with ⟨h1, _⟩ | ⟨_, h2, h3, _⟩ | ⟨_, _, h2, _⟩
    · simp only [h1]; exact h
    · simp only [h3]
      have hne : a ≠ t.addr := by intro he; rw [he, h2] at h; cases h
      rw [lookup_cons_ne _ _ _ _ hne]; exact h
    · simp only [h2]; exact h

theorem reg_stable_run (PP : List PtrAtom) (P : Op → Prog) (hs : SafePP PP = true) (w : World) (s : List Nat) (a : Addr)
    (id : Nat) (h : w.reg.lookup a = some id) : (w.run PP P s).reg.lookup a = some id := by
  induction s generalizing w with
  | nil => exact h
  | cons i s ih => exact ih _ (reg_stable_step PP P hs w i a id h)


/-! ### a completing schedule exists from every initial world (non-vacuity of "runs to completion"): one thread at a
time first obtains its pointer (within `PP.length` steps), then completes each call within three steps -/

/-- a pointer program that always returns a word: its last operation is `LoadOrStore` -/
def TermPP (PP : List PtrAtom) : Bool := PP.getLast? == some .loadOrStoreRet

def todo : List HThread → Nat
  | [] => 0
  | t :: r => (if t.ptr.isSome then 0 else 1) + t.th.ops.length + todo r

def HThread.cost (t : HThread) : Nat := (if t.ptr.isSome then 0 else 1) + t.th.ops.length

theorem todo_set (l : List HThread) (i : Nat) (t t' : HThread) (h : l[i]? = some t) :
    todo (l.set i t') + t.cost = todo l + t'.cost := by
  induction l generalizing i with
  | nil => simp at h
  | cons x r ih =>
    cases i with
    | zero => simp at h; subst h; simp [todo, HThread.cost]; omega
    | succ k =>
      simp only [List.getElem?_cons_succ] at h
      have := ih k h
      simp only [List.set_cons_succ, todo]; omega

theorem todo_zero_done (w : World) (h : todo w.threads = 0) : w.done = true := by
  simp only [World.done, List.all_eq_true]
  have key : ∀ l : List HThread, todo l = 0 → ∀ t ∈ l, (t.ptr.isSome && t.th.ops.isEmpty) = true := by
    intro l
    induction l with
    | nil => intro _ t ht; cases ht
    | cons x r ih =>
      intro h0 t ht
      simp only [todo] at h0
      rcases List.mem_cons.mp ht with rfl | hr
      · have h1 : (if t.ptr.isSome = true then 0 else 1) = 0 := by omega
        have h2 : t.th.ops.length = 0 := by omega
        have h3 : t.ptr.isSome = true := by
          by_cases hq : t.ptr.isSome = true
          · exact hq
          · simp [hq] at h1
        simp [h3, List.length_eq_zero_iff.mp h2]
      · exact ih (by omega) t hr
  exact key w.threads h

theorem world_run_append (PP : List PtrAtom) (P : Op → Prog) (w : World) (a b : List Nat) :
    w.run PP P (a ++ b) = (w.run PP P a).run PP P b := by
  induction a generalizing w with
  | nil => rfl
  | cons i a ih => simp only [List.cons_append, World.run]; exact ih _

theorem world_step_at (PP : List PtrAtom) (P : Op → Prog) (w : World) (i : Nat) (t : HThread) (h : w.threads[i]? = some t) :
    w.step PP P i = ⟨(t.step PP P w.reg w.heap).1, (t.step PP P w.reg w.heap).2.1,
      w.threads.set i (t.step PP P w.reg w.heap).2.2⟩ := by
  simp [World.step, h]

/-- one map operation of a thread that has no pointer yet -/
theorem ptr_step (PP : List PtrAtom) (P : Op → Prog) (hs : SafePP PP = true) (reg : Reg) (heap : List Word) (t : HThread)
    (hp : t.ptr = none) (hlt : t.ppc < PP.length) :
    (t.step PP P reg heap).2.2.th = t.th ∧
    ((t.step PP P reg heap).2.2.ptr.isSome = true ∨
      ((t.step PP P reg heap).2.2.ptr = none ∧ (t.step PP P reg heap).2.2.ppc = t.ppc + 1 ∧ PP[t.ppc]? = some .loadRet)) := by
  obtain ⟨addr, ptr, ppc, th⟩ := t
  simp only at hp hlt
  subst hp
  simp only [HThread.step]
  have hget : PP[ppc]? = some PP[ppc] := List.getElem?_eq_getElem hlt
  rw [hget]
  cases hat : PP[ppc] with
  | storeRet => rw [hat] at hget; exact absurd hget (safe_no_store PP hs ppc)
  | loadRet => cases List.lookup addr reg <;> simp
  | loadOrStoreRet => cases List.lookup addr reg <;> simp

/-- a thread scheduled alone obtains its pointer within `PP.length - ppc` steps; nothing else about the threads changes -/
theorem solo_ptr (PP : List PtrAtom) (P : Op → Prog) (hs : SafePP PP = true) (ht : TermPP PP = true) (n : Nat) :
    ∀ (w : World) (i : Nat) (t : HThread), w.threads[i]? = some t → t.ptr = none → t.ppc < PP.length →
      PP.length - t.ppc = n →
      ∃ k t', (w.run PP P (List.replicate k i)).threads = w.threads.set i t' ∧ t'.ptr.isSome = true ∧ t'.th = t.th := by
  induction n with
  | zero => intro w i t _ _ hlt hn; omega
  | succ n ih =>
    intro w i t hi hp hlt hn
    obtain ⟨hth, hsome | ⟨hnone, hppc, hat⟩⟩ := ptr_step PP P hs w.reg w.heap t hp hlt
    · exact ⟨1, (t.step PP P w.reg w.heap).2.2, by simp [World.run, world_step_at PP P w i t hi], hsome, hth⟩
    · -- a Load that missed: the next operation exists because the program ends with LoadOrStore
      have hlt' : t.ppc + 1 < PP.length := by
        have hl : PP[PP.length - 1]? = some .loadOrStoreRet := by
          have := ht
          simp only [TermPP, beq_iff_eq] at this
          rw [List.getLast?_eq_getElem?] at this
          exact this
        rcases Nat.lt_or_ge (t.ppc + 1) PP.length with h | h
        · exact h
        · have : t.ppc = PP.length - 1 := by omega
          rw [this, hl] at hat
          cases hat
      have hi' : (w.step PP P i).threads[i]? = some (t.step PP P w.reg w.heap).2.2 := by
        rw [world_step_at PP P w i t hi]
        exact set_getElem?' _ _ _ _ hi
      obtain ⟨k, t', hk, hs', hth'⟩ := ih (w.step PP P i) i _ hi' hnone (by rw [hppc]; exact hlt') (by rw [hppc]; omega)
      refine ⟨k + 1, t', ?_, hs', by rw [hth', hth]⟩
      simp only [List.replicate_succ, World.run]
      rw [hk, world_step_at PP P w i t hi]
      simp


/-- one atomic access of the word by a thread that has its pointer, spelled out -/
theorem flag_step_world (PP : List PtrAtom) (P : Op → Prog) (w : World) (i : Nat) (t : HThread) (id : Nat)
    (hi : w.threads[i]? = some t) (hp : t.ptr = some id) (hid : id < w.heap.length) :
    (w.step PP P i).threads = w.threads.set i { t with th := (t.th.step P (w.heap[id]?.getD 0)).2.1 } ∧
    (w.step PP P i).heap[id]?.getD 0 = (t.th.step P (w.heap[id]?.getD 0)).1 ∧
    (w.step PP P i).heap.length = w.heap.length := by
  rw [world_step_at PP P w i t hi]
  obtain ⟨addr, ptr, ppc, th⟩ := t
  simp only at hp
  subst hp
  simp [HThread.step, hid]

/-- a thread at the start of a call, scheduled alone, completes it in two steps (load, CAS) -/
theorem solo_op0 (PP : List PtrAtom) (w : World) (i : Nat) (t : HThread) (id : Nat) (op : Op) (rest : List Op) (r0 : Word)
    (hi : w.threads[i]? = some t) (hp : t.ptr = some id) (hid : id < w.heap.length) (hth : t.th = ⟨op :: rest, 0, r0⟩) :
    ∃ r', (w.run PP casLoopP [i, i]).threads = w.threads.set i { t with th := ⟨rest, 0, r'⟩ } := by
  obtain ⟨h1, h2, h3⟩ := flag_step_world PP casLoopP w i t id hi hp hid
  have e1 : t.th.step casLoopP (w.heap[id]?.getD 0) =
      (w.heap[id]?.getD 0, ⟨op :: rest, 1, w.heap[id]?.getD 0⟩, none) := by
    rw [hth]; simp [Thread.step, casLoopP, Thread.next]
  rw [e1] at h1 h2
  have hi1 : (w.step PP casLoopP i).threads[i]? = some { t with th := ⟨op :: rest, 1, w.heap[id]?.getD 0⟩ } := by
    rw [h1]; exact set_getElem?' _ _ _ _ hi
  obtain ⟨g1, _, _⟩ := flag_step_world PP casLoopP (w.step PP casLoopP i) i _ id hi1 hp (by rw [h3]; exact hid)
  refine ⟨w.heap[id]?.getD 0, ?_⟩
  simp only [World.run]
  rw [g1, h2, h1]
  simp [Thread.step, casLoopP]

/-- a thread inside a call (control state reachable for the CAS loop), scheduled alone, completes it within three steps -/
theorem solo_op (PP : List PtrAtom) (w : World) (i : Nat) (t : HThread) (id : Nat) (op : Op) (rest : List Op) (pc : Nat)
    (r0 : Word) (hi : w.threads[i]? = some t) (hp : t.ptr = some id) (hid : id < w.heap.length)
    (hth : t.th = ⟨op :: rest, pc, r0⟩) (hpc : pc ≤ 1) :
    ∃ s r', (w.run PP casLoopP s).threads = w.threads.set i { t with th := ⟨rest, 0, r'⟩ } := by
  match pc, hpc with
  | 0, _ =>
    obtain ⟨r', h⟩ := solo_op0 PP w i t id op rest r0 hi hp hid hth
    exact ⟨[i, i], r', h⟩
  | 1, _ =>
    obtain ⟨h1, h2, h3⟩ := flag_step_world PP casLoopP w i t id hi hp hid
    generalize w.heap[id]?.getD 0 = x at h1 h2
    by_cases hw : x = r0
    · refine ⟨[i], r0, ?_⟩
      simp only [World.run]
      rw [h1, hth]
      simp [Thread.step, casLoopP, hw]
    · have e1 : t.th.step casLoopP x = (x, ⟨op :: rest, 0, r0⟩, none) := by
        rw [hth]; simp [Thread.step, casLoopP, Thread.next, hw]
      rw [e1] at h1
      have hi1 : (w.step PP casLoopP i).threads[i]? = some { t with th := ⟨op :: rest, 0, r0⟩ } := by
        rw [h1]; exact set_getElem?' _ _ _ _ hi
      obtain ⟨r', h⟩ := solo_op0 PP (w.step PP casLoopP i) i _ id op rest r0 hi1 hp (by rw [h3]; exact hid) rfl
      refine ⟨[i] ++ [i, i], r', ?_⟩
      rw [world_run_append]
      simp only [World.run] at h ⊢
      rw [h, h1]
      simp

theorem todo_pos (l : List HThread) (h : 0 < todo l) : ∃ (i : Nat) (t : HThread), l[i]? = some t ∧ 0 < t.cost := by
  induction l with
  | nil => simp [todo] at h
  | cons x r ih =>
    by_cases hx : 0 < x.cost
    · exact ⟨0, x, rfl, hx⟩
    · have : 0 < todo r := by
        simp only [todo] at h
        simp only [HThread.cost] at hx
        omega
      obtain ⟨i, t, hi, ht⟩ := ih this
      exact ⟨i + 1, t, by simpa using hi, ht⟩

/-- **from every reachable world some schedule runs every thread to completion** (pointer program without a blind
`Store` that ends with `LoadOrStore`; CAS-loop shape of Set/Clear) -/
theorem exists_complete_world (PP : List PtrAtom) (hs : SafePP PP = true) (ht : TermPP PP = true) (n : Nat) :
    ∀ (w : World), WInv w → (∀ t ∈ w.threads, t.th.pc ≤ 1) → (∀ t ∈ w.threads, t.ptr = none → t.ppc < PP.length) →
      todo w.threads = n → ∃ s, (w.run PP casLoopP s).done = true := by
  induction n with
  | zero => intro w _ _ _ h0; exact ⟨[], todo_zero_done w h0⟩
  | succ n ih =>
    intro w hw hpc hppc hn
    obtain ⟨i, t, hi, hcost⟩ := todo_pos w.threads (by omega)
    have hmem : t ∈ w.threads := List.mem_of_getElem? hi
    -- the new world after a solo run that replaced thread `i` by `t'`
    have finish : ∀ (s : List Nat) (t' : HThread), (w.run PP casLoopP s).threads = w.threads.set i t' →
        t'.cost + 1 = t.cost → t'.th.pc ≤ 1 → (t'.ptr = none → t'.ppc < PP.length) →
        ∃ s', (w.run PP casLoopP s').done = true := by
      intro s t' hthr hc hpc' hppc'
      have hw' := winv_run PP casLoopP hs w hw s
      have hmem' : ∀ u ∈ (w.run PP casLoopP s).threads, u ∈ w.threads ∨ u = t' := by
        intro u hu; rw [hthr] at hu; exact List.mem_or_eq_of_mem_set hu
      obtain ⟨s2, h2⟩ := ih (w.run PP casLoopP s) hw'
        (by intro u hu; rcases hmem' u hu with h | h
            · exact hpc u h
            · subst h; exact hpc')
        (by intro u hu; rcases hmem' u hu with h | h
            · exact hppc u h
            · subst h; exact hppc')
        (by rw [hthr]; have := todo_set w.threads i t t' hi; omega)
      exact ⟨s ++ s2, by rw [world_run_append]; exact h2⟩
    cases hp : t.ptr with
    | none =>
      obtain ⟨k, t', hk, hsome, hth⟩ := solo_ptr PP casLoopP hs ht _ w i t hi hp (hppc t hmem hp) rfl
      apply finish (List.replicate k i) t' hk
      · simp only [HThread.cost, hsome, hp, hth]; simp; omega
      · rw [hth]; exact hpc t hmem
      · intro h; rw [h] at hsome; cases hsome
    | some id =>
      have hid : id < w.heap.length := hw.bound _ _ (hw.ptr t hmem id hp)
      cases hth : t.th with
      | mk ops pc r0 =>
      cases ops with
      | nil => simp [HThread.cost, hp, hth] at hcost
      | cons op rest =>
        have hpc1 : pc ≤ 1 := by have := hpc t hmem; rw [hth] at this; exact this
        obtain ⟨s, r', hsr⟩ := solo_op PP w i t id op rest pc r0 hi hp hid hth hpc1
        apply finish s _ hsr
        · simp [HThread.cost, hp, hth]
        · simp
        · intro h; simp [hp] at h

theorem genPP_term : TermPP genPP = true := by decide

theorem init_reachable (reg : Reg) (heap : List Word) (specs : List (Addr × List Op)) :
    (∀ t ∈ (World.init reg heap specs).threads, t.th.pc ≤ 1) ∧
    (∀ t ∈ (World.init reg heap specs).threads, t.ptr = none → t.ppc < genPP.length) := by
  constructor <;>
  · intro t ht
    simp only [World.init, List.mem_map] at ht
    obtain ⟨sp, _, rfl⟩ := ht
    simp [HThread.init, Thread.init]
    try decide

end MosnVerif.Model.HealthRegistry
