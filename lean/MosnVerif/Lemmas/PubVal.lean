import MosnVerif.Model.PubVal
/-! Value discipline of an update: every value a reader can see between two steps is the complete old or the complete new set. -/
namespace MosnVerif.Model.PubVal
open MosnVerif.Gen.ClusterPub MosnVerif.Gen.PubVal

/-- a complete set: the one the cluster had or the one this update computes. -/
def Good (v : Val) : Prop := v = .old ∨ v = .new

structure Inv (k : K) (s : S) : Prop where
  vis : Good (s.cl s.map)
  mapLt : s.map < s.next
  nc : k.hasNc = true → ∃ a, s.nc = some a ∧ a < s.next ∧ (k.ncFilled = true → Good (s.cl a))
  noNc : k.hasNc = false → s.nc = none
  oc : k.hasOc = true → ∃ b, s.oc = some b ∧ b < s.next ∧ Good (s.cl b)
  vars : ∀ x, k.good.contains x = true → s.vars x = .new

theorem inv_init : Inv {} {} :=
  ⟨Or.inl rfl, by decide, by simp, by simp, by simp, by simp⟩

theorem good_set {cl : Nat → Val} {t c : Nat} {v : Val} (hv : Good v) (hc : Good (cl c)) : Good (setCl cl t v c) := by
  unfold setCl; split
  · exact hv
  · exact hc

theorem good_alloc {cl : Nat → Val} {n c : Nat} {v : Val} (hlt : c < n) (hc : Good (cl c)) : Good (setCl cl n v c) := by
  unfold setCl
  have : c ≠ n := by omega
  simp [this, hc]

theorem srcVal_full : srcVal .full = .new := rfl

theorem argOk_good {k : K} {s : S} (J : Inv k s) {a : Arg} (h : argOk k.good a = true) : Good (argVal s a) := by
  cases a with
  | var x => exact Or.inr (J.vars x h)
  | fresh r =>
    cases r <;> simp [argOk] at h
    exact Or.inr rfl
  | unknown => simp [argOk] at h

theorem bind_vars {k : K} {s : S} (J : Inv k s) (x : Nat) (r : Src) :
    ∀ y, (bind k.good x r).contains y = true → (if y = x then srcVal r else s.vars y) = .new := by
  intro y hy
  unfold bind at hy
  by_cases hr : r = .full
  · subst hr
    simp only [if_true, List.contains_cons, Bool.or_eq_true, beq_iff_eq] at hy
    by_cases hyx : y = x
    · simp [hyx, srcVal]
    · simp only [hyx, if_false]
      rcases hy with h | h
      · exact absurd h hyx
      · exact J.vars y h
  · simp only [hr, if_false] at hy
    have hm : y ∈ k.good.filter (fun z => z != x) := by simpa using hy
    rw [List.mem_filter] at hm
    have hyx : y ≠ x := by simpa using hm.2
    simp only [hyx, if_false]
    exact J.vars y (by simpa using hm.1)

/-- one step keeps the invariant (towards the facts the check tracks for the rest). -/
theorem step_publish {k : K} {s : S} (J : Inv k s) (a : Arg) (ha : argOk k.good a = true) :
    (k.hasNc = true → Inv { k with ncFilled := true } (stepV s (.h (.publish a)))) ∧
    (k.hasNc = false → k.hasOc = true → Inv k (stepV s (.h (.publish a)))) := by
  have hg := argOk_good J ha
  constructor
  · intro hn
    obtain ⟨n, hn1, hn2, _⟩ := J.nc hn
    have hs : stepV s (.h (.publish a)) = { s with cl := setCl s.cl n (argVal s a) } := by
      simp [stepV, target, hn1]
    rw [hs]
    refine ⟨good_set hg J.vis, J.mapLt, fun _ => ⟨n, hn1, hn2, fun _ => ?_⟩, fun h => by simp [hn] at h, ?_, J.vars⟩
    · simp [setCl, hg]
    · intro ho
      obtain ⟨b, hb1, hb2, hb3⟩ := J.oc ho
      exact ⟨b, hb1, hb2, good_set hg hb3⟩
  · intro hn ho
    obtain ⟨b, hb1, hb2, hb3⟩ := J.oc ho
    have hs : stepV s (.h (.publish a)) = { s with cl := setCl s.cl b (argVal s a) } := by
      simp [stepV, target, J.noNc hn, hb1]
    rw [hs]
    refine ⟨good_set hg J.vis, J.mapLt, fun h => by simp [hn] at h, J.noNc, fun _ => ⟨b, hb1, hb2, good_set hg hb3⟩, J.vars⟩

theorem trace_good (prog : List VStep) : ∀ (k : K) (s : S), Inv k s → okV k prog = true →
    ∀ p ∈ trace s prog, Good p.2 := by
  induction prog with
  | nil => intro k s _ _ p hp; simp [trace] at hp
  | cons a rest ih =>
    intro k s J hok p hp
    -- it suffices to find the facts for the rest
    suffices h : ∃ k', Inv k' (stepV s a) ∧ okV k' rest = true by
      obtain ⟨k', J', hok'⟩ := h
      simp only [trace, List.mem_cons] at hp
      rcases hp with rfl | hp
      · exact J'.vis
      · exact ih k' _ J' hok' p hp
    cases a with
    | h hs =>
      cases hs with
      | build x r =>
        simp only [okV] at hok
        exact ⟨{ k with good := bind k.good x r }, ⟨J.vis, J.mapLt, J.nc, J.noNc, J.oc, bind_vars J x r⟩, hok⟩
      | publish a =>
        simp only [okV, Bool.and_eq_true] at hok
        obtain ⟨ha, hrest⟩ := hok
        have hp2 := step_publish J a ha
        by_cases hn : k.hasNc = true
        · rw [if_pos hn] at hrest
          exact ⟨_, hp2.1 hn, hrest⟩
        · rw [if_neg hn, Bool.and_eq_true] at hrest
          exact ⟨_, hp2.2 (by simpa using hn) hrest.1, hrest.2⟩
      | inherit =>
        simp only [okV, Bool.and_eq_true] at hok
        obtain ⟨⟨hn, ho⟩, hrest⟩ := hok
        obtain ⟨n, hn1, hn2, _⟩ := J.nc hn
        obtain ⟨b, hb1, hb2, hb3⟩ := J.oc ho
        have hs : stepV s (.h .inherit) = { s with cl := setCl s.cl n (s.cl b) } := by simp [stepV, hn1, hb1]
        refine ⟨_, ?_, hrest⟩
        rw [hs]
        refine ⟨good_set hb3 J.vis, J.mapLt, fun _ => ⟨n, hn1, hn2, fun _ => ?_⟩, fun h => by simp [hn] at h,
          fun _ => ⟨b, hb1, hb2, good_set hb3 hb3⟩, J.vars⟩
        simp [setCl, hb3]
    | ctl c =>
      cases c with
      | newCluster =>
        simp only [okV, Bool.and_eq_true, Bool.not_eq_true'] at hok
        refine ⟨_, ?_, hok.2⟩
        refine ⟨good_alloc J.mapLt J.vis, by simp only [stepV]; have := J.mapLt; omega,
          fun _ => ⟨s.next, rfl, by simp [stepV], fun h => by simp at h⟩, fun h => by simp at h, ?_, J.vars⟩
        intro ho
        obtain ⟨b, hb1, hb2, hb3⟩ := J.oc ho
        exact ⟨b, hb1, by simp only [stepV]; omega, good_alloc hb2 hb3⟩
      | loadOld =>
        simp only [okV] at hok
        exact ⟨{ k with hasOc := true }, ⟨J.vis, J.mapLt, J.nc, J.noNc, fun _ => ⟨s.map, rfl, J.mapLt, J.vis⟩, J.vars⟩, hok⟩
      | loadCur =>
        simp only [okV] at hok
        exact ⟨{ k with hasOc := true }, ⟨J.vis, J.mapLt, J.nc, J.noNc, fun _ => ⟨s.map, rfl, J.mapLt, J.vis⟩, J.vars⟩, hok⟩
      | storeNew =>
        simp only [okV, Bool.and_eq_true] at hok
        obtain ⟨⟨hn, hf⟩, hrest⟩ := hok
        obtain ⟨n, hn1, hn2, hn3⟩ := J.nc hn
        have hs : stepV s (.ctl .storeNew) = { s with map := n } := by simp [stepV, hn1]
        refine ⟨k, ?_, hrest⟩
        rw [hs]
        exact ⟨hn3 hf, hn2, J.nc, J.noNc, J.oc, J.vars⟩
      | other =>
        simp only [okV] at hok
        exact ⟨k, J, hok⟩
      | clusterHandler => simp [okV] at hok
      | hostHandler => simp [okV] at hok
      | build => simp [okV] at hok
      | publish => simp [okV] at hok
      | inherit => simp [okV] at hok
      | publishUnbuilt => simp [okV] at hok
      | touchAfter => simp [okV] at hok

end MosnVerif.Model.PubVal
