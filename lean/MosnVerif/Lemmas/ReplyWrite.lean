import MosnVerif.Model.ReplyWrite
/-!
Lemmas about the reply write path (`Model/ReplyWrite.lean`), core Lean only.

Two kinds:
* **for ANY program over the vocabulary** (induction on the op list): the body of `cleanStream` runs at most once, the
  active gauge and the membership in the active-stream list move with it (`exec_cleanInv`) — whatever the append functions
  look like, whatever the sender returns, wherever resets land;
* **for the REGENERATED programs** (exhaustive evaluation of the finite space reply shape × outcome vector × start state
  × kind and position of the client's departure up to the end of the op list, `good_bounded`; positions beyond the end do not change the op list,
  `writeReply_late`): the clean-up runs at LEAST once, `endStream` follows the part that ends the stream, the worker
  returns.
-/
namespace MosnVerif.Model.ReplyWrite
open MosnVerif.Gen.ProxyReplyWrite MosnVerif.Gen.ProxyPhase

/-! ### the reset position -/

theorem insertAt_beyond {α : Type} (a : α) : ∀ (n : Nat) (l : List α), l.length < n → insertAt n a l = l
  | 0, _, h => by omega
  | _ + 1, [], _ => rfl
  | n + 1, x :: l, h => by
    simp only [insertAt]
    rw [insertAt_beyond a n l (by simp only [List.length_cons] at h; omega)]

theorem insertAt_length {α : Type} (a : α) : ∀ (n : Nat) (l : List α), n ≤ l.length → (insertAt n a l).length = l.length + 1
  | 0, _, _ => rfl
  | _ + 1, [], h => by simp at h
  | n + 1, x :: l, h => by
    simp only [insertAt, List.length_cons]
    rw [insertAt_length a n l (by simp only [List.length_cons] at h; omega)]

/-- the regenerated op list of a reply has at most 16 ops (three parts of five ops, `End`) -/
theorem ops_length_le (r : Reply) : (ops genProgs r).length ≤ 16 := by
  obtain ⟨b, t⟩ := r
  cases b <;> cases t <;> decide

/-- a reset position beyond the end of the op list is the position 17: the op list is unchanged (the reset reaches a
stream whose worker has returned) -/
theorem writeReply_late (r : Reply) (o : Outs) (rp : Nat) (vc : Bool) (s : RW) (h : 17 ≤ rp) :
    writeReply genProgs r o rp vc s = writeReply genProgs r o 17 vc s := by
  have hl := ops_length_le r
  unfold writeReply
  rw [insertAt_beyond _ rp _ (by omega), insertAt_beyond _ 17 _ (by omega)]

/-! ### the regenerated programs: exhaustive evaluation -/

/-- everything the property asks of one write, as one executable conjunction -/
def good (r : Reply) (o : Outs) (rp : Nat) (vc cg ul : Bool) : Bool :=
  let f := writeReply genProgs r o rp vc (start cg ul)
  f.returned && f.cleaned && cleans f == 1 && decide (ends f ≤ 1) && endsAfterEos f.ev &&
  f.active == 0 && !f.listed && f.procDone &&
  -- the client stays: every part of the reply is handed to the sender, in order, the last one ends the stream, endStream follows once
  (cg || decide (rp < 17) || (f.ev.filter isCall == expectedCalls r o && ends f == 1)) &&
  -- a reset that lands after the part was entered does not keep a header-only reply from being written and ended
  (cg || r.hasBody || r.hasTrailers || rp == 0 || (f.ev.take 2 == [Ev.call .headers true o.h, Ev.endStream] && ends f == 1))

set_option maxRecDepth 100000 in
theorem good_bounded_00 : ∀ oh od ot vc cg ul : Bool, ∀ rp, rp < 18 → good ⟨false, false⟩ ⟨oh, od, ot⟩ rp vc cg ul = true := by
  decide
set_option maxRecDepth 100000 in
theorem good_bounded_10 : ∀ oh od ot vc cg ul : Bool, ∀ rp, rp < 18 → good ⟨true, false⟩ ⟨oh, od, ot⟩ rp vc cg ul = true := by
  decide
set_option maxRecDepth 100000 in
theorem good_bounded_01 : ∀ oh od ot vc cg ul : Bool, ∀ rp, rp < 18 → good ⟨false, true⟩ ⟨oh, od, ot⟩ rp vc cg ul = true := by
  decide
set_option maxRecDepth 100000 in
theorem good_bounded_11 : ∀ oh od ot vc cg ul : Bool, ∀ rp, rp < 18 → good ⟨true, true⟩ ⟨oh, od, ot⟩ rp vc cg ul = true := by
  decide

theorem good_bounded (hb ht oh od ot vc cg ul : Bool) (rp : Nat) (h : rp < 18) : good ⟨hb, ht⟩ ⟨oh, od, ot⟩ rp vc cg ul = true := by
  cases hb <;> cases ht
  · exact good_bounded_00 oh od ot vc cg ul rp h
  · exact good_bounded_01 oh od ot vc cg ul rp h
  · exact good_bounded_10 oh od ot vc cg ul rp h
  · exact good_bounded_11 oh od ot vc cg ul rp h

theorem good_all (r : Reply) (o : Outs) (rp : Nat) (vc cg ul : Bool) : good r o rp vc cg ul = true := by
  obtain ⟨hb, ht⟩ := r
  obtain ⟨oh, od, ot⟩ := o
  by_cases h : rp < 18
  · exact good_bounded hb ht oh od ot vc cg ul rp h
  · have h17 := good_bounded hb ht oh od ot vc cg ul 17 (by omega)
    unfold good at h17 ⊢
    rw [writeReply_late _ _ rp _ _ (by omega)]
    have e1 : decide (rp < 17) = false := by simp; omega
    have e2 : (rp == 0) = false := by cases rp with
      | zero => omega
      | succ n => rfl
    simpa [e1, e2] using h17

/-! ### any program: the clean-up body runs at most once -/

/-- the clean-up body ran exactly when the stream is cleaned, the gauge and the list membership moved with it -/
structure CleanInv (s : RW) : Prop where
  count : cleans s = if s.cleaned then 1 else 0
  gauge : s.active = 1 - (cleans s : Int)
  listed : s.listed = !s.cleaned

theorem cleans_append_other (s : RW) (e : Ev) (h : isClean e = false) :
    (({ s with ev := s.ev ++ [e] } : RW).ev.filter isClean).length = cleans s := by
  simp [cleans, List.filter_append, h]

/-- the regenerated facts about `cleanStream` the invariant rests on: the compare-and-swap is there, the body gives the
gauge back and takes the stream off the active list -/
theorem gen_clean_facts : cleanOnce = true ∧ hasStep .metrics = true ∧ metricsCountDown = true ∧ hasStep .delete = true ∧
    endStreamCleans = true := by decide

theorem cleanStream_inv (s : RW) (h : CleanInv s) : CleanInv (cleanStream s) := by
  obtain ⟨g1, g2, g3, g4, _⟩ := gen_clean_facts
  unfold cleanStream
  by_cases hc : s.cleaned = true
  · simp only [g1, hc, Bool.and_self, if_true]; exact h
  · simp only [Bool.not_eq_true] at hc
    have h0 : cleans s = 0 := by have := h.count; simpa [hc] using this
    have hg := h.gauge
    rw [h0] at hg
    have h1 : (List.filter isClean [Ev.clean]).length = 1 := rfl
    have h2 : (List.filter isClean [Ev.ur, Ev.clean]).length = 1 := rfl
    simp only [g1, hc, Bool.and_false, Bool.false_eq_true, if_false, cleanBody, g2, g3, g4, Bool.and_self, if_true, Bool.not_true]
    constructor
    · simp only [cleans, if_true]
      simp only [cleans] at h0
      split <;> simp [List.filter_append, h0, h1, h2]
    · simp only [cleans]
      simp only [cleans] at h0
      split <;> simp [List.filter_append, h0, hg, h1, h2]
    · simp

theorem CleanInv.congr {s s' : RW} (h : CleanInv s) (he : cleans s' = cleans s) (hc : s'.cleaned = s.cleaned)
    (ha : s'.active = s.active) (hl : s'.listed = s.listed) : CleanInv s' :=
  ⟨by rw [he, hc]; exact h.count, by rw [he, ha]; exact h.gauge, by rw [hl, hc]; exact h.listed⟩

theorem streamReset_inv (s : RW) (h : CleanInv s) : CleanInv (streamReset s) := by
  unfold streamReset onResetStream
  split
  · exact h.congr rfl rfl rfl rfl
  · exact h

theorem resetStream_inv (s : RW) (h : CleanInv s) : CleanInv (resetStream s) := by
  unfold resetStream
  split
  · exact h
  · apply streamReset_inv
    exact h.congr (by simp [cleans, List.filter_append, isClean]) rfl rfl rfl

theorem act_inv (o : Outs) (s : RW) (a : Act) (h : CleanInv s) : CleanInv (act o s a) := by
  cases a with
  | store v => exact h.congr rfl rfl rfl rfl
  | call => exact h.congr (by simp [act, cleans, List.filter_append, isClean]) rfl rfl rfl
  | endStream =>
    simp only [act, gen_clean_facts.2.2.2.2, if_true]
    apply cleanStream_inv
    exact h.congr (by simp [cleans, List.filter_append, isClean]) rfl rfl rfl
  | cleanStream => exact cleanStream_inv s h
  | resetStream => exact resetStream_inv s h
  | ret => exact h.congr rfl rfl rfl rfl

/-- the regenerated `processError` on this state either leaves the state alone or runs `cleanStream` (for a pending
downstream reset) -/
theorem processError_state (s : RW) :
    (Gen.ProxyError.processError peOps s).1 = s ∨ (Gen.ProxyError.processError peOps s).1 = cleanStream s := by
  simp only [Gen.ProxyError.processError, peOps, Bool.not_true, Bool.false_eq_true, if_false, Bool.true_and, id]
  by_cases hc : s.cleaned = true
  · simp [hc]
  · by_cases hd : s.downReset = true
    · simp [hc, hd]
    · by_cases hp : s.procDone = true <;> simp [hc, hd, hp]

theorem step_inv (o : Outs) (s : RW) (op : Op) (h : CleanInv s) : CleanInv (step o s op) := by
  cases op with
  | reset => exact streamReset_inv s h
  | connClose =>
    simp only [step]
    split
    · exact h
    · exact h.congr rfl rfl rfl rfl
  | enter p eos g =>
    simp only [step]
    split
    · exact h
    · split
      · exact h.congr rfl rfl rfl rfl
      · exact h.congr rfl rfl rfl rfl
  | stmt g a =>
    simp only [step]
    split
    · exact h
    · split
      · exact act_inv o s a h
      · exact h
  | procErr =>
    simp only [step]
    split
    · exact h
    · have h' : CleanInv { s with skipping := false } := h.congr rfl rfl rfl rfl
      rcases processError_state { s with skipping := false } with he | he
      · exact h'.congr (by simp only [cleans]; rw [he]) (by rw [he]) (by rw [he]) (by rw [he])
      · have := cleanStream_inv _ h'
        exact this.congr (by simp only [cleans]; rw [he]) (by rw [he]) (by rw [he]) (by rw [he])
  | finish => exact h.congr rfl rfl rfl rfl

/-- for ANY op list — any programs over the vocabulary, any interleaving of resets and connection closes — the clean-up
body has run exactly once if the stream is cleaned and not at all otherwise -/
theorem exec_cleanInv (o : Outs) : ∀ (l : List Op) (s : RW), CleanInv s → CleanInv (exec o s l)
  | [], _, h => h
  | op :: l, s, h => by
    simp only [exec, List.foldl_cons]
    exact exec_cleanInv o l _ (step_inv o s op h)

theorem start_inv (cg ul : Bool) : CleanInv (start cg ul) := ⟨rfl, rfl, rfl⟩

/-- once the worker has returned, nothing the stream layer or the connection can still do runs the clean-up: a stream the
worker left uncleaned stays uncleaned (the late events only set a flag nobody reads any more) -/
theorem stranded_stays (o : Outs) (s : RW) (l : List Op) (hl : ∀ op ∈ l, op = Op.reset ∨ op = Op.connClose) :
    (exec o s l).cleaned = s.cleaned ∧ (exec o s l).ev = s.ev ∧ (exec o s l).listed = s.listed ∧ (exec o s l).active = s.active := by
  induction l generalizing s with
  | nil => exact ⟨rfl, rfl, rfl, rfl⟩
  | cons op l ih =>
    simp only [exec, List.foldl_cons]
    have hop := hl op (by simp)
    have ih' := ih (step o s op) (fun x hx => hl x (by simp [hx]))
    simp only [exec] at ih'
    have hs : (step o s op).cleaned = s.cleaned ∧ (step o s op).ev = s.ev ∧ (step o s op).listed = s.listed ∧
        (step o s op).active = s.active := by
      rcases hop with rfl | rfl
      · simp only [step, streamReset, onResetStream]; split <;> exact ⟨rfl, rfl, rfl, rfl⟩
      · simp only [step, onResetStream]; split <;> exact ⟨rfl, rfl, rfl, rfl⟩
    exact ⟨ih'.1.trans hs.1, ih'.2.1.trans hs.2.1, ih'.2.2.1.trans hs.2.2.1, ih'.2.2.2.trans hs.2.2.2⟩

/-! ### the view of a state of the downstream machine (kept free of the machine's types: only its flags and its count of
access-log events, so that the machine's files are not imported here) -/

/-- the write path's view of a downstream-machine state: its flags, and one `clean` event per access-log event of its trace -/
def viewOf (procDone cleaned downReset downLive : Bool) (nLog : Nat) : RW :=
  { procDone := procDone, cleaned := cleaned, downReset := downReset, downLive := downLive,
    active := 1 - (nLog : Int), listed := !cleaned, ev := List.replicate nLog Ev.clean }

theorem viewOf_inv (procDone cleaned downReset downLive : Bool) (n : Nat) (h : n = if cleaned then 1 else 0) :
    CleanInv (viewOf procDone cleaned downReset downLive n) := by
  subst h
  cases cleaned <;> exact ⟨rfl, rfl, rfl⟩

end MosnVerif.Model.ReplyWrite
