import MosnVerif.Model.HpackAt
/-! `Decoder.at` with checked access never leaves its tables: the regenerated comparison structure, for EVERY uint64. -/
namespace MosnVerif.Lemmas.HpackAt
open MosnVerif.Gen.HpackAt MosnVerif.Model.HpackTable MosnVerif.Model.HpackAt

/-- the regenerated `at` on table lengths `sl` (static) and `dl` (dynamic), for every uint64 argument: no entry for 0
and beyond the last index, `staticTable.ents[i-1]` up to `sl`, `dt.ents[dl-(i-sl)]` above — every index in range.
(`sl + dl < 2^63`: Go slice lengths are ints.)  The proof only splits the regenerated conditionals and closes every leaf
with linear arithmetic, so it follows cosmetic changes of the Go text and fails on a changed comparison / conversion. -/
theorem tableAt_spec (sl dl i : Int) (hs : 0 ≤ sl) (hd : 0 ≤ dl) (hsum : sl + dl < 9223372036854775808)
    (hi0 : 0 ≤ i) (hi : i < 18446744073709551616) :
    tableAt sl dl i =
      if i = 0 ∨ sl + dl < i then .none
      else if i ≤ sl then .entry .static (i - 1).toNat else .entry .dyn (dl - (i - sl)).toNat := by
  unfold tableAt chkIdx maxTableIndex wrapU64 wrapS64
  simp only [decide_eq_true_eq]
  repeat' split
  all_goals first | rfl | (exfalso; omega) | (congr 1; omega)

/-- the regenerated, checked `at` IS the table lookup of `Model/HpackTable` (`Dec.at`, which the table-synchronisation
theorems of C18 are about), for every uint64 index: in particular it never reads out of range. -/
theorem lookup_eq (d : Dec) (i : Nat) (hi : i < uint64Bound) (hlen : d.tab.ents.length + staticLen < 9223372036854775808) :
    lookup d i = Look.ofOption (d.at i) := by
  have hspec := tableAt_spec (staticLen : Nat) (d.tab.ents.length : Nat) (i : Nat) (by omega) (by omega) (by omega) (by omega)
    (by unfold uint64Bound at hi; omega)
  unfold lookup
  rw [hspec]
  unfold Dec.at
  by_cases h0 : i = 0
  · simp [h0, Look.ofOption]
  · by_cases h1 : i ≤ staticLen
    · have hk : ((i : Int) - 1).toNat = i - 1 := by omega
      have hlt : i - 1 < staticEntries.length := by unfold staticLen at h1; omega
      have c1 : ¬ ((i : Int) = 0 ∨ (staticLen : Int) + (d.tab.ents.length : Int) < (i : Int)) := by omega
      have c2 : (i : Int) ≤ (staticLen : Int) := by omega
      simp only [c1, c2, if_false, if_true, hk, h0, h1, List.getElem?_eq_getElem hlt, Look.ofOption]
    · by_cases h2 : i > d.tab.ents.length + staticLen
      · have c1 : ((i : Int) = 0 ∨ (staticLen : Int) + (d.tab.ents.length : Int) < (i : Int)) := by omega
        simp only [c1, if_true, h0, h1, h2, if_false, Look.ofOption]
      · have c1 : ¬ ((i : Int) = 0 ∨ (staticLen : Int) + (d.tab.ents.length : Int) < (i : Int)) := by omega
        have c2 : ¬ (i : Int) ≤ (staticLen : Int) := by omega
        have hk : ((d.tab.ents.length : Int) - ((i : Int) - (staticLen : Int))).toNat = d.tab.ents.length - (i - staticLen) := by omega
        have hlt : d.tab.ents.length - (i - staticLen) < d.tab.ents.length := by omega
        simp only [c1, c2, if_false, hk, h0, h1, h2, List.getElem?_eq_getElem hlt, Look.ofOption]

/-- **no out-of-range access**, for every uint64 index and every table -/
theorem lookup_no_oob (d : Dec) (i : Nat) (hi : i < uint64Bound) (hlen : d.tab.ents.length + staticLen < 9223372036854775808) :
    lookup d i ≠ .oob := by
  rw [lookup_eq d i hi hlen]
  cases d.at i <;> simp [Look.ofOption]

/-- an index is refused (`InvalidIndexError`) exactly when it is 0 or beyond the last table entry -/
theorem lookup_none_iff (d : Dec) (i : Nat) (hi : i < uint64Bound) (hlen : d.tab.ents.length + staticLen < 9223372036854775808) :
    lookup d i = .none ↔ (i = 0 ∨ d.tab.ents.length + staticLen < i) := by
  rw [lookup_eq d i hi hlen]
  unfold Dec.at
  by_cases h0 : i = 0
  · simp [h0, Look.ofOption]
  · by_cases h1 : i ≤ staticLen
    · have hlt : i - 1 < staticEntries.length := by unfold staticLen at h1; omega
      simp only [h0, h1, if_false, if_true, List.getElem?_eq_getElem hlt, Look.ofOption, false_or]
      constructor
      · intro h; cases h
      · intro h; omega
    · by_cases h2 : i > d.tab.ents.length + staticLen
      · simp only [h0, h1, h2, if_false, if_true, Look.ofOption, false_or]
      · have hlt : d.tab.ents.length - (i - staticLen) < d.tab.ents.length := by omega
        simp only [h0, h1, h2, if_false, List.getElem?_eq_getElem hlt, Look.ofOption, false_or]
        constructor <;> intro h <;> cases h

end MosnVerif.Lemmas.HpackAt
