import MosnVerif.Model.TlsHandover
/-! lemmas about the hand-over of a TLS connection's record-layer state (`Model/TlsHandover.lean`) -/
namespace MosnVerif.Lemmas.TlsHandover
open MosnVerif.Model.TlsHandover

/-- a buffer copied through a temporary that holds nothing beforehand (and skipped only when empty) comes back whole -/
theorem copyOut_getD (copied : Int → Bool) (preLen : Int → Int) (b : (List UInt8))
    (hc : ∀ n : Int, copied n = decide (n ≠ 0)) (hp : ∀ n : Int, preLen n = 0) :
    (copyOut copied preLen b).getD [] = b := by
  unfold copyOut
  rw [hc, hp]
  by_cases h : b = []
  · subst h; simp
  · simp [h]

/-- a temporary that already holds `L > 0` bytes puts them in front -/
theorem copyOut_prefixed (copied : Int → Bool) (preLen : Int → Int) (b : (List UInt8)) (h : copied b.length = true) :
    copyOut copied preLen b = some (List.replicate (preLen b.length).toNat 0 ++ b) := by
  simp [copyOut, h]

theorem code_rawCopied (n : Int) : code.rawCopied n = decide (n ≠ 0) := rfl
theorem code_inputCopied (n : Int) : code.inputCopied n = decide (n ≠ 0) := rfl
theorem code_rawPreLen (n : Int) : code.rawPreLen n = 0 := rfl
theorem code_inputPreLen (n : Int) : code.inputPreLen n = 0 := rfl
theorem code_flags : code.seqsStraight = true ∧ code.buffersStraight = true ∧ code.keysAfterHandshake = true ∧
    code.setsHaveVers = true := by decide

end MosnVerif.Lemmas.TlsHandover
