import MosnVerif.Model.Tars
import MosnVerif.Model.EnvelopeRef
import MosnVerif.Lemmas.Bytes
/-! lemmas about the tars envelope / TarsGo writer model (core only) -/
namespace MosnVerif.Model.Tars
open MosnVerif.Model MosnVerif.Model.Bytes
open MosnVerif.Model.EnvelopeRef.Tars (readHead intSize locate splice)

/-- an integer field as TarsGo writes it: one head byte (tag < 15) with an integer wire type, then its payload -/
structure IsIntField (w : Bytes) (t : Nat) : Prop where
  tag_lt : t < 15
  shape : ∃ ty sz data, w = UInt8.ofNat (t * 16 + ty) :: data ∧ data.length = sz ∧ intSize ty = some sz ∧ ty < 16

theorem head_small (ty t : Nat) (h : t < 15) : head ty t = [UInt8.ofNat (t * 16 + ty)] := by
  simp [head, h]

theorem wInt8_field (v : Int) (t : Nat) (h : t < 15) : IsIntField (wInt8 v t) t := by
  refine ⟨h, ?_⟩
  unfold wInt8
  split
  · exact ⟨12, 0, [], by rw [head_small _ _ h], rfl, rfl, by decide⟩
  · exact ⟨0, 1, be 1 (twos 1 v), by rw [head_small _ _ h]; rfl, by simp, rfl, by decide⟩

theorem wInt16_field (v : Int) (t : Nat) (h : t < 15) : IsIntField (wInt16 v t) t := by
  unfold wInt16
  split
  · exact wInt8_field v t h
  · exact ⟨h, 1, 2, be 2 (twos 2 v), by rw [head_small _ _ h]; rfl, by simp, rfl, by decide⟩

theorem wInt32_field (v : Int) (t : Nat) (h : t < 15) : IsIntField (wInt32 v t) t := by
  unfold wInt32
  split
  · exact wInt16_field v t h
  · exact ⟨h, 2, 4, be 4 (twos 4 v), by rw [head_small _ _ h]; rfl, by simp, rfl, by decide⟩

/-- reading the head of an integer field -/
theorem readHead_field {w : Bytes} {t : Nat} (F : IsIntField w t) (rest : Bytes) :
    ∃ ty sz, readHead (w ++ rest) = some (ty, t, 1) ∧ intSize ty = some sz ∧ w.length = 1 + sz := by
  obtain ⟨ty, sz, data, hw, hl, hs, hty⟩ := F.shape
  have ht := F.tag_lt
  refine ⟨ty, sz, ?_, hs, by rw [hw]; simp [hl]; omega⟩
  rw [hw]
  have hx : (UInt8.ofNat (t * 16 + ty)).toNat = t * 16 + ty := by
    rw [UInt8.toNat_ofNat']; omega
  simp only [List.cons_append, readHead, hx]
  have h1 : (t * 16 + ty) / 16 = t := by omega
  have h2 : (t * 16 + ty) % 16 = ty := by omega
  have h3 : (t == 15) = false := by simp; omega
  simp [h1, h2, h3]

/-- `locate` steps over an integer field with a smaller tag … -/
theorem locate_skip {w : Bytes} {t : Nat} (F : IsIntField w t) (pre rest : Bytes) (tag fuel : Nat) (hlt : t < tag) :
    locate (pre ++ w ++ rest) tag (fuel + 1) pre.length = locate (pre ++ w ++ rest) tag fuel (pre.length + w.length) := by
  obtain ⟨ty, sz, hr, hs, hl⟩ := readHead_field F rest
  have hd : (pre ++ w ++ rest).drop pre.length = w ++ rest := by simp [List.append_assoc]
  rw [locate, hd, hr]
  simp only [hs]
  have h1 : (t == tag) = false := by simp; omega
  simp only [h1, Bool.false_eq_true, if_false, hlt, decide_true, if_true]
  rw [hl]; congr 1; omega

/-- … and stops at the field with the wanted tag -/
theorem locate_hit {w : Bytes} {t : Nat} (F : IsIntField w t) (pre rest : Bytes) (fuel : Nat) :
    locate (pre ++ w ++ rest) t (fuel + 1) pre.length = some (pre.length, pre.length + w.length) := by
  obtain ⟨ty, sz, hr, hs, hl⟩ := readHead_field F rest
  have hd : (pre ++ w ++ rest).drop pre.length = w ++ rest := by simp [List.append_assoc]
  rw [locate, hd, hr]
  simp only [hs, beq_self_eq_true, if_true]
  rw [hl]; congr 2; omega

theorem locate_req (p : Req) : locate (wReq p) 4 8 0 = some ((reqPre p).length, (reqPre p).length + (wInt32 p.iRequestId 4).length) := by
  have F1 := wInt16_field p.iVersion 1 (by decide)
  have F2 := wInt8_field p.cPacketType 2 (by decide)
  have F3 := wInt32_field p.iMessageType 3 (by decide)
  have F4 := wInt32_field p.iRequestId 4 (by decide)
  unfold wReq reqPre
  have s1 := locate_skip F1 [] (wInt8 p.cPacketType 2 ++ wInt32 p.iMessageType 3 ++ wInt32 p.iRequestId 4 ++ reqPost p) 4 7 (by decide)
  have s2 := locate_skip F2 (wInt16 p.iVersion 1) (wInt32 p.iMessageType 3 ++ wInt32 p.iRequestId 4 ++ reqPost p) 4 6 (by decide)
  have s3 := locate_skip F3 (wInt16 p.iVersion 1 ++ wInt8 p.cPacketType 2) (wInt32 p.iRequestId 4 ++ reqPost p) 4 5 (by decide)
  have s4 := locate_hit F4 (wInt16 p.iVersion 1 ++ wInt8 p.cPacketType 2 ++ wInt32 p.iMessageType 3) (reqPost p) 4
  simp only [List.nil_append, List.length_nil, Nat.zero_add, List.append_assoc, List.length_append, Nat.add_assoc] at s1 s2 s3 s4 ⊢
  exact s1.trans (s2.trans (s3.trans s4))

theorem locate_resp (p : Resp) : locate (wResp p) 3 8 0 = some ((respPre p).length, (respPre p).length + (wInt32 p.iRequestId 3).length) := by
  have F1 := wInt16_field p.iVersion 1 (by decide)
  have F2 := wInt8_field p.cPacketType 2 (by decide)
  have F3 := wInt32_field p.iRequestId 3 (by decide)
  unfold wResp respPre
  have s1 := locate_skip F1 [] (wInt8 p.cPacketType 2 ++ wInt32 p.iRequestId 3 ++ respPost p) 3 7 (by decide)
  have s2 := locate_skip F2 (wInt16 p.iVersion 1) (wInt32 p.iRequestId 3 ++ respPost p) 3 6 (by decide)
  have s3 := locate_hit F3 (wInt16 p.iVersion 1 ++ wInt8 p.cPacketType 2) (respPost p) 5
  simp only [List.nil_append, List.length_nil, Nat.zero_add, List.append_assoc, List.length_append, Nat.add_assoc] at s1 s2 s3 ⊢
  exact s1.trans (s2.trans s3)

theorem envelope_length (body : Bytes) : (envelope body).length = 4 + body.length := by
  simp [envelope, Gen.C01Tars.MessageSizeLen]

/-- the length prefix of what `Encode` writes is the total length of the frame, itself included -/
theorem envelope_prefix (body : Bytes) (h : 4 + body.length < 4294967296) :
    getBE (envelope body) 0 4 = (envelope body).length := by
  rw [envelope_length]
  unfold envelope
  rw [getBE_append_left _ _ _ _ (by simp)]
  have : slice (be 4 (Gen.C01Tars.MessageSizeLen + body.length)) 0 4 = be 4 (4 + body.length) := by
    simp [slice, Gen.C01Tars.MessageSizeLen, List.take_of_length_le]
  show toNat (slice _ 0 4) = _
  rw [this, toNat_be]; omega

theorem frameLen_envelope (body rest : Bytes) (h : 4 + body.length ≤ 10485760) :
    frameLen? (envelope body ++ rest) = some (4 + body.length) := by
  have hp := envelope_prefix body (by omega)
  have hl := envelope_length body
  unfold frameLen?
  rw [getBE_append_left _ _ _ _ (by omega), hp, hl]
  have n1 : ¬ ((envelope body ++ rest).length < 4) := by simp [hl]; omega
  have n2 : ¬ (4 + body.length < 4 ∨ 4 + body.length > 10485760) := by omega
  have n3 : ¬ ((envelope body ++ rest).length < 4 + body.length) := by simp [hl]
  simp only [n1, n2, n3, if_false]

theorem body_of_envelope (body rest : Bytes) :
    ((envelope body ++ rest).take (4 + body.length)).drop 4 = body := by
  have hl := envelope_length body
  rw [← hl, List.take_left' rfl]
  simp [envelope]

/-- **tars, canonical request**: for a frame in TarsGo's canonical form (whatever follows it in the buffer) the
re-serialised frame is the received one with only the request-id field re-encoded and the length prefix adjusted —
exactly what the reference `splice` demands -/
theorem splice_req (p : Req) (rest : Bytes) (id : Nat) (h : 4 + (wReq p).length ≤ 10485760) :
    splice (envelope (wReq p) ++ rest) true id = some (encodeReq p id) := by
  unfold splice
  rw [frameLen_envelope _ _ h]
  simp only [body_of_envelope, if_true, locate_req]
  have e1 : (wReq p).take (reqPre p).length = reqPre p := by
    unfold wReq; rw [List.append_assoc, List.take_left' rfl]
  have e2 : (wReq p).drop ((reqPre p).length + (wInt32 p.iRequestId 4).length) = reqPost p := by
    unfold wReq
    rw [← List.length_append]
    exact List.drop_left' rfl
  rw [e1, e2]
  rfl

theorem splice_resp (p : Resp) (rest : Bytes) (id : Nat) (h : 4 + (wResp p).length ≤ 10485760) :
    splice (envelope (wResp p) ++ rest) false id = some (encodeResp p id) := by
  unfold splice
  rw [frameLen_envelope _ _ h]
  simp only [body_of_envelope, Bool.false_eq_true, if_false, locate_resp]
  have e1 : (wResp p).take (respPre p).length = respPre p := by
    unfold wResp; rw [List.append_assoc, List.take_left' rfl]
  have e2 : (wResp p).drop ((respPre p).length + (wInt32 p.iRequestId 3).length) = respPost p := by
    unfold wResp
    rw [← List.length_append]
    exact List.drop_left' rfl
  rw [e1, e2]
  rfl

end MosnVerif.Model.Tars
