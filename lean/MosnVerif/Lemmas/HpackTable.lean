import MosnVerif.Model.HpackTable
/-! Lemmas for the HPACK table model: `lastIdx`/`searchPos` correctness, eviction algebra, per-field and per-block
synchronisation of the encoder and decoder dynamic tables. -/
namespace MosnVerif.Lemmas.HpackTable
open MosnVerif.Model.HpackTable MosnVerif.Model.HpackInt

/-- `lastIdx` on a list scanned from position `k` -/
theorem lastIdx_aux (p : Entry → Bool) (l : List Entry) (k acc : Nat) :
    let r := (l.zipIdx k).foldl (fun acc (x : Entry × Nat) => if p x.1 then x.2 + 1 else acc) acc
    (r = acc ∧ ∀ e ∈ l, p e = false) ∨ (k < r ∧ r ≤ k + l.length ∧ ∃ e, l[r - 1 - k]? = some e ∧ p e = true) := by
  induction l generalizing k acc with
  | nil => simp
  | cons x xs ih =>
    simp only [List.zipIdx_cons, List.foldl_cons, List.length_cons]
    by_cases hx : p x = true
    · simp only [hx, if_true]
      rcases ih (k + 1) (k + 1) with ⟨h1, h2⟩ | ⟨h1, h2, e, h3, h4⟩
      · right
        refine ⟨by omega, by omega, x, ?_, hx⟩
        rw [h1]; simp
      · right
        refine ⟨by omega, by omega, e, ?_, h4⟩
        have : (xs.zipIdx (k + 1)).foldl (fun acc (x : Entry × Nat) => if p x.1 then x.2 + 1 else acc) (k + 1) - 1 - k =
            ((xs.zipIdx (k + 1)).foldl (fun acc (x : Entry × Nat) => if p x.1 then x.2 + 1 else acc) (k + 1) - 1 - (k + 1)) + 1 := by omega
        rw [this, List.getElem?_cons_succ]; exact h3
    · have hx' : p x = false := by simpa using hx
      simp only [hx', Bool.false_eq_true, if_false]
      rcases ih (k + 1) acc with ⟨h1, h2⟩ | ⟨h1, h2, e, h3, h4⟩
      · left
        refine ⟨h1, ?_⟩
        intro e he
        rcases List.mem_cons.1 he with rfl | he
        · exact hx'
        · exact h2 e he
      · right
        refine ⟨by omega, by omega, e, ?_, h4⟩
        have : (xs.zipIdx (k + 1)).foldl (fun acc (x : Entry × Nat) => if p x.1 then x.2 + 1 else acc) acc - 1 - k =
            ((xs.zipIdx (k + 1)).foldl (fun acc (x : Entry × Nat) => if p x.1 then x.2 + 1 else acc) acc - 1 - (k + 1)) + 1 := by omega
        rw [this, List.getElem?_cons_succ]; exact h3

/-- a non-zero `lastIdx` is the 1-based position of an element satisfying `p` -/
theorem lastIdx_spec (p : Entry → Bool) (l : List Entry) :
    (lastIdx p l = 0) ∨ (0 < lastIdx p l ∧ lastIdx p l ≤ l.length ∧ ∃ e, l[lastIdx p l - 1]? = some e ∧ p e = true) := by
  have := lastIdx_aux p l 0 0
  simp only [lastIdx]
  rcases this with ⟨h1, _⟩ | ⟨h1, h2, e, h3, h4⟩
  · left; simpa using h1
  · right
    refine ⟨h1, by simpa using h2, e, by simpa using h3, h4⟩

/-- the size field is the sum of the entry sizes -/
def Consistent (t : DynTab) : Prop := t.size = sizeOf' t.ents
where sizeOf' (l : List Entry) : Nat := (l.map entrySize).sum

theorem evictGo_spec (m : Nat) : ∀ (l : List Entry) (s : Nat), s = Consistent.sizeOf' l →
    (evictGo m l s).2 = Consistent.sizeOf' (evictGo m l s).1 ∧ (evictGo m l s).2 ≤ m ∨ ((evictGo m l s).1 = [] ∧ (evictGo m l s).2 = 0) := by
  intro l
  induction l with
  | nil => intro s hs; right; simp [evictGo, hs, Consistent.sizeOf']
  | cons e r ih =>
    intro s hs
    simp only [evictGo]
    by_cases h : s > m
    · simp only [h, if_true]
      have : s - entrySize e = Consistent.sizeOf' r := by
        simp only [Consistent.sizeOf', List.map_cons, List.sum_cons] at hs ⊢; omega
      exact ih _ this
    · simp only [h, if_false]
      left; exact ⟨hs, by omega⟩

theorem evictGo_consistent (m : Nat) (l : List Entry) (s : Nat) (hs : s = Consistent.sizeOf' l) :
    (evictGo m l s).2 = Consistent.sizeOf' (evictGo m l s).1 ∧ (evictGo m l s).2 ≤ m := by
  rcases evictGo_spec m l s hs with h | ⟨h1, h2⟩
  · exact h
  · rw [h1, h2]; simp [Consistent.sizeOf']

/-- evicting to `m1` and then to `m2` is evicting to the smaller of the two -/
theorem evictGo_evictGo (m1 m2 : Nat) : ∀ (l : List Entry) (s : Nat),
    evictGo m2 (evictGo m1 l s).1 (evictGo m1 l s).2 = evictGo (min m1 m2) l s := by
  intro l
  induction l with
  | nil => intro s; simp [evictGo]
  | cons e r ih =>
    intro s
    simp only [evictGo]
    by_cases h1 : s > m1
    · have h3 : s > min m1 m2 := by omega
      simp only [h1, h3, if_true]
      exact ih _
    · simp only [h1, if_false, evictGo]
      by_cases h2 : s > m2
      · have h3 : s > min m1 m2 := by omega
        simp only [h2, h3, if_true]
        -- continue evicting r at m2; on the right evict at min: equal because s - size ≤ m1 side never triggers... prove via ih with m1 inactive
        have := ih (s - entrySize e)
        -- evictGo m1 r (s - entrySize e) = (r, _) since s - size e ≤ s ≤ m1
        have hle : ¬ (s - entrySize e > m1) := by omega
        cases r with
        | nil => simp [evictGo]
        | cons e' r' =>
          simp only [evictGo, hle, if_false] at this
          exact this
      · have h3 : ¬ (s > min m1 m2) := by omega
        simp only [h2, h3, if_false]

/-- once within `m`, eviction at any `m' ≥ m` changes nothing -/
theorem evictGo_noop (m : Nat) (l : List Entry) (s : Nat) (h : s ≤ m) : evictGo m l s = (l, s) := by
  cases l with
  | nil => simp [evictGo]
  | cons e r => simp only [evictGo]; rw [if_neg (by omega)]


theorem searchPos_spec (l : List Entry) (f : Field) :
    let r := searchPos l f
    (r.2 = true → f.sensitive = false ∧ 0 < r.1 ∧ r.1 ≤ l.length ∧ l[r.1 - 1]? = some (f.name, f.value)) ∧
    (r.2 = false → r.1 = 0 ∨ (0 < r.1 ∧ r.1 ≤ l.length ∧ ∃ v, l[r.1 - 1]? = some (f.name, v))) := by
  simp only [searchPos]
  by_cases hs : f.sensitive = true
  · simp only [hs, if_true, ne_eq, not_true_eq_false, if_false]
    refine ⟨by simp, fun _ => ?_⟩
    rcases lastIdx_spec (fun e => e.1 == f.name) l with h | ⟨h1, h2, e, h3, h4⟩
    · left; exact h
    · right
      refine ⟨h1, h2, e.2, ?_⟩
      have : e.1 = f.name := by simpa using h4
      rw [h3, ← this]
  · have hs' : f.sensitive = false := by simpa using hs
    simp only [hs', Bool.false_eq_true, if_false]
    rcases lastIdx_spec (fun e => e.1 == f.name && e.2 == f.value) l with h | ⟨h1, h2, e, h3, h4⟩
    · simp only [h, ne_eq, not_true_eq_false, if_false]
      refine ⟨by simp, fun _ => ?_⟩
      rcases lastIdx_spec (fun e => e.1 == f.name) l with h | ⟨h1, h2, e, h3, h4⟩
      · left; exact h
      · right
        refine ⟨h1, h2, e.2, ?_⟩
        have : e.1 = f.name := by simpa using h4
        rw [h3, ← this]
    · have hne : lastIdx (fun e => e.1 == f.name && e.2 == f.value) l ≠ 0 := by omega
      simp only [ne_eq, hne, not_false_eq_true, if_true]
      refine ⟨fun _ => ⟨trivial, h1, h2, ?_⟩, by simp⟩
      have h5 : e.1 = f.name ∧ e.2 = f.value := by simpa using h4
      rw [h3]; congr 1; exact Prod.ext h5.1 h5.2


theorem sizeOf'_append (l : List Entry) (e : Entry) :
    Consistent.sizeOf' (l ++ [e]) = Consistent.sizeOf' l + entrySize e := by
  simp [Consistent.sizeOf']

theorem add_consistent (t : DynTab) (e : Entry) (hc : Consistent t) :
    Consistent (t.add e) ∧ (t.add e).size ≤ (t.add e).maxSize ∧ (t.add e).maxSize = t.maxSize := by
  simp only [DynTab.add, DynTab.evict, Consistent]
  have := evictGo_consistent t.maxSize (t.ents ++ [e]) (t.size + entrySize e) (by rw [sizeOf'_append, hc])
  exact ⟨this.1, this.2, trivial⟩

theorem setMaxSize_consistent (t : DynTab) (v : Nat) (hc : Consistent t) :
    Consistent (t.setMaxSize v) ∧ (t.setMaxSize v).size ≤ v ∧ (t.setMaxSize v).maxSize = v := by
  simp only [DynTab.setMaxSize, DynTab.evict, Consistent]
  have := evictGo_consistent v t.ents t.size hc
  exact ⟨this.1, this.2, trivial⟩

theorem at_static (d : Dec) (i : Nat) (h1 : 0 < i) (h2 : i ≤ staticLen) : d.at i = staticEntries[i - 1]? := by
  simp only [Dec.at]
  rw [if_neg (by omega), if_pos h2]

theorem at_dynamic (d : Dec) (jp : Nat) (h1 : 0 < jp) (h2 : jp ≤ d.tab.ents.length) :
    d.at (d.tab.ents.length + 1 - jp + staticLen) = d.tab.ents[jp - 1]? := by
  simp only [Dec.at]
  rw [if_neg (by omega), if_neg (by omega), if_neg (by omega)]
  congr 1
  omega

/-- what `Dec.apply` must do for one representation written by the encoder for field `f` -/
structure FieldOk (e e' : Enc) (d : Dec) (f : Field) (r : Rep) : Prop where
  applied : ∃ d', d.apply r = .ok (d', some f) ∧ d'.tab = e'.tab ∧ d'.firstField = false ∧
      d'.maxStrLen = d.maxStrLen ∧ d'.allowedMax = d.allowedMax
  cons : Consistent e'.tab
  le : e'.tab.size ≤ e'.tab.maxSize
  maxSize : e'.tab.maxSize = e.tab.maxSize
  same : e'.minSize = e.minSize ∧ e'.maxSizeLimit = e.maxSizeLimit ∧ e'.tableSizeUpdate = e.tableSizeUpdate

theorem field_eta (f : Field) : ({ name := f.name, value := f.value, sensitive := f.sensitive } : Field) = f := by
  cases f; rfl

/-- the literal branch of `Enc.plan` for a chosen name index -/
def planLit (e : Enc) (f : Field) (idx : Nat) : Enc × List Rep :=
  let indexing := !f.sensitive && decide (entrySize (f.name, f.value) ≤ e.tab.maxSize)
  let e' := if indexing then { e with tab := e.tab.add (f.name, f.value) } else e
  (e', [Rep.literal (litKind indexing f.sensitive) idx (if idx = 0 then f.name else []) f.value])

theorem planLit_ok (e : Enc) (d : Dec) (f : Field) (idx : Nat) (htab : d.tab = e.tab)
    (hmax : d.maxStrLen = 0) (hc : Consistent e.tab) (hle : e.tab.size ≤ e.tab.maxSize)
    (hn : idx = 0 ∨ (0 < idx ∧ ∃ v, d.at idx = some (f.name, v))) :
    ∃ r, (planLit e f idx).2 = [r] ∧ FieldOk e (planLit e f idx).1 d f r := by
  have hemit : ∀ g : Field, callEmit d g = .ok () := by intro g; simp [callEmit, hmax]
  have hres : d.resolveName idx (if idx = 0 then f.name else []) = .ok f.name := by
    simp only [Dec.resolveName]
    rcases hn with h0 | ⟨hpos, v, hv⟩
    · simp [h0]
    · simp [hpos, hv]
  simp only [planLit]
  refine ⟨_, rfl, ?_⟩
  by_cases hidxg : (!f.sensitive && decide (entrySize (f.name, f.value) ≤ e.tab.maxSize)) = true
  · have hsens : f.sensitive = false := by
      cases hfs : f.sensitive <;> simp [hfs] at hidxg ⊢
    obtain ⟨ac, al, am⟩ := add_consistent e.tab (f.name, f.value) hc
    simp only [hidxg, if_true]
    refine ⟨?_, ac, al, am, rfl, rfl, rfl⟩
    refine ⟨{ d with tab := d.tab.add (f.name, f.value), firstField := false }, ?_, by rw [htab], rfl, rfl, rfl⟩
    simp only [Dec.apply, litKind, hsens, Bool.false_eq_true, if_false, if_true, hres, hemit]
    first | (congr 2; cases f; simp_all) | (simp only [decide_true, if_true]; congr 2; cases f; simp_all)
  · have hidxg' : (!f.sensitive && decide (entrySize (f.name, f.value) ≤ e.tab.maxSize)) = false := by simpa using hidxg
    simp only [hidxg', Bool.false_eq_true, if_false]
    refine ⟨?_, hc, hle, rfl, rfl, rfl, rfl⟩
    refine ⟨{ d with firstField := false }, ?_, htab, rfl, rfl, rfl⟩
    cases hfs : f.sensitive
    · simp only [Dec.apply, litKind, hfs, Bool.false_eq_true, if_false, hres, hemit]
      have : (LitKind.without = LitKind.incremental) = False := by simp
      simp only [this, if_false]
      congr 2
      cases f; simp_all
    · simp only [Dec.apply, litKind, hfs, if_true, hres, hemit]
      have : (LitKind.never = LitKind.incremental) = False := by simp
      simp only [this, if_false]
      congr 2
      cases f; simp_all

/-- **one field**: with equal tables and no size update pending, the encoder writes exactly one representation, the
decoder turns it back into the field (sensitivity included), and the tables are equal again. -/
theorem field_sync (e : Enc) (d : Dec) (f : Field) (htab : d.tab = e.tab) (hflag : e.tableSizeUpdate = false)
    (hmax : d.maxStrLen = 0) (hc : Consistent e.tab) (hle : e.tab.size ≤ e.tab.maxSize) :
    ∃ r, (e.plan f).2 = [r] ∧ FieldOk e (e.plan f).1 d f r := by
  have hemit : ∀ g : Field, callEmit d g = .ok () := by intro g; simp [callEmit, hmax]
  have S := searchPos_spec staticEntries f
  have D := searchPos_spec e.tab.ents f
  have hplan : e.plan f =
      (if (searchTable e f).2 then (e, [Rep.indexed (searchTable e f).1]) else planLit e f (searchTable e f).1) := by
    simp only [Enc.plan, hflag, Bool.false_eq_true, if_false, List.nil_append, planLit]
  rw [hplan]
  simp only [searchTable]
  generalize hs : searchPos staticEntries f = sr at S
  obtain ⟨i, nv⟩ := sr
  simp only at S
  cases nv with
  | true =>
    obtain ⟨hsens, h1, h2, h3⟩ := S.1 rfl
    simp only [if_true]
    refine ⟨_, rfl, ⟨?_, hc, hle, rfl, rfl, rfl, rfl⟩⟩
    refine ⟨{ d with firstField := false }, ?_, htab, rfl, rfl, rfl⟩
    simp only [Dec.apply, at_static d i h1 h2, h3, hemit]
    congr 2
    cases f; simp_all
  | false =>
    simp only [Bool.false_eq_true, if_false]
    generalize hd : searchPos e.tab.ents f = dr at D
    obtain ⟨jp, nvd⟩ := dr
    simp only at D
    cases nvd with
    | true =>
      obtain ⟨hsens, h1, h2, h3⟩ := D.1 rfl
      have hjp : jp ≠ 0 := by omega
      simp only [hjp, if_false, Bool.true_or, if_true]
      refine ⟨_, rfl, ⟨?_, hc, hle, rfl, rfl, rfl, rfl⟩⟩
      refine ⟨{ d with firstField := false }, ?_, htab, rfl, rfl, rfl⟩
      have hat := at_dynamic d jp h1 (by rw [htab]; exact h2)
      rw [htab] at hat
      simp only [Dec.apply, hat, h3, hemit]
      congr 2
      cases f; simp_all
    | false =>
      simp only [Bool.false_or]
      by_cases hi0 : i = 0
      · by_cases hj0 : jp = 0
        · subst hi0; subst hj0
          simp only [if_true, beq_self_eq_true, bne_self_eq_false, Bool.and_false, Bool.false_eq_true, if_false]
          exact planLit_ok e d f 0 htab hmax hc hle (Or.inl rfl)
        · subst hi0
          rcases D.2 rfl with h | ⟨h1, h2, v, h3⟩
          · exact absurd h hj0
          · have hat := at_dynamic d jp h1 (by rw [htab]; exact h2)
            rw [htab] at hat
            have hne : (e.tab.ents.length + 1 - jp != 0) = true := by simp; omega
            simp only [hj0, if_false, beq_self_eq_true, hne, Bool.and_self, if_true]
            exact planLit_ok e d f _ htab hmax hc hle (Or.inr ⟨by omega, v, by rw [hat, h3]⟩)
      · rcases S.2 rfl with h | ⟨h1, h2, v, h3⟩
        · exact absurd h hi0
        · have hbeq : (i == 0) = false := by simp [hi0]
          simp only [hbeq, Bool.false_and, Bool.false_eq_true, if_false]
          exact planLit_ok e d f i htab hmax hc hle (Or.inr ⟨h1, v, by rw [at_static d i h1 h2, h3]⟩)


/-- `WriteField` over the fields of one header block -/
def planBlock (e : Enc) : List Field → Enc × List Rep
  | [] => (e, [])
  | f :: fs => ((planBlock (e.plan f).1 fs).1, (e.plan f).2 ++ (planBlock (e.plan f).1 fs).2)

set_option linter.unusedSimpArgs false in
theorem applyAll_cons_ok (d d' : Dec) (r : Rep) (rs : List Rep) (f : Option Field) (h : d.apply r = .ok (d', f)) :
    d.applyAll (r :: rs) = match d'.applyAll rs with
      | .error e => .error e
      | .ok (d'', fs) => .ok (d'', consOpt f fs) := by
  rw [Dec.applyAll, h]
  rfl

theorem tab_eta (t : DynTab) (m : Nat) (h : m = t.maxSize) :
    ({ ents := t.ents, size := t.size, maxSize := m } : DynTab) = t := by
  subst h; cases t; rfl

theorem planBlock_cons (e : Enc) (f : Field) (fs : List Field) :
    planBlock e (f :: fs) = ((planBlock (e.plan f).1 fs).1, (e.plan f).2 ++ (planBlock (e.plan f).1 fs).2) := rfl

/-- a run of fields from equal tables: all decode back, tables equal after each -/
theorem fields_sync (fs : List Field) : ∀ (e : Enc) (d : Dec), d.tab = e.tab → e.tableSizeUpdate = false →
    d.maxStrLen = 0 → Consistent e.tab → e.tab.size ≤ e.tab.maxSize →
    ∃ d', d.applyAll (planBlock e fs).2 = .ok (d', fs) ∧ d'.tab = (planBlock e fs).1.tab ∧ d'.firstField = true ∧
      d'.maxStrLen = 0 ∧ d'.allowedMax = d.allowedMax ∧ Consistent (planBlock e fs).1.tab ∧
      (planBlock e fs).1.tab.size ≤ (planBlock e fs).1.tab.maxSize ∧ (planBlock e fs).1.tab.maxSize = e.tab.maxSize ∧
      (planBlock e fs).1.minSize = e.minSize ∧ (planBlock e fs).1.maxSizeLimit = e.maxSizeLimit ∧
      (planBlock e fs).1.tableSizeUpdate = false := by
  induction fs with
  | nil =>
    intro e d htab hflag hmax hc hle
    exact ⟨{ d with firstField := true }, rfl, htab, rfl, hmax, rfl, hc, hle, rfl, rfl, rfl, hflag⟩
  | cons f rest ih =>
    intro e d htab hflag hmax hc hle
    obtain ⟨r, hr, ok⟩ := field_sync e d f htab hflag hmax hc hle
    obtain ⟨d1, ha, ht1, _, hm1, hal1⟩ := ok.applied
    obtain ⟨s1, s2, s3⟩ := ok.same
    obtain ⟨d2, hb, ht2, hf2, hm2, hal2, c2, l2, mx2, mn2, lim2, fl2⟩ :=
      ih (e.plan f).1 d1 ht1 (by rw [s3]; exact hflag) (by rw [hm1]; exact hmax) ok.cons ok.le
    rw [planBlock_cons]
    refine ⟨d2, ?_, ht2, hf2, hm2, by rw [hal2, hal1], c2, l2, by rw [mx2, ok.maxSize], by rw [mn2, s1], by rw [lim2, s2], fl2⟩
    simp only [hr, List.singleton_append]
    rw [applyAll_cons_ok d d1 r _ (some f) ha, hb]
    rfl

/-- what holds between two header blocks -/
structure Rel (e : Enc) (d : Dec) : Prop where
  maxStr : d.maxStrLen = 0
  first : d.firstField = true
  limit : e.maxSizeLimit = d.allowedMax
  limitle : e.maxSizeLimit ≤ uint32Max
  consd : Consistent d.tab
  led : d.tab.size ≤ d.tab.maxSize
  maxle : e.tab.maxSize ≤ e.maxSizeLimit
  sync : e.tableSizeUpdate = false → d.tab = e.tab ∧ e.minSize = uint32Max
  pend : e.tableSizeUpdate = true → e.minSize ≤ e.tab.maxSize ∧
    (e.tab.ents, e.tab.size) = evictGo e.minSize d.tab.ents d.tab.size

theorem rel_initial : Rel Enc.new (Dec.new 4096) := by
  refine ⟨rfl, rfl, rfl, by decide, rfl, by decide, by decide, fun _ => ⟨rfl, rfl⟩, fun h => by simp [Enc.new] at h⟩

/-- `SetMaxDynamicTableSize` (the peer's SETTINGS_HEADER_TABLE_SIZE) between blocks keeps the relation: the decoder
has not been told yet, the encoder remembers the smallest size -/
theorem rel_setSize (e : Enc) (d : Dec) (v : Nat) (h : Rel e d) : Rel (e.setMaxDynamicTableSize v) d := by
  have hl := h.limitle
  simp only [Enc.setMaxDynamicTableSize]
  generalize hv : (if v > e.maxSizeLimit then e.maxSizeLimit else v) = v'
  have hv' : v' ≤ e.maxSizeLimit := by rw [← hv]; split <;> omega
  refine ⟨h.maxStr, h.first, h.limit, h.limitle, h.consd, h.led, ?_, fun hf => by simp at hf, fun _ => ?_⟩
  · simp only [DynTab.setMaxSize, DynTab.evict]; exact hv'
  · simp only [DynTab.setMaxSize, DynTab.evict]
    by_cases hf : e.tableSizeUpdate = true
    · obtain ⟨p1, p2⟩ := h.pend hf
      refine ⟨by split <;> omega, ?_⟩
      have hE : e.tab.ents = (evictGo e.minSize d.tab.ents d.tab.size).1 := by rw [← p2]
      have hS : e.tab.size = (evictGo e.minSize d.tab.ents d.tab.size).2 := by rw [← p2]
      rw [hE, hS, evictGo_evictGo]
      have hmin : min e.minSize v' = (if v' < e.minSize then v' else e.minSize) := by
        simp only [Nat.min_def]; split <;> split <;> omega
      rw [hmin]
    · have hf' : e.tableSizeUpdate = false := by simpa using hf
      obtain ⟨p1, p2⟩ := h.sync hf'
      refine ⟨by split <;> omega, ?_⟩
      rw [p1, p2]
      have : (if v' < uint32Max then v' else uint32Max) = v' := by split <;> omega
      rw [this]

/-- **one header block**: from the between-blocks relation, every field of the block decodes back (in order, with
its sensitivity), and the relation holds again with the tables EQUAL and no update pending (if the block was
non-empty). -/
theorem block_sync (e : Enc) (d : Dec) (fs : List Field) (h : Rel e d) :
    ∃ d', d.applyAll (planBlock e fs).2 = .ok (d', fs) ∧ Rel (planBlock e fs).1 d' ∧
      (fs ≠ [] → d'.tab = (planBlock e fs).1.tab ∧ (planBlock e fs).1.tableSizeUpdate = false) := by
  by_cases hf : e.tableSizeUpdate = true
  · cases fs with
    | nil =>
      refine ⟨{ d with firstField := true }, rfl, ?_, fun h => absurd rfl h⟩
      exact ⟨h.maxStr, rfl, h.limit, h.limitle, h.consd, h.led, h.maxle, h.sync, h.pend⟩
    | cons f rest =>
      obtain ⟨p1, p2⟩ := h.pend hf
      -- the encoder state after the size-update prelude, and the decoder after applying it
      let e1 : Enc := { e with tableSizeUpdate := false, minSize := uint32Max }
      have hcE : Consistent e.tab ∧ e.tab.size ≤ e.minSize := by
        have := evictGo_consistent e.minSize d.tab.ents d.tab.size h.consd
        rw [← p2] at this
        exact this
      have hallowed : e.tab.maxSize ≤ d.allowedMax := by rw [← h.limit]; exact h.maxle
      -- decoder: update(minSize) [if smaller], update(maxSize)
      have hdec : ∃ d1 : Dec, d1.tab = e.tab ∧ d1.maxStrLen = 0 ∧ d1.allowedMax = d.allowedMax ∧
          ∀ rs, d.applyAll ((if e.minSize < e.tab.maxSize then [Rep.sizeUpdate e.minSize] else []) ++ [Rep.sizeUpdate e.tab.maxSize] ++ rs) =
            d1.applyAll rs := by
        have hfirst : (!d.firstField && decide (d.tab.size > 0)) = false := by simp [h.first]
        by_cases hlt : e.minSize < e.tab.maxSize
        · -- two updates
          let dA : Dec := { d with tab := d.tab.setMaxSize e.minSize }
          let dB : Dec := { dA with tab := dA.tab.setMaxSize e.tab.maxSize }
          have hA : d.apply (Rep.sizeUpdate e.minSize) = .ok (dA, none) := by
            simp only [Dec.apply, hfirst, Bool.false_eq_true, if_false]
            rw [if_neg (by omega)]
          have hfirstA : (!dA.firstField && decide (dA.tab.size > 0)) = false := by simp [dA, h.first]
          have hB : dA.apply (Rep.sizeUpdate e.tab.maxSize) = .ok (dB, none) := by
            simp only [Dec.apply, hfirstA, Bool.false_eq_true, if_false]
            rw [if_neg (by show ¬ e.tab.maxSize > d.allowedMax; omega)]
          refine ⟨dB, ?_, h.maxStr, rfl, ?_⟩
          · -- table equality
            simp only [dB, dA, DynTab.setMaxSize, DynTab.evict]
            rw [evictGo_evictGo]
            have : min e.minSize e.tab.maxSize = e.minSize := by omega
            rw [this, ← p2]
          · intro rs
            simp only [hlt, if_true, List.singleton_append, List.cons_append, List.nil_append]
            rw [applyAll_cons_ok d dA _ _ none hA, applyAll_cons_ok dA dB _ _ none hB]
            cases dB.applyAll rs with
            | error e => rfl
            | ok x => obtain ⟨x1, x2⟩ := x; rfl
        · -- one update
          have hmin : e.minSize = e.tab.maxSize := by omega
          let dB : Dec := { d with tab := d.tab.setMaxSize e.tab.maxSize }
          have hB : d.apply (Rep.sizeUpdate e.tab.maxSize) = .ok (dB, none) := by
            simp only [Dec.apply, hfirst, Bool.false_eq_true, if_false]
            rw [if_neg (by omega)]
          refine ⟨dB, ?_, h.maxStr, rfl, ?_⟩
          · simp only [dB, DynTab.setMaxSize, DynTab.evict]
            rw [← hmin, ← p2]
            exact tab_eta e.tab e.minSize hmin
          · intro rs
            simp only [hlt, if_false, List.nil_append, List.singleton_append]
            rw [applyAll_cons_ok d dB _ _ none hB]
            cases dB.applyAll rs with
            | error e => rfl
            | ok x => obtain ⟨x1, x2⟩ := x; rfl
      obtain ⟨d1, ht1, hm1, hal1, hrun⟩ := hdec
      -- the encoder's plan for the first field = prelude ++ plan from e1
      have hplan : (e.plan f).1 = (e1.plan f).1 ∧
          (e.plan f).2 = ((if e.minSize < e.tab.maxSize then [Rep.sizeUpdate e.minSize] else []) ++ [Rep.sizeUpdate e.tab.maxSize]) ++ (e1.plan f).2 := by
        simp only [Enc.plan, hf, if_true, e1, Bool.false_eq_true, if_false, List.nil_append]
        constructor
        · split <;> rfl
        · split <;> simp
      have hle1 : e1.tab.size ≤ e1.tab.maxSize := by show e.tab.size ≤ e.tab.maxSize; omega
      obtain ⟨d2, hb, ht2, hf2, hm2, hal2, c2, l2, mx2, mn2, lim2, fl2⟩ :=
        fields_sync (f :: rest) e1 d1 ht1 rfl hm1 hcE.1 hle1
      have hpb : planBlock e (f :: rest) = ((planBlock e1 (f :: rest)).1,
          ((if e.minSize < e.tab.maxSize then [Rep.sizeUpdate e.minSize] else []) ++ [Rep.sizeUpdate e.tab.maxSize]) ++ (planBlock e1 (f :: rest)).2) := by
        rw [planBlock_cons, planBlock_cons, hplan.1, hplan.2, List.append_assoc]
      rw [hpb]
      refine ⟨d2, ?_, ?_, fun _ => ⟨ht2, fl2⟩⟩
      · simp only []
        rw [hrun, hb]
      · simp only []
        refine ⟨hm2, hf2, by rw [lim2, hal2, hal1]; exact h.limit, by rw [lim2]; exact h.limitle, by rw [ht2]; exact c2,
          by rw [ht2]; exact l2, by rw [mx2, lim2]; exact h.maxle, fun _ => ⟨ht2, by rw [mn2]⟩, fun hh => by rw [fl2] at hh; exact absurd hh (by simp)⟩
  · have hf' : e.tableSizeUpdate = false := by simpa using hf
    obtain ⟨p1, p2⟩ := h.sync hf'
    have hcE : Consistent e.tab := by rw [← p1]; exact h.consd
    have hle : e.tab.size ≤ e.tab.maxSize := by rw [← p1]; exact h.led
    obtain ⟨d2, hb, ht2, hf2, hm2, hal2, c2, l2, mx2, mn2, lim2, fl2⟩ := fields_sync fs e d p1 hf' h.maxStr hcE hle
    refine ⟨d2, hb, ?_, fun _ => ⟨ht2, fl2⟩⟩
    refine ⟨hm2, hf2, by rw [lim2, hal2]; exact h.limit, by rw [lim2]; exact h.limitle, by rw [ht2]; exact c2,
      by rw [ht2]; exact l2, by rw [mx2, lim2]; exact h.maxle, fun _ => ⟨ht2, by rw [mn2]; exact p2⟩, fun hh => by rw [fl2] at hh; exact absurd hh (by simp)⟩


/-- what happens on the encoder side of a connection: the peer's SETTINGS_HEADER_TABLE_SIZE (server.go:
`hpackEncoder.SetMaxDynamicTableSize`) between header blocks, and header blocks -/
inductive Op
  | setSize (v : Nat)
  | block (fs : List Field)

def blocksOf : List Op → List (List Field)
  | [] => []
  | .setSize _ :: r => blocksOf r
  | .block fs :: r => fs :: blocksOf r

/-- run the operations: each block is planned by the encoder and applied by the decoder; returns the final states
and what the decoder emitted per block -/
def runOps (e : Enc) (d : Dec) : List Op → Except DErr (Enc × Dec × List (List Field))
  | [] => .ok (e, d, [])
  | .setSize v :: r => runOps (e.setMaxDynamicTableSize v) d r
  | .block fs :: r =>
    match d.applyAll (planBlock e fs).2 with
    | .error x => .error x
    | .ok (d', out) =>
      match runOps (planBlock e fs).1 d' r with
      | .error x => .error x
      | .ok (e'', d'', outs) => .ok (e'', d'', out :: outs)

theorem runOps_sync (ops : List Op) : ∀ (e : Enc) (d : Dec), Rel e d →
    ∃ e' d', runOps e d ops = .ok (e', d', blocksOf ops) ∧ Rel e' d' := by
  induction ops with
  | nil => intro e d h; exact ⟨e, d, rfl, h⟩
  | cons op r ih =>
    intro e d h
    cases op with
    | setSize v =>
      obtain ⟨e', d', h1, h2⟩ := ih _ _ (rel_setSize e d v h)
      exact ⟨e', d', by simp only [runOps, blocksOf]; exact h1, h2⟩
    | block fs =>
      obtain ⟨d1, ha, hrel, _⟩ := block_sync e d fs h
      obtain ⟨e', d', h1, h2⟩ := ih _ _ hrel
      refine ⟨e', d', ?_, h2⟩
      simp only [runOps, blocksOf, ha, h1]

/-- operations used by the non-vacuity examples of Props/C18: repeated and sensitive fields, an entry evicted by a
shrink, two size updates opening the next block -/
def demoOps : List Op :=
  [.block [⟨[120, 45, 97], [49], false⟩, ⟨[120, 45, 97], [49], false⟩, ⟨[120, 45, 98], [50], true⟩],
   .setSize 40, .setSize 4096,
   .block [⟨[120, 45, 97], [49], false⟩, ⟨[58, 109, 101, 116, 104, 111, 100], [71, 69, 84], false⟩]]

end MosnVerif.Lemmas.HpackTable
