import MosnVerif.Model.H2GoAwaySend
import MosnVerif.Lemmas.Flow
/-! The graceful GOAWAY is transparent for the send side: under the regenerated go-away tests of the frame handlers an
event list drives the flow-control state exactly as the flow model's schedule without the go-away does (only new
streams are refused). -/
namespace MosnVerif.Lemmas.H2GoAwaySend
open MosnVerif.Gen.H2GoAway MosnVerif.Model MosnVerif.Model.H2GoAwaySend

/-- after a graceful GOAWAY WINDOW_UPDATE frames are still processed -/
theorem wu_graceful (g : Bool) : windowUpdateIgnored g gracefulCode = false := by
  cases g <;> decide

/-- … SETTINGS are still applied and acknowledged -/
theorem settings_graceful (g : Bool) : settingsIgnored g gracefulCode = false := by
  cases g <;> decide

/-- … PING is still answered -/
theorem ping_graceful (g : Bool) : pingIgnored g gracefulCode = false := by
  cases g <;> decide

/-- a new stream (next odd id) is refused exactly when a GOAWAY has been sent -/
theorem open_rule (g : Bool) (n : Nat) :
    headersIgnored g gracefulCode (2 * (n : Int) + 1) (2 * (n : Int) - 1) = g := by
  have h : (2 * (n : Int) + 1 > 2 * (n : Int) - 1) := by omega
  cases g <;> simp [headersIgnored, gracefulCode, ErrCodeNo, h]

theorem flow_step_closed (f : Flow.St) (l : Flow.Label) (h : f.closed = true) : Flow.step f l = f := by
  cases l <;> simp [Flow.step, Flow.sendStep, h]

theorem flow_run_closed (f : Flow.St) (ls : List Flow.Label) (h : f.closed = true) : Flow.run f ls = f := by
  induction ls with
  | nil => rfl
  | cons l r ih => simp only [Flow.run, List.foldl_cons, flow_step_closed f l h]; exact ih

theorem flow_run_cons (f : Flow.St) (l : Flow.Label) (r : List Flow.Label) :
    Flow.run f (l :: r) = Flow.run (Flow.step f l) r := rfl

/-- the go-away part of the state agrees with the flag `g` the schedule extraction carries -/
def Agree (s : St) (g : Bool) : Prop := s.code = gracefulCode ∧ (s.flow.closed = true ∨ s.inGoAway = g)

theorem agree_initial : Agree St.initial false := ⟨by decide, Or.inr rfl⟩

theorem graceful_flow (s : St) : (graceful s).flow = s.flow := by
  simp only [graceful]; split <;> (try split) <;> rfl

theorem graceful_agree (s : St) (g : Bool) (h : Agree s g) : Agree (graceful s) true := by
  obtain ⟨hc, hg⟩ := h
  simp only [graceful]
  split
  · rename_i hcl; exact ⟨hc, Or.inl hcl⟩
  · split
    · rename_i h2
      refine ⟨hc, Or.inr ?_⟩
      simp only [goAwayOnce, Bool.true_and] at h2
      exact h2
    · exact ⟨rfl, Or.inr rfl⟩

/-- one event: the flow state moves by the extracted labels, the agreement is kept -/
theorem step_transparent (s : St) (g : Bool) (e : Ev) (h : Agree s g) :
    (step s e).flow = Flow.run s.flow (labelsFrom g [e]) ∧
    Agree (step s e) (match e with | .shutdown => true | .peerGoAway => true | _ => g) := by
  obtain ⟨hc, hg⟩ := h
  cases e with
  | shutdown => exact ⟨graceful_flow s, graceful_agree s g ⟨hc, hg⟩⟩
  | peerGoAway =>
    have : peerGoAwayStartsGraceful = true := by decide
    simp only [step, stepWith, this, if_true]
    exact ⟨graceful_flow s, graceful_agree s g ⟨hc, hg⟩⟩
  | ping =>
    simp only [step, stepWith]
    split <;> exact ⟨rfl, hc, hg⟩
  | priority => exact ⟨rfl, hc, hg⟩
  | «open» len =>
    simp only [step, stepWith, labelsFrom, hc]
    rcases hg with hcl | hg
    · -- closed connection: nothing moves either way
      split <;> split <;> simp [Flow.run, flow_step_closed _ _ hcl, Agree, hc, hcl]
    · rw [hg, open_rule g s.flow.count]
      cases g <;> simp [Flow.run, Agree, hc, hg]
  | flow l =>
    have key : (step s (.flow l)).flow = Flow.step s.flow l ∧ (step s (.flow l)).code = s.code ∧
        (step s (.flow l)).inGoAway = s.inGoAway := by
      simp only [step, stepWith, codeRules, hc, wu_graceful, settings_graceful]
      by_cases hcl : s.flow.closed = true
      · split <;> (try split) <;> simp [flow_step_closed _ _ hcl, hcl, hc]
      · split <;> (try split) <;> simp_all
    refine ⟨by rw [key.1]; rfl, by rw [key.2.1]; exact hc, ?_⟩
    rcases hg with hcl | hg
    · left; rw [key.1, flow_step_closed _ _ hcl]; exact hcl
    · right; rw [key.2.2]; exact hg

theorem labelsFrom_cons (g : Bool) (e : Ev) (r : List Ev) :
    labelsFrom g (e :: r) = labelsFrom g [e] ++ labelsFrom (match e with | .shutdown => true | .peerGoAway => true | _ => g) r := by
  cases e <;> simp [labelsFrom] <;> split <;> simp

theorem flow_run_append (f : Flow.St) (a b : List Flow.Label) : Flow.run f (a ++ b) = Flow.run (Flow.run f a) b := by
  simp [Flow.run, List.foldl_append]

/-- **transparency**: for every event list the flow state reached is the flow model's state under the extracted schedule -/
theorem run_transparent (evs : List Ev) (s : St) (g : Bool) (h : Agree s g) :
    (run s evs).flow = Flow.run s.flow (labelsFrom g evs) := by
  induction evs generalizing s g with
  | nil => rfl
  | cons e r ih =>
    have hs := step_transparent s g e h
    show (run (step s e) r).flow = _
    rw [ih (step s e) _ hs.2, labelsFrom_cons, flow_run_append, hs.1]

theorem run_agree (evs : List Ev) (s : St) (g : Bool) (h : Agree s g) : ∃ g', Agree (run s evs) g' := by
  induction evs generalizing s g with
  | nil => exact ⟨g, h⟩
  | cons e r ih => exact ih (step s e) _ (step_transparent s g e h).2

theorem labelsFrom_wf (evs : List Ev) (g : Bool) (hw : ∀ e ∈ evs, e.wf = true) : ∀ l ∈ labelsFrom g evs, l.wf = true := by
  induction evs generalizing g with
  | nil => intro l hl; simp [labelsFrom] at hl
  | cons e r ih =>
    have hr : ∀ e' ∈ r, e'.wf = true := fun e' he' => hw e' (List.mem_cons_of_mem _ he')
    have he := hw e List.mem_cons_self
    intro l hl
    cases e with
    | shutdown => exact ih true hr l (by simpa [labelsFrom] using hl)
    | peerGoAway => exact ih true hr l (by simpa [labelsFrom] using hl)
    | ping => exact ih g hr l (by simpa [labelsFrom] using hl)
    | priority => exact ih g hr l (by simpa [labelsFrom] using hl)
    | «open» len =>
      simp only [labelsFrom] at hl
      split at hl
      · exact ih g hr l hl
      · rcases List.mem_cons.mp hl with rfl | h2
        · rfl
        · exact ih g hr l h2
    | flow l' =>
      simp only [labelsFrom] at hl
      rcases List.mem_cons.mp hl with rfl | h2
      · exact he
      · exact ih g hr l h2

end MosnVerif.Lemmas.H2GoAwaySend
