import MosnVerif.Model.H1Seg
import MosnVerif.Lemmas.Framing
namespace MosnVerif.Lemmas.H1SegStable
open MosnVerif.Model.Framing MosnVerif.Model.H1Seg

theorem findEnd_spec (p : Bytes) :
    ∀ k, findEnd p = some k → 4 ≤ k ∧ k ≤ p.length ∧ ∀ e, findEnd (p ++ e) = some k := by
  induction p with
  | nil => intro k h; simp [findEnd] at h
  | cons c r ih =>
    intro k h
    unfold findEnd at h
    split at h
    · rename_i h4
      have hl : 4 ≤ (c :: r).length := by
        have := congrArg List.length h4
        simp at this
        simp
        omega
      cases h
      refine ⟨by omega, hl, fun e => ?_⟩
      have ht : (c :: (r ++ e)).take 4 = (c :: r).take 4 :=
        List.take_append_of_le_length (l₁ := c :: r) hl
      show findEnd (c :: (r ++ e)) = some 4
      unfold findEnd
      rw [if_pos (ht.trans h4)]
    · rename_i h4
      cases hr : findEnd r with
      | none => simp [hr] at h
      | some k' =>
        simp [hr] at h
        obtain ⟨a, b, c'⟩ := ih k' hr
        subst h
        have hl : 4 ≤ (c :: r).length := by simp; omega
        refine ⟨by omega, by simp; omega, fun e => ?_⟩
        have ht : (c :: (r ++ e)).take 4 = (c :: r).take 4 :=
          List.take_append_of_le_length (l₁ := c :: r) hl
        show findEnd (c :: (r ++ e)) = some (k' + 1)
        unfold findEnd
        rw [if_neg (by rw [ht]; exact h4), c']
        rfl

theorem sizeLine_spec (p : Bytes) :
    ∀ acc k0 n l, sizeLine p acc k0 = some (n, l) →
      k0 < l ∧ l ≤ k0 + p.length ∧ ∀ e, sizeLine (p ++ e) acc k0 = some (n, l) := by
  induction p with
  | nil => intro acc k0 n l h; simp [sizeLine] at h
  | cons c r ih =>
    intro acc k0 n l h
    unfold sizeLine at h
    split at h
    · rename_i hc
      cases r with
      | nil => simp at h
      | cons d r' =>
        simp only at h
        split at h
        · rename_i hd
          cases h
          refine ⟨by omega, by simp only [List.length_cons]; omega, fun e => ?_⟩
          show sizeLine (c :: d :: (r' ++ e)) acc k0 = _
          unfold sizeLine
          simp [hc, hd]
        · cases h
    · rename_i hc
      cases hv : hexVal c with
      | none => simp [hv] at h
      | some v =>
        simp only [hv] at h
        obtain ⟨a, b, c'⟩ := ih _ _ _ _ h
        refine ⟨by omega, by simp; omega, fun e => ?_⟩
        show sizeLine (c :: (r ++ e)) acc k0 = _
        unfold sizeLine
        simp only [hc, if_false, hv]
        exact c' e

theorem chunkEnd_spec (f : Nat) :
    ∀ (p : Bytes) r, chunkEnd f p = some r →
      0 < r.1 ∧ r.1 ≤ p.length ∧ ∀ e f', f ≤ f' → chunkEnd f' (p ++ e) = some r := by
  induction f with
  | zero => intro p r h; simp [chunkEnd] at h
  | succ f ih =>
    intro p r h
    unfold chunkEnd at h
    cases hs : sizeLine p 0 0 with
    | none => simp [hs] at h
    | some nl =>
      obtain ⟨n, l⟩ := nl
      simp only [hs] at h
      obtain ⟨s1, s2, s3⟩ := sizeLine_spec p 0 0 n l hs
      split at h
      · rename_i hn
        split at h
        · rename_i hl
          cases h
          refine ⟨by simp, hl, fun e f' hf => ?_⟩
          obtain ⟨f'', rfl⟩ : ∃ f'', f' = f'' + 1 := ⟨f' - 1, by omega⟩
          unfold chunkEnd
          simp only [s3 e, hn, if_true]
          rw [if_pos (by simp; omega)]
        · cases h
      · rename_i hn
        split at h
        · rename_i hl
          cases hc : chunkEnd f (p.drop (l + n + 2)) with
          | none => simp [hc] at h
          | some r' =>
            simp only [hc, Option.map_some, Option.some.injEq] at h
            obtain ⟨c1, c2, c3⟩ := ih _ _ hc
            subst h
            simp only [List.length_drop] at c2
            refine ⟨by simp; omega, by simp; omega, fun e f' hf => ?_⟩
            obtain ⟨f'', rfl⟩ : ∃ f'', f' = f'' + 1 := ⟨f' - 1, by omega⟩
            unfold chunkEnd
            simp only [s3 e, hn, if_false]
            rw [if_pos (by simp; omega)]
            have hd : (p ++ e).drop (l + n + 2) = p.drop (l + n + 2) ++ e :=
              List.drop_append_of_le_length hl
            rw [hd, c3 e f'' (by omega)]
            rfl
        · cases h

theorem h1Hdr_stable (resp : Bool) : HdrStable (h1Hdr resp) := by
  constructor
  · intro p n h
    unfold h1Hdr at h
    cases hf : findEnd p with
    | none => simp [hf] at h
    | some k =>
      simp only [hf] at h
      obtain ⟨f1, f2, _⟩ := findEnd_spec p k hf
      split at h
      · cases h; omega
      · cases h
      · split at h
        · cases h; omega
        · cases h
      · cases hc : chunkEnd (p.length + 1) (p.drop k) with
        | none => simp [hc] at h
        | some r =>
          simp only [hc] at h
          obtain ⟨c1, c2, _⟩ := chunkEnd_spec _ _ _ hc
          simp only [List.length_drop] at c2
          cases h; omega
  · intro p n e h
    unfold h1Hdr at h ⊢
    cases hf : findEnd p with
    | none => simp [hf] at h
    | some k =>
      simp only [hf] at h
      obtain ⟨f1, f2, f3⟩ := findEnd_spec p k hf
      have ht : (p ++ e).take k = p.take k := List.take_append_of_le_length f2
      simp only [f3 e, ht]
      split at h
      · exact h
      · cases h
      · split at h
        · rw [if_pos (by simp; omega)]; exact h
        · cases h
      · cases hc : chunkEnd (p.length + 1) (p.drop k) with
        | none => simp [hc] at h
        | some r =>
          simp only [hc] at h
          obtain ⟨c1, c2, c3⟩ := chunkEnd_spec _ _ _ hc
          have hd : (p ++ e).drop k = p.drop k ++ e := List.drop_append_of_le_length f2
          rw [hd, c3 e ((p ++ e).length + 1) (by simp)]
          exact h
  · intro p e h
    unfold h1Hdr at h ⊢
    cases hf : findEnd p with
    | none => simp [hf] at h
    | some k =>
      simp only [hf] at h
      obtain ⟨f1, f2, f3⟩ := findEnd_spec p k hf
      have ht : (p ++ e).take k = p.take k := List.take_append_of_le_length f2
      simp only [f3 e, ht]
      split at h
      · cases h
      · rfl
      · split at h <;> cases h
      · split at h <;> cases h

theorem h1Step_stable (resp : Bool) : Stable (h1Step resp) := envelope_stable _ (h1Hdr_stable resp) _

end MosnVerif.Lemmas.H1SegStable
