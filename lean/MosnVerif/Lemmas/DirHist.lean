import MosnVerif.Model.DirHist
import MosnVerif.Lemmas.ConfigDir
/-! Lemmas for the directory-mode histories of C12 (Model/DirHist.lean): a statement list with the discipline is
`Model.ConfigDir.marshalDynamic`; hence C19's round trip applies to every dump of a history. -/
namespace MosnVerif.Model.DirHist
open MosnVerif.Model MosnVerif.Model.ConfigDir MosnVerif.Model.DirTypes MosnVerif.Gen.DirDump

theorem runSteps_filter {α : Type} (ops : List NameOp) (enc : α → Json) (nameOf : α → Bytes) (clock : Nat → Bytes) (cs : List α)
    (steps : List DStep) (s : DS) :
    runSteps ops enc nameOf clock cs steps s = runSteps ops enc nameOf clock cs (steps.filter essential) s := by
  induction steps generalizing s with
  | nil => rfl
  | cons st r ih =>
    cases st <;> simp only [List.filter_cons, essential, if_true, Bool.false_eq_true, if_false, runSteps] <;>
      first
      | exact ih _
      | rfl
      | (split <;> first | rfl | exact ih _)

/-- a statement list with the discipline computes `marshalDynamic` -/
theorem dirDump_eq {α : Type} (steps : List DStep) (h : stepsOK steps = true) (ops : List NameOp) (enc : α → Json)
    (nameOf : α → Bytes) (clock : Nat → Bytes) (d : Dir) (cs : List α) :
    dirDump steps ops enc nameOf clock d cs = marshalDynamic ops enc nameOf clock d cs := by
  unfold dirDump
  rw [runSteps_filter]
  have h' : steps.filter essential = [.readDir, .collect, .writeLoop, .cleanup, .finish] := by
    simpa [stepsOK] using h
  rw [h']
  simp only [runSteps, marshalDynamic]
  cases dumpLoop ops enc nameOf clock 0 cs d [] [] with
  | none => rfl
  | some r => rfl

theorem histItems_cons {α : Type} (nameOf : α → Bytes) (items : List α) (u : Upd α × (Nat → Bytes))
    (r : List (Upd α × (Nat → Bytes))) :
    histItems nameOf items (u :: r) = histItems nameOf (applyUpd nameOf items u.1) r := rfl

/-- after a non-empty history of updates, each followed by a dump into the same directory, the loader returns the current items -/
theorem hist_reload {α : Type} (steps : List DStep) (hsteps : stepsOK steps = true) (ops : List NameOp) (e : Bytes)
    (hops : opsOK ops e = true) (enc : α → Json) (dcd : Json → Option α) (nrm : α → α)
    (hcodec : ∀ c, dcd (enc c) = some (nrm c)) (nameOf : α → Bytes)
    (ups : List (Upd α × (Nat → Bytes))) (hne : ups ≠ []) (hclocks : ∀ u ∈ ups, ClockOK u.2) (d : Dir) (items : List α) :
    ∃ d' l, histDump steps ops enc nameOf d items ups = some d' ∧ unmarshalDynamic dcd e d' = some l ∧
      l.Perm ((histItems nameOf items ups).map nrm) := by
  induction ups generalizing d items with
  | nil => exact absurd rfl hne
  | cons u r ih =>
    obtain ⟨u1, k⟩ := u
    obtain ⟨d₁, l, h1, h2, h3⟩ := dynamic_roundtrip_gen ops e hops enc dcd nrm nameOf k
      (hclocks (u1, k) (by simp)) d (applyUpd nameOf items u1) (fun c _ => hcodec c)
    rw [← dirDump_eq steps hsteps] at h1
    cases r with
    | nil => exact ⟨d₁, l, by simp [histDump, h1], h2, by simpa [histItems] using h3⟩
    | cons u2 r2 =>
      obtain ⟨d', l', g1, g2, g3⟩ := ih (by simp) (fun u hu => hclocks u (by simp [hu])) d₁ (applyUpd nameOf items u1)
      exact ⟨d', l', by simpa [histDump, h1] using g1, g2, by rw [histItems_cons]; exact g3⟩

theorem item_codec (c : Item) : Item.dcd (Item.enc c) = some c := by
  cases c with
  | mk n t => simp [Item.enc, Item.dcd]

end MosnVerif.Model.DirHist
