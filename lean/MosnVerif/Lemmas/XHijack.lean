import MosnVerif.Model.XHijack
/-! c03t10 — lemmas about Model/XHijack.lean -/
namespace MosnVerif.Lemmas.XHijack
open MosnVerif.Model.XHijack MosnVerif.Gen.XHijack

theorem lookup_getD_all {α : Type} (P : α → Prop) (k : Nat) (l : List (Nat × α)) (d : α)
    (h : ∀ p ∈ l, P p.2) (hd : P d) : P ((l.lookup k).getD d) := by
  induction l with
  | nil => simpa using hd
  | cons x xs ih =>
    obtain ⟨a, b⟩ := x
    simp only [List.lookup]
    split
    · simpa using h (a, b) (by simp)
    · exact ih (fun p hp => h p (by simp [hp]))

theorem table_resolves (c : Codec) : ∀ p ∈ table c, (resolve p.2).isSome = true := by
  cases c <;> decide

theorem dflt_resolves (c : Codec) : (resolve (dflt c)).isSome = true := by
  cases c <;> decide

theorem status_isSome (c : Codec) (code : Nat) : (status c code).isSome = true :=
  lookup_getD_all (fun n => (resolve n).isSome = true) code (table c) (dflt c) (table_resolves c) (dflt_resolves c)

theorem table_bounded (c : Codec) : ∀ p ∈ table c, ∀ v, resolve p.2 = some v → v < 2 ^ statusBits c := by
  cases c <;> decide

theorem dflt_bounded (c : Codec) : ∀ v, resolve (dflt c) = some v → v < 2 ^ statusBits c := by
  cases c <;> decide

theorem status_bounded (c : Codec) (code v : Nat) (h : status c code = some v) : v < 2 ^ statusBits c :=
  lookup_getD_all (fun n => ∀ v, resolve n = some v → v < 2 ^ statusBits c) code (table c) (dflt c)
    (table_bounded c) (dflt_bounded c) v h

theorem hijackNil_false (c : Codec) : hijackNil c = false := by cases c <;> rfl

theorem wire_eq (c : Codec) (reqId code : Nat) :
    wire c reqId code = (status c (code % two32)).map (fun st => ⟨reqId, st⟩) := by
  have h1 : buildHijackViaMapping = true := rfl
  have h2 : endStreamNilGuard = true := rfl
  have h3 : endStreamWritesFrame = true := rfl
  have h4 : endStreamSetsRequestId = true := rfl
  simp only [wire, hijack, hijackWith, h1, h2, h3, h4, hijackNil_false, Bool.and_self, if_true]
  cases status c (code % two32) <;> simp

theorem wire_isSome (c : Codec) (reqId code : Nat) : (wire c reqId code).isSome = true := by
  rw [wire_eq]; simp [status_isSome]

theorem wire_correlates (c : Codec) (reqId code : Nat) (r : Reply) (h : wire c reqId code = some r) :
    r.id = reqId ∧ r.status < 2 ^ statusBits c := by
  rw [wire_eq] at h
  cases hs : status c (code % two32) with
  | none => rw [hs] at h; cases h
  | some st =>
    rw [hs] at h
    simp only [Option.map_some, Option.some.injEq] at h
    subst h
    exact ⟨rfl, status_bounded c _ _ hs⟩

end MosnVerif.Lemmas.XHijack
