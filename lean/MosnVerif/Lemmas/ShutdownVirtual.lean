import MosnVerif.Lemmas.Shutdown
/-! lemmas about listeners that bind no port (core Lean only) -/
namespace MosnVerif.Model.Shutdown
open MosnVerif.Gen.Shutdown

theorem lisClose_bind (l : Lis) : (lisClose l).1.bind = l.bind := by
  unfold lisClose
  split
  split <;> rfl

theorem lisShutdown_bind (l : Lis) (stage : Int) : (lisShutdown l stage).1.bind = l.bind := by
  unfold lisShutdown
  split
  · split; rfl
  · have := lisClose_bind l
    split
    rename_i l' c heq
    rw [heq] at this
    exact this

/-- no operation — `Start` and restart included — makes a listener that binds no port Running -/
theorem lisStep_virtual (l : Lis) (op : LOp) (hb : l.bind = false) (h : l.state ≠ ListenerRunning) :
    (lisStep l op).1.bind = false ∧ (lisStep l op).1.state ≠ ListenerRunning := by
  cases op with
  | start r => simp [lisStep, lisStart, hb, h]
  | shutdown stage => exact ⟨by simp [lisStep, lisShutdown_bind, hb], lisShutdown_not_running l stage⟩
  | close =>
    refine ⟨by simp [lisStep, lisClose_bind, hb], ?_⟩
    simp only [lisStep]
    rw [lisClose_state l]; simp [ListenerClosed, ListenerRunning]
  | probe => exact ⟨by simpa [lisStep] using hb, by simpa [lisStep] using h⟩

theorem lisRun_virtual (l : Lis) (ops : List LOp) (hb : l.bind = false) (h : l.state ≠ ListenerRunning) :
    (lisRun l ops).bind = false ∧ (lisRun l ops).state ≠ ListenerRunning := by
  induction ops generalizing l with
  | nil => exact ⟨hb, h⟩
  | cons op r ih =>
    have := lisStep_virtual l op hb h
    exact ih _ this.1 this.2

/-- `Shutdown` of a listener that is neither Closed nor Stopped invokes the shutdown callback exactly once — in the
upgrade stage through `stopAccept`'s `changed`, otherwise through the close branch — whether or not it binds a port and
whether or not it ever was Running -/
theorem lisShutdown_cb (l : Lis) (stage : Int) (hc : l.state ≠ ListenerClosed) (hs : l.state ≠ ListenerStopped) :
    (lisShutdown l stage).2.shutdownCb = 1 := by
  unfold lisShutdown
  split
  · simp [stopAccept, shutdownCbStop, hc, hs]
  · simp [shutdownCbClose]

/-- outside the upgrade stage the callback runs whatever the listener's state -/
theorem lisShutdown_cb_close (l : Lis) (stage : Int) (h : shutdownOnlyStops stage = false) :
    (lisShutdown l stage).2.shutdownCb = 1 := by
  unfold lisShutdown
  simp [h, shutdownCbClose]

end MosnVerif.Model.Shutdown
