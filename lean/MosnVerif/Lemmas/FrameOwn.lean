import MosnVerif.Lemmas.Framing
import MosnVerif.Lemmas.FrameSteps
import MosnVerif.Model.FrameOwn
/-! lemmas for Model/FrameOwn (content locality, ownership of delivered bodies); core Lean only -/
namespace MosnVerif.Model.FrameOwn
open MosnVerif.Model.Framing MosnVerif.Model.FrameSteps

variable {C : Type}

/-- a decoder whose payload parser is constructed on the private frame copy is prefix-stable, whatever the parser -/
theorem envelopeC_stable (h : Bytes → Hdr) (hh : HdrStable h) (parse : Bytes → Option C) :
    Stable (envelopeC h .frameCopy parse) := by
  constructor
  · intro p f n hd
    unfold envelopeC at hd
    split at hd <;> try (simp at hd)
    rename_i m hm
    split at hd <;> simp at hd
    obtain ⟨_, rfl⟩ := hd
    exact hh.pos p m hm
  · intro p f n e hd
    unfold envelopeC at hd ⊢
    split at hd <;> try (simp at hd)
    rename_i m hm
    split at hd <;> simp at hd
    rename_i c hok
    obtain ⟨rfl, rfl⟩ := hd
    have hle := (hh.pos p m hm).2
    rw [hh.ext p m e hm]
    simp only [window] at hok ⊢
    simp only [List.take_append_of_le_length hle, hok]
  · intro p e hd
    unfold envelopeC at hd ⊢
    split at hd <;> try (simp at hd)
    · rename_i hm; rw [hh.errExt p e hm]
    · rename_i m hm
      have hle := (hh.pos p m hm).2
      rw [hh.ext p m e hm]
      split at hd <;> simp at hd
      rename_i hnone
      simp only [window] at hnone ⊢
      simp only [List.take_append_of_le_length hle, hnone]

/-- one call: once the frame is complete, what follows it in the buffer changes nothing — neither the verdict nor
the decoded content -/
theorem envelopeC_suffix (h : Bytes → Hdr) (hh : HdrStable h) (parse : Bytes → Option C) (p e : Bytes) (n : Nat)
    (hp : h p = .len n) : envelopeC h .frameCopy parse (p ++ e) = envelopeC h .frameCopy parse p := by
  have hle := (hh.pos p n hp).2
  unfold envelopeC
  rw [hh.ext p n e hp, hp]
  simp only [window, List.take_append_of_le_length hle]

/-- a frame alone in the buffer vs. followed by anything: the content is `parse` of the frame's own bytes -/
theorem envelopeC_frame (h : Bytes → Hdr) (hh : HdrStable h) (parse : Bytes → Option C) (f e : Bytes) (c : C)
    (hf : h f = .len f.length) (hc : parse f = some c) :
    envelopeC h .frameCopy parse (f ++ e) = .frame (f, c) f.length := by
  rw [envelopeC_suffix h hh parse f e f.length hf]
  unfold envelopeC
  rw [hf]
  simp only [window, List.take_length, hc]

variable {F : Type}

/-- `drainAll_valid` for decoders that attach a value to every frame -/
theorem drainAll_validF (d : Bytes → Step F) (hs : Stable d) (val : Bytes → F) (fs : List Bytes) (t : Bytes)
    (hv : ∀ f ∈ fs, ∀ e, d (f ++ e) = .frame (val f) f.length) (hpos : ∀ f ∈ fs, f ≠ [])
    (ht : t = [] ∨ d t = .needMore) :
    drainAll d (fs.flatten ++ t) = (fs.map val, t, false) := by
  induction fs with
  | nil =>
    rcases ht with rfl | ht
    · simp [drainAll_nil]
    · simpa using drainAll_needMore d t ht
  | cons f fs ih =>
    have hne : f ≠ [] := hpos f (by simp)
    have hext := hv f (by simp) (fs.flatten ++ t)
    have hne2 : f ++ (fs.flatten ++ t) ≠ [] := by simp [hne]
    simp only [List.flatten_cons, List.append_assoc, List.map_cons]
    rw [drainAll_frame d hs _ hne2 (val f) f.length hext, List.drop_left,
      ih (fun g hg => hv g (by simp [hg])) (fun g hg => hpos g (by simp [hg]))]

/-! ### ownership -/

/-- under the copy discipline the body under construction is always an owned buffer holding exactly what was sent -/
theorem step_copy_inv (s : St) (e : Ev) (hr : s.recData = none ∧ s.sent = [] ∨ s.recData = some (.owned s.sent))
    (hd : s.delivered = none ∨ ∃ b, s.delivered = some (.owned b)) :
    ((step .copy s e).recData = none ∧ (step .copy s e).sent = [] ∨
      (step .copy s e).recData = some (.owned (step .copy s e).sent)) ∧
    ((step .copy s e).delivered = none ∨ ∃ b, (step .copy s e).delivered = some (.owned b)) := by
  cases e with
  | refill m => exact ⟨by simpa [step] using hr, by simpa [step] using hd⟩
  | data off len es =>
    rcases hr with ⟨h1, h2⟩ | h1
    · refine ⟨Or.inr (by simp [step, h1, h2]), ?_⟩
      by_cases hes : es
      · right; exact ⟨(s.mem.drop off).take len, by simp [step, h1, hes]⟩
      · simpa [step, hes] using hd
    · refine ⟨Or.inr (by simp [step, h1, Body.read]), ?_⟩
      by_cases hes : es
      · right; exact ⟨s.sent ++ (s.mem.drop off).take len, by simp [step, h1, hes, Body.read]⟩
      · simpa [step, hes] using hd

theorem run_copy_owned (m0 : Mem) (evs : List Ev) :
    (run .copy m0 evs).delivered = none ∨ ∃ b, (run .copy m0 evs).delivered = some (.owned b) := by
  suffices h : ∀ (s : St), (s.recData = none ∧ s.sent = [] ∨ s.recData = some (.owned s.sent)) →
      (s.delivered = none ∨ ∃ b, s.delivered = some (.owned b)) →
      ((evs.foldl (step .copy) s).delivered = none ∨ ∃ b, (evs.foldl (step .copy) s).delivered = some (.owned b)) by
    exact h (St.init m0) (Or.inl ⟨rfl, rfl⟩) (Or.inl rfl)
  induction evs with
  | nil => intro s _ hd; simpa using hd
  | cons e es ih =>
    intro s hr hd
    have ⟨a, b⟩ := step_copy_inv s e hr hd
    simpa using ih (step .copy s e) a b

/-- later reads only rewrite the memory: they never touch what was delivered -/
theorem refills_keep (p : Pass) (s : St) (later : List Mem) :
    (later.foldl (fun s m => step p s (.refill m)) s).delivered = s.delivered := by
  induction later generalizing s with
  | nil => rfl
  | cons m ms ih => simp only [List.foldl_cons]; rw [ih]; rfl

end MosnVerif.Model.FrameOwn
