import MosnVerif.Model.Match
import MosnVerif.Lemmas.FrameSteps
/-! monotonicity of every protocol matcher -/
namespace MosnVerif.Model.Match
open MosnVerif.Model.Framing MosnVerif.Model.FrameBytes MosnVerif.Model.FrameSteps
open MosnVerif.Gen.FrameConsts

theorem codeMatch_mono (code : Nat) : Monotone (codeMatch code) := by
  intro p e h
  unfold codeMatch at h ⊢
  by_cases hp : p.length = 0
  · simp [hp] at h
  · have : (p ++ e).length ≠ 0 := by rw [List.length_append]; omega
    have hi : 0 < p.length := by omega
    simp only [hp, this, ↓reduceIte, u8_append p e 0 hi]

theorem take_drop_append (p e : Bytes) (lo hi : Nat) (h : hi ≤ p.length) :
    ((p ++ e).take hi).drop lo = (p.take hi).drop lo := by
  rw [List.take_append_of_le_length h]

theorem dubboMatch_mono : Monotone dubboMatch := by
  intro p e h
  unfold dubboMatch at h ⊢
  by_cases hp : p.length < dubbo_HeaderLen
  · simp [hp] at h
  · have h2 : ¬ ((p ++ e).length < dubbo_HeaderLen) := by simp; omega
    have h3 : dubbo_FlagIdx ≤ p.length := by frame_consts_defs; omega
    simp only [hp, h2, ↓reduceIte, take_drop_append p e _ _ h3]

theorem thriftMatch_mono : Monotone thriftMatch := by
  intro p e h
  unfold thriftMatch at h ⊢
  by_cases hp : p.length < thrift_MessageLenSize + thrift_MagicLen
  · simp [hp] at h
  · have h2 : ¬ ((p ++ e).length < thrift_MessageLenSize + thrift_MagicLen) := by simp; omega
    have h3 : thrift_MessageLenSize + thrift_MagicLen ≤ p.length := by omega
    simp only [hp, h2, ↓reduceIte, take_drop_append p e _ _ h3]

theorem tarsRequest_ext (p e : Bytes) (h : tarsRequest p ≠ .less) : tarsRequest (p ++ e) = tarsRequest p := by
  unfold tarsRequest at h ⊢
  by_cases h1 : p.length < tars_lenFieldSize
  · simp [h1] at h
  · have h1' : ¬ ((p ++ e).length < tars_lenFieldSize) := by simp; omega
    have hle : tars_lenFieldSize ≤ p.length := by omega
    simp only [h1, h1', ↓reduceIte, be_append p e 0 tars_lenFieldSize hle] at h ⊢
    by_cases h2 : be p 0 tars_lenFieldSize < tars_minPackageLength ∨ be p 0 tars_lenFieldSize > tars_maxPackageLength
    · simp only [h2, ↓reduceIte]
    · simp only [h2, ↓reduceIte] at h ⊢
      by_cases h3 : p.length < be p 0 tars_lenFieldSize
      · simp [h3] at h
      · have : ¬ ((p ++ e).length < be p 0 tars_lenFieldSize) := by simp; omega
        simp only [h3, this, ↓reduceIte]

theorem tarsMatch_mono : Monotone tarsMatch := by
  intro p e h
  unfold tarsMatch at h ⊢
  by_cases h1 : p.length < tars_matchMinLen
  · simp [h1] at h
  · have h1' : ¬ ((p ++ e).length < tars_matchMinLen) := by simp; omega
    have ha : tars_IVersionHeaderIdx < p.length := by frame_consts_defs; omega
    have hb : tars_iVersionDataIdx < p.length := by frame_consts_defs; omega
    simp only [h1, h1', ↓reduceIte, u8_append p e _ ha, u8_append p e _ hb] at h ⊢
    split
    · rename_i hv
      simp only [hv, ↓reduceIte] at h
      have : tarsRequest p ≠ .less := by
        intro hc; rw [hc] at h; simp at h
      rw [tarsRequest_ext p e this]
    · rfl

theorem http1Match_mono : Monotone http1Match := by
  intro p e h
  unfold http1Match at h ⊢
  by_cases h1 : p.length < http_minMethodLen
  · simp [h1] at h
  · have h1' : ¬ ((p ++ e).length < http_minMethodLen) := by simp; omega
    simp only [h1, h1', ↓reduceIte] at h ⊢
    generalize hs : (if p.length > http_maxMethodLen then http_maxMethodLen else p.length) = size at h
    generalize hs' : (if (p ++ e).length > http_maxMethodLen then http_maxMethodLen else (p ++ e).length) = size'
    have hle : size ≤ p.length := by subst hs; split <;> omega
    have hss : size ≤ size' := by
      subst hs; subst hs'; simp only [List.length_append]; split <;> split <;> omega
    by_cases hany : (List.range (size + 1)).any
        (fun i => decide (http_minMethodLen ≤ i) && http_methods.contains (nats (p.take i))) = true
    · -- success stays success
      have : (List.range (size' + 1)).any
          (fun i => decide (http_minMethodLen ≤ i) && http_methods.contains (nats ((p ++ e).take i))) = true := by
        rw [List.any_eq_true] at hany ⊢
        obtain ⟨i, hi, hc⟩ := hany
        have hil : i ≤ p.length := by simp at hi; omega
        exact ⟨i, by simp at hi ⊢; omega, by rw [List.take_append_of_le_length hil]; exact hc⟩
      rw [if_pos this, if_pos hany]
    · -- failed: size = max already
      rw [if_neg hany] at h ⊢
      by_cases hlt : size < http_maxMethodLen
      · simp [hlt] at h
      · have hsz : size = http_maxMethodLen := by subst hs; split at hlt <;> split <;> omega
        have hsz' : size' = http_maxMethodLen := by
          subst hs'; subst hs; simp only [List.length_append] at *; split <;> split at hsz <;> omega
        have : ¬ ((List.range (size' + 1)).any
            (fun i => decide (http_minMethodLen ≤ i) && http_methods.contains (nats ((p ++ e).take i))) = true) := by
          rw [hsz', ← hsz]
          intro hc
          apply hany
          rw [List.any_eq_true] at hc ⊢
          obtain ⟨i, hi, hcc⟩ := hc
          have hil : i ≤ p.length := by simp at hi; omega
          exact ⟨i, hi, by rw [List.take_append_of_le_length hil] at hcc; exact hcc⟩
        rw [if_neg this, hsz', hsz]

theorem http2Match_mono : Monotone http2Match := by
  intro p e h
  unfold http2Match at h ⊢
  by_cases hf : p.length ≥ http2_preface.length
  · have hf' : (p ++ e).length ≥ http2_preface.length := by rw [List.length_append]; omega
    rw [if_pos hf, if_pos hf', List.take_append_of_le_length hf]
  · rw [if_neg hf] at h ⊢
    have hne : ¬ (nats (p.take p.length) = http2_preface.take p.length) := by
      intro hc; rw [if_pos hc] at h; exact h rfl
    rw [if_neg hne]
    -- the extension cannot repair a mismatch inside the first |p| bytes
    have key : ∀ size', p.length ≤ size' →
        ¬ (nats ((p ++ e).take size') = http2_preface.take size') := by
      intro size' hle hc
      apply hne
      have := congrArg (List.take p.length) hc
      simp only [nats, ← List.map_take, List.take_take, Nat.min_eq_left hle] at this
      simpa [nats, List.take_append_of_le_length (Nat.le_refl _)] using this
    by_cases hfull : (p ++ e).length ≥ http2_preface.length
    · rw [if_pos hfull]
      have hle : p.length ≤ http2_preface.length := by omega
      rw [if_neg (key _ hle)]
    · rw [if_neg hfull]
      have hle : p.length ≤ (p ++ e).length := by simp
      rw [if_neg (key _ hle)]

/-! ### selection over an ordered scope -/

/-- at most one matcher of the scope can succeed on extensions of `p` (names of successful matchers coincide) -/
def Exclusive (ms : List (String × (Bytes → MR))) (p : Bytes) : Prop :=
  ∀ e m1 m2, m1 ∈ ms → m2 ∈ ms → m1.2 (p ++ e) = .success → m2.2 (p ++ e) = .success → m1.1 = m2.1

theorem find_success_name (ms : List (String × (Bytes → MR))) (q : Bytes) (m : String × (Bytes → MR))
    (h : ms.find? (fun m => m.2 q == .success) = some m) : m ∈ ms ∧ m.2 q = .success := by
  have h1 := List.mem_of_find?_eq_some h
  have h2 := List.find?_some h
  exact ⟨h1, by simpa using h2⟩

/-- once a protocol has been selected on a prefix, every longer prefix selects the same protocol — provided the
matchers are monotone and no second matcher of the scope can succeed on the stream. -/
theorem select_proto_final (ms : List (String × (Bytes → MR))) (hm : ∀ m ∈ ms, Monotone m.2)
    (p e : Bytes) (hx : Exclusive ms p) (n : String) (h : select ms p = .proto n) :
    select ms (p ++ e) = .proto n := by
  unfold select at h ⊢
  cases hf : ms.find? (fun m => m.2 p == .success) with
  | none => rw [hf] at h; simp only at h; split at h <;> simp at h
  | some m =>
    rw [hf] at h
    simp only [SelRes.proto.injEq] at h
    have ⟨hmem, hs⟩ := find_success_name ms p m hf
    have hs' : m.2 (p ++ e) = .success := by
      rw [hm m hmem p e (by rw [hs]; simp), hs]
    cases hf' : ms.find? (fun m => m.2 (p ++ e) == .success) with
    | none =>
      have := List.find?_eq_none.mp hf' m hmem
      simp [hs'] at this
    | some m' =>
      have ⟨hmem', hs2⟩ := find_success_name ms (p ++ e) m' hf'
      have := hx e m m' hmem hmem' hs' hs2
      simp only [SelRes.proto.injEq]
      rw [← this, h]

/-- a failed selection is final (no exclusivity needed) -/
theorem select_failed_final (ms : List (String × (Bytes → MR))) (hm : ∀ m ∈ ms, Monotone m.2)
    (p e : Bytes) (h : select ms p = .failed) : select ms (p ++ e) = .failed := by
  unfold select at h ⊢
  cases hf : ms.find? (fun m => m.2 p == .success) with
  | some m => rw [hf] at h; simp at h
  | none =>
    rw [hf] at h
    simp only at h
    split at h <;> simp at h
    rename_i hany
    have hall : ∀ m ∈ ms, m.2 p = .failed := by
      intro m hmem
      have h1 := List.find?_eq_none.mp hf m hmem
      have h2 : ¬ (m.2 p == .again) = true := by
        intro hc; apply hany; exact List.any_eq_true.mpr ⟨m, hmem, hc⟩
      cases hv : m.2 p <;> simp_all
    have hall' : ∀ m ∈ ms, m.2 (p ++ e) = .failed := by
      intro m hmem
      rw [hm m hmem p e (by rw [hall m hmem]; simp), hall m hmem]
    have hf' : ms.find? (fun m => m.2 (p ++ e) == .success) = none := by
      apply List.find?_eq_none.mpr
      intro m hmem; simp [hall' m hmem]
    have hany' : ¬ (ms.any (fun m => m.2 (p ++ e) == .again) = true) := by
      intro hc
      obtain ⟨m, hmem, hc⟩ := List.any_eq_true.mp hc
      simp [hall' m hmem] at hc
    rw [hf']
    simp only [hany', Bool.false_eq_true, ↓reduceIte]

end MosnVerif.Model.Match
