import MosnVerif.Model.Shutdown
/-! helper lemmas for the shutdown models (core Lean only) -/
namespace MosnVerif.Model.Shutdown
open MosnVerif.Gen.Shutdown

/-! ### listener -/

theorem stopAccept_not_running (s : Int) (b c : Bool) (h : s ≠ ListenerRunning) : (stopAccept s b c).1 ≠ ListenerRunning := by
  unfold stopAccept
  split
  · exact h
  · split <;> simp [ListenerStopped, ListenerRunning]

theorem closeStep_not_running (s : Int) (b : Bool) (h : s ≠ ListenerRunning) : (closeStep s b).1 ≠ ListenerRunning := by
  unfold closeStep
  split
  · exact h
  · split <;> simp [ListenerClosed, ListenerRunning]

/-- whatever the state was, after `stopAccept` it is not Running -/
theorem stopAccept_after (s : Int) (b c : Bool) : (stopAccept s b c).1 ≠ ListenerRunning := by
  simp only [stopAccept, ListenerClosed, ListenerStopped, ListenerRunning]
  grind

/-- whatever the state was, after `Close` it is Closed -/
theorem closeStep_after (s : Int) (b : Bool) : (closeStep s b).1 = ListenerClosed := by
  unfold closeStep
  split
  · rename_i h; simpa using h
  · split <;> rfl

theorem lisClose_state (l : Lis) : (lisClose l).1.state = ListenerClosed := by
  have := closeStep_after l.state l.bind
  unfold lisClose
  split
  rename_i st reach heq
  rw [heq] at this
  simp only at this
  split <;> simp [this]

theorem lisShutdown_not_running (l : Lis) (stage : Int) : (lisShutdown l stage).1.state ≠ ListenerRunning := by
  unfold lisShutdown
  split
  · have := stopAccept_after l.state l.bind false
    split
    rename_i st ch heq
    rw [heq] at this
    simpa using this
  · have := lisClose_state l
    split
    rename_i l' c heq
    rw [heq] at this
    simp only at this ⊢
    rw [this]; simp [ListenerClosed, ListenerRunning]

theorem accepting_false_of_state (l : Lis) (h : l.state ≠ ListenerRunning) : accepting l = false := by
  simp [accepting, h]

/-- an operation other than Start never makes a non-running listener running -/
theorem lisStep_not_running (l : Lis) (op : LOp) (hs : op.isStart = false) (h : l.state ≠ ListenerRunning) :
    (lisStep l op).1.state ≠ ListenerRunning := by
  cases op with
  | start r => simp [LOp.isStart] at hs
  | shutdown stage => exact lisShutdown_not_running l stage
  | close =>
    simp only [lisStep]
    have := lisClose_state l
    rw [this]; simp [ListenerClosed, ListenerRunning]
  | probe => simpa [lisStep] using h

theorem lisRun_not_running (l : Lis) (ops : List LOp) (hs : ∀ op ∈ ops, op.isStart = false)
    (h : l.state ≠ ListenerRunning) : (lisRun l ops).state ≠ ListenerRunning := by
  induction ops generalizing l with
  | nil => simpa [lisRun] using h
  | cons op r ih =>
    simp only [lisRun]
    exact ih _ (fun o ho => hs o (List.mem_cons_of_mem _ ho)) (lisStep_not_running l op (hs op List.mem_cons_self) h)

/-! ### connections and the gauge -/

theorem modifyAt_length (l : List Conn) (i : Nat) (f : Conn → Conn) : (modifyAt l i f).length = l.length := by
  induction l generalizing i with
  | nil => simp [modifyAt]
  | cons c r ih => cases i <;> simp [modifyAt, ih]

theorem countActive_cons (c : Conn) (r : List Conn) :
    countActive (c :: r) = (if c.phase == .active then 1 else 0) + countActive r := by
  simp only [countActive, List.filter_cons]
  split <;> simp <;> omega

/-- changing the phase of connection `i` from `p` to `q` moves the active count accordingly -/
theorem countActive_modifyAt (l : List Conn) (i : Nat) (f : Conn → Conn) (p : Phase)
    (hp : phaseAt l i = some p) (q : Phase) (hf : ∀ c, (f c).phase = q) :
    (countActive (modifyAt l i f) : Int) = countActive l - (if p == .active then 1 else 0) + (if q == .active then 1 else 0) := by
  induction l generalizing i with
  | nil => simp [phaseAt] at hp
  | cons c r ih =>
    cases i with
    | zero =>
      simp only [phaseAt, List.getElem?_cons_zero, Option.map_some, Option.some.injEq] at hp
      simp only [modifyAt, countActive_cons, hf, hp]
      split <;> split <;> simp <;> omega
    | succ j =>
      have hp' : phaseAt r j = some p := by simpa [phaseAt] using hp
      have := ih j hp'
      simp only [modifyAt, countActive_cons]
      omega

theorem countActive_map_goAway (l : List Conn) (k : Nat) :
    countActive (l.map (fun c => { c with goAway := c.goAway + 1, notified := c.notified + k })) = countActive l := by
  induction l with
  | nil => rfl
  | cons c r ih => simp only [List.map_cons, countActive_cons, ih]

theorem countActive_append_idle (l : List Conn) : countActive (l ++ [⟨.idle, 0, 0, 0, 0⟩]) = countActive l := by
  induction l with
  | nil => decide
  | cons c r ih => simp only [List.cons_append, countActive_cons, ih]

theorem phaseAt_active_pos (l : List Conn) (i : Nat) (h : phaseAt l i = some .active) : 0 < countActive l := by
  induction l generalizing i with
  | nil => simp [phaseAt] at h
  | cons c r ih =>
    rw [countActive_cons]
    cases i with
    | zero =>
      simp only [phaseAt, List.getElem?_cons_zero, Option.map_some, Option.some.injEq] at h
      simp [h]; omega
    | succ j =>
      have := ih j (by simpa [phaseAt] using h)
      omega


/-! ### the event machine -/

/-- only the signal touches the listener, and it never leaves it running -/
theorem step_lis_not_running (s : Sys) (e : Ev) (h : s.lis.state ≠ ListenerRunning) :
    (step s e).lis.state ≠ ListenerRunning := by
  unfold step
  split
  · exact h
  · cases e with
    | connect => simp only; split <;> exact h
    | bytes i => simp only; split <;> exact h
    | decoded i => simp only; split <;> (try split) <;> exact h
    | respDone i => simp only; split <;> exact h
    | signal stage =>
      simp only
      have := lisShutdown_not_running s.lis stage
      split <;> exact this
    | tick d => exact h
    | exit => simp only; split <;> exact h

/-- invariant: once the graceful stop began the listener is not running -/
def stopInv (s : Sys) : Prop := s.stopBegan = true → s.lis.state ≠ ListenerRunning

theorem step_stopInv (s : Sys) (e : Ev) (h : stopInv s) : stopInv (step s e) := by
  intro hb
  by_cases hs : s.lis.state ≠ ListenerRunning
  · exact step_lis_not_running s e hs
  · -- the listener is running, so the stop had not begun: the step that begins it is the signal
    have hnb : s.stopBegan = false := by
      cases hsb : s.stopBegan with
      | false => rfl
      | true => exact absurd (h hsb) hs
    unfold step at hb ⊢
    split at hb
    · simp [hnb] at hb
    · rename_i hex
      simp only [hex]
      cases e with
      | connect => simp only at hb; split at hb <;> simp [hnb] at hb
      | bytes i => simp only at hb; split at hb <;> simp [hnb] at hb
      | decoded i => simp only at hb; split at hb <;> (try split at hb) <;> simp [hnb] at hb
      | respDone i => simp only at hb; split at hb <;> simp [hnb] at hb
      | signal stage =>
        simp only [Bool.false_eq_true, ↓reduceIte]
        have := lisShutdown_not_running s.lis stage
        split <;> exact this
      | tick d => simp [hnb] at hb
      | exit => simp only at hb; split at hb <;> simp [hnb] at hb

theorem run_stopInv (s : Sys) (es : List Ev) (h : stopInv s) : stopInv (run s es) := by
  induction es generalizing s with
  | nil => exact h
  | cons e r ih => exact ih _ (step_stopInv s e h)

/-- while the listener is not running no event adds a connection -/
theorem step_conns_length (s : Sys) (e : Ev) (h : s.lis.state ≠ ListenerRunning) :
    (step s e).conns.length = s.conns.length := by
  unfold step
  split
  · rfl
  · cases e with
    | connect => simp [accepting_false_of_state s.lis h]
    | bytes i => simp only; split <;> simp [modifyAt_length]
    | decoded i => simp only; split <;> (try split) <;> simp [modifyAt_length]
    | respDone i => simp only; split <;> simp [modifyAt_length]
    | signal stage => simp only [onShutdownWaits, onShutdownBroadcasts, ↓reduceIte]; split <;> simp
    | tick d => rfl
    | exit => simp only; split <;> rfl

theorem run_conns_length (s : Sys) (es : List Ev) (h : s.lis.state ≠ ListenerRunning) :
    (run s es).conns.length = s.conns.length := by
  induction es generalizing s with
  | nil => rfl
  | cons e r ih =>
    simp only [run]
    rw [ih _ (step_lis_not_running s e h), step_conns_length s e h]


/-- the regenerated loop condition is false exactly when nothing is active or the drain time is exceeded -/
theorem drainContinue_false (g w m : Int) (h : drainContinue g w m = false) : g ≤ 0 ∨ w > m := by
  unfold drainContinue at h
  simp only [Bool.and_eq_false_iff, decide_eq_false_iff_not] at h
  omega

theorem drainContinue_true (g w m : Int) (h : drainContinue g w m = true) : g > 0 ∧ w ≤ m := by
  unfold drainContinue at h
  simpa using h

/-- invariant: if the drain loop has returned, then at that moment nothing was active or the drain time had elapsed
(after the exit nothing changes any more) -/
def exitInv (s : Sys) : Prop := s.exited = true → s.gauge ≤ 0 ∨ s.waited > s.maxWait

theorem step_exitInv (s : Sys) (e : Ev) (h : exitInv s) : exitInv (step s e) := by
  unfold step
  split
  · exact h
  · rename_i hex
    have hex' : s.exited = false := by simpa using hex
    intro hb
    cases e with
    | connect => simp only at hb; split at hb <;> simp [hex'] at hb
    | bytes i => simp only at hb; split at hb <;> simp [hex'] at hb
    | decoded i => simp only at hb; split at hb <;> (try split at hb) <;> simp [hex'] at hb
    | respDone i => simp only at hb; split at hb <;> simp [hex'] at hb
    | signal stage => simp only [onShutdownWaits, onShutdownBroadcasts, ↓reduceIte] at hb; split at hb <;> simp [hex'] at hb
    | tick d => simp [hex'] at hb
    | exit =>
      simp only at hb ⊢
      split
      · rename_i hen
        simp only [exitEnabled, Bool.and_eq_true, Bool.not_eq_eq_eq_not, Bool.not_true] at hen
        exact drainContinue_false _ _ _ hen.2
      · rename_i hen; simp [hen, hex'] at hb

theorem run_exitInv (s : Sys) (es : List Ev) (h : exitInv s) : exitInv (run s es) := by
  induction es generalizing s with
  | nil => exact h
  | cons e r ih => exact ih _ (step_exitInv s e h)

theorem step_wf (s : Sys) (e : Ev) (h : s.wf) : (step s e).wf := by
  unfold Sys.wf at h ⊢
  unfold step
  split
  · exact h
  · cases e with
    | connect => simp only; split <;> simp [countActive_append_idle, h]
    | bytes i =>
      simp only
      split
      · rename_i hp
        have := countActive_modifyAt s.conns i (fun c => { c with phase := .incomplete }) .idle hp .incomplete (fun _ => rfl)
        simp only [this, h]; simp
      · exact h
    | decoded i =>
      simp only
      split
      · rename_i hp
        split
        · have := countActive_modifyAt s.conns i (fun c => { c with phase := .idle, refusedReq := c.refusedReq + 1 }) .idle hp .idle (fun _ => rfl)
          simp only [this, h]; simp
        · have := countActive_modifyAt s.conns i (fun c => { c with phase := .active }) .idle hp .active (fun _ => rfl)
          simp only [this, h]; simp
      · rename_i hp
        split
        · have := countActive_modifyAt s.conns i (fun c => { c with phase := .idle, refusedReq := c.refusedReq + 1 }) .incomplete hp .idle (fun _ => rfl)
          simp only [this, h]; simp
        · have := countActive_modifyAt s.conns i (fun c => { c with phase := .active }) .incomplete hp .active (fun _ => rfl)
          simp only [this, h]; simp
      · exact h
    | respDone i =>
      simp only
      split
      · rename_i hp
        have := countActive_modifyAt s.conns i (fun c => { c with phase := .idle, served := c.served + 1 }) .active hp .idle (fun _ => rfl)
        simp only [this, h]; simp
      · exact h
    | signal stage => simp only [onShutdownWaits, onShutdownBroadcasts, ↓reduceIte]; split <;> simp [countActive_map_goAway, h]
    | tick d => exact h
    | exit => simp only; split <;> exact h

theorem run_wf (s : Sys) (es : List Ev) (h : s.wf) : (run s es).wf := by
  induction es generalizing s with
  | nil => exact h
  | cons e r ih => exact ih _ (step_wf s e h)


/-! ### drain loop -/

/-- `waitConnectionsClose`: it sleeps exactly while the samples keep the condition true, and leaves at the first sample
with nothing active or the drain time exceeded -/
theorem drainLoop_spec (maxWait : Int) (samples : List (Int × Int)) (n : Nat) (r w : Int)
    (h : drainLoop maxWait samples = (n, some (r, w))) :
    samples[n]? = some (r, w) ∧ (r ≤ 0 ∨ w > maxWait) ∧
    ∀ i, i < n → ∃ ri wi, samples[i]? = some (ri, wi) ∧ ri > 0 ∧ wi ≤ maxWait := by
  induction samples generalizing n with
  | nil => simp [drainLoop] at h
  | cons p rest ih =>
    obtain ⟨pr, pw⟩ := p
    simp only [drainLoop] at h
    split at h
    · rename_i hc
      cases hrec : drainLoop maxWait rest with
      | mk n' e' =>
        rw [hrec] at h
        simp only [Prod.mk.injEq] at h
        obtain ⟨hn, he⟩ := h
        subst hn; subst he
        obtain ⟨h1, h2, h3⟩ := ih n' hrec
        refine ⟨by simpa using h1, h2, ?_⟩
        intro i hi
        cases i with
        | zero => exact ⟨pr, pw, by simp, (drainContinue_true _ _ _ hc).1, (drainContinue_true _ _ _ hc).2⟩
        | succ j =>
          obtain ⟨ri, wi, ha, hb, hc'⟩ := h3 j (by omega)
          exact ⟨ri, wi, by simpa using ha, hb, hc'⟩
    · rename_i hc
      simp only [Prod.mk.injEq, Option.some.injEq] at h
      obtain ⟨hn, hr, hw⟩ := h
      subst hn; subst hr; subst hw
      refine ⟨by simp, drainContinue_false _ _ _ (by simpa using hc), ?_⟩
      intro i hi; omega


end MosnVerif.Model.Shutdown
