import MosnVerif.Lemmas.PoolMux
/-! The observation of a multiplex-pool model state satisfying the invariant satisfies the executable predicate. -/
namespace MosnVerif.Model.PoolMux
open MosnVerif.Gen.PoolMux MosnVerif.Gen.Pool
open MosnVerif.Model.Pool (Stream Dial countLive OStream length_filter_range)

theorem exists_of_countOn_pos (f : Nat → Stream) (c n : Nat) (h : 0 < countOn f c n) :
    ∃ i, i < n ∧ (f i).live = true ∧ (f i).conn = c := by
  induction n with
  | zero => simp [countOn] at h
  | succ n ih =>
    simp only [countOn] at h
    by_cases hn : ((f n).live && (f n).conn == c) = true
    · simp only [Bool.and_eq_true, beq_iff_eq] at hn
      exact ⟨n, Nat.lt_succ_self n, hn.1, hn.2⟩
    · simp only [hn, if_false, Nat.add_zero] at h
      obtain ⟨i, hi, h1, h2⟩ := ih (by simpa using h)
      exact ⟨i, Nat.lt_succ_of_lt hi, h1, h2⟩

theorem liveConns_obsOf (s : State) (h : Inv s) :
    (obsOf s).liveConns = ((List.range s.nStreams).filter (fun i => (s.stream i).live)).map (fun i => (s.stream i).conn) := by
  simp only [Obs.liveConns, obsOf, List.filter_map, List.map_map]
  congr 1
  apply List.filter_congr
  intro i hi
  have hi' := List.mem_range.mp hi
  simp only [Function.comp, OStream.live]
  cases hl : (s.stream i).live
  · have := ((h.core.once i hi').2 hl).1; simp [this]
  · have := ((h.core.once i hi').1 hl).1; simp [this]

theorem mem_liveConns (s : State) (h : Inv s) (c : Nat) :
    c ∈ (obsOf s).liveConns ↔ ∃ i, i < s.nStreams ∧ (s.stream i).live = true ∧ (s.stream i).conn = c := by
  rw [liveConns_obsOf s h, List.mem_map]
  constructor
  · rintro ⟨i, hi, hc⟩
    simp only [List.mem_filter, List.mem_range] at hi
    exact ⟨i, hi.1, hi.2, hc⟩
  · rintro ⟨i, hi, hl, hc⟩
    exact ⟨i, by simp [List.mem_filter, hi, hl], hc⟩

theorem isOpen_obsOf (s : State) (c : Nat) :
    (obsOf s).isOpen c = (decide (c < s.nClients) && (s.client c).netOpen) := by
  simp only [Obs.isOpen, obsOf, List.getD_eq_getElem?_getD, List.getElem?_map]
  by_cases hc : c < s.nClients
  · simp [hc]
  · have hn : (List.range s.nClients)[c]? = none := by
      rw [List.getElem?_eq_none_iff]; simp; omega
    simp [hc]

theorem mem_usable (s : State) (c : Nat) :
    c ∈ (obsOf s).usable ↔ ∃ i, i < s.nSlots ∧ s.slot i = .real c ∧ (s.client c).state = muxConnected := by
  simp only [Obs.usable, obsOf, List.mem_filterMap, List.mem_map, List.mem_range]
  constructor
  · rintro ⟨sl, ⟨i, hi, rfl⟩, hsl⟩
    cases hs : s.slot i with
    | empty => simp [hs] at hsl
    | fake st => simp [hs] at hsl
    | real c' =>
      simp only [hs, Bool.true_and, decide_eq_true_eq] at hsl
      split at hsl
      · rename_i hst; cases hsl; exact ⟨i, hi, hs, hst⟩
      · cases hsl
  · rintro ⟨i, hi, hs, hst⟩
    exact ⟨_, ⟨i, hi, rfl⟩, by simp [hs, hst]⟩

theorem obsSpec_holds (s : State) (h : Inv s) : obsSpec s.maxReq s.ext (obsOf s) = true := by
  have hc := h.core
  have hlen : (obsOf s).liveConns.length = s.liveCount := by
    rw [liveConns_obsOf s h, List.length_map]; exact length_filter_range _ _
  unfold obsSpec
  simp only [Bool.and_eq_true, decide_eq_true_eq, List.all_eq_true, Bool.or_eq_true, Bool.not_eq_true',
    List.contains_iff_mem, isOpen_obsOf, beq_iff_eq]
  refine ⟨⟨⟨⟨⟨⟨?_, ?_⟩, ?_⟩, ?_⟩, ?_⟩, ?_⟩, ?_⟩
  · show s.reqCur = if s.maxReq = 0 then 0 else (s.ext : Int) + ((obsOf s).liveConns.length : Int)
    rw [hlen]; exact hc.req
  · show s.actHost = ((obsOf s).liveConns.length : Int)
    rw [hlen]; exact hc.act.1
  · show s.actCluster = ((obsOf s).liveConns.length : Int)
    rw [hlen]; exact hc.act.2
  · intro c hcu
    obtain ⟨i, _, hs, hst⟩ := (mem_usable s c).mp hcu
    have ⟨h1, _, h3⟩ := hc.slotOk i c hs
    exact ⟨h1, h3 hst⟩
  · intro c hcl
    obtain ⟨i, hi, hl, hcc⟩ := (mem_liveConns s h c).mp hcl
    subst hcc
    exact hc.liveOk i hi hl
  · intro c hcr
    have hc' : c < s.nClients := by simpa [obsOf] using List.mem_range.mp hcr
    cases ho : (s.client c).netOpen
    · left; left; simp
    · by_cases hg : (s.client c).goaway = 0
      · left; right
        have hs := hc.openOk c hc' ho hg
        exact (mem_usable s c).mpr ⟨_, hc.slotRange _ c hs, hs, (hc.st c hc').mpr hg⟩
      · right
        obtain ⟨i, hi, hl, hcc⟩ := exists_of_countOn_pos _ _ _ (h.drain c hc' ho hg)
        exact (mem_liveConns s h c).mpr ⟨i, hi, hl, hcc⟩
  · intro st hst
    simp only [obsOf, List.mem_map, List.mem_range] at hst
    obtain ⟨i, hi, rfl⟩ := hst
    simp only
    cases hl : (s.stream i).live
    · have ⟨d1, d2, d3, d4⟩ := (hc.once i hi).2 hl
      refine ⟨⟨⟨by omega, d2⟩, d3⟩, ?_⟩
      by_cases hr : (s.stream i).recv = 0
      · left; exact hr
      · right; exact ⟨d1, by have := d4 (by omega); simp [this]⟩
    · have ⟨f1, f2, f3⟩ := (hc.once i hi).1 hl
      refine ⟨⟨⟨by omega, by omega⟩, by simp [f3]⟩, Or.inl f2⟩

end MosnVerif.Model.PoolMux
