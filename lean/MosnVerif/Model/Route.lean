import MosnVerif.Gen.Route
/-!
# Model of MOSN's router (C04): `NewRouters`, `findVirtualHost`, rule matching  (core Lean only)

Mirrors pkg/router/{routers_impl.go, virtualhost.go, http_rule.go, rpc_rule.go, variable_rule.go, dsl_rule.go,
configutility.go} **after** the four `fix:` commits recorded in KNOWN_FINDINGS.txt.
`findVirtualHost`, the lookup `findHighestPriorityIndex`, the sort comparison `Less`, the matcher functions
(`StringMatch.Matches`, header conjunction, http / rpc / variable rule `Match`, `matchRoute`), the header-matcher
constructors (`NewKeyValueData`, `CreateCommonHeaderMatcher`, `CreateHTTPHeaderMatcher`, `NewBaseHTTPRouteRule`,
`CreateRPCRule`) and the two entry loops `GetRouteFromEntries` / `GetAllRoutesFromEntries` are **regenerated** from the
Go source (`Gen.Route.*`) and used here as they are; the table construction (`generateHostWithPortConfig`), the choice
of rule kind in `NewRouteBase` and the DSL rule are hand-modelled.  The request's header map is modelled per
implementation kind (`Req.kind`, `Req.hdr` in Model/RouteBase.lean).
`Spec` (bottom of the file) is the documented behaviour written declaratively from the configuration alone.
-/
namespace MosnVerif.Model.Route
open MosnVerif.Gen.Route

/-! ## net.SplitHostPort / splitHostPortGraceful -/

def indexOf (c : Char) : Str → Option Nat
  | [] => none
  | x :: r => if x = c then some 0 else (indexOf c r).map (· + 1)

def lastIndexOf (c : Char) : Str → Option Nat
  | [] => none
  | x :: r => match lastIndexOf c r with
    | some i => some (i + 1)
    | none => if x = c then some 0 else none

inductive SplitErr | missingPort | other
deriving DecidableEq, Repr

/-- `net.SplitHostPort` (Go 1.23 `net/ipsock.go`), errors reduced to "missing port" / anything else -/
def splitHostPort (hp : Str) : Except SplitErr (Str × Str) :=
  match lastIndexOf ':' hp with
  | none => .error .missingPort
  | some i =>
    if hp.head? = some '[' then
      match indexOf ']' hp with
      | none => .error .other                              -- missing ']' in address
      | some e =>
        if e + 1 = hp.length then .error .missingPort
        else if e + 1 = i then
          if (hp.drop 1).contains '[' then .error .other     -- unexpected '['
          else if (hp.drop (e + 1)).contains ']' then .error .other
          else .ok ((hp.take e).drop 1, hp.drop (i + 1))
        else if (hp.drop (e + 1)).head? = some ':' then .error .other  -- too many colons
        else .error .missingPort
    else
      let host := hp.take i
      if host.contains ':' then .error .other               -- too many colons
      else if hp.contains '[' then .error .other
      else if hp.contains ']' then .error .other
      else .ok (host, hp.drop (i + 1))

/-- `splitHostPortGraceful`: "missing port in address" is not an error -/
def splitGraceful (hp : Str) : Option (Str × Str) :=
  match splitHostPort hp with
  | .ok r => some r
  | .error .missingPort => some (hp, [])
  | .error .other => none

/-! ## configuration (the parts of v2.RouterConfiguration that selection depends on) -/

-- `Rx` and `HeaderCfg` (`v2.HeaderMatcher`) live in Model/RouteBase.lean: the regenerated constructors read them

-- `VarCfg` (`v2.VariableMatcher`) lives in Model/RouteBase.lean too: the regenerated `ParseToVariableMatchItem` reads it

/-- `v2.DslExpressionMatcher`: is the expression text empty, its oracle identifier, does it compile -/
structure DslCfg where
  empty : Bool
  id : Nat
  ok : Bool
deriving DecidableEq, Repr, Inhabited

/-- `v2.RouterMatch`; `regex = none` ⇔ `Regex == ""` -/
structure MatchCfg where
  prefix_ : Str
  path : Str
  regex : Option Rx
  variables : List VarCfg
  headers : List HeaderCfg
  dsl : List DslCfg := []
deriving Repr, Inhabited

structure VHostCfg where
  domains : List Str
  routers : List MatchCfg
deriving Repr, Inhabited

abbrev Config := List VHostCfg

inductive Err
  | nilConfig | noVirtualHost | noVirtualHostPort | duplicateVirtualHost | duplicateHostPort
  | badRegex        -- regexp.Compile error of a route's path regex (NewRouteBase)
  | badVariable     -- a variable matcher that ParseToVariableMatchItem rejects (NewRouteBase refuses the route, fix ae5aa1f19)
deriving DecidableEq, Repr

/-! ## rules (`NewRouteBase`) -/

inductive Rule
  | prefix_ (b : HttpBase) (p : Str)
  | path (b : HttpBase) (p : Str)
  | regex (b : HttpBase) (id : RegexId)
  | variable (items : List VarItem)
  | dsl (ids : List Nat)
  | rpc (r : RpcRule)
deriving Repr, Inhabited

def methodName : Str := ['m', 'e', 't', 'h', 'o', 'd']

/-! The header-matcher constructors are **regenerated** (`Gen.Route.newKeyValueData`,
`createCommonHeaderMatcher`, `createHTTPHeaderMatcher`, `newBaseHTTPRouteRule`, `createRPCRule`): how a configured
header name reaches the matcher, which entries are dropped, which become request-variable matchers and whether a
query-parameter matcher is installed are read off the Go source.  `Lemmas.gen_newKeyValueData`,
`gen_createCommon`, `gen_createHttp`, `gen_createRpc` give their closed forms. -/

/-- `ParseToVariableMatchItem` in closed form (`none` = the nil item the Go code returns for a bad regex / model;
`NewRouteBase` then fails).  `Props.C04.gen_parseVarItem`: the regenerated `Gen.Route.parseToVariableMatchItem`
equals it — a `regex` is always compiled into `regexPattern`, never stored as the exact `value`. -/
def parseVarItem (v : VarCfg) : Option VarItem :=
  let value := if v.value = [] then none else some v.value
  let rxp : Option (Option RegexId) := match v.regex with
    | none => some none
    | some r => if r.ok then some (some r.id) else none
  let model : Option Str :=
    if v.model = [] then some modelAnd
    else if lower v.model = modelAnd ∨ lower v.model = modelOr then some (lower v.model) else none
  match rxp, model with
  | some p, some m => some ⟨v.name, value, p, m⟩
  | _, _ => none

/-- `NewRouteBase`: the rule kind is decided by the first non-empty of Prefix, Path, Regex, Variables,
DslExpressions, (Headers); path / prefix / regex rules embed `NewBaseHTTPRouteRule(base, headers)`, a rule with none of
these is `CreateRPCRule(base, headers)` (hand-modelled, tied by the correspondence run; the constructors it calls are
regenerated) -/
def mkRule (m : MatchCfg) : Except Err Rule :=
  if m.prefix_ ≠ [] then .ok (.prefix_ (newBaseHTTPRouteRule m.headers) m.prefix_)
  else if m.path ≠ [] then .ok (.path (newBaseHTTPRouteRule m.headers) m.path)
  else match m.regex with
    | some r => if r.ok then .ok (.regex (newBaseHTTPRouteRule m.headers) r.id) else .error .badRegex
    | none =>
      if m.variables ≠ [] then
        match m.variables.mapM parseVarItem with
        | some items => .ok (.variable items)
        | none => .error .badVariable
      else if m.dsl ≠ [] then
        -- parseConfigToDslExpression: empty and non-compiling expressions are skipped
        .ok (.dsl (m.dsl.filterMap (fun d => if !d.empty && d.ok then some d.id else none)))
      else .ok (.rpc (createRPCRule m.headers))

/-- `NewVirtualHostImpl`: the rules in configuration order, or the first error -/
def mkRules : List MatchCfg → Except Err (List Rule)
  | [] => .ok []
  | m :: r => match mkRule m with
    | .error e => .error e
    | .ok x => match mkRules r with
      | .error e => .error e
      | .ok xs => .ok (x :: xs)

/-! ## `NewRouters` -/

def star : Str := ['*']

/-- `generateHostWithPortConfig` -/
def addEntry (t : Tables) (host port : Str) (index : Int) : Except Err Tables :=
  if host = [] ∧ port = [] then .error .noVirtualHost
  else if host = star ∧ (port = star ∨ port = []) then
    if t.defaultVirtualHostIndex ≠ -1 then .error .duplicateVirtualHost
    else .ok { t with defaultVirtualHostIndex := index }
  else if ¬ host.contains '*' then
    match mapGet t.virtualHostPortsMap host with
    | none => .ok { t with virtualHostPortsMap := mapSet t.virtualHostPortsMap host [(port, index)] }
    | some m =>
      match mapGet m port with
      | some _ => .error .duplicateHostPort
      | none => .ok { t with virtualHostPortsMap := mapSet t.virtualHostPortsMap host (mapSet m port index) }
  else if host.head? = some '*' then
    let w : Wild := ⟨(host.length : Int) - 1, host.drop 1, index⟩
    match mapGet t.portWildcardVirtualHost port with
    | none => .ok { t with portWildcardVirtualHost := mapSet t.portWildcardVirtualHost port [w] }
    | some l =>
      if l.any (fun x => x.host = w.host) then .error .duplicateVirtualHost
      else .ok { t with portWildcardVirtualHost := mapSet t.portWildcardVirtualHost port (l ++ [w]) }
  else .error .noVirtualHostPort

/-- the domain loop of one virtual host -/
def addDomains (index : Int) : List Str → Tables → Except Err Tables
  | [], t => .ok t
  | d :: ds, t =>
    match splitGraceful (lower d) with
    | none => .error .noVirtualHostPort
    | some (h, p) =>
      match addEntry t h p index with
      | .error e => .error e
      | .ok t' => addDomains index ds t'

/-- the virtual-host loop of `NewRouters` (rules of a virtual host are built before its domains are entered) -/
def buildVhosts : List VHostCfg → Int → Tables → Except Err Tables
  | [], _, t => .ok t
  | vh :: r, index, t =>
    match mkRules vh.routers with
    | .error e => .error e
    | .ok _ =>
      match addDomains index vh.domains t with
      | .error e => .error e
      | .ok t' => buildVhosts r (index + 1) t'

def emptyTables : Tables := ⟨-1, [], []⟩

/-- what `sort.Sort(WildcardVirtualHostWithPortSlice(l))` guarantees about its result, with the regenerated `Less`
(`sort.Sort` is not stable: the theorems hold for *every* function with this contract). -/
structure IsSorter (srt : List Wild → List Wild) : Prop where
  perm : ∀ l, (srt l).Perm l
  sorted : ∀ l, (srt l).Pairwise (fun a b => less b a = false)

def sortTables (srt : List Wild → List Wild) (t : Tables) : Tables :=
  { t with portWildcardVirtualHost := t.portWildcardVirtualHost.map (fun kv => (kv.1, srt kv.2)) }

/-- `NewRouters` (lookup tables only; the rules are `mkRules` of each virtual host) -/
def build (srt : List Wild → List Wild) (cfg : Config) : Except Err Tables :=
  if cfg = [] then .error .nilConfig
  else match buildVhosts cfg 0 emptyTables with
    | .error e => .error e
    | .ok t => .ok (sortTables srt t)

/-- an executable sorter satisfying `IsSorter` (insertion sort with the regenerated `Less`), used by the driver -/
def insertWild (x : Wild) : List Wild → List Wild
  | [] => [x]
  | y :: r => if less y x then y :: insertWild x r else x :: y :: r

def isort (l : List Wild) : List Wild := l.foldr insertWild []

/-! ## `findVirtualHost` -/

/-- `routersImpl.findVirtualHost` after the `fix:` commit: −1 = no virtual host.  `hostVar` is
`variable.GetString(ctx, types.VarHost)` (`none` = error / unset). -/
def findVirtualHost (t : Tables) (hostVar : Option Str) : Int :=
  if t.virtualHostPortsMap.length = 0 ∧ t.portWildcardVirtualHost.length = 0 ∧ t.defaultVirtualHostIndex ≠ -1 then
    t.defaultVirtualHostIndex
  else
    match hostVar with
    | none => t.defaultVirtualHostIndex
    | some h =>
      if h = [] then t.defaultVirtualHostIndex
      else match splitGraceful (lower h) with
        | none => t.defaultVirtualHostIndex
        | some (host, port) => findHighestPriorityIndex t host port

/-- the regenerated `findVirtualHost` on a request (`Lemmas.gen_findVirtualHost`: equal to the closed form above) -/
def findVirtualHostG (t : Tables) (req : Req) : Int := Gen.Route.findVirtualHost splitGraceful t req.var

/-! ## rule matching and selection (`GetRouteFromEntries`, `GetAllRoutesFromEntries`) -/

/-- the loop of `VariableRouteRuleImpl.Match` in closed form (`result`, `lastMode` are the loop-carried variables);
`Lemmas.gen_variableMatch`: the regenerated function equals it -/
def varLoop (rx : RxOracle) (ctx : Str → Option Str) : List VarItem → Bool → Str → Bool
  | [], result, _ => result
  | v :: r, result, lastMode =>
    let actual := (ctx v.name).getD []
    let cur := match v.value with
      | some x => decide (x = actual)
      | none => false
    let cur := match v.regexPattern with
      | some id => rx id actual
      | none => cur
    let result := if lastMode = modelAnd then result && cur else cur
    if result && decide (v.model = modelOr) then result
    else varLoop rx ctx r result v.model

/-- `route.Match(ctx, headers) != nil` -/
def matchRule (rx : RxOracle) (req : Req) : Rule → Bool
  | .prefix_ b p => prefixMatch rx req.pq req.var req.hdr b p
  | .path b p => pathMatch rx req.pq req.var req.hdr b p
  | .regex b id => regexMatch rx req.pq req.var req.hdr b id
  | .variable items => variableMatch rx req.var items
  -- DslExpressionRouteRuleImpl.Match (hand-modelled): an evaluation error or a non-boolean value does not hold
  | .dsl ids => ids.all (fun i => req.dsl i == some true)
  | .rpc r => rpcMatch rx req.hdr r.fastmatch r.configHeaders

/-- `route.Match(ctx, headers)` on a rule paired with its position: the pair itself or nil -/
def matchIdx (rx : RxOracle) (req : Req) (p : Rule × Nat) : Option (Rule × Nat) :=
  if matchRule rx req p.1 then some p else none

/-- `GetRouteFromEntries` (the regenerated loop run on the rules paired with their positions): index of the
returned rule -/
def selectRoute (rx : RxOracle) (req : Req) (rules : List Rule) : Option Nat :=
  (getRouteFromEntries (matchIdx rx req) rules.zipIdx).map (·.2)

/-- `GetAllRoutesFromEntries` (regenerated loop): indices of the returned rules -/
def allRoutes (rx : RxOracle) (req : Req) (rules : List Rule) : List Nat :=
  (getAllRoutesFromEntries (matchIdx rx req) rules.zipIdx).map (·.2)

/-- the rules of virtual host `i` as `NewVirtualHostImpl` built them -/
def rulesOf (cfg : Config) (i : Nat) : List Rule :=
  match cfg[i]? with
  | some v => (match mkRules v.routers with | .ok rs => rs | .error _ => [])
  | none => []

/-- what `MatchRoute` and `MatchAllRoutes` return for a request on the routers built from `cfg`:
(virtual-host index or −1, index of the returned rule, indices of all returned rules) -/
def answer (rx : RxOracle) (t : Tables) (cfg : Config) (req : Req) : Int × Option Nat × List Nat :=
  let vh := findVirtualHostG t req
  if vh < 0 then (vh, none, [])
  else (vh, selectRoute rx req (rulesOf cfg vh.toNat), allRoutes rx req (rulesOf cfg vh.toNat))

/-! ## Spec: the documented behaviour, written declaratively from the *configuration* -/
namespace Spec

/-- a configured domain: owning virtual host, lower-cased host part and port part -/
structure Entry where
  idx : Int
  host : Str
  port : Str
deriving DecidableEq, Repr

/-- the domains of virtual hosts numbered from `i`, in configuration order (unparsable ones cannot match) -/
def entriesFrom : List VHostCfg → Int → List Entry
  | [], _ => []
  | vh :: r, i => (vh.domains.filterMap (fun d => (splitGraceful (lower d)).map (fun hp => ⟨i, hp.1, hp.2⟩)))
      ++ entriesFrom r (i + 1)

def entries (cfg : Config) : List Entry := entriesFrom cfg 0

/-- the default domain `*` (also written `*:*`) -/
def Entry.isDefault (e : Entry) : Bool := decide (e.host = ['*']) && (decide (e.port = ['*']) || decide (e.port = []))

/-- an exact (wildcard-free) host name -/
def Entry.isExact (e : Entry) : Bool := !e.isDefault && !e.host.contains '*'

/-- a wildcard-suffix domain `*<suffix>` -/
def Entry.isWild (e : Entry) : Bool := !e.isDefault && decide (e.host.head? = some '*')

def Entry.suffix (e : Entry) : Str := e.host.drop 1

/-- `*<suffix>` matches a host that ends in `<suffix>` and is strictly longer -/
def Entry.wildMatches (e : Entry) (h : Str) : Bool :=
  decide (e.suffix.length < h.length) && e.suffix.isSuffixOf h

/-- first element with the largest key -/
def best {α : Type} (key : α → Nat) : List α → Option α
  | [] => none
  | x :: r => match best key r with
    | some y => if key x ≥ key y then some x else some y
    | none => some x

/-- the request host as the router reads it: lower-cased and split; `none` when unset, empty or unparsable -/
def reqHost (hostVar : Option Str) : Option (Str × Str) :=
  match hostVar with
  | none => none
  | some h => if h = [] then none else splitGraceful (lower h)

/-- **documented precedence**: exact host + exact port, exact host + wildcard port, longest matching wildcard
suffix with exact port, then with wildcard port, then the default; −1 = no virtual host. -/
def vhost (cfg : Config) (hostVar : Option Str) : Int :=
  let es := entries cfg
  let dflt := (es.find? Entry.isDefault).map (·.idx)
  let pick : Option Int :=
    match reqHost hostVar with
    | none => none
    | some (h, p) =>
      let p1 := (es.find? (fun e => e.isExact && decide (e.host = h) && decide (e.port = p))).map (·.idx)
      let p2 := (es.find? (fun e => e.isExact && decide (e.host = h) && decide (e.port = ['*']))).map (·.idx)
      let p3 := (best (fun e => e.suffix.length) (es.filter (fun e => e.isWild && e.wildMatches h && decide (e.port = p)))).map (·.idx)
      let p4 := (best (fun e => e.suffix.length) (es.filter (fun e => e.isWild && e.wildMatches h && decide (e.port = ['*'])))).map (·.idx)
      p1.or (p2.or (p3.or p4))
  ((pick.or dflt).getD (-1))

/-! ### rules -/

/-- **documented rule for header names**: a configured header name is matched the way the request's protocol matches
header names — exactly (byte for byte) for the xprotocol / RPC header maps, ignoring letter case for HTTP; the value
is that of the first header of the request carrying the name.  HTTP/2 in addition answers the pseudo headers from the
request line and treats a header with an empty value as absent. -/
def hdrValue (req : Req) (name : Str) : Option Str :=
  match req.kind with
  | .exact => (req.hdrs.find? (fun kv => decide (kv.1 = name))).map (·.2)
  | .fold => (req.hdrs.find? (fun kv => decide (lower kv.1 = lower name))).map (·.2)
  | .h2 =>
    if name.head? = some ':' then (req.pseudo.find? (fun kv => decide (kv.1 = name))).map (·.2)
    else ((req.hdrs.find? (fun kv => decide (lower kv.1 = lower name))).map (·.2)).filter (fun v => decide (v ≠ []))

/-- a header matcher holds: exact value, or regex (a matcher whose pattern does not compile is ignored, as MOSN
documents: "parse route header matcher config failed, ignore it") -/
def headerHolds (rx : RxOracle) (req : Req) (h : HeaderCfg) : Bool :=
  if h.regex then
    if h.rx.ok then
      match hdrValue req h.name with
      | some v => rx h.rx.id v
      | none => false
    else true
  else decide (hdrValue req h.name = some h.value)

/-- the effective `method` matcher of an HTTP rule: the **last** `method` entry (MOSN keeps the matchers that
are request variables in a map keyed by the variable, so a later entry replaces an earlier one) -/
def methodOf : List HeaderCfg → Option Str
  | [] => none
  | h :: r => match methodOf r with
    | some m => some m
    | none => if h.name = ['m', 'e', 't', 'h', 'o', 'd'] then some h.value else none

/-- header + method matchers of an HTTP rule -/
def httpHeadersHold (rx : RxOracle) (req : Req) (hs : List HeaderCfg) : Bool :=
  (match methodOf hs with
   | some m => decide (req.var ['x', '-', 'm', 'o', 's', 'n', '-', 'm', 'e', 't', 'h', 'o', 'd'] = some m)
   | none => true) &&
  (hs.filter (fun h => decide (h.name ≠ ['m', 'e', 't', 'h', 'o', 'd']))).all (headerHolds rx req)

/-- the request path, if set and non-empty -/
def reqPath (req : Req) : Option Str :=
  match req.var ['x', '-', 'm', 'o', 's', 'n', '-', 'p', 'a', 't', 'h'] with
  | some p => if p = [] then none else some p
  | none => none

def varItemHolds (rx : RxOracle) (req : Req) (v : VarCfg) : Bool :=
  let actual := (req.var v.name).getD []
  match v.regex with
  | some r => rx r.id actual
  | none => decide (v.value ≠ []) && decide (v.value = actual)

def isOr (v : VarCfg) : Bool := decide (lower v.model = ['o', 'r'])

/-- variable matchers: a disjunction (`model: or` ends a group) of conjunctions -/
def varsHold (rx : RxOracle) (req : Req) : List VarCfg → Bool → Bool
  | [], acc => acc
  | v :: r, acc =>
    let acc := acc && varItemHolds rx req v
    if isOr v then acc || (r ≠ [] && varsHold rx req r true) else varsHold rx req r acc

/-- do all matchers of the configured route hold for the request? -/
def ruleHolds (rx : RxOracle) (req : Req) (m : MatchCfg) : Bool :=
  if m.prefix_ ≠ [] then
    (match reqPath req with | some p => m.prefix_.isPrefixOf p | none => false) && httpHeadersHold rx req m.headers
  else if m.path ≠ [] then
    (match reqPath req with | some p => decide (lower p = lower m.path) | none => false) && httpHeadersHold rx req m.headers
  else match m.regex with
    | some r =>
      (match reqPath req with | some p => rx r.id p | none => false) && httpHeadersHold rx req m.headers
    | none =>
      if m.variables ≠ [] then varsHold rx req m.variables true
      else if m.dsl ≠ [] then
        -- DSL rule: every expression that is non-empty and compiles evaluates to true
        m.dsl.all (fun d => d.empty || !d.ok || req.dsl d.id == some true)
      else
        -- RPC rule; a lone exact `service` matcher keeps the legacy "simple sofa rule" meaning
        match m.headers with
        | [h] =>
          if h.name = ['s', 'e', 'r', 'v', 'i', 'c', 'e'] ∧ h.regex = false ∧ h.value ≠ [] then
            match hdrValue req h.name with
            | some v => decide (v ≠ []) && (decide (v = h.value) || decide (h.value = ['.', '*']))
            | none => false
          else headerHolds rx req h
        | hs => hs.all (headerHolds rx req)

/-- **first match**: index of the first configured route whose matchers all hold -/
def route (rx : RxOracle) (req : Req) (ms : List MatchCfg) : Option Nat := ms.findIdx? (ruleHolds rx req)

/-- indices of all configured routes whose matchers hold -/
def routesAll (rx : RxOracle) (req : Req) (ms : List MatchCfg) : List Nat :=
  (List.range ms.length).filter (fun j => (ms[j]?).any (ruleHolds rx req))

/-- the documented answer: virtual host by precedence, then first match within it -/
def answer (rx : RxOracle) (cfg : Config) (req : Req) : Int × Option Nat × List Nat :=
  let vh := vhost cfg (req.var ['x', '-', 'm', 'o', 's', 'n', '-', 'h', 'o', 's', 't'])
  let ms := match cfg[vh.toNat]? with | some v => v.routers | none => []
  if vh < 0 then (vh, none, []) else (vh, route rx req ms, routesAll rx req ms)

end Spec

end MosnVerif.Model.Route
