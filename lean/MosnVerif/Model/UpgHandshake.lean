import MosnVerif.Gen.UpgHandshake
/-!
# Hot upgrade: the hand-shake of the old and the new process over the listen socket (core Lean only)

Times are milliseconds (unbounded `Nat`) on one clock that starts when the old process begins to wait for the new one's
ready byte.  The OLD process executes the regenerated step list of `ReconfigureHandler` (states serving → got-ready →
acked → draining → exited are the prefixes of that list); `shutdown` is `stopAccept` at its first instant and then
lasts as long as the drain (`shutdownDur`).  The NEW process has started its listeners before it sends ready at
`tReady` (`newAcceptsBeforeReady`), waits `ackDeadlineMs` for the ack and gives up (the stage manager stops it) without.
-/
namespace MosnVerif.Model.UpgHandshake
open MosnVerif.Gen.UpgHandshake

structure Old where
  clock : Nat := 0
  ackAt : Option Nat := none    -- the ack byte is written
  stopAt : Option Nat := none   -- stopAccept: from here on the old process accepts nothing
  exitAt : Option Nat := none
  aborted : Bool := false       -- the ready byte did not come in time: ReconfigureHandler returned an error, the old process goes on serving
deriving Repr, DecidableEq

/-- how long `shutdownServers` lasts: until every request in flight has ended, at most the drain time -/
def shutdownDur (drainTime : Nat) (inflight : List Nat) : Nat := min drainTime (inflight.foldl max 0)

def oldStep (tReady sd wd : Nat) (o : Old) (s : OldStep) : Old :=
  if o.aborted then o else
  match s with
  | .sendListeners => o
  | .readReady => if tReady ≤ o.clock + readyDeadlineMs then { o with clock := max o.clock tReady } else { o with aborted := true }
  | .writeAck => { o with ackAt := some o.clock }
  | .stopService => o
  | .sleep ms => { o with clock := o.clock + ms }
  | .shutdown => { o with stopAt := some o.clock, clock := o.clock + sd }
  | .waitDone => { o with clock := o.clock + wd }
  | .exit => { o with exitAt := some o.clock }

def runOld (steps : List OldStep) (tReady sd wd : Nat) : Old := steps.foldl (oldStep tReady sd wd) {}

/-- the instant at which the new process gives up, if it does -/
def gaveUpAt (o : Old) (tReady : Nat) : Option Nat :=
  if !newGivesUpWithoutAck then none else
  match o.ackAt with
  | some a => if a ≤ tReady + ackDeadlineMs then none else some (tReady + ackDeadlineMs)
  | none => some (tReady + ackDeadlineMs)

def oldAccepts (o : Old) (t : Nat) : Bool := match o.stopAt with | none => true | some s => decide (t < s)
def newAccepts (o : Old) (tReady t : Nat) : Bool :=
  newAcceptsBeforeReady && decide (tReady ≤ t) && (match gaveUpAt o tReady with | none => true | some g => decide (t < g))

/-- the code that exists -/
def upgrade (tReady drainTime : Nat) (inflight : List Nat) (wd : Nat) : Old :=
  runOld oldSteps tReady (shutdownDur drainTime inflight) wd

end MosnVerif.Model.UpgHandshake
