import MosnVerif.Gen.DumpProto
/-!
The protocol that keeps the persisted configuration file up to date (property C12; `pkg/configmanager/dump_action.go`,
`effectiveconfig.go`, `featuregate.go`).

* Every mutator of the effective config (`SetClusterConfig`, `SetHosts`, `SetRouter`, `SetListenerConfig`, …) writes the config
  and THEN requests a dump (`tryDump` → `setDump`, with feature gate `auto_config` on): it raises the shared flag `dumping`.
* The dumper (`DumpConfigHandler`, one round every 3 s under `DumpLock`; also `reconfigure`) runs `DumpConfig`: test the flag,
  snapshot the effective config (`transferConfig`), write the file (`utils.WriteFileSafety`), re-raise the flag when the write
  failed.

`Gen/DumpProto.lean` is the regenerated text of `DumpConfig` and `setDump` as decision trees of atomic actions (`Prog`). This
file gives the actions their meaning: the effective config and the file are VERSION NUMBERS (`live` = number of updates applied
so far, `file` = the version the file holds), the flag is an `Int`; one dumper (rounds are serialised by `DumpLock`) and any
number of mutator threads run under an arbitrary schedule, one atomic action per schedule entry. `sync/atomic` accesses are
single steps; the snapshot is atomic with respect to an update (config read lock vs. write lock — trusted); the config lock is
otherwise not modelled, which only ADDS interleavings (a request may even be separated from its update by a snapshot).
The outcome of a file write (success / failure) is chosen by the schedule.
-/
namespace MosnVerif.Model.DumpProto
open MosnVerif.Gen.DumpProto

/-- the dumper: remaining program of the round in progress (`done` = between two rounds) and its local `content` -/
structure Dumper where
  rest : Prog := .done
  content : Option Nat := none
deriving Repr, DecidableEq, Inhabited

/-- a mutator thread: idle, or it has written the effective config and is running `setDump` (remaining program) -/
inductive MState where
  | idle
  | run (rest : Prog)
deriving Repr, DecidableEq, Inhabited

structure Conf where
  /-- version of the effective config -/
  live : Nat := 0
  /-- version held by the file -/
  file : Nat := 0
  /-- the `dumping` flag -/
  flag : Int := 0
  d : Dumper := {}
  m : Nat → MState := fun _ => .idle
  /-- the program of a dump round and of a dump request -/
  prog : Prog
  setp : Prog

/-- a schedule entry: the dumper takes one step (`writeOk` = outcome of the file write, if the step is one), or mutator `t`
takes one step. -/
inductive Ev where
  | dump (writeOk : Bool)
  | upd (t : Nat)
deriving Repr, DecidableEq, Inhabited

def setM (m : Nat → MState) (t : Nat) (v : MState) : Nat → MState := fun u => if u = t then v else m u

/-- one step of the dumper -/
def stepDump (c : Conf) (w : Bool) : Conf :=
  match c.d.rest with
  | .done => { c with d := ⟨c.prog, none⟩ }                                  -- the next round starts
  | .cas o n t f => if c.flag = o then { c with flag := n, d := { c.d with rest := t } } else { c with d := { c.d with rest := f } }
  | .load v t f => { c with d := { c.d with rest := if c.flag = v then t else f } }
  | .store v k => { c with flag := v, d := { c.d with rest := k } }
  | .snapshot k => { c with d := ⟨k, some c.live⟩ }
  | .write t f =>
    if w then { c with file := c.d.content.getD c.file, d := { c.d with rest := t } }
    else { c with d := { c.d with rest := f } }

/-- one step of mutator `t`: write the effective config, then `setDump` action by action (the snapshot / write actions do not
occur in a request; they are skipped), then back to idle -/
def stepMut (c : Conf) (t : Nat) : Conf :=
  match c.m t with
  | .idle => { c with live := c.live + 1, m := setM c.m t (.run c.setp) }
  | .run .done => { c with m := setM c.m t .idle }
  | .run (.cas o n a b) => if c.flag = o then { c with flag := n, m := setM c.m t (.run a) } else { c with m := setM c.m t (.run b) }
  | .run (.load v a b) => { c with m := setM c.m t (.run (if c.flag = v then a else b)) }
  | .run (.store v k) => { c with flag := v, m := setM c.m t (.run k) }
  | .run (.snapshot k) => { c with m := setM c.m t (.run k) }
  | .run (.write a _) => { c with m := setM c.m t (.run a) }

def step (c : Conf) : Ev → Conf
  | .dump w => stepDump c w
  | .upd t => stepMut c t

def run (c : Conf) (sched : List Ev) : Conf := sched.foldl step c

def initConf (prog setp : Prog) : Conf := { prog := prog, setp := setp }

/-! ## the discipline of a dump round (abstract interpretation of the decision tree) -/

/-- what the round in progress still owes: nothing; a snapshot + write (it has, or may have, taken the request away: cleared
the flag); the write of the snapshot it holds (taken after the request was taken away). -/
inductive Ob where
  | clean | owe | holding
deriving Repr, DecidableEq, Inhabited

/-- `disc a has p`: from obligation `a` (`has` = a snapshot was taken in this round) every path of `p` ends with nothing owed:
a request that was taken away is followed by a snapshot and a successful write of it, or the flag is raised again; the flag is
only written 0 / 1; nothing is written to the file before a snapshot was taken. -/
def disc : Ob → Bool → Prog → Bool
  | a, _, .done => a == .clean
  | _, h, .store v k => if v == 1 then disc .clean h k else if v == 0 then disc .owe h k else false
  | a, h, .cas o n t f =>
    if o == 1 && n == 0 then disc .owe h t && disc a h f          -- success: the request is taken away; failure: flag was not 1
    else if o == 0 && n == 1 then disc .clean h t && disc .clean h f  -- either way the flag is 1 afterwards
    else false
  | a, h, .load _ t f => disc a h t && disc a h f
  | a, _, .snapshot k => disc (if a == .owe then .holding else a) true k
  | a, h, .write t f => h && disc (if a == .holding then .clean else a) h t && disc (if a == .holding then .owe else a) h f

/-- a request program that never lowers the flag and never touches the file -/
def noClear : Prog → Bool
  | .done => true
  | .store v k => v == 1 && noClear k
  | .cas _ n t f => n == 1 && noClear t && noClear f
  | .load _ t f => noClear t && noClear f
  | .snapshot _ => false
  | .write _ _ => false

/-- a request program on every path of which the flag IS 1 at some step (set by it, or seen set), and that never lowers it -/
def setOk : Prog → Bool
  | .store v k => v == 1 && noClear k
  | .cas o n t f => o == 0 && n == 1 && noClear t && noClear f
  | .load v t f => if v == 1 then noClear t && setOk f else if v == 0 then setOk t && noClear f else false
  | _ => false

/-! ## a quiet round (no update, the write succeeds), symbolically: flag, "file is current", "a snapshot is held" -/

def quiet : Prog → Int → Bool → Bool → Int × Bool
  | .done, fl, cur, _ => (fl, cur)
  | .cas o n t f, fl, cur, h => if fl = o then quiet t n cur h else quiet f fl cur h
  | .load v t f, fl, cur, h => if fl = v then quiet t fl cur h else quiet f fl cur h
  | .store v k, _, cur, h => quiet k v cur h
  | .snapshot k, fl, cur, _ => quiet k fl cur true
  | .write t _, fl, cur, h => quiet t fl (h || cur) h

/-- number of steps of that round -/
def quietLen : Prog → Int → Nat
  | .done, _ => 0
  | .cas o n t f, fl => (if fl = o then quietLen t n else quietLen f fl) + 1
  | .load v t f, fl => (if fl = v then quietLen t fl else quietLen f fl) + 1
  | .store v k, _ => quietLen k v + 1
  | .snapshot k, fl => quietLen k fl + 1
  | .write t _, fl => quietLen t fl + 1

/-- a quiet round started with a pending request (or with a current file) ends with a current file -/
def quietOk (p : Prog) : Bool := (quiet p 1 false false).2 && (quiet p 1 true false).2 && (quiet p 0 true false).2

/-- the discipline the regenerated code must have (checked by `decide` in `Props/C12`) -/
def protocolOk : Bool :=
  disc .clean false dumpConfig && quietOk dumpConfig && setOk setDump &&
  tryDumpGated && snapshotUnderReadLock && writersRequestingBeforeWrite.isEmpty &&
  writersWithoutDumpRequest.all (fun f => f == "Reset" || f == "SetMosnConfig")

/-- the "read the flag, clear it after the write" shape (NOT what the code does; for the machine-checked negative witness) -/
def clearAfterWrite : Prog :=
  .load 1 (.snapshot (.write (.store 0 .done) (.cas 0 1 .done .done))) .done

/-! ## driving a script (what the harness does with the real `DumpConfig`) -/

/-- where an update is injected into a dump round: nowhere, right before the snapshot, right after the snapshot -/
inductive Point where
  | none | beforeSnap | afterSnap
deriving Repr, DecidableEq, Inhabited

/-- a request run alone from flag `fl`: number of its steps, and the flag afterwards -/
def reqLen : Prog → Int → Nat
  | .done, _ => 0
  | .cas o n a b, fl => (if fl = o then reqLen a n else reqLen b fl) + 1
  | .load v a b, fl => (if fl = v then reqLen a fl else reqLen b fl) + 1
  | .store v k, _ => reqLen k v + 1
  | .snapshot k, fl => reqLen k fl + 1
  | .write a _, fl => reqLen a fl + 1

def reqFlag : Prog → Int → Int
  | .done, fl => fl
  | .cas o n a b, fl => if fl = o then reqFlag a n else reqFlag b fl
  | .load v a b, fl => if fl = v then reqFlag a fl else reqFlag b fl
  | .store v k, _ => reqFlag k v
  | .snapshot k, fl => reqFlag k fl
  | .write a _, fl => reqFlag a fl

/-- the schedule of one whole update by mutator 1 (write the config, run the request `setp` alone from flag `fl`, back to idle) -/
def updateSched (setp : Prog) (fl : Int) : List Ev := List.replicate (reqLen setp fl + 2) (.upd 1)

/-- the schedule of the rest `p` of a dump round from flag `fl`: every file write has outcome `w`; one whole update is injected
at point `pt` if the round gets there (`inj` = already injected). -/
def roundSched (pt : Point) (w : Bool) (setp : Prog) : Prog → Int → Bool → List Ev
  | .done, _, _ => []
  | .cas o n t f, fl, inj => .dump w :: (if fl = o then roundSched pt w setp t n inj else roundSched pt w setp f fl inj)
  | .load v t f, fl, inj => .dump w :: (if fl = v then roundSched pt w setp t fl inj else roundSched pt w setp f fl inj)
  | .store v k, _, inj => .dump w :: roundSched pt w setp k v inj
  | .snapshot k, fl, inj =>
    if pt = .beforeSnap ∧ inj = false then
      updateSched setp fl ++ (.dump w :: roundSched pt w setp k (reqFlag setp fl) true)
    else if pt = .afterSnap ∧ inj = false then
      .dump w :: (updateSched setp fl ++ roundSched pt w setp k (reqFlag setp fl) true)
    else .dump w :: roundSched pt w setp k fl inj
  | .write t f, fl, inj => .dump w :: (if w then roundSched pt w setp t fl inj else roundSched pt w setp f fl inj)

/-- a whole round from a configuration between two rounds: the step that starts it, then the program -/
def fullRound (pt : Point) (w : Bool) (c : Conf) : List Ev := .dump w :: roundSched pt w c.setp c.prog c.flag false

/-- a script item: an update between two rounds, or a dump round -/
inductive Item where
  | update
  | round (pt : Point) (w : Bool)
deriving Repr, DecidableEq, Inhabited

/-- what is observed after a round -/
structure RoundObs where
  file : Nat
  live : Nat
  wanted : Bool
deriving Repr, DecidableEq, Inhabited

def itemSched (c : Conf) : Item → List Ev
  | .update => updateSched c.setp c.flag
  | .round pt w => fullRound pt w c

/-- run a script; one observation per round -/
def runScript (c : Conf) : List Item → List RoundObs
  | [] => []
  | .update :: r => runScript (run c (itemSched c .update)) r
  | .round pt w :: r =>
    let c' := run c (itemSched c (.round pt w))
    ⟨c'.file, c'.live, c'.flag == 1⟩ :: runScript c' r

/-- the schedule of a whole script -/
def scriptSched (c : Conf) : List Item → List Ev
  | [] => []
  | it :: r => itemSched c it ++ scriptSched (run c (itemSched c it)) r

namespace Spec
/-- the property on what the implementation showed: after EVERY dump round a file that is behind the effective config has a
pending request (`wanted`), and a round with no update inside it and a successful write leaves the file current. Plain data
only (no model function, no regenerated code). -/
def dumpHolds : List Item → List RoundObs → Bool
  | [], [] => true
  | .update :: r, obs => dumpHolds r obs
  | .round pt w :: r, ob :: obs =>
    (ob.file == ob.live || ob.wanted) && (!(pt == .none && w) || ob.file == ob.live) && dumpHolds r obs
  | _, _ => false
end Spec

end MosnVerif.Model.DumpProto
