import MosnVerif.Gen.H2GoAway
import MosnVerif.Gen.C08H2Trailers
/-!
The per-stream rule of the HTTP/2 graceful stop: what `MServerConn` (pkg/module/http2/mhttp2.go) does with the frames
of a request once the connection has sent its GOAWAY.

On graceful shutdown the proxy calls `serverStreamConnection.GoAway()` → `MServerConn.GracefulShutdown()` →
`goAway(ErrCodeNo)`: a GOAWAY carrying `maxClientStreamID` is written and `inGoAway` is set.  The GOAWAY promises that
streams up to that id are still processed; only later ones may be discarded.  This file models the receive side of one
server connection as a function of the frames (HEADERS, DATA, RST_STREAM of the peer) and of the moment at which the
shutdown happens — `shutdown` is one more event of the list, so theorems over all event lists cover every arrival time
of the GOAWAY relative to the HEADERS / DATA frames of a request.

Regenerated (`Gen.H2GoAway`): the guard under which `processData` drops a DATA frame and `processHeaders` ignores a
HEADERS frame and `processResetStream` discards an RST_STREAM frame (over inGoAway, goAwayCode, the stream id and
maxClientStreamID), the stale-id test, the code of the
graceful GOAWAY, the error codes.  Hand-modelled from the source: the stream-state checks of `processData`
(idle ⇒ PROTOCOL_ERROR connection error; closed / half-closed ⇒ STREAM_CLOSED stream error; more than the declared
content-length ⇒ STREAM_CLOSED), trailers, the error handling of `HandleFrame` (stream error ⇒ RST_STREAM if the stream
exists + the stream is dropped; connection error ⇒ `goAway(code)` and the stream layer closes the connection).
Not modelled: receive-side flow control (windows are 2^30 and refilled below half: bodies < 2^29 bytes), the
concurrent-stream limit, header validation, padding.
-/
namespace MosnVerif.Model.H2GoAway
open MosnVerif.Gen.H2GoAway

structure Strm where
  id : Nat
  /-- `st.state`: false = stateOpen, true = stateHalfClosedRemote (a closed stream is not in the table) -/
  halfClosed : Bool
  /-- `st.bodyBytes` -/
  body : Nat
  /-- `st.declBodyBytes` (`none` = -1: no content-length) -/
  decl : Option Nat
  gotTrailer : Bool
deriving DecidableEq, Repr

/-- what the stream layer and the peer see -/
inductive Out
  | deliver (id body : Nat)        -- END_STREAM reported for stream id: the request (so many body bytes) goes to the proxy
  | goAway (last : Nat) (code : Int)
  | rst (id : Nat) (code : Int)
  | closed                         -- connection error: the stream layer closes the connection
deriving DecidableEq, Repr

inductive Ev
  | headers (id : Nat) (endStream : Bool) (decl : Option Nat)   -- request HEADERS; trailers when the stream is in the table
  | data (id len : Nat) (endStream : Bool)
  | rst (id : Nat)                                              -- RST_STREAM from the peer
  | shutdown                                                    -- `serverStreamConnection.GoAway()` (graceful stop)
deriving DecidableEq, Repr

structure Conn where
  inGoAway : Bool
  code : Int
  maxId : Nat
  /-- `sc.streams` (a Go map: stream id ↦ stream) -/
  streams : Nat → Option Strm
  /-- the stream layer closed the connection after a connection error -/
  dead : Bool

def Conn.initial : Conn := ⟨false, 0, 0, fun _ => none, false⟩

def getS (c : Conn) (id : Nat) : Option Strm := c.streams id
def setS (c : Conn) (id : Nat) (st : Strm) : Conn :=
  { c with streams := fun j => if j = id then some st else c.streams j }
def delS (c : Conn) (id : Nat) : Conn := { c with streams := fun j => if j = id then none else c.streams j }

/-- the rule under which DATA is dropped: (inGoAway, goAwayCode, id, maxClientStreamID) ↦ Bool -/
abbrev Rule := Bool → Int → Int → Int → Bool

/-- `MServerConn.goAway(code)` -/
def goAway (c : Conn) (code : Int) : Conn × List Out :=
  if goAwayOnce && c.inGoAway then (c, [])
  else ({ c with inGoAway := true, code := code }, [Out.goAway (if goAwayWritesMaxClientStream then c.maxId else 0) code])

/-- `HandleFrame`: a connection error ⇒ `goAway(code)`, the stream layer closes the connection -/
def connError (c : Conn) (code : Int) : Conn × List Out :=
  let (c', o) := goAway c code
  ({ c' with dead := true }, o ++ [Out.closed])

/-- `HandleFrame`: a stream error ⇒ RST_STREAM if the stream is in the table, and the stream is dropped -/
def streamError (c : Conn) (id : Nat) (code : Int) : Conn × List Out :=
  match getS c id with
  | some _ => (delS c id, [Out.rst id code])
  | none => (c, [])

/-- "Sender sending more than they'd declared": `declBodyBytes != -1 && bodyBytes + len > declBodyBytes` -/
def overDecl (decl : Option Nat) (n : Nat) : Bool :=
  match decl with
  | some d => decide (d < n)
  | none => false

/-- [c08l9] processHeaders tests `st.state == stateHalfClosedRemote` before `mprocessTrailerHeaders` -/
def srvTrailerStateCheck : Bool :=
  MosnVerif.Gen.C08H2Trailers.srvBeforeTrailers.contains "st.state==stateHalfClosedRemote => streamError(id,ErrCodeStreamClosed)"

def stepWith (discard : Rule) (c : Conn) : Ev → Conn × List Out
  | .shutdown => if c.dead then (c, []) else goAway c gracefulCode
  | .headers id es decl =>
    if c.dead then (c, []) else
    if headersIgnored c.inGoAway c.code id c.maxId then (c, []) else
    if id % 2 ≠ 1 then connError c ErrCodeProtocol else
    match getS c id with
    | some st =>
      -- [c08l9] RFC 7540 5.1: HEADERS for a stream that is half-closed (remote) is a stream error STREAM_CLOSED, in
      -- front of the trailer processing (regenerated: Gen/C08H2Trailers.srvBeforeTrailers; since fix 'trailers after END_STREAM')
      if srvTrailerStateCheck && st.halfClosed then streamError c id ErrCodeStreamClosed else
      -- trailers (`mprocessTrailerHeaders`)
      if st.gotTrailer then connError c ErrCodeProtocol
      else if !es then streamError c id ErrCodeProtocol
      else (setS c id { st with gotTrailer := true, halfClosed := true }, [Out.deliver id st.body])
    | none =>
      if headersStale id c.maxId then connError c ErrCodeProtocol
      else
        ({ setS c id ⟨id, es, 0, if es then some 0 else decl, false⟩ with maxId := id },
         if es then [Out.deliver id 0] else [])
  | .data id len es =>
    if c.dead then (c, []) else
    if discard c.inGoAway c.code id c.maxId then (c, []) else
    match getS c id with
    | none =>
      -- `state()`: an odd id up to maxClientStreamID is a closed stream, id 0 and anything else is idle
      if id % 2 = 1 && decide (id ≤ c.maxId) then streamError c id ErrCodeStreamClosed
      else connError c ErrCodeProtocol
    | some st =>
      if st.halfClosed || st.gotTrailer then streamError c id ErrCodeStreamClosed
      else if overDecl st.decl (st.body + len) then streamError c id ErrCodeStreamClosed
      else
        (setS c id { st with body := st.body + len, halfClosed := es },
         if es then [Out.deliver id (st.body + len)] else [])
  | .rst id =>
    if c.dead then (c, []) else
    if rstDiscarded c.inGoAway c.code id c.maxId then (c, []) else
    match getS c id with
    | some _ => (delS c id, [])
    | none =>
      if id % 2 = 1 && decide (id ≤ c.maxId) then (c, [])   -- closed stream: nothing to do
      else connError c ErrCodeProtocol                     -- idle stream (id 0: refused by the frame parser)

/-- the code as it is: the regenerated guard of `processData` -/
def step (c : Conn) (e : Ev) : Conn × List Out := stepWith dataDiscarded c e

def runWith (discard : Rule) (c : Conn) : List Ev → Conn × List Out
  | [] => (c, [])
  | e :: r =>
    let (c1, o1) := stepWith discard c e
    let (c2, o2) := runWith discard c1 r
    (c2, o1 ++ o2)

def run (c : Conn) (evs : List Ev) : Conn × List Out := runWith dataDiscarded c evs

/-- per-event outputs (for the correspondence run) -/
def trace (c : Conn) : List Ev → List (List Out)
  | [] => []
  | e :: r => let (c1, o1) := step c e; o1 :: trace c1 r

/-- the rest of a request after its HEADERS: DATA frames of the sizes `chunks` in order; the stream is ended by
END_STREAM on the last DATA frame, or (`tr`) by a trailers HEADERS frame after them -/
def bodyFrames (id : Nat) (tr : Bool) : List Nat → List Ev
  | [] => if tr then [Ev.headers id true none] else []
  | k :: r => Ev.data id k (!tr && r.isEmpty) :: bodyFrames id tr r

/-- events that do not concern stream `id` (frames of other streams, a shutdown) -/
def Ev.other (id : Nat) : Ev → Bool
  | .headers j _ _ => j != id
  | .data j _ _ => j != id
  | .rst j => j != id
  | .shutdown => true

/-- "drop DATA whenever a GOAWAY has been sent" — the rule of `processHeaders` applied to DATA -/
def dropAllRule : Rule := fun g _ _ _ => g

end MosnVerif.Model.H2GoAway
