import MosnVerif.Gen.Hpack
/-!
Model of HPACK Huffman coding as implemented in pkg/module/http2/hpack/huffman.go, over the code table
**regenerated** from tables.go (`Gen.Hpack.huffmanCodes`, `huffmanCodeLen`).

* `encode` = `AppendHuffmanString`: the codes of the octets, most significant bit first, padded to a byte boundary
  with the most significant bits of EOS (all ones).  `encodeLen` = `HuffmanEncodeLength`.
* `decode` = `huffmanDecode`, transcribed literally: the 8-bit-stride lookup tree built by `addDecoderNode` is the
  function `child` (a node is identified by its depth and the bits that lead to it), the two loops, `sbits`, the
  EOS-padding mask check and the `maxLen` guard are as in the Go code.
* `decodeSpec` is the declarative bit-level decoder (greedy prefix matching, RFC 7541 §5.2); `Props/C18` proves the
  table prefix-free and `decodeSpec (encode s) = s`; the driver checks `decode` against `decodeSpec` on every case.
-/
namespace MosnVerif.Model.Huffman
open MosnVerif.Gen.Hpack

abbrev Bytes := List UInt8

/-- (symbol, code, length in bits) for the 256 octets -/
def symTable : List (Nat × Nat × Nat) :=
  (List.range huffmanCodes.length).map (fun i => (i, huffmanCodes.getD i 0, huffmanCodeLen.getD i 0))

def codeOf (sym : Nat) : Nat := huffmanCodes.getD sym 0
def lenOf (sym : Nat) : Nat := huffmanCodeLen.getD sym 0

/-- EOS: `code := uint32(0x3fffffff); nbits := uint8(30)` -/
def eosCode : Nat := 0x3fffffff
def eosLen : Nat := 30

/-- the `len` low bits of `code`, most significant first -/
def bitsOf (code len : Nat) : List Bool := (List.range len).map (fun k => (code >>> (len - 1 - k)) % 2 == 1)

def packByte (bs : List Bool) : UInt8 := UInt8.ofNat (bs.foldl (fun a b => 2 * a + (if b then 1 else 0)) 0)

/-- bits to bytes, the last byte padded with ones (the most significant bits of EOS) -/
def packBits : List Bool → Bytes
  | [] => []
  | b0 :: r =>
    let chunk := (b0 :: r).take 8
    let rest := (b0 :: r).drop 8
    packByte (chunk ++ List.replicate (8 - chunk.length) true) :: packBits rest
termination_by l => l.length
decreasing_by simp only [List.length_drop, List.length_cons]; omega

def encodeBits (s : Bytes) : List Bool := s.flatMap (fun c => bitsOf (codeOf c.toNat) (lenOf c.toNat))

/-- `AppendHuffmanString(nil, s)` -/
def encode (s : Bytes) : Bytes := packBits (encodeBits s)

/-- `HuffmanEncodeLength(s)` -/
def encodeLen (s : Bytes) : Nat := ((s.map (fun c => lenOf c.toNat)).sum + 7) / 8

inductive HErr
  | invalid   -- ErrInvalidHuffman
  | strLen    -- ErrStringLength
  deriving DecidableEq, Repr

inductive Node
  | nil
  | leaf (sym : Nat) (codeLen : Nat)   -- codeLen = bits of the code inside this 8-bit lookup (1..8)
  | internal
  deriving DecidableEq, Repr

/-- per symbol: (sym, depth `d = (len-1)/8` of its leaf, bits `r = len - 8d` inside the last lookup, the `8d` leading
bits, the `r` trailing bits) — what `addDecoderNode` derives from (code, codeLen) -/
def leafInfo : List (Nat × Nat × Nat × Nat × Nat) :=
  symTable.map (fun e =>
    let d := (e.2.2 - 1) / 8
    let r := e.2.2 - 8 * d
    (e.1, d, r, e.2.1 >>> r, e.2.1 % 2 ^ r))

/-- the internal nodes `addDecoderNode` creates: (depth of the parent, the `8(d+1)` bits leading to the node) -/
def internalInfo : List (Nat × Nat) :=
  (symTable.flatMap (fun e =>
    let dl := (e.2.2 - 1) / 8
    (List.range dl).map (fun d => (d, e.2.1 >>> (e.2.2 - 8 * d - 8))))).eraseDups

/-- `n.children[idx]` where `n` is the internal node reached by the `8*d` bits `pv` (as built by `addDecoderNode`) -/
def child (d pv idx : Nat) : Node :=
  match leafInfo.find? (fun e => e.2.1 == d && e.2.2.2.1 == pv && idx >>> (8 - e.2.2.1) == e.2.2.2.2) with
  | some e => .leaf e.1 e.2.2.1
  | none => if internalInfo.contains (d, pv * 256 + idx) then .internal else .nil

structure DSt where
  d : Nat          -- depth of the current node `n`
  pv : Nat         -- the bits that lead to it
  cur : Nat        -- `cur` (uint, 64 bits)
  cbits : Nat
  sbits : Nat
  out : Bytes      -- reversed
  outLen : Nat     -- `buf.Len()`

/-- the inner `for cbits >= 8` loop -/
def innerLoop (maxLen : Nat) (st : DSt) : Nat → Except HErr DSt
  | 0 => .ok st
  | fuel + 1 =>
    if st.cbits < 8 then .ok st else
    let idx := (st.cur >>> (st.cbits - 8)) % 256
    match child st.d st.pv idx with
    | .nil => .error .invalid
    | .leaf sym codeLen =>
      if maxLen ≠ 0 ∧ st.outLen = maxLen then .error .strLen else
      innerLoop maxLen { st with out := UInt8.ofNat sym :: st.out, outLen := st.outLen + 1, cbits := st.cbits - codeLen, d := 0, pv := 0,
                                 sbits := st.cbits - codeLen } fuel
    | .internal => innerLoop maxLen { st with d := st.d + 1, pv := st.pv * 256 + idx, cbits := st.cbits - 8 } fuel

def feedBytes (maxLen : Nat) : Bytes → DSt → Except HErr DSt
  | [], st => .ok st
  | b :: r, st =>
    let st := { st with cur := (st.cur * 256 + b.toNat) % 2 ^ 64, cbits := st.cbits + 8, sbits := st.sbits + 8 }
    match innerLoop maxLen st (st.cbits + 1) with
    | .error e => .error e
    | .ok st => feedBytes maxLen r st

/-- the trailing `for cbits > 0` loop -/
def tailLoop (maxLen : Nat) (st : DSt) : Nat → Except HErr DSt
  | 0 => .ok st
  | fuel + 1 =>
    if st.cbits = 0 then .ok st else
    let idx := (st.cur * 2 ^ (8 - st.cbits)) % 256
    match child st.d st.pv idx with
    | .nil => .error .invalid
    | .internal => .ok st
    | .leaf sym codeLen =>
      if codeLen > st.cbits then .ok st else
      if maxLen ≠ 0 ∧ st.outLen = maxLen then .error .strLen else
      tailLoop maxLen { st with out := UInt8.ofNat sym :: st.out, outLen := st.outLen + 1, cbits := st.cbits - codeLen, d := 0, pv := 0,
                                sbits := st.cbits - codeLen } fuel

/-- `huffmanDecode(buf, maxLen, v)` -/
def decode (maxLen : Nat) (v : Bytes) : Except HErr Bytes :=
  match feedBytes maxLen v { d := 0, pv := 0, cur := 0, cbits := 0, sbits := 0, out := [], outLen := 0 } with
  | .error e => .error e
  | .ok st =>
    match tailLoop maxLen st (st.cbits + 1) with
    | .error e => .error e
    | .ok st =>
      if st.sbits > 7 then .error .invalid
      else if st.cur % 2 ^ st.cbits ≠ 2 ^ st.cbits - 1 then .error .invalid
      else .ok st.out.reverse

/-! ### properties of the regenerated table -/

/-- (code, length) of the 256 octets followed by EOS -/
def codes : List (Nat × Nat) := (huffmanCodes.zip huffmanCodeLen) ++ [(eosCode, eosLen)]

/-- code `a` is a prefix of code `b` -/
def isPrefixCode (a b : Nat × Nat) : Bool := a.2 ≤ b.2 && b.1 >>> (b.2 - a.2) == a.1

/-- no code is a prefix of the code of another symbol (EOS included) -/
def prefixFree (l : List (Nat × Nat)) : Bool :=
  l.zipIdx.all fun a => l.zipIdx.all fun b => a.2 == b.2 || !isPrefixCode a.1 b.1

/-- 257 codes of 5..30 bits, each fitting its length -/
def tableWf (l : List (Nat × Nat)) : Bool :=
  l.length == 257 && l.all (fun c => 5 ≤ c.2 && c.2 ≤ 30 && c.1 < 2 ^ c.2)

/-- Kraft equality: the code is complete (every infinite bit string starts with exactly one code) -/
def kraftComplete (l : List (Nat × Nat)) : Bool := (l.map (fun c => 2 ^ (30 - c.2))).sum == 2 ^ 30

/-! ### declarative decoder -/

def bytesToBits (v : Bytes) : List Bool := v.flatMap (fun b => bitsOf b.toNat 8)

/-- the symbol whose code is a prefix of `bits`, with the bits after it -/
def matchSym (bits : List Bool) : Option (Nat × List Bool) :=
  (symTable.find? (fun e => (bitsOf e.2.1 e.2.2).isPrefixOf bits)).map (fun e => (e.1, bits.drop e.2.2))

/-- one step of the greedy decoder on the result of `matchSym` (a separate function: a `match` on `matchSym bits`
inside the recursion makes Lean's equation-lemma generation evaluate the 256-entry table) -/
def decodeStep (m : Option (Nat × List Bool)) (bits : List Bool) (acc : Bytes) (k : List Bool → Bytes → Option Bytes) : Option Bytes :=
  match m with
  | some (sym, rest) => k rest (UInt8.ofNat sym :: acc)
  | none => if bits.length < 8 ∧ bits.all id then some acc.reverse else none

/-- greedy prefix decoding; what is left must be fewer than 8 one-bits (a prefix of EOS) -/
def decodeBits : Nat → List Bool → Bytes → Option Bytes
  | 0, _, _ => none
  | fuel + 1, bits, acc => decodeStep (matchSym bits) bits acc (decodeBits fuel)

def decodeSpec (v : Bytes) : Option Bytes := decodeBits (8 * v.length + 1) (bytesToBits v) []

end MosnVerif.Model.Huffman
