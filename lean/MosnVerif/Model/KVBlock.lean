import MosnVerif.Model.FrameBytes
/-!
The bolt key-value header block: `mosn.io/pkg/header.DecodeHeader` (modelled from its source, v1.6.0) with checked
access, and the validation `checkHeaderBlock` that `xprotocol.DecodeHeader` (pkg/protocol/xprotocol/header.go) runs
first.  A block is a sequence of strings, each a 4-byte big-endian length followed by that many bytes, read as key,
value, key, value…; a length of 0xFFFFFFFF abandons the current pair and continues 4 bytes further.

`decode` reads each length with `binary.BigEndian.Uint32(bytes[index:])`, which indexes out of range when fewer than 4
bytes are left (`rd32 = none`): this is the defect of DESIGN.md §6 row 4; `check` is the repair.
Core Lean only.
-/
namespace MosnVerif.Model.KVBlock
open MosnVerif.Model.Framing MosnVerif.Model.FrameBytes

inductive KvRes where
  | ok (pairs : Nat) : KvRes
  | err : KvRes
  | oob : KvRes
deriving Repr, DecidableEq

def maxU32 : Nat := 4294967295

/-- `binary.BigEndian.Uint32(bytes[index:])` (callers guarantee `index ≤ len`) -/
def rd32 (b : Bytes) (i : Nat) : Option Nat := if i + 4 ≤ b.length then some (be b i (i + 4)) else none

/-- `header.DecodeHeader`: fuel = one outer loop iteration each (every iteration advances by ≥ 4 bytes) -/
def decode : Nat → Bytes → Nat → Nat → KvRes
  | 0, _, _, k => .ok k
  | fuel+1, b, i, k =>
    if i < b.length then
      match rd32 b i with                                    -- 1. read key
      | none => .oob
      | some l =>
        if l = maxU32 then decode fuel b (i + 4) k else       -- errInvalidLength: continue
        if i + 4 + l > b.length then .err else
        match rd32 b (i + 4 + l) with                         -- 2. read value
        | none => .oob
        | some l2 =>
          if l2 = maxU32 then decode fuel b (i + 4 + l + 4) k else
          if i + 4 + l + 4 + l2 > b.length then .err else
          decode fuel b (i + 4 + l + 4 + l2) (k + 1)          -- 3. kv append
    else .ok k

/-- `checkHeaderBlock` (true = no error) -/
def check : Nat → Bytes → Nat → Bool
  | 0, _, _ => true
  | fuel+1, b, i =>
    if i < b.length then
      if b.length - i < 4 then false else                     -- key prefix truncated
      let l := be b i (i + 4)
      if l = maxU32 then check fuel b (i + 4) else
      if l > b.length - (i + 4) then true else                -- DecodeHeader reports this itself
      if b.length - (i + 4 + l) < 4 then false else           -- value prefix truncated (or no value at all)
      let l2 := be b (i + 4 + l) (i + 4 + l + 4)
      if l2 = maxU32 then check fuel b (i + 4 + l + 4) else
      if l2 > b.length - (i + 4 + l + 4) then true else
      check fuel b (i + 4 + l + 4 + l2)
    else true

/-- `xprotocol.DecodeHeader`: validate, then decode -/
def safe (b : Bytes) : KvRes :=
  if check (b.length + 1) b 0 then decode (b.length + 1) b 0 0 else .err

/-- the unrepaired call, kept to state the defect -/
def unsafeDecode (b : Bytes) : KvRes := decode (b.length + 1) b 0 0

def isOk : KvRes → Bool
  | .ok _ => true
  | _ => false

end MosnVerif.Model.KVBlock
