import MosnVerif.Gen.C01HttpFraming
/-!
Message framing of the HTTP/1 streams (`pkg/stream/http/stream.go` + fasthttp v1.40.0 `Request.Write` / `Response.Write` /
`Response.ReadLimitBody`, modelled from their source and validated on every `http1m q` / `http1m r` case).

Request direction.  fasthttp's request parser leaves the received framing in the header map: a `Transfer-Encoding: chunked`
entry (`te`) or the `Content-Length` bytes (`cl`).  `clientStream.AppendHeaders` works on that header map and copies it
to the request it sends; whether `Transfer-Encoding` is removed on the way is regenerated
(`Gen.C01HttpFraming.dropsTransferEncoding`).  `Request.Write` recomputes the framing (`Content-Length: len(body)`, no
`Transfer-Encoding`) only when the body is not empty or the method is neither GET nor HEAD; otherwise the head is printed
as it is and no body follows.  The upstream reads the body the head announces (RFC 7230 3.3.3).

Response direction.  `Response.ReadLimitBody` (client stream, `SkipBody` for a HEAD request) parses the upstream's framing,
`serverStream.AppendHeaders` copies the header, `Response.Write` recomputes `Content-Length` when a body is sent (never for
1xx / 204 / 304) and prints the body unless `SkipBody` (HEAD, regenerated `headSkipsBody`) or the status forbids one.
-/
namespace MosnVerif.Model.Http1Framing
open MosnVerif.Gen.C01HttpFraming

abbrev Bytes := List UInt8

/-! ### chunked decoding (what a receiver does with a head that says `Transfer-Encoding: chunked`) -/

def hexVal (c : UInt8) : Option Nat :=
  if 48 ≤ c.toNat ∧ c.toNat ≤ 57 then some (c.toNat - 48)
  else if 97 ≤ c.toNat ∧ c.toNat ≤ 102 then some (c.toNat - 87)
  else if 65 ≤ c.toNat ∧ c.toNat ≤ 70 then some (c.toNat - 55) else none

/-- `<hex digits> CR LF` -/
def sizeLine : Bytes → Nat → Option (Nat × Bytes)
  | [], _ => none
  | c :: r, acc =>
    if c = 13 then (match r with | d :: r' => if d = 10 then some (acc, r') else none | [] => none)
    else match hexVal c with
      | some v => sizeLine r (acc * 16 + v)
      | none => none

/-- the body of a complete chunked message (no trailer section), `none` while the terminating chunk has not arrived -/
def dechunk : Nat → Bytes → Option Bytes
  | 0, _ => none
  | fuel + 1, b =>
    match sizeLine b 0 with
    | none => none
    | some (n, r) =>
      if n = 0 then (if r.take 2 = [13, 10] then some [] else none)
      else if n + 2 ≤ r.length then (dechunk fuel (r.drop (n + 2))).map (r.take n ++ ·) else none

/-! ### request direction -/

/-- the framing fields of a fasthttp header -/
structure Framing where
  te : Bool          -- a `Transfer-Encoding: chunked` entry
  cl : Option Nat    -- Content-Length
deriving DecidableEq, Repr

/-- what fasthttp's request parser leaves for a message framed `none | cl0 | cl | chunked | chunked0` with an `n`-byte body -/
def parsedReq (shape : String) (n : Nat) : Framing :=
  if shape == "chunked" || shape == "chunked0" then { te := true, cl := none }
  else if shape == "cl0" || shape == "cl" then { te := false, cl := some n }
  else { te := false, cl := none }

/-- `clientStream.AppendHeaders`: the header map as it is copied to the request that is sent -/
def copied (endStream : Bool) (f : Framing) : Framing := { f with te := f.te && !dropsTransferEncoding endStream }

/-- fasthttp `Request.Write`: (framing printed in the head, bytes that follow the head) -/
def written (ignoreBody : Bool) (f : Framing) (body : Bytes) : Framing × Bytes :=
  if body ≠ [] || !ignoreBody then ({ te := false, cl := some body.length }, body) else (f, [])

/-- the forwarded request: `ignoreBody` = the method is GET or HEAD, `endStream` = what AppendHeaders was called with -/
def forwardReq (ignoreBody endStream : Bool) (f : Framing) (body : Bytes) : Framing × Bytes :=
  written ignoreBody (copied endStream f) body

/-- the same with the received `Transfer-Encoding` copied as it is (the code before the repair), for the negation witness -/
def forwardReqCopying (ignoreBody : Bool) (f : Framing) (body : Bytes) : Framing × Bytes := written ignoreBody f body

/-- the receiver (RFC 7230 3.3.3): the body the head announces, out of the bytes that follow it; `none` = still waiting -/
def recv (f : Framing) (rest : Bytes) : Option Bytes :=
  if f.te then dechunk (rest.length + 1) rest
  else match f.cl with
    | some n => if n ≤ rest.length then some (rest.take n) else none
    | none => some []

/-- the hop-by-hop headers of the sets the harness sends, as they reach the upstream (lower-cased names, sorted):
`Connection: close` is deleted by AppendHeaders (the upstream connection is kept alive), `Expect: 100-continue` is answered
with `100 Continue` and deleted by the server stream; everything else is copied -/
def forwardedHops (hop : String) : String :=
  if hop == "keepalive" then "connection:keep-alive"
  else if hop == "kaparams" then "connection:keep-alive;keep-alive:timeout~5"
  else if hop == "te" then "connection:te;te:trailers"
  else if hop == "trailer" then "trailer:x-t"
  else if hop == "upgrade" then "connection:upgrade;upgrade:websocket"
  else if hop == "pconn" then "proxy-connection:keep-alive"
  else "-"

/-! ### response direction -/

inductive TE | none | chunked | identity
deriving DecidableEq, Repr

structure RFraming where
  te : TE
  cl : Option Nat
  close : Bool
deriving DecidableEq, Repr

/-- 204 / 304 (1xx is not forwarded as a final response): no body, `SetContentLength` is a no-op -/
def noBodyStatus (status : Nat) : Bool := status == 204 || status == 304 || status < 200

/-- fasthttp's response parser: `none | close` = neither Content-Length nor Transfer-Encoding -/
def parsedResp (status : Nat) (framing : String) (n : Nat) : RFraming :=
  if framing == "chunked" || framing == "chunked0" || framing == "hchunked" then { te := .chunked, cl := none, close := false }
  else if framing == "cl0" || framing == "cl" then { te := .none, cl := some n, close := false }
  else if framing == "hcl" then { te := .none, cl := some 1234, close := false }
  else if noBodyStatus status then { te := .none, cl := none, close := false }
  else { te := .identity, cl := none, close := true }

/-- `Response.ReadLimitBody` with `SkipBody` / a no-body status and a chunked head still reads a trailer section that a
bodiless response does not have: the client stream waits for ever (finding) -/
def readHangs (skip : Bool) (f : RFraming) : Bool := skip && f.te == .chunked

/-- fasthttp `Response.Write` after `serverStream.AppendHeaders` / `AppendData` / `endStream` -/
def writtenResp (head : Bool) (status : Nat) (f : RFraming) (body : Bytes) : RFraming × Bytes :=
  let skip := (head && headSkipsBody) || noBodyStatus status
  let f' := if (!skip || body ≠ []) && !noBodyStatus status then { f with te := .none, cl := some body.length } else f
  (f', if skip then [] else body)

/-- the forwarded response: `none` = nothing is forwarded (the read of the upstream's response never returns) -/
def forwardResp (head : Bool) (status : Nat) (f : RFraming) (body : Bytes) : Option (RFraming × Bytes) :=
  let skip := head || noBodyStatus status
  if readHangs skip f then none else some (writtenResp head status f (if skip then [] else body))

/-- the client (RFC 7230 3.3.3): no body for a HEAD request / 1xx / 204 / 304; otherwise what the head announces; a
response delimited by the end of the connection is never complete here (the proxy keeps the connection open) -/
def recvResp (head : Bool) (status : Nat) (f : RFraming) (rest : Bytes) : Option Bytes :=
  if head || noBodyStatus status then some []
  else if f.te = .chunked then dechunk (rest.length + 1) rest
  else match f.cl with
    | some n => if n ≤ rest.length then some (rest.take n) else none
    | none => none

end MosnVerif.Model.Http1Framing
