import MosnVerif.Model.HealthCheck
/-!
Model of the checker loop `sessionChecker.Start` / `OnCheck` / `OnTimeout` (pkg/upstream/healthcheck/session_checker.go):
how finished checks are turned into `HandleSuccess` / `HandleFailure` calls.

The loop accepts an answer only if it carries the id the loop is waiting for (`currentID`, read from the atomic
`c.checkID`); `OnCheck` stamps an answer with the value of `c.checkID` at the moment its timer fires.  WHERE `c.checkID` is
advanced is regenerated from the source (`Gen.HealthCheck.advanceAtTop / advanceBeforeArm`).
The environment (timers, the session's `CheckHealth`, the scheduler) is the event list; the theorems quantify over every
event list.  A disabled event is a no-op.  Modelled, not verified: `Timer.Stop()` is effective (a timeout timer that was
stopped when its check's answer was accepted does not deliver a timeout afterwards).
-/
namespace MosnVerif.Model.HealthLoop
open MosnVerif.Model.HealthCheck (Result)

structure Policy where
  advanceAtTop : Bool      -- `currentID := atomic.AddUint64(&c.checkID, 1)` at the top of every iteration
  advanceBeforeArm : Bool  -- `atomic.AddUint64(&c.checkID, 1)` right before each `c.checkTimer = NewTimer(…, c.OnCheck)`
  deriving DecidableEq, Repr

/-- the policy of the current source -/
def genPolicy : Policy := ⟨Gen.HealthCheck.advanceAtTop, Gen.HealthCheck.advanceBeforeArm⟩
/-- the code before the `fix:` commit -/
def oldPolicy : Policy := ⟨true, false⟩
def newPolicy : Policy := ⟨false, true⟩

inductive Ev where
  | issue                              -- the armed check timer fires: OnCheck reads checkID, starts the timeout timer, calls CheckHealth
  | answer (healthy : Bool)            -- the CheckHealth in progress returns and its answer reaches the loop
  | timeout                            -- the running timeout timer fires and reaches the loop
  | late (id : Nat) (healthy : Bool)   -- the CheckHealth of an earlier, timed-out check (stamped `id`) returns at last
  | top                                -- the loop goroutine runs the top of its next iteration
  deriving DecidableEq, Repr

structure Loop where
  checkID : Nat            -- the atomic c.checkID
  currentID : Nat          -- the loop's local currentID
  atTop : Bool             -- the loop has not yet executed the top of its next iteration
  armed : Bool             -- the check timer is armed and has not fired
  check : Option Nat       -- a CheckHealth in progress, with the id its OnCheck read
  timeoutOn : Bool         -- the timeout timer started by the latest OnCheck is running
  zombies : List Nat       -- ids of timed-out checks whose CheckHealth has not returned yet
  log : List Result        -- handler calls so far, latest first
  deriving DecidableEq, Repr

/-- `Start` up to the loop: (advance,) arm the first check -/
def Loop.init (p : Policy) : Loop :=
  ⟨if p.advanceBeforeArm then 1 else 0, 0, true, true, none, false, [], []⟩

def doTop (p : Policy) (s : Loop) : Loop :=
  if s.atTop then
    let id := if p.advanceAtTop then s.checkID + 1 else s.checkID
    { s with checkID := id, currentID := id, atTop := false }
  else s

/-- "next health checker": (advance,) arm, go to the next iteration -/
def rearm (p : Policy) (s : Loop) : Loop :=
  { s with checkID := if p.advanceBeforeArm then s.checkID + 1 else s.checkID, armed := true, atTop := true }

def resultOf (healthy : Bool) : Result := if healthy then .success else .failure

def step (p : Policy) (s : Loop) : Ev → Loop
  | .issue => if s.armed then { s with armed := false, check := some s.checkID, timeoutOn := true } else s
  | .answer r =>
    match s.check with
    | none => s
    | some id =>
      let s := doTop p s
      if id = s.currentID then rearm p { s with check := none, timeoutOn := false, log := resultOf r :: s.log }
      else { s with check := none, atTop := true }
  | .timeout =>
    if s.timeoutOn then
      let s := doTop p s
      rearm p { s with timeoutOn := false, armed := false, check := none,
                       zombies := s.check.toList ++ s.zombies, log := .timeout :: s.log }
    else s
  | .late id r =>
    if id ∈ s.zombies then
      let s := doTop p { s with zombies := s.zombies.erase id }
      if id = s.currentID then rearm p { s with timeoutOn := false, log := resultOf r :: s.log }
      else { s with atTop := true }
    else s
  | .top => doTop p s

def run (p : Policy) (s : Loop) (evs : List Ev) : Loop := evs.foldl (step p) s

/-! ### reference: every issued check is handled exactly once, with its own outcome -/

structure Ref where
  armed : Bool
  busy : Bool              -- a check has been issued and neither answered nor timed out
  log : List Result
  deriving DecidableEq, Repr

def Ref.init : Ref := ⟨true, false, []⟩

def refStep (r : Ref) : Ev → Ref
  | .issue => if r.armed then { r with armed := false, busy := true } else r
  | .answer h => if r.busy then ⟨true, false, resultOf h :: r.log⟩ else r
  | .timeout => if r.busy then ⟨true, false, .timeout :: r.log⟩ else r
  | .late _ _ => r
  | .top => r

def refRun (r : Ref) (evs : List Ev) : Ref := evs.foldl refStep r

end MosnVerif.Model.HealthLoop
