import MosnVerif.Model.HealthFlags
/-!
Model of the ALLOCATION of the shared health-flag word (pkg/upstream/cluster/health.go `GetHealthFlagPointer`,
host.go `NewSimpleHost`).

`healthStore` maps an address to the word shared by every host object of that address.  A thread here is what one
goroutine creating and then using a host object does: it first obtains its word through the step program of
`GetHealthFlagPointer` that the extractor reads off the Go source (`Gen.HealthFlags.ptrProg`: which `sync.Map` operations
in which order), one map operation per scheduler step, and then runs its `SetHealthFlag`/`ClearHealthFlag` calls against
THAT word with the step semantics of `Model.HealthFlags` (one atomic access per scheduler step).  Words live in a heap
(`List Word`, a pointer is an index); `healthStore` is an association list (a `Store` shadows older entries; nothing in
the package deletes an entry — checked by the extractor).  The interpreter is generic in both program shapes.
-/
namespace MosnVerif.Model.HealthRegistry
open MosnVerif.Gen.HealthFlags (Atom Prog PtrAtom)
open MosnVerif.Model.HealthFlags

abbrev Addr := Nat
/-- `healthStore`: address ↦ pointer (index into the heap); the first entry of an address is the current one -/
abbrev Reg := List (Addr × Nat)

/-- the pointer program of the current source -/
def genPP : List PtrAtom := Gen.HealthFlags.ptrProg
/-- the shapes discussed in DESIGN.md: the original `LoadOrStore`, and "Load, on a miss allocate and Store" -/
def loadOrStorePP : List PtrAtom := [.loadOrStoreRet]
def loadThenStorePP : List PtrAtom := [.loadRet, .storeRet]

/-- a pointer program that never overwrites an entry of the map (no blind `Store`) -/
def SafePP (PP : List PtrAtom) : Bool := PP.all (fun a => a != .storeRet)

structure HThread where
  addr : Addr
  ptr : Option Nat   -- `none`: still inside GetHealthFlagPointer
  ppc : Nat          -- index of its next map operation
  th : Thread        -- the Set/Clear calls of this host object (model of HealthFlags)
  deriving DecidableEq, Repr

def HThread.init (a : Addr) (ops : List Op) : HThread := ⟨a, none, 0, Thread.init ops⟩

structure World where
  reg : Reg
  heap : List Word
  threads : List HThread
  deriving DecidableEq, Repr

def World.init (reg : Reg) (heap : List Word) (specs : List (Addr × List Op)) : World :=
  ⟨reg, heap, specs.map (fun s => HThread.init s.1 s.2)⟩

/-- one scheduler step of a thread: one map operation while it has no pointer, afterwards one atomic access of its word -/
def HThread.step (PP : List PtrAtom) (P : Op → Prog) (reg : Reg) (heap : List Word) (t : HThread) :
    Reg × List Word × HThread :=
  match t.ptr with
  | none =>
    match PP[t.ppc]? with
    | none => (reg, heap, t)
    | some .loadRet =>
      match reg.lookup t.addr with
      | some id => (reg, heap, { t with ptr := some id })
      | none => (reg, heap, { t with ppc := t.ppc + 1 })
    | some .storeRet =>
      ((t.addr, heap.length) :: reg, heap ++ [Gen.HealthFlags.ptrFresh], { t with ptr := some heap.length })
    | some .loadOrStoreRet =>
      match reg.lookup t.addr with
      | some id => (reg, heap, { t with ptr := some id })
      | none => ((t.addr, heap.length) :: reg, heap ++ [Gen.HealthFlags.ptrFresh], { t with ptr := some heap.length })
  | some id =>
    let r := t.th.step P (heap[id]?.getD 0)
    (reg, heap.set id r.1, { t with th := r.2.1 })

def World.step (PP : List PtrAtom) (P : Op → Prog) (w : World) (i : Nat) : World :=
  match w.threads[i]? with
  | none => w
  | some t =>
    let r := t.step PP P w.reg w.heap
    ⟨r.1, r.2.1, w.threads.set i r.2.2⟩

def World.run (PP : List PtrAtom) (P : Op → Prog) (w : World) : List Nat → World
  | [] => w
  | i :: s => World.run PP P (w.step PP P i) s

/-- every host object exists and has completed all its calls -/
def World.done (w : World) : Bool := w.threads.all (fun t => t.ptr.isSome && t.th.ops.isEmpty)

/-- the word a host object of address `a` created NOW (sequentially) would see: the registered word, or a fresh one -/
def World.wordOf (w : World) (a : Addr) : Word :=
  match w.reg.lookup a with
  | some id => w.heap[id]?.getD 0
  | none => Gen.HealthFlags.ptrFresh

/-- the word behind a thread's host object -/
def World.hostWord (w : World) (t : HThread) : Word :=
  match t.ptr with
  | some id => w.heap[id]?.getD 0
  | none => 0

/-! ### the view of one address: a configuration of `Model.HealthFlags`

All host objects of address `a`, over the word of `a`; host objects of other addresses appear as finished threads, so
thread indices are those of the world. -/
def idle : Thread := ⟨[], 0, 0⟩

def World.view (w : World) (a : Addr) : Config :=
  ⟨w.wordOf a, w.threads.map (fun t => if t.addr = a then t.th else idle)⟩

/-- does scheduling thread `i` now perform an atomic access of the word of address `a`? -/
def World.flagStep (w : World) (a : Addr) (i : Nat) : Bool :=
  match w.threads[i]? with
  | some t => t.addr == a && t.ptr.isSome
  | none => false

/-- the sub-schedule of `s` made of the atomic accesses of the word of address `a` -/
def World.flagSched (PP : List PtrAtom) (P : Op → Prog) (w : World) (a : Addr) : List Nat → List Nat
  | [] => []
  | i :: s => (if w.flagStep a i then [i] else []) ++ World.flagSched PP P (w.step PP P i) a s

/-! ### what a harness observes after a schedule (sequentially, through the host objects)

`words`: `HealthFlag()` and `Health()` of every host object.  `probe`: for every host object `i` in turn, a probe condition
is set THROUGH `i`, every host object `j` reports (`ContainHealthFlag(probe)`, `Health()`), and the probe is cleared
again through `i`. -/
def probeFlag : Word := 128

structure Obs where
  words : List (Word × Bool)
  probe : List (List (Bool × Bool))
  deriving DecidableEq, Repr

def World.observe (w : World) : Obs :=
  { words := w.threads.map (fun t => (w.hostWord t, health (w.hostWord t)))
    probe := w.threads.map (fun ti =>
      let heap' := match ti.ptr with
        | some id => w.heap.set id (Op.apply (.set probeFlag) (w.heap[id]?.getD 0))
        | none => w.heap
      let w' : World := { w with heap := heap' }
      w.threads.map (fun tj =>
        (Gen.HealthFlags.containFlag (w'.hostWord tj) probeFlag, health (w'.hostWord tj)))) }

/-! ### executable property predicate (declarative: no step structure, no regenerated definition)

`seqCheck fuel pend w fin`: SOME interleaving of the calls `pend` (respecting each thread's program order), applied one
after the other to `w` with the reference meaning of set/clear, yields `fin`. -/
def seqCheck : Nat → List (List Op) → Word → Word → Bool
  | 0, _, _, _ => false
  | fuel + 1, pend, w, fin =>
    (pend.all (·.isEmpty) && w == fin) ||
    (List.range pend.length).any (fun t =>
      match pend[t]? with
      | some (op :: r) => seqCheck fuel (pend.set t r) (op.ref w) fin
      | _ => false)

def totalOps : List (List Op) → Nat
  | [] => 0
  | l :: r => l.length + totalOps r

/-- the calls of the host objects of address `a`, by thread index (other addresses: none) -/
def callsOf (specs : List (Addr × List Op)) (a : Addr) : List (List Op) :=
  specs.map (fun s => if s.1 = a then s.2 else [])

/-- `holds specs w0 obs`: for the host objects `specs` (address, calls) and the words `w0 a` the addresses had before,
the observation `obs` made after all calls completed satisfies the property:
* (one word per address) host objects of the same address report the same word, and a condition set through one host
  object is seen by exactly the host objects of the same address — no host of the address keeps reporting healthy;
* (nothing lost, nothing invented) the word of every address is explained by some interleaving of the calls made through
  ALL host objects of that address, starting from the address' previous word;
* (`Health()` ⇔ no condition set) at every observation. -/
def holds (specs : List (Addr × List Op)) (w0 : Addr → Word) (obs : Obs) : Bool :=
  obs.words.length == specs.length && obs.probe.length == specs.length &&
  (List.range specs.length).all (fun i =>
    match specs[i]?, obs.words[i]?, obs.probe[i]? with
    | some si, some (wi, hi), some row =>
      hi == (wi == 0) &&
      seqCheck (totalOps (callsOf specs si.1) + 1) (callsOf specs si.1) (w0 si.1) wi &&
      row.length == specs.length &&
      (List.range specs.length).all (fun j =>
        match specs[j]?, obs.words[j]?, row[j]? with
        | some sj, some (wj, _), some (cij, hij) =>
          (si.1 != sj.1 || wi == wj) &&
          (wj &&& probeFlag != 0 ||
            (cij == (si.1 == sj.1) && hij == (wj == 0 && si.1 != sj.1)))
        | _, _, _ => false)
    | _, _, _ => false)

end MosnVerif.Model.HealthRegistry
