import MosnVerif.Gen.C01HttpUri
/-!
Model of the HTTP/1 request-URI pass-through decision: `injectCtxVarFromProtocolHeaders` (server stream) and
`buildUrlFromCtxVar` (client stream) in `pkg/stream/http/stream.go`.

The server stream stores three variables taken from fasthttp's parse of the request target — the normalised path
(`uri.Path()`), the original path (`uri.PathOriginal()`) and the raw query string (only when it is not empty) — and the
client stream rebuilds the upstream request target from them.  The library functions are parameters (`Oracles`): the
theorems hold for **every** normaliser / unescaper / escaper; the four decisions are the regenerated conditions.
-/
namespace MosnVerif.Model.HttpUri
open Gen.C01HttpUri

structure Oracles where
  unescape : String → Option String   -- url.PathUnescape (none = error)
  fhPath : String → String            -- fasthttp's path normalisation (URI parse and URI.SetPath use the same function)
  requestURI : String → String        -- (&url.URL{Path: p}).RequestURI()

structure Vars where
  path : String
  pathOriginal : String
  query : String
  deriving Repr, DecidableEq

/-- `injectCtxVarFromProtocolHeaders`, given the original path and raw query string fasthttp split the target into -/
def inject (O : Oracles) (pathOriginal query : String) : Vars :=
  { path := O.fhPath pathOriginal, pathOriginal := pathOriginal,
    query := if queryInjected query.length then query else "" }

/-- a route rewrite (or any filter) replacing the path variable -/
def rewrite (v : Vars) (p : String) : Vars := { v with path := p }

/-- `buildUrlFromCtxVar` -/
def buildUrl (O : Oracles) (v : Vars) : String :=
  let (unescaped, err) := match O.unescape v.pathOriginal with
    | some u => (u, false)
    | none => ("", true)
  let res :=
    if passOriginal O.fhPath v.path v.pathOriginal unescaped err then v.pathOriginal
    else if isStar v.path then "*"
    else O.requestURI v.path
  let res := if isEmptyRes res then "/" else res
  if hasQuery v.query then res ++ "?" ++ v.query else res

/-- declarative reference: the request target is forwarded byte for byte — the original path, then `?` and the query
exactly when the received target had a `?` -/
def expected (pathOriginal : String) (hadQuestionMark : Bool) (query : String) : String :=
  if hadQuestionMark then pathOriginal ++ "?" ++ query else pathOriginal

end MosnVerif.Model.HttpUri
