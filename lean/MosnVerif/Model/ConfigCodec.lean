import MosnVerif.Model.Json
import MosnVerif.Model.GoDuration
import MosnVerif.Gen.ConfigGraph
import MosnVerif.Gen.ConfigPairs
/-!
# Field-table-driven model of the JSON codec of pkg/config/v2 (C19)

* `Shape` — a field table unfolded into a tree: scalars, untyped hole, struct = list of (JSON key, omitempty, shape),
  slice, map, pointer.  `expand` unfolds a struct of the **regenerated** graph (`Gen.ConfigGraph.graph`); structs with
  a custom (Un)MarshalJSON, embedded fields or opaque external field types are *not* generic and do not expand.
* `CVal` — Go values of a shape; `encode` / `decode` — what encoding/json does for such a type: declaration-order
  members, `omitempty`, `null` ⇒ zero value, absent member ⇒ zero value, member keys matched ignoring case, the last
  matching member wins, unknown members dropped, wrong JSON kind ⇒ error; `norm` — what one encode/decode cycle
  normalises (an empty non-nil slice / map / hole behind `omitempty` comes back nil).
* three custom pairs written after the Go text: `FilterChain` (tls_context / tls_context_set ↔ TLSContexts),
  `Host` (metadata ↔ `filter_metadata."mosn.lb"`, strings only), `RetryPolicy` (retry_timeout ↔ time.Duration via
  `time.ParseDuration` / `Duration.String`, both modelled digit by digit in `Model/GoDuration.lean`).
Go map iteration order is not modelled: map members keep their document order here (comparisons with the
implementation are made on key-sorted JSON).  Core Lean only.
-/
namespace MosnVerif.Model.ConfigCodec
open MosnVerif.Model MosnVerif.Model.GoTypes MosnVerif.Model.GoDuration

/-! ## shapes and values -/

mutual
inductive Shape where
  | str
  | num
  | bool
  | hole                     -- interface{}: any JSON
  | hmap                     -- map[string]interface{}: a JSON object or null, anything else is an error
  | dur                      -- api.DurationConfig: a time.Duration written as its String()
  | struct (fs : Fields)
  | slice (e : Shape)
  | map (e : Shape)
  | ptr (e : Shape)
  | metaS (i : Nat) (fs : Fields)   -- a metadata wrapper over the config with field table `fs`, metadata member at position `i`
  | boxed (e : Shape)               -- a struct whose (Un)MarshalJSON delegate to its only field, of shape `e`
inductive Fields where
  | nil
  | cons (key : String) (omitempty : Bool) (sh : Shape) (rest : Fields)
end

/-- values: a struct holds one value per field of its shape, in order; `slice`/`map` carry a nil flag; a pointer has
0 or 1 target -/
inductive CVal where
  | str (s : String)
  | num (lit : String)
  | bool (b : Bool)
  | hole (j : Json)
  | dur (ns : Int)
  | struct (vs : List CVal)
  | slice (isNil : Bool) (vs : List CVal)
  | map (isNil : Bool) (kvs : List (String × CVal))
  | ptr (vs : List CVal)
  deriving Inhabited

mutual
def Shape.beq : Shape → Shape → Bool
  | .str, .str => true
  | .num, .num => true
  | .bool, .bool => true
  | .hole, .hole => true
  | .hmap, .hmap => true
  | .dur, .dur => true
  | .struct a, .struct b => Fields.beq a b
  | .slice a, .slice b => Shape.beq a b
  | .map a, .map b => Shape.beq a b
  | .ptr a, .ptr b => Shape.beq a b
  | .metaS i a, .metaS j b => i == j && Fields.beq a b
  | .boxed a, .boxed b => Shape.beq a b
  | _, _ => false
def Fields.beq : Fields → Fields → Bool
  | .nil, .nil => true
  | .cons k o s r, .cons k' o' s' r' => k == k' && o == o' && Shape.beq s s' && Fields.beq r r'
  | _, _ => false
end
instance : BEq Shape := ⟨Shape.beq⟩

mutual
def CVal.beq : CVal → CVal → Bool
  | .str a, .str b => a == b
  | .num a, .num b => a == b
  | .bool a, .bool b => a == b
  | .hole a, .hole b => Json.beq a b
  | .dur a, .dur b => a == b
  | .struct a, .struct b => CVal.beqL a b
  | .slice n a, .slice m b => n == m && CVal.beqL a b
  | .map n a, .map m b => n == m && CVal.beqM a b
  | .ptr a, .ptr b => CVal.beqL a b
  | _, _ => false
def CVal.beqL : List CVal → List CVal → Bool
  | [], [] => true
  | x :: r, y :: s => CVal.beq x y && CVal.beqL r s
  | _, _ => false
def CVal.beqM : List (String × CVal) → List (String × CVal) → Bool
  | [], [] => true
  | (k, x) :: r, (l, y) :: s => k == l && CVal.beq x y && CVal.beqM r s
  | _, _ => false
end
instance : BEq CVal := ⟨CVal.beq⟩

/-- ASCII case folding of member keys (encoding/json folds Unicode; the generators vary ASCII case only) -/
def fold (k : String) : String := String.ofList (k.toList.map (fun c => if 'A' ≤ c ∧ c ≤ 'Z' then Char.ofNat (c.toNat + 32) else c))

/-- the member a field reads: the last one whose key matches ignoring case -/
def lookupLast (ms : List (String × Json)) (key : String) : Option Json :=
  ms.foldl (fun acc m => if fold m.1 == fold key then some m.2 else acc) none

mutual
def zero : Shape → CVal
  | .str => .str ""
  | .num => .num "0"
  | .bool => .bool false
  | .hole => .hole .null
  | .hmap => .hole .null
  | .dur => .dur 0
  | .struct fs => .struct (zeroF fs)
  | .slice _ => .slice true []
  | .map _ => .map true []
  | .ptr _ => .ptr []
  | .metaS _ fs => .struct (zeroF fs)
  | .boxed e => .struct [zero e]
def zeroF : Fields → List CVal
  | .nil => []
  | .cons _ _ sh r => zero sh :: zeroF r
end

/-- Go's `isEmptyValue` (what `omitempty` omits) -/
def isEmpty : CVal → Bool
  | .str s => s == ""
  | .num l => l == "0"
  | .bool b => !b
  | .hole j => (match j with | .null => true | .obj [] => true | _ => false)
  | .dur _ => false
  | .struct _ => false
  | .slice _ vs => vs.isEmpty
  | .map _ kvs => kvs.isEmpty
  | .ptr vs => vs.isEmpty

/-- a pointer round-trips only when its target never encodes to `null` (pointer to scalar or struct, as in v2) -/
def ptrElemOK : Shape → Bool
  | .dur => true
  | .str => true
  | .num => true
  | .bool => true
  | .struct _ => true
  | .metaS _ _ => true
  | _ => false

/-! list helpers parameterised by the element function (kept outside the mutual blocks so that the recursion on
shapes stays structural and the kernel can evaluate the codec) -/
def wtL (f : CVal → Bool) : List CVal → Bool
  | [] => true
  | v :: r => f v && wtL f r
def wtM (f : CVal → Bool) : List (String × CVal) → Bool
  | [] => true
  | (_, v) :: r => f v && wtM f r
def encodeL (f : CVal → Json) : List CVal → List Json
  | [] => []
  | v :: r => f v :: encodeL f r
def encodeM (f : CVal → Json) : List (String × CVal) → List (String × Json)
  | [] => []
  | (k, v) :: r => (k, f v) :: encodeM f r
def decodeL (f : Json → Option CVal) : List Json → Option (List CVal)
  | [] => some []
  | x :: r => match f x, decodeL f r with | some v, some vs => some (v :: vs) | _, _ => none
def decodeM (f : Json → Option CVal) : List (String × Json) → Option (List (String × CVal))
  | [] => some []
  | (k, x) :: r => match f x, decodeM f r with | some v, some vs => some ((k, v) :: vs) | _, _ => none
def normL (f : CVal → CVal) : List CVal → List CVal
  | [] => []
  | v :: r => f v :: normL f r
def normM (f : CVal → CVal) : List (String × CVal) → List (String × CVal)
  | [] => []
  | (k, v) :: r => (k, f v) :: normM f r

/-- `DurationConfig.UnmarshalJSON`: `time.ParseDuration(strings.Trim(string(b), "\""))` on the raw member text — for a
JSON string written without escapes that is its content (a content with quotes or escapes fails to parse either way), for
a number its literal; `null`, booleans and containers fail -/
def durU (j : Json) : Option Int :=
  match j with
  | .str s => parseDur s
  | .num l => parseDur l
  | _ => none

def isObjOrNull : Json → Bool
  | .null => true
  | .obj _ => true
  | _ => false

/-! ## metadata (`configToMetadata` / `metadataToConfig`, common.go) and positions in a field table -/

/-- a Go map built from JSON members: the last member with a key wins -/
def dedupLast : List (String × Json) → List (String × Json)
  | [] => []
  | (k, v) :: r => if r.any (fun m => m.1 == k) then dedupLast r else (k, v) :: dedupLast r

/-- `configToMetadata`: string values only -/
def toMeta (j : Json) : List (String × String) :=
  match j with
  | .obj ms => (dedupLast ms).filterMap (fun m => match m.2 with | .str s => some (m.1, s) | _ => none)
  | _ => []

/-- `metadataToConfig`: nil for an empty map -/
def fromMeta (md : List (String × String)) : CVal :=
  if md.isEmpty then .ptr []
  else .ptr [.struct [.struct [.hole (.obj (md.map (fun m => (m.1, Json.str m.2))))]]]

/-- `*MetadataConfig{filter_metadata: LbMeta{"mosn.lb": map[string]interface{}}}` -/
def metaShape : Shape :=
  .ptr (.struct (.cons "filter_metadata" false (.struct (.cons "mosn.lb" false .hmap .nil)) .nil))

/-- `configToMetadata` of a `*MetadataConfig` value -/
def mdOf (v : Option CVal) : List (String × String) :=
  match v with
  | some (.ptr [.struct [.struct [.hole j]]]) => toMeta j
  | _ => []

/-- what `MarshalJSON` of a metadata wrapper encodes: member `i` rebuilt from the derived `api.Metadata` -/
def metaFix (i : Nat) (vs : List CVal) : List CVal := vs.set i (fromMeta (mdOf vs[i]?))

def Fields.length : Fields → Nat
  | .nil => 0
  | .cons _ _ _ r => r.length + 1

/-- (key, omitempty, shape) of the field at position `i` -/
def Fields.get? : Fields → Nat → Option (String × Bool × Shape)
  | .nil, _ => none
  | .cons k o sh _, 0 => some (k, o, sh)
  | .cons _ _ _ r, i + 1 => r.get? i

/-- position of the field with JSON key `k` -/
def Fields.indexOf : Fields → String → Nat
  | .nil, _ => 0
  | .cons k' _ _ r, k => if k' == k then 0 else r.indexOf k + 1

/-- field `i` is an `omitempty` member of type `*MetadataConfig` -/
def metaAt (fs : Fields) (i : Nat) : Bool :=
  match fs.get? i with
  | some (_, o, sh) => o && sh == metaShape
  | none => false

mutual
def wt : Shape → CVal → Bool
  | .str, .str _ => true
  | .num, .num _ => true
  | .bool, .bool _ => true
  | .hole, .hole _ => true
  | .hmap, .hole j => isObjOrNull j
  | .dur, .dur d => decide (-(two63 : Int) ≤ d) && decide (d < (two63 : Int))
  | .struct fs, .struct vs => wtF fs vs
  | .slice e, .slice n vs => (!n || vs.isEmpty) && wtL (wt e) vs
  | .map e, .map n kvs => (!n || kvs.isEmpty) && wtM (wt e) kvs
  | .ptr e, .ptr vs => ptrElemOK e && vs.length ≤ 1 && wtL (wt e) vs
  | .metaS i fs, .struct vs => metaAt fs i && wtF fs vs
  | .boxed e, .struct vs => (match vs with | [v] => wt e v | _ => false)
  | _, _ => false
def wtF : Fields → List CVal → Bool
  | .nil, [] => true
  | .cons _ _ sh r, v :: vs => wt sh v && wtF r vs
  | _, _ => false
end

mutual
/-- `json.Marshal` -/
def encode : Shape → CVal → Json
  | .str, .str s => .str s
  | .num, .num l => .num l
  | .bool, .bool b => .bool b
  | .hole, .hole j => j
  | .hmap, .hole j => j
  | .dur, .dur d => .str (fmtDur d)
  | .struct fs, .struct vs => .obj (encodeF fs vs)
  | .slice e, .slice n vs => if n then .null else .arr (encodeL (encode e) vs)
  | .map e, .map n kvs => if n then .null else .obj (encodeM (encode e) kvs)
  | .ptr e, .ptr vs => (match vs with | [] => .null | v :: _ => encode e v)
  | .metaS i fs, .struct vs => .obj (encodeF fs (metaFix i vs))
  | .boxed e, .struct vs => (match vs with | [v] => encode e v | _ => .null)
  | _, _ => .null
def encodeF : Fields → List CVal → List (String × Json)
  | .cons k o sh r, v :: vs => if o && isEmpty v then encodeF r vs else (k, encode sh v) :: encodeF r vs
  | _, _ => []
end

mutual
/-- `json.Unmarshal` into a zero value of the shape; `none` = an error is returned -/
def decode : Shape → Json → Option CVal
  | .str, .str s => some (.str s)
  | .str, .null => some (.str "")
  | .num, .num l => some (.num l)
  | .num, .null => some (.num "0")
  | .bool, .bool b => some (.bool b)
  | .bool, .null => some (.bool false)
  | .hole, j => some (.hole j)
  | .hmap, j => if isObjOrNull j then some (.hole j) else none
  | .dur, j => (durU j).map .dur
  | .struct fs, .obj ms => (decodeF fs ms).map .struct
  | .struct fs, .null => some (.struct (zeroF fs))
  | .slice e, .arr xs => (decodeL (decode e) xs).map (.slice false)
  | .slice _, .null => some (.slice true [])
  | .map e, .obj ms => (decodeM (decode e) ms).map (.map false)
  | .map _, .null => some (.map true [])
  | .ptr _, .null => some (.ptr [])
  | .ptr e, j => (decode e j).map (fun v => .ptr [v])
  | .metaS _ fs, .obj ms => (decodeF fs ms).map .struct
  | .metaS _ fs, .null => some (.struct (zeroF fs))
  | .boxed e, j => (decode e j).map (fun v => .struct [v])
  | _, _ => none
def decodeF : Fields → List (String × Json) → Option (List CVal)
  | .nil, _ => some []
  | .cons k _ sh r, ms =>
    match (match lookupLast ms k with | some j => decode sh j | none => some (zero sh)), decodeF r ms with
    | some v, some vs => some (v :: vs)
    | _, _ => none
end

mutual
/-- the value after one encode / decode cycle -/
def norm : Shape → CVal → CVal
  | .struct fs, .struct vs => .struct (normF fs vs)
  | .slice e, .slice n vs => .slice n (normL (norm e) vs)
  | .map e, .map n kvs => .map n (normM (norm e) kvs)
  | .ptr e, .ptr vs => .ptr (normL (norm e) vs)
  | .metaS i fs, .struct vs => .struct (normF fs (metaFix i vs))
  | .boxed e, .struct vs => .struct (normL (norm e) vs)
  | _, v => v
def normF : Fields → List CVal → List CVal
  | .cons _ o sh r, v :: vs => (if o && isEmpty v then zero sh else norm sh v) :: normF r vs
  | _, _ => []
end

/-- keys of a field list -/
def Fields.keys : Fields → List String
  | .nil => []
  | .cons k _ _ r => k :: r.keys

mutual
/-- the member keys of every struct are pairwise distinct ignoring case (so each member resolves to one field) and
pointers point to scalars or structs -/
def keysOK : Shape → Bool
  | .struct fs => keysOKF fs
  | .slice e => keysOK e
  | .map e => keysOK e
  | .ptr e => ptrElemOK e && keysOK e
  | .metaS i fs => metaAt fs i && keysOKF fs
  | .boxed e => keysOK e
  | _ => true
def keysOKF : Fields → Bool
  | .nil => true
  | .cons k _ sh r => !(r.keys.any (fun k' => fold k' == fold k)) && keysOK sh && keysOKF r
end

/-! ## unfolding the regenerated field tables -/

def jsonKey (f : Field) : String := if f.json == "" then f.name else f.json

/-- the regenerated classification of the custom pair of struct `s` -/
def kindOf (s : String) : MosnVerif.Model.PairTypes.CustomKind :=
  match MosnVerif.Gen.ConfigPairs.customKinds.find? (fun e => e.1 == s) with
  | some e => e.2
  | none => .other

mutual
/-- shape of a Go type of the graph; `none` = not expandable (a custom pair of kind `other`, an embedded field outside a
recognised pair, an opaque external type) or out of fuel -/
def expandTy (g : Graph) : Nat → GoTy → Option Shape
  | 0, _ => none
  | _ + 1, .str => some .str
  | _ + 1, .num => some .num
  | _ + 1, .bool => some .bool
  | _ + 1, .hole k => if k == "json.RawMessage" then none else if k == "map[string]interface{}" then some .hmap else some .hole
  | _ + 1, .ext n => if n == "api.DurationConfig" then some .dur else none
  | n + 1, .named s =>
    match g.find s with
    | some d =>
      if d.customMarshal || d.customUnmarshal then
        -- a custom pair whose two method bodies were recognised (regenerated `Gen.ConfigPairs.customKinds`)
        match kindOf s with
        | .mirror cfg => (match g.find cfg with | some dc => (expandFs g n dc.fields).map .struct | none => none)
        | .metadata cfg key =>
          (match g.find cfg with
           | some dc => (expandFs g n dc.fields).map (fun fs => .metaS (fs.indexOf key) fs)
           | none => none)
        | .boxed f => (match d.field f with | some fd => (expandTy g n fd.ty).map .boxed | none => none)
        | .other => none
      else (expandFs g n d.fields).map .struct
    | none => none
  | n + 1, .slice e => (expandTy g n e).map .slice
  | n + 1, .map e => (expandTy g n e).map .map
  | n + 1, .ptr e => match expandTy g n e with | some sh => if ptrElemOK sh then some (.ptr sh) else none | none => none
def expandFs (g : Graph) : Nat → List Field → Option Fields
  | 0, _ => none
  | _ + 1, [] => some .nil
  | n + 1, f :: r =>
    if f.embedded then none
    else if f.json == "-" then expandFs g n r
    else match expandTy g n f.ty, expandFs g n r with
      | some sh, some rest => some (.cons (jsonKey f) f.omitempty sh rest)
      | _, _ => none
end

mutual
/-- like `expandTy`, but a struct with custom marshalers and an opaque external type are kept as untyped JSON
(used to compare the hand-written shapes of the custom pairs with the regenerated tables) -/
def looseTy (g : Graph) : Nat → GoTy → Option Shape
  | 0, _ => none
  | _ + 1, .str => some .str
  | _ + 1, .num => some .num
  | _ + 1, .bool => some .bool
  | _ + 1, .hole k => if k == "map[string]interface{}" then some .hmap else some .hole
  | _ + 1, .ext n => if n == "api.DurationConfig" then some .dur else some .hole
  | n + 1, .named s =>
    match g.find s with
    | some d => if d.customMarshal || d.customUnmarshal then some .hole else (looseFs g n d.fields).map .struct
    | none => none
  | n + 1, .slice e => (looseTy g n e).map .slice
  | n + 1, .map e => (looseTy g n e).map .map
  | n + 1, .ptr e => (looseTy g n e).map (fun sh => if ptrElemOK sh then .ptr sh else .hole)
def looseFs (g : Graph) : Nat → List Field → Option Fields
  | 0, _ => none
  | _ + 1, [] => some .nil
  | n + 1, f :: r =>
    if f.embedded then none
    else if f.json == "-" then looseFs g n r
    else match looseTy g n f.ty, looseFs g n r with
      | some sh, some rest => some (.cons (jsonKey f) f.omitempty sh rest)
      | _, _ => none
end

abbrev G := MosnVerif.Gen.ConfigGraph.graph

/-- the generic shape of struct `s` of the regenerated graph -/
def shapeOf (s : String) : Option Shape := expandTy G 64 (.named s)

/-- shape of struct `s` with custom / external parts kept as untyped JSON -/
def looseShapeOf (s : String) : Option Shape := looseTy G 64 (.named s)

/-- names of the structs of the regenerated graph whose codec is the generic one -/
def genericStructs : List String := (G.map (·.name)).filter (fun s => (shapeOf s).isSome)

/-! ## custom pair 1: `FilterChain` (server.go) -/

/-- `FilterChainConfig` for given shapes of a TLS context and a filter -/
def fcShape (tls filter : Shape) : Shape :=
  .struct (.cons "match" true .str (.cons "tls_context" true (.ptr tls) (.cons "tls_context_set" true (.slice tls)
    (.cons "filters" true (.slice filter) .nil))))

/-- a `FilterChain` in memory: the embedded `FilterChainConfig` and `TLSContexts` -/
structure FilterChainV where
  cfg : CVal
  ctxs : List CVal

/-- `FilterChain.UnmarshalJSON` -/
def fcU (tls filter : Shape) (w : Json) : Option FilterChainV :=
  match decode (fcShape tls filter) w with
  | some (.struct [m, .ptr tc, .slice n ts, fl]) =>
    if !tc.isEmpty && !ts.isEmpty then none                       -- ErrDuplicateTLSConfig
    else some ⟨.struct [m, .ptr tc, .slice n ts, fl],
      if !ts.isEmpty then ts                                       -- copy of tls_context_set
      else (match tc with | [] => [zero tls] | t :: _ => [t])⟩     -- default context / the single tls_context
  | _ => none

/-- `FilterChain.MarshalJSON` -/
def fcM (tls filter : Shape) (x : FilterChainV) : Json :=
  encode (fcShape tls filter) (match x.cfg, x.ctxs with
    | .struct [m, _, _, fl], c :: cs => .struct [m, .ptr [], .slice false (c :: cs), fl]
    | cfg, _ => cfg)

/-! ## custom pair 2: `Host` and its metadata (upstream.go, common.go) -/

/-- `HostConfig`; `metadata` is `*MetadataConfig{filter_metadata: LbMeta{"mosn.lb": map[string]interface{}}}` -/
def hostShape : Shape :=
  .struct (.cons "address" true .str (.cons "hostname" true .str (.cons "weight" true .num
    (.cons "metadata" true (.ptr (.struct (.cons "filter_metadata" false (.struct (.cons "mosn.lb" false .hmap .nil)) .nil)))
    (.cons "tls_disable" true .bool .nil)))))

structure HostV where
  cfg : CVal
  md : List (String × String)

/-- `Host.UnmarshalJSON` -/
def hostU (w : Json) : Option HostV :=
  match decode hostShape w with
  | some (.struct [a, h, wgt, .ptr md, t]) =>
    some ⟨.struct [a, h, wgt, .ptr md, t],
      match md with
      | [.struct [.struct [.hole j]]] => toMeta j
      | _ => []⟩
  | _ => none

/-- `Host.MarshalJSON` -/
def hostM (x : HostV) : Json :=
  encode hostShape (match x.cfg with
    | .struct [a, h, wgt, _, t] => .struct [a, h, wgt, fromMeta x.md, t]
    | cfg => cfg)

/-! ## custom pair 3: `RetryPolicy` and `api.DurationConfig` (route.go, mosn.io/api types.go, package time) -/

/-- `RetryPolicy` in memory (`RetryTimeout` always equals the config's duration after `UnmarshalJSON`) -/
structure RetryV where
  on : Bool
  timeout : Int
  num : String
  codesNil : Bool
  codes : List String

def codesShape : Shape := .slice .num

/-- `RetryPolicy.UnmarshalJSON` -/
def retryU (w : Json) : Option RetryV :=
  match w with
  | .obj ms =>
    match (match lookupLast ms "retry_on" with | some j => decode .bool j | none => some (.bool false)),
          (match lookupLast ms "retry_timeout" with | some j => durU j | none => some 0),
          (match lookupLast ms "num_retries" with | some j => decode .num j | none => some (.num "0")),
          (match lookupLast ms "status_codes" with | some j => decode codesShape j | none => some (.slice true [])) with
    | some (.bool on), some d, some (.num n), some (.slice nl cs) =>
      some ⟨on, d, n, nl, cs.filterMap (fun c => match c with | .num l => some l | _ => none)⟩
    | _, _, _, _ => none
  | .null => some ⟨false, 0, "0", true, []⟩
  | _ => none

/-- `RetryPolicy.MarshalJSON` -/
def retryM (x : RetryV) : Json :=
  .obj ((if x.on then [("retry_on", Json.bool true)] else []) ++ [("retry_timeout", Json.str (fmtDur x.timeout))] ++
    (if x.num == "0" then [] else [("num_retries", Json.num x.num)]) ++
    (if x.codes.isEmpty then [] else [("status_codes", Json.arr (x.codes.map Json.num))]))

end MosnVerif.Model.ConfigCodec
