import MosnVerif.Model.Bytes
/-!
Model of the key/value header block of `mosn.io/pkg/header` (`bytes.go`: `EncodeHeader`, `DecodeHeader`,
`GetHeaderEncodeLength`, `BytesHeader.Set/Del`), modelled from its source (v1.6.0, the version in /repo's go.mod).

Wire form: for every pair `u32 len(key) ‖ key ‖ u32 len(value) ‖ value` (big-endian lengths).
`decodeStr` quirks that are modelled as they are:
* a length of `0xFFFFFFFF` ("-1") makes the decoder skip the 4 length bytes and *restart with a key* — the pending key, if
  any, is dropped;
* a length that runs past the block is a decode error;
* fewer than 4 bytes left where a length is expected is an out-of-range slice read in Go (`panic`): outcome `oob`.
-/
namespace MosnVerif.Model.BoltHeader
open MosnVerif.Model MosnVerif.Model.Bytes

abbrev KV := Bytes × Bytes

/-- `math.MaxUint32`: the "invalid length −1" marker -/
def invalidLen : Nat := 4294967295

inductive StrRes where
  | oob                              -- fewer than 4 bytes left: `binary.BigEndian.Uint32(bytes[index:])` panics
  | err                              -- `end > totalLen`
  | skip (rest : Bytes)              -- errInvalidLength: index += 4
  | str (s : Bytes) (rest : Bytes)
  deriving Repr

/-- `decodeStr` on the remaining bytes `r = bytes[index:]` -/
def readStr (r : Bytes) : StrRes :=
  if r.length < 4 then .oob
  else
    let len := toNat (r.take 4)
    if len = invalidLen then .skip (r.drop 4)
    else if 4 + len > r.length then .err
    else .str ((r.drop 4).take len) (r.drop (4 + len))

inductive Res where
  | ok (kvs : List KV)
  | err
  | oob
  deriving Repr, DecidableEq

/-- the `for index < totalLen` loop of `DecodeHeader`; `fuel` bounds the iterations (each consumes ≥ 4 bytes) -/
def decodeLoop : Nat → Bytes → List KV → Res
  | 0, _, _ => .err                    -- unreachable with fuel > |r|
  | fuel + 1, r, acc =>
    if r.isEmpty then .ok acc.reverse
    else match readStr r with
      | .oob => .oob
      | .err => .err
      | .skip r1 => decodeLoop fuel r1 acc
      | .str k r1 =>
        match readStr r1 with
        | .oob => .oob
        | .err => .err
        | .skip r2 => decodeLoop fuel r2 acc
        | .str v r2 => decodeLoop fuel r2 ((k, v) :: acc)

/-- `header.DecodeHeader(bytes, &h)` starting from an empty header -/
def decode (b : Bytes) : Res := decodeLoop (b.length + 1) b []

def encodeStr (s : Bytes) : Bytes := be 4 s.length ++ s

/-- `header.EncodeHeader` -/
def encode : List KV → Bytes
  | [] => []
  | (k, v) :: r => encodeStr k ++ encodeStr v ++ encode r

/-- `header.GetHeaderEncodeLength` -/
def encodeLen : List KV → Nat
  | [] => 0
  | (k, v) :: r => 8 + k.length + v.length + encodeLen r

/-- `BytesHeader.Set`: overwrite the value of the first pair with this key, else append; always marks `Changed` -/
def set (kvs : List KV) (k v : Bytes) : List KV :=
  match kvs with
  | [] => [(k, v)]
  | (k', v') :: r => if k' = k then (k', v) :: r else (k', v') :: set r k v

/-- `BytesHeader.Del`: remove the first pair with this key (order of the others kept); `Changed` only if found -/
def del (kvs : List KV) (k : Bytes) : List KV × Bool :=
  match kvs with
  | [] => ([], false)
  | (k', v') :: r => if k' = k then (r, true) else let (r', c) := del r k; ((k', v') :: r', c)

/-- `BytesHeader.Get` -/
def get (kvs : List KV) (k : Bytes) : Option Bytes :=
  match kvs with
  | [] => none
  | (k', v') :: r => if k' = k then some v' else get r k

/-- every key/value length fits the 4-byte length and is not the `0xFFFFFFFF` marker -/
def wf (kvs : List KV) : Prop := ∀ kv ∈ kvs, kv.1.length < invalidLen ∧ kv.2.length < invalidLen

end MosnVerif.Model.BoltHeader
