import MosnVerif.Gen.XHijack
/-!
c03t10 — the reply MOSN generates itself, per xprotocol codec: `xStream.buildHijackResp` = `proto.Hijack(request,
proto.Mapping(code))`, `endStream` = `if s.frame != nil { SetRequestId(s.id); Encode; Write }`. Everything the code decides
(Hijack returns nil?, the Mapping switch / the status map with its default, the lookup being checked or not, the id the
frame is given, the nil guard) comes from Gen.XHijack; the numeric values of the external libraries' constants
(dubbo-go-hessian2 response status, thrift TApplicationException types, TarsGo basef return codes as uint32 bits) are the
hand table `libConsts` (written from the protocol specifications; cross-checked by the correspondence run).
-/
namespace MosnVerif.Model.XHijack
open MosnVerif.Gen.XHijack

inductive Codec where
  | bolt | boltv2 | dubbo | thrift | tars
  deriving DecidableEq, Repr

def Codec.all : List Codec := [.bolt, .boltv2, .dubbo, .thrift, .tars]

def Codec.ofString : String → Option Codec
  | "bolt" => some .bolt | "boltv2" => some .boltv2 | "dubbo" => some .dubbo
  | "thrift" => some .thrift | "tars" => some .tars | _ => none

def two32 : Nat := 4294967296

def libConsts : List (String × Nat) :=
  [("Response_OK", 20), ("Response_CLIENT_TIMEOUT", 30), ("Response_SERVER_TIMEOUT", 31), ("Response_BAD_REQUEST", 40),
   ("Response_BAD_RESPONSE", 50), ("Response_SERVICE_NOT_FOUND", 60), ("Response_SERVICE_ERROR", 70),
   ("Response_SERVER_ERROR", 80), ("Response_CLIENT_ERROR", 90),
   ("UNKNOWN_APPLICATION_EXCEPTION", 0), ("UNKNOWN_METHOD", 1), ("INVALID_MESSAGE_TYPE_EXCEPTION", 2),
   ("WRONG_METHOD_NAME", 3), ("BAD_SEQUENCE_ID", 4), ("MISSING_RESULT", 5), ("INTERNAL_ERROR", 6), ("PROTOCOL_ERROR", 7),
   ("0", 0), ("", 0),
   ("TARSSERVERSUCCESS", 0), ("TARSSERVERDECODEERR", two32 - 1), ("TARSSERVERENCODEERR", two32 - 2),
   ("TARSSERVERNOFUNCERR", two32 - 3), ("TARSSERVERNOSERVANTERR", two32 - 4), ("TARSSERVERRESETGRID", two32 - 5),
   ("TARSSERVERQUEUETIMEOUT", two32 - 6), ("TARSASYNCCALLTIMEOUT", two32 - 7), ("TARSINVOKETIMEOUT", two32 - 7),
   ("TARSPROXYCONNECTERR", two32 - 8), ("TARSSERVEROVERLOAD", two32 - 9), ("TARSADAPTERNULL", two32 - 10),
   ("TARSINVOKEBYINVALIDESET", two32 - 11), ("TARSCLIENTDECODEERR", two32 - 12), ("TARSSERVERUNKNOWNERR", two32 - 99)]

def resolve (n : String) : Option Nat :=
  match boltConsts.lookup n with
  | some v => some v
  | none => libConsts.lookup n

def table : Codec → List (Nat × String)
  | .bolt => boltTable | .boltv2 => boltv2Table | .dubbo => dubboTable | .thrift => thriftTable | .tars => tarsTable

def dflt : Codec → String
  | .bolt => boltDefault | .boltv2 => boltv2Default | .dubbo => dubboDefault | .thrift => thriftDefault | .tars => tarsDefault

def hijackNil : Codec → Bool
  | .bolt => boltHijackNil | .boltv2 => boltv2HijackNil | .dubbo => dubboHijackNil | .thrift => thriftHijackNil | .tars => tarsHijackNil

def hijackId : Codec → String
  | .bolt => boltHijackId | .boltv2 => boltv2HijackId | .dubbo => dubboHijackId | .thrift => thriftHijackId | .tars => tarsHijackId

/-- the name of the protocol status chosen for an http-style code (Mapping's switch, or the identity Mapping followed by
Hijack's map lookup), default branch included -/
def statusName (c : Codec) (code : Nat) : String := ((table c).lookup code).getD (dflt c)

def status (c : Codec) (code : Nat) : Option Nat := resolve (statusName c code)

/-- width of the request id field -/
def idBits : Codec → Nat
  | .bolt => 32 | .boltv2 => 32 | .dubbo => 64 | .thrift => 64 | .tars => 32

/-- width of the status field -/
def statusBits : Codec → Nat
  | .bolt => 16 | .boltv2 => 16 | .dubbo => 8 | .thrift => 32 | .tars => 32

structure Reply where
  id : Nat
  status : Nat
  deriving DecidableEq, Repr

/-- `proto.Hijack(request, proto.Mapping(uint32(code)))` followed by endStream's SetRequestId; `nilFlag` = Hijack returns nil -/
def hijackWith (nilFlag setsId : Bool) (c : Codec) (reqId code : Nat) : Option Reply :=
  if nilFlag then none
  else match status c (code % two32) with
    | none => none
    | some st => some ⟨if setsId then reqId else if hijackId c == "0" then 0 else reqId, st⟩

def hijack (c : Codec) (reqId code : Nat) : Option Reply := hijackWith (hijackNil c) endStreamSetsRequestId c reqId code

/-- what endStream writes: nothing without a frame -/
def wire (c : Codec) (reqId code : Nat) : Option Reply :=
  if buildHijackViaMapping && endStreamNilGuard && endStreamWritesFrame then hijack c reqId code else none

inductive Kind where
  | tw | ow | hb
  deriving DecidableEq, Repr

/-- the status an upstream's / the stream layer's own success frame carries, as the harness reads it -/
def okStatus : Codec → Nat
  | .bolt => 0 | .boltv2 => 0 | .dubbo => 20 | .thrift => 65535 | .tars => 0

/-- frames the client receives for one request: `(isHeartbeatAck, reply)` -/
def replies (c : Codec) (k : Kind) (upstreamAnswers : Bool) (reqId code : Nat) : List (Bool × Reply) :=
  match k with
  | .ow => []
  | .hb => [(true, ⟨reqId, okStatus c⟩)]
  | .tw => if upstreamAnswers then [(false, ⟨reqId, okStatus c⟩)]
           else match wire c reqId code with
             | some r => [(false, r)]
             | none => []

end MosnVerif.Model.XHijack
