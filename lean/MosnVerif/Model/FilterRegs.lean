import MosnVerif.Gen.FilterRegs
import MosnVerif.Model.FilterChain
/-!
The REGISTRATION side of the stream-filter chain (pkg/streamfilter/chain.go), round 7.

A stream's chain is built by calls `AddStreamReceiverFilter(filter, phase)` / `AddStreamSenderFilter(filter, phase)` made by
the configured factories; the chain keeps two parallel slices (objects, phases) per side.  A *registration* is a pair
(filter object, phase); the SAME object may be registered several times — for several receive phases (pkg/filter/stream/dsl),
in any order, with registrations of other objects in between, and as a sender filter too.

Regenerated (Gen.FilterRegs): both `Add…` bodies statement by statement, the phase test of both run loops (+ the loop shape:
starts at the cursor, advances by one, no break), the slices `OnDestroy` ranges over, the api phase constants.
Hand-written here: `build` (the factory calls in order), the map from a registration list to the chain of
`Model.FilterChain` (registration `i` = filter `i`, phase and script of its own), the declarative references of the theorems.
-/
namespace MosnVerif.Model.FilterRegs
open MosnVerif.Gen.FilterPhase MosnVerif.Model.FilterChain

/-- one `AddStreamReceiverFilter(obj, phase)` call -/
structure Reg where
  obj : Nat
  phase : RPhase
  deriving DecidableEq, Repr

/-- api.ReceiverFilterPhase value of a phase (regenerated constants) -/
def phaseNum : RPhase → Nat
  | .BeforeRoute => Gen.FilterRegs.BeforeRoute
  | .AfterRoute => Gen.FilterRegs.AfterRoute
  | .AfterChooseHost => Gen.FilterRegs.AfterChooseHost

/-- the chain after the factories made these calls, in this order (receiver registrations, sender registrations) -/
def build (regs : List Reg) (sobjs : List Nat) : Gen.FilterRegs.Chain :=
  sobjs.foldl (fun d o => Gen.FilterRegs.addStreamSenderFilter d o Gen.FilterRegs.BeforeSend)
    (regs.foldl (fun d r => Gen.FilterRegs.addStreamReceiverFilter d r.obj (phaseNum r.phase)) {})

/-- the same with another `Add…` (used by the negation witness) -/
def buildWith (add : Gen.FilterRegs.Chain → Nat → Nat → Gen.FilterRegs.Chain) (regs : List Reg) : Gen.FilterRegs.Chain :=
  regs.foldl (fun d r => add d r.obj (phaseNum r.phase)) {}

/-- the seeded shape: an object already in the chain is not registered again -/
def addDedup (d : Gen.FilterRegs.Chain) (filter p : Nat) : Gen.FilterRegs.Chain :=
  if d.receiverFilters.contains filter then d else Gen.FilterRegs.addStreamReceiverFilter d filter p

/-- the registrations a chain holds: its two parallel slices read pairwise -/
def regsOf (d : Gen.FilterRegs.Chain) : List (Nat × Nat) := d.receiverFilters.zip d.receiverFiltersPhase

/-- the filter chain of `Model.FilterChain` for a registration list: registration `i` is filter `i`, with the phase it was
registered for and the script `sc i` of that registration (what the object decides when invoked through it) -/
def toChain (regs : List Reg) (sc : Nat → List Verdict) : List RFilter :=
  regs.zipIdx.map (fun ri => ⟨ri.1.phase, sc ri.2⟩)

/-- … when the object's decisions are a function of (object, phase, invocation): every registration of the pair has that script -/
def toChainObj (regs : List Reg) (sc : Nat → RPhase → List Verdict) : List RFilter :=
  regs.map (fun r => ⟨r.phase, sc r.obj r.phase⟩)

/-- the filters of phase `p` with their chain indices (from `idx` on), in chain order — declarative reference -/
def ofPhase (p : RPhase) : List RFilter → Nat → List (Nat × RFilter)
  | [], _ => []
  | f :: r, idx => if f.phase = p then (idx, f) :: ofPhase p r (idx + 1) else ofPhase p r (idx + 1)

/-- each listed filter invoked once, in order, with the verdict of its own invocation count, up to and including the first
whose status does not let the chain go on — declarative reference -/
def cutAfter (calls : Nat → Nat) : List (Nat × RFilter) → List Inv
  | [] => []
  | (i, f) :: r =>
    (i, f.verdictAt (calls i)) :: (if continues (f.verdictAt (calls i)).status then cutAfter calls r else [])

/-- number of `OnDestroy` calls an object gets when the stream is cleaned: one per registration, receiver and sender
(declarative reference: what the code does — a filter registered for three phases is destroyed three times) -/
def destroyCount (regs : List Reg) (sobjs : List Nat) (o : Nat) : Nat :=
  (regs.map (·.obj)).count o + sobjs.count o

end MosnVerif.Model.FilterRegs
