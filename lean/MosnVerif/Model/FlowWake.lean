import MosnVerif.Model.Flow
import MosnVerif.Gen.FlowWake
/-!
Wake-up discipline of MOSN's HTTP/2 send-side flow control (pkg/module/http2/mhttp2.go), on top of `Model/Flow.lean`.

`Model/Flow.lean` treats a sender pass as a label that is simply *not enabled* while the window is not positive.  The
code does more: `awaitFlowControl` runs under the connection mutex, and when `flow.available()` is not positive the
sender goroutine **parks** in `cond.Wait()`; it evaluates the guard again only after some other goroutine executed
`cond.Broadcast()`.  A window that becomes positive without a Broadcast leaves the sender asleep for ever (a lost
wake-up) although the pass "would be enabled".

* `Policy` — under which condition each window-growing site executes the Broadcast.  `codePolicy side` is
  **regenerated** from the source (`Gen.FlowWake`): processWindowUpdate (one site for the stream and the connection
  window), the SETTINGS_INITIAL_WINDOW_SIZE delta, any other SETTINGS.
* `WSt` — a `Flow.St` plus, per stream, whether its sender is parked and whether a Broadcast reached it since.
* `wstep`: the label `send i` is now the sender goroutine of stream `i` being scheduled: asleep (parked, not
  signalled) ⇒ nothing happens; otherwise it evaluates the regenerated guard and either takes and writes
  (`Flow.sendStep`) or parks.  Every other label is the peer's frame: `Flow.step`, then — iff the site's condition
  holds (`signals`) — every parked sender is marked signalled.
-/
namespace MosnVerif.Model.FlowWake
open MosnVerif.Gen.Flow MosnVerif.Gen.FlowWake MosnVerif.Model.Flow

/-- when does a window-changing site execute `cond.Broadcast()` -/
structure Policy where
  /-- processWindowUpdate after a successful `fl.add(inc)`: `old` window (stream's or connection's), increment -/
  wu : Int → Int → Bool
  /-- SETTINGS_INITIAL_WINDOW_SIZE applied without error: the delta added to every stream window -/
  setInit : Int → Bool
  /-- another setting (SETTINGS_MAX_FRAME_SIZE) applied without error -/
  setOther : Bool

/-- the policy of the code, regenerated -/
def codePolicy : Side → Policy
  | .client => { wu := clientWuBroadcast, setInit := clientSettingsInitBroadcast, setOther := clientSettingsOtherBroadcast }
  | .server => { wu := serverWuBroadcast, setInit := fun _ => serverSettingsBroadcast, setOther := serverSettingsBroadcast }

/-- what a policy owes: a Broadcast whenever a window that was not positive becomes positive (int32 windows, frame-parser
increments), and whenever SETTINGS raises the stream windows -/
structure Policy.Ok (p : Policy) : Prop where
  wu : ∀ old inc : Int, -2147483648 ≤ old → old ≤ 0 → 1 ≤ inc → inc ≤ 2147483647 → 0 < old + inc → p.wu old inc = true
  setInit : ∀ delta : Int, 0 < delta → p.setInit delta = true

/-- does handling the peer's frame `l` in state `s` execute `cond.Broadcast()`?  (the early returns of the handlers:
unknown / closed stream, refused add, invalid setting — each leaves before the Broadcast) -/
def signals (pol : Policy) (s : St) : Label → Bool
  | .send _ => false
  | .openStream _ => false
  | .wuStream i inc =>
    !(s.closed || s.panicked) && tracked s i && (add (s.strm i).n (wrap32 inc)).2 && pol.wu (s.strm i).n inc
  | .wuConn inc => !(s.closed || s.panicked) && (add s.cn (wrap32 inc)).2 && pol.wu s.cn inc
  | .setInit v =>
    !(s.closed || s.panicked) && !decide (maxInt32 < (v : Int)) &&
    (match s.side with
     | .client => true
     | .server => !(List.range s.count).any (fun j => tracked s j && !(add (s.strm j).n (wrap32 (wrap32 v - wrap32 s.init))).2)) &&
    pol.setInit (wrap32 (wrap32 v - wrap32 s.init))
  | .setMaxFrame v =>
    !(s.closed || s.panicked) &&
    (match s.side with
     | .client => !(decide (v < 16384) || decide (16777215 < v))   -- [c08l9] the client validates too
     | .server => !(decide (v < 16384) || decide (16777215 < v))) &&
    pol.setOther

structure WSt where
  base : St
  /-- the sender goroutine of stream `i` is inside `cond.Wait()` -/
  parked : Nat → Bool
  /-- a Broadcast was executed since it parked: it leaves `Wait` and re-evaluates the guard at its next pass -/
  signalled : Nat → Bool

def WSt.initial (side : Side) : WSt := { base := St.initial side, parked := fun _ => false, signalled := fun _ => false }

def updB (f : Nat → Bool) (i : Nat) (v : Bool) : Nat → Bool := fun j => if j = i then v else f j

/-- parked and no Broadcast since: the goroutine does not run -/
def asleep (w : WSt) (i : Nat) : Bool := w.parked i && !w.signalled i

def wstep (pol : Policy) (w : WSt) : Label → WSt
  | .send i =>
    let s := w.base
    if s.closed || s.panicked || decide (s.count ≤ i) || decide ((s.strm i).rem = 0) then w   -- no such sender / body done / connection dead
    else if asleep w i then w                                                                  -- in cond.Wait(), not signalled
    else if enabled s.side (available (s.strm i).n true s.cn) then
      -- a server stream whose body is complete is closed (`WriteTrailers` → `closeStream`), which Broadcasts as well
      let fin := s.side == Side.server && ((sendStep s i).strm i).rem == 0
      { base := sendStep s i, parked := updB w.parked i false,
        signalled := fun j => if fin then true else updB w.signalled i false j }
    else { w with parked := updB w.parked i true, signalled := updB w.signalled i false }      -- cond.Wait()
  | l =>
    let b := signals pol w.base l
    { base := step w.base l, parked := w.parked, signalled := fun j => w.signalled j || b }

def wrun (pol : Policy) (w : WSt) (sched : List Label) : WSt := sched.foldl (wstep pol) w

/-- sender `i` is stuck: it sleeps although its stream has body bytes left and both windows are positive -/
def lostWakeup (w : WSt) (i : Nat) : Bool :=
  !w.base.closed && asleep w i && decide (0 < (w.base.strm i).rem) &&
  enabled w.base.side (available (w.base.strm i).n true w.base.cn)

/-- "wake only when an empty window re-opens": Broadcast iff the window was exactly 0 before the increment -/
def lazyPolicy : Policy := { wu := fun old _ => decide (old = 0), setInit := fun _ => true, setOther := true }

/-- the schedule that defeats it (RFC 7540 §6.9.2): the response body exhausts the 65535-byte stream window and the
writer parks; the peer lowers SETTINGS_INITIAL_WINDOW_SIZE to 100, the stream window is −65435 (the SETTINGS Broadcast
wakes the writer, which parks again); WINDOW_UPDATE(stream, 70000) makes it +4565 — from a NEGATIVE window, so the lazy
site stays silent; the later WINDOW_UPDATE sees a positive window and stays silent as well. -/
/- (the connection window is raised first so that only the stream window blocks) -/
def lostSchedule : List Label :=
  [.wuConn 100000, .openStream 70000, .send 0, .send 0, .send 0, .send 0, .send 0, .setInit 100, .send 0,
   .wuStream 0 70000, .send 0, .wuStream 0 1000, .send 0]

end MosnVerif.Model.FlowWake
