import MosnVerif.Gen.TlsPool
import MosnVerif.Model.TlsSelect
/-!
Trust anchors of a MOSN TLS context (pkg/mtls): which certificate authorities a peer's chain may end in.

`defaultConfigHooks.GetX509Pool` builds ONE pool from the `ca_cert` of the context; `newTLSContext` installs it as
`tls.Config.RootCAs` (MOSN as a client: verifies the upstream's certificate) and as `tls.Config.ClientCAs` (MOSN as a
server: verifies the client's certificate). A nil pool makes crypto/x509 fall back to the host's root store (both
`x509.VerifyOptions.Roots == nil` sites: handshake_client verifyServerCertificate, handshake_server
processCertsFromClient). What the pool starts from, what is appended to it, whether an unconfigured `ca_cert` gives nil
and which pool goes into which field are *regenerated* (`Gen.TlsPool`).

Certificate authorities are abstract identifiers; `sys` is the content of the host's root store, `cfg` the authorities
whose certificates are in the configured `ca_cert` (`[]` = `ca_cert` not configured: a `ca_cert` without a certificate is
refused by GetX509Pool). crypto/x509 chain building is a black box: a certificate is accepted against a set of anchors
iff it is currently valid and was issued by one of them (the harness issues leaf certificates directly from the roots).
The second half (`spec…`) is the declarative reading of the statement, written without the regenerated definitions.
-/
namespace MosnVerif.Model.TlsTrust
open MosnVerif.Gen.TlsPool MosnVerif.Gen.TlsPolicy MosnVerif.Model.TlsSelect

abbrev CA := Nat

/-- the pool `GetX509Pool` returns for a given shape of the function (`none` = nil pool) -/
def poolOf (nilWhenUnconfigured : Bool) (base : Base) (items : List Item) (sys cfg : List CA) : Option (List CA) :=
  if nilWhenUnconfigured && cfg.isEmpty then none
  else some ((match base with | .empty => [] | .system => sys) ++
    items.flatMap (fun i => match i with | .configured => cfg))

/-- `defaultConfigHooks.GetX509Pool` as it is in the source -/
def hookPool (sys cfg : List CA) : Option (List CA) := poolOf poolNilWhenUnconfigured poolBase poolItems sys cfg

/-- the field of the template: the hook's pool or nil -/
def fieldOf (src : PoolSrc) (sys cfg : List CA) : Option (List CA) :=
  match src with
  | .hookPool => hookPool sys cfg
  | .nilPool => none

/-- crypto/x509: `Roots == nil` means the host's root store -/
def effective (pool : Option (List CA)) (sys : List CA) : List CA :=
  match pool with
  | some p => p
  | none => sys

/-- anchors a listener context verifies client certificates against (`tls.Config.ClientCAs`) -/
def listenerAnchors (sys cfg : List CA) : List CA := effective (fieldOf clientCAsSrc sys cfg) sys

/-- anchors a cluster context verifies the upstream's certificate against (`tls.Config.RootCAs`) -/
def upstreamAnchors (sys cfg : List CA) : List CA := effective (fieldOf rootCAsSrc sys cfg) sys

/-- a certificate a peer presents: who issued it (a self-signed certificate is its own issuer, an authority nobody
lists), whether it has expired, whether the peer holds its private key -/
structure Cert where
  issuer : CA
  expired : Bool
  possession : Bool
  deriving DecidableEq, Repr

/-- crypto/x509 `Verify` against a set of anchors (black box, expected verdict) -/
def chainOK (anchors : List CA) (c : Cert) : Bool := !c.expired && anchors.contains c.issuer

/-- server-side result of a handshake under ClientAuthType `auth` with the given anchors (same thresholds as
`TlsSelect.serverAccepts`; `none` = the client presents no certificate) -/
def serverAccepts2 (auth : Int) (anchors : List CA) (p : Option Cert) : Bool :=
  if auth < RequestClientCert then true
  else match p with
    | none => !requiresClientCert auth
    | some c => (if auth ≥ VerifyClientCertIfGiven then chainOK anchors c else true) && c.possession

/-- a listener context (require_client_cert, verify_client, ca_cert = `cfg`) on a host whose root store is `sys` -/
def listenerAccepts (sys cfg : List CA) (req ver : Bool) (p : Option Cert) : Bool :=
  serverAccepts2 (getClientAuth req ver) (listenerAnchors sys cfg) p

/-- the certificate an upstream presents: its chain data, whether it carries the configured server_name, and whether it
carries the URI the sni_verify extension is configured with -/
structure SCert where
  cert : Cert
  nameOK : Bool
  uriOK : Bool
  deriving DecidableEq, Repr

/-- client-side result with the flags of `SetClientConfig`. `hook` = the context's hooks return a verify function: the
one reachable extension (pkg/mtls/extensions/sni, `sni_verify`) verifies the chain against `cfg.RootCAs` WITHOUT the
DNS name and then requires the configured URI. An empty server_name without InsecureSkipVerify is refused by crypto/tls
before anything is sent. -/
def clientAccepts2 (hook insecureSkip serverNameSet : Bool) (anchors : List CA) (s : SCert) : Bool :=
  let flags := clientVerify hook insecureSkip
  (flags.1 || serverNameSet) && (flags.1 || (chainOK anchors s.cert && s.nameOK)) &&
    (!flags.2 || (chainOK anchors s.cert && s.uriOK))

/-- a cluster context (ca_cert = `cfg`) on a host whose root store is `sys` -/
def upstreamAccepts (sys cfg : List CA) (hook insecureSkip serverNameSet : Bool) (s : SCert) : Bool :=
  clientAccepts2 hook insecureSkip serverNameSet (upstreamAnchors sys cfg) s

/-! ### Spec -/

/-- the statement: a CONFIGURED ca_cert is the only anchor; without one crypto/tls uses the host's root CA set (the
behaviour newTLSContext documents: "pool can be nil, if it is nil, TLS uses the host's root CA set") -/
def specAnchors (sys cfg : List CA) : List CA := if cfg.isEmpty then sys else cfg

def specTrusted (sys cfg : List CA) (c : Cert) : Bool := !c.expired && (specAnchors sys cfg).contains c.issuer

/-- the statement's server-side trust table over arbitrary stores and configured sets -/
def specListenerAccepts (sys cfg : List CA) (req ver : Bool) (p : Option Cert) : Bool :=
  match req, ver, p with
  | false, false, _ => true
  | true, false, none => true            -- RequestClientCert: a certificate is asked for, not required
  | true, false, some c => c.possession
  | false, true, none => true
  | true, true, none => false
  | _, true, some c => specTrusted sys cfg c && c.possession

/-- the statement's client-side trust table -/
def specUpstreamAccepts (sys cfg : List CA) (hook insecureSkip serverNameSet : Bool) (s : SCert) : Bool :=
  if insecureSkip then true
  else if hook then specTrusted sys cfg s.cert && s.uriOK
  else serverNameSet && specTrusted sys cfg s.cert && s.nameOK

end MosnVerif.Model.TlsTrust
