import MosnVerif.Model.VhostTable
import MosnVerif.Model.VhostSpec
/-!
The `vht` cases of the harness on the thread machine of `Model/VhostTable.lean` (property C12): one lookup (thread 0) on the table
`old`, `RemoveAllRoutes` (thread 1) and `AddRoute newⱼ` (thread `j + 2`) — the REGENERATED programs — under the schedule the harness
forces: the lookup runs until it has read the slot of the gate route, the writer calls are attempted one after the other, the
lookup finishes, the writer calls finish. Core Lean only (the native driver links it).
-/
namespace MosnVerif.Model.VhostTable
open MosnVerif.Gen.VhostLocks MosnVerif.Model.VhostSpec

/-- thread 0 = the lookup for request `q`, thread 1 = `RemoveAllRoutes`, thread `j + 2` = `AddRoute new[j]` -/
def caseCalls (new : List R) (first : Bool) (q : Nat) : Nat → Call R Nat
  | 0 => if first then .entries (R.mt q) else .all (R.mt q)
  | 1 => .removeAll
  | t + 2 =>
    match new[t]? with
    | some r => .add r r.key
    | none => .kv 0

/-- thread `t` is scheduled `fuel` times (a finished or blocked thread stutters) -/
def runThread (args : Nat → Arg R Nat) (c : Conf R Nat) (t fuel : Nat) : Conf R Nat :=
  runSched false args c (List.replicate fuel t)

/-- one call executed alone on `s` -/
def seqCall (s : Shared R Nat) (cl : Call R Nat) : Shared R Nat :=
  (runThread (fun _ => argOf cl) (initConf (fun t => if t = 0 then progOf cl else []) s) 0 64).g.sh

/-- `NewVirtualHostImpl`: the routes of the configuration added one by one to the empty virtual host -/
def buildShared (routes : List R) : Shared R Nat := routes.foldl (fun s r => seqCall s (.add r r.key)) emptyShared

/-- thread 0 is scheduled until its walk has read slot `i` (or it has finished, or `fuel` steps were made) -/
def runToSlot (args : Nat → Arg R Nat) (c : Conf R Nat) (i : Nat) : Nat → Conf R Nat
  | 0 => c
  | fuel + 1 =>
    let parked := match (c.th 0).walk with
      | some w => decide (w.i = i + 1)
      | none => false
    if parked || (c.th 0).todo.isEmpty then c else runToSlot args (stepThread false args c 0) i fuel

structure ParkOut where
  /-- the lookup reached the gate slot -/
  parked : Bool
  /-- the lookup's answer -/
  ans : List R
  /-- writer calls completed while the lookup was parked -/
  c1 : Nat
  /-- the view at the end -/
  final : View R Nat
  /-- the order in which the writer calls released the lock -/
  done : List Nat

def parkRun (old new : List R) (i : Nat) (first : Bool) (q : Nat) : ParkOut :=
  let calls := caseCalls new first q
  let args : Nat → Arg R Nat := fun t => argOf (calls t)
  let c0 : Conf R Nat := initConf (fun t => progOf (calls t)) (buildShared old)
  let c1 := runToSlot args c0 i 64
  let parked := match (c1.th 0).walk with
    | some w => decide (w.i = i + 1)
    | none => false
  let writers := (List.range (new.length + 1)).map (· + 1)
  let c2 := writers.foldl (fun c t => runThread args c t 32) c1
  let c3 := runThread args c2 0 64
  let c4 := writers.foldl (fun c t => runThread args c t 32) c3
  ⟨parked, ((c4.th 0).obs.map (·.res)).flatten, c2.g.done.length, view c4.g.sh, c4.g.done⟩

/-- the views after 0, 1, … writer calls run one after the other -/
def seqViews (old new : List R) : List (View R Nat) :=
  let calls : List (Call R Nat) := .removeAll :: new.map (fun r => .add r r.key)
  let rec go (s : Shared R Nat) : List (Call R Nat) → List (View R Nat)
    | [] => [view s]
    | cl :: r => view s :: go (seqCall s cl) r
  go (buildShared old) calls

/-- what the harness prints for a view, computed with the model's `answer` -/
def obsView (v : View R Nat) : String :=
  ",".intercalate (tokens.map (fun q =>
    dash ((answer { mt := R.mt q, first := true } false v).map (·.id)) ++ ";" ++
    dash ((answer { mt := R.mt q, first := false } false v).map (·.id)) ++ ";" ++
    dash ((answer ({ key := some q } : Arg R Nat) true v).map (·.id))))

end MosnVerif.Model.VhostTable
