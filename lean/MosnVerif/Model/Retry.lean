import MosnVerif.Gen.RetryState
import MosnVerif.Gen.RouteAction
/-!
Attempt machine of one proxied request: `pkg/proxy/retrystate.go` (`newRetryState`, `retry`, `shouldRetry`, `doRetryCheck`
— all regenerated, `Gen.RetryState`) inside the parts of `pkg/proxy/downstream.go` that drive upstream attempts:
`chooseHost` (local replies first, then host selection + `newRetryState`), `onUpstreamHeaders`, `onUpstreamReset`
(the guards and retry conditions are regenerated), `setupRetry`/`doRetry` (host selection again, then `pool.NewStream`),
the per-try and the global timer, and the bounded re-entry loop of `downStream.OnReceive`.

State = (retries remaining, retry state present, downstream response started, attempt outstanding, loop passes left,
attempts so far, status variable, trace).  Labels = what happens to the outstanding attempt (`Outcome`) together with the
two oracles a retry consults: the `Retries` breaker (`canCreate`) and the load balancer (`host`, `none` = no healthy host).
Core Lean only.
-/
namespace MosnVerif.Model.Retry
open MosnVerif.Gen.RetryState MosnVerif.Gen.RouteAction

/-- retry policy of the matched route (+ the protocol/filter supplied `proxy_disable_retry` variable) -/
structure Policy where
  retryOn : Bool
  numRetries : Nat
  codes : List Nat
  /-- the effective per-try timeout is > 0 (a per-try timer is armed for every attempt) -/
  tryTimeout : Bool
  disable : Bool
deriving Repr

/-- what happens to the outstanding upstream attempt -/
inductive Outcome where
  /-- response headers with this status (a 2xx, a listed code, a 5xx, anything) -/
  | resp (code : Nat)
  /-- stream reset `ConnectionFailed` -/
  | connFail
  /-- stream reset `ConnectionTermination` -/
  | termination
  | remoteReset
  | localReset
  /-- `pool.NewStream` refused: connect failure / overflow -/
  | poolConnFail
  | poolOverflow
  /-- the per-try timer fires -/
  | perTry
  /-- the global timer fires -/
  | global
deriving DecidableEq, Repr

structure Label where
  o : Outcome
  /-- the cluster's `Retries` breaker admits one more retry -/
  canCreate : Bool
  /-- result of the host selection a retry would run (`none`: no healthy host) -/
  host : Option Nat
deriving Repr

inductive Ev where
  /-- host selection for attempt `k` (`initializeUpstreamConnectionPool`) -/
  | choose (k : Nat)
  /-- `pool.NewStream` for attempt `k` on `host` -/
  | attempt (k : Nat) (host : Nat)
  | outcome (o : Outcome)
  /-- downstream response headers with this status: the downstream response has started -/
  | reply (code : Int)
  /-- the worker left `OnReceive`'s loop with work pending: nothing more happens -/
  | stuck
deriving DecidableEq, Repr

structure St where
  remaining : Int
  hasRS : Bool
  started : Bool
  live : Bool
  loops : Nat
  attempts : Nat
  lastStatus : Option Int
  trace : List Ev
deriving Repr

/-- reset reason handed to `onUpstreamReset` (regenerated constants; `""` for response headers) -/
def reasonOf : Outcome → String
  | .resp _ => ""
  | .connFail => streamConnectionFailed
  | .termination => streamConnectionTermination
  | .remoteReset => streamRemoteReset
  | .localReset => streamLocalReset
  | .poolConnFail => poolFailReason false
  | .poolOverflow => poolFailReason true
  | .perTry => upstreamPerTryTimeout
  | .global => upstreamGlobalTimeout

def codesInt (p : Policy) : List Int := p.codes.map Int.ofNat

/-- `retryState.retry(ctx, headers, reason)`: (status handed to the proxy, new `retiesRemaining`) -/
def retryCall (p : Policy) (s : St) (reason : String) (canCreate : Bool) : Int × Int :=
  let chk := doRetryCheck true p.disable p.retryOn s.lastStatus.isNone (s.lastStatus.getD 0) (codesInt p) reason
  let r := shouldRetry s.remaining chk canCreate
  (retry r.1, r.2)

/-- a locally generated reply (`sendHijackReply`): the worker has to re-enter `receive` at the `UpFilter` phase, which takes
one more pass of `OnReceive`'s loop -/
def hijack (s : St) (code : Int) : St :=
  if s.loops = 0 then { s with live := false, trace := s.trace ++ [.stuck] }
  else { s with live := false, started := true, hasRS := false, loops := s.loops - 1, lastStatus := some code,
                trace := s.trace ++ [.reply code] }

/-- `Retry` phase: `doRetry` = host selection again, then `pool.NewStream` on the selected host -/
def doRetry (s : St) (host : Option Nat) : St :=
  if s.loops = 0 then { s with live := false, trace := s.trace ++ [.stuck] }
  else
    let s := { s with loops := if retryKeepsBudget then s.loops else s.loops - 1, trace := s.trace ++ [.choose s.attempts] }
    match host with
    | none => hijack s noHealthUpstreamCode
    | some h => { s with attempts := s.attempts + 1, trace := s.trace ++ [.attempt s.attempts h] }

/-- the upstream response is forwarded (`onUpstreamHeaders` past the retry check) -/
def forward (s : St) (code : Int) : St :=
  { s with live := false, started := true, trace := s.trace ++ [.reply code] }

/-- `onUpstreamHeaders`: response headers with status `c` arrive for the outstanding attempt -/
def stepResp (p : Policy) (s : St) (c : Nat) (l : Label) : St :=
  let s := { s with lastStatus := some (c : Int) }
  if headersGuard s.hasRS then
    let r := retryCall p s "" l.canCreate
    let s := { s with remaining := r.2 }
    if headersRetryCond r.1 then doRetry s l.host else forward s c
  else forward s c

/-- `onUpstreamReset`: the outstanding attempt ends without response headers (reset, refused by the pool, timer) -/
def stepReset (p : Policy) (s : St) (o : Outcome) (l : Label) : St :=
  let reason := reasonOf o
  if resetGuard reason s.started s.hasRS then
    let r := retryCall p s reason l.canCreate
    let s := { s with remaining := r.2 }
    if resetRetryCond r.1 then doRetry s l.host else hijack s (convertReasonToCode reason)
  else hijack s (convertReasonToCode reason)

def isResp : Outcome → Bool
  | .resp _ => true
  | _ => false

def step (p : Policy) (s : St) (l : Label) : St :=
  if s.live = false then
    -- no attempt outstanding. A reset can still reach `onUpstreamReset` while the started response is being forwarded
    -- (`processError` between the header, data and trailer phases): the regenerated guard decides whether it may retry.
    if s.started = true ∧ isResp l.o = false ∧ resetGuard (reasonOf l.o) s.started s.hasRS = true then stepReset p s l.o l
    else s
  else if l.o = .perTry ∧ p.tryTimeout = false then s      -- no per-try timer armed: the label cannot occur
  else
    let s := { s with trace := s.trace ++ [.outcome l.o] }
    match l.o with
    | .resp c => stepResp p s c l
    | o => stepReset p s o l

/-- `chooseHost` on a route with an upstream cluster: host selection, `newRetryState`, first `pool.NewStream` -/
def start (p : Policy) (host0 : Option Nat) : St :=
  let s : St := { remaining := 0, hasRS := false, started := false, live := false, loops := workLoopBound - 1, attempts := 0,
                  lastStatus := none, trace := [.choose 0] }
  match host0 with
  | none => hijack s noHealthUpstreamCode
  | some h => { s with remaining := initialBudget p.numRetries, hasRS := true, live := true, attempts := 1,
                       trace := s.trace ++ [.attempt 0 h] }

def run (p : Policy) (host0 : Option Nat) (ls : List Label) : St := ls.foldl (step p) (start p host0)

def isAttempt : Ev → Bool
  | .attempt _ _ => true
  | _ => false

/-- number of `pool.NewStream` calls in a trace -/
def attemptCount (t : List Ev) : Nat := (t.filter isAttempt).length

/-! ### declarative side (written without the regenerated functions) -/

/-- the retry budget MOSN derives from the configured `num_retries`: never below 3 -/
def budget (p : Policy) : Nat := max 3 p.numRetries

/-- the configured retry conditions: nothing when retries are disabled for the request or the pool overflowed or the global
timeout fired; a connect failure always; with `retry_on` also a listed status code (any status ≥ 500 when no list is
configured), a per-try timeout and a connection termination. -/
def retryable (p : Policy) : Outcome → Bool
  | .resp c => !p.disable && p.retryOn && (if p.codes.isEmpty then decide (c ≥ 500) else p.codes.contains c)
  | .connFail => !p.disable
  | .poolConnFail => !p.disable
  | .termination => !p.disable && p.retryOn
  | .perTry => !p.disable && p.retryOn
  | .remoteReset => false
  | .localReset => false
  | .poolOverflow => false
  | .global => false

/-- scanner state of the trace acceptor -/
structure Scan where
  /-- attempts seen -/
  n : Nat
  /-- the previous event permits an attempt: nothing happened yet, or it was a retryable outcome before any response / global timeout -/
  permit : Bool
  /-- the previous event is the host selection for attempt `n` -/
  chosen : Bool
  /-- a downstream response has started, the global timeout has fired, or the worker is gone -/
  dead : Bool
deriving Repr, DecidableEq

def scanInit : Scan := { n := 0, permit := true, chosen := false, dead := false }

/-- one event of a well-formed trace: a host selection needs a permit and consumes it; an attempt needs the host selection for
its own index immediately before it; an outcome grants a permit iff it is retryable under the policy and nothing ended the
exchange before; a reply / global timeout / stuck ends the exchange. -/
def scanStep (p : Policy) (c : Scan) : Ev → Option Scan
  | .choose k => if k = c.n ∧ c.permit = true ∧ c.dead = false ∧ c.chosen = false then some { c with chosen := true, permit := false } else none
  | .attempt k _ => if k = c.n ∧ c.chosen = true then some { c with n := c.n + 1, chosen := false, permit := false } else none
  | .outcome o =>
    if c.chosen = true then none
    else some { c with permit := retryable p o && !c.dead, dead := c.dead || decide (o = .global) }
  | .reply _ => some { c with dead := true, permit := false, chosen := false }
  | .stuck => some { c with dead := true, permit := false, chosen := false }

def scan (p : Policy) : Scan → List Ev → Option Scan
  | c, [] => some c
  | c, e :: r => match scanStep p c e with
    | some c' => scan p c' r
    | none => none

/-- the trace acceptor: retries only after retryable outcomes, never after a started response or the global timeout,
every attempt on a freshly selected host, attempt indices consecutive -/
def traceOk (p : Policy) (t : List Ev) : Bool := (scan p scanInit t).isSome

/-- events after which nothing may be attempted: the downstream response started, the worker is gone, the global timeout fired -/
def ends : Ev → Bool
  | .reply _ => true
  | .stuck => true
  | .outcome .global => true
  | _ => false

/-! ### route actions answered locally (`chooseHost`) -/

structure DirectResponse where
  status : Int
  body : String
deriving Repr

/-- `NewRouteRuleImplBase`: response code 0 means 301; the scheme is lower-cased -/
def redirectCodeDefault : Int := 301

structure Redirect where
  code : Int
  scheme : String
  host : String
  path : String
deriving Repr

/-- facts about the matched route that `chooseHost` branches on -/
structure RouteFacts where
  hasRoute : Bool
  direct : Option DirectResponse
  redirect : Option Redirect
  hasRule : Bool
  hasSnapshot : Bool
deriving Repr

def branchHolds (r : RouteFacts) : Branch → Bool
  | .noRoute => !r.hasRoute
  | .direct => r.direct.isSome
  | .redirect => r.redirect.isSome
  | .noRule => !r.hasRule
  | .noSnapshot => !r.hasSnapshot
  | .pool => true

/-- the branch `chooseHost` takes: the first one, in source order (regenerated), whose condition holds -/
def chooseBranch (r : RouteFacts) : Branch := (chooseHostOrder.find? (branchHolds r)).getD .pool

/-- the current request as the redirect rule sees it -/
structure Req where
  scheme : String
  host : String
  path : String
  query : String
deriving Repr

/-- `host:port` split at the last colon (hosts without IPv6 brackets; `net.SplitHostPort` is a black box otherwise) -/
def splitHostPort (h : String) : Option (String × String) :=
  match (h.splitOn ":") with
  | [a, b] => some (a, b)
  | _ => none

/-- `url.URL{Scheme, Host, Path, RawQuery}.String()` for non-empty schemes and paths that need no escaping (a relative path
after a host gets a leading `/`) -/
def urlString (scheme host path query : String) : String :=
  let path := if host ≠ "" ∧ path ≠ "" ∧ path.toList.head? ≠ some '/' then "/" ++ path else path
  scheme ++ "://" ++ host ++ path ++ (if query.isEmpty then "" else "?" ++ query)

/-- the `location` a redirect rule produces (defaults regenerated: `getStringOr`, port rule regenerated: `stripPort`) -/
def redirectLocation (rd : Redirect) (q : Req) : String :=
  let scheme := getStringOr rd.scheme q.scheme
  let host := getStringOr rd.host q.host
  let path := getStringOr rd.path q.path
  let host :=
    if scheme ≠ q.scheme then
      match splitHostPort host with
      | some (h, port) => if stripPort scheme port then h else host
      | none => host
    else host
  urlString scheme host path q.query

/-- what `chooseHost` does locally: (status, location header, body) — or `none` when the request goes upstream -/
structure LocalReply where
  status : Int
  location : Option String
  body : String
deriving Repr, DecidableEq

def localReply (r : RouteFacts) (q : Req) : Option LocalReply :=
  match chooseBranch r with
  | .pool => none
  | .direct => r.direct.map (fun d => { status := d.status, location := none, body := d.body })
  | .redirect => r.redirect.map (fun rd => { status := rd.code, location := some (redirectLocation rd q), body := "" })
  | _ => some { status := routerUnavailableCode, location := none, body := "" }

/-- the whole exchange of a request on a route: a local reply produces exactly one `reply` event and no upstream event at all -/
def exchange (r : RouteFacts) (q : Req) (p : Policy) (host0 : Option Nat) (ls : List Label) : List Ev :=
  match localReply r q with
  | some lr => [.reply lr.status]
  | none => (run p host0 ls).trace

/-! ### path rewrite (`finalizePathHeader`) -/

structure RewriteCfg where
  prefixRewrite : String
  /-- regex of `regex_rewrite` as stored by the rule (empty when not configured or ignored at construction) -/
  regex : String
deriving Repr

/-- (path variable after, value of the original-path header if it was set). `regexReplace` = `ReplaceAllString` of the compiled
pattern with the configured substitution (black box). -/
def finalizePath (c : RewriteCfg) (matched path : String) (regexReplace : String → String) : String × Option String :=
  if rewriteDisabled c.prefixRewrite c.regex then (path, none)
  else if path = "" then (path, none)
  else if c.prefixRewrite.length ≠ 0 then
    match prefixRewritePath c.prefixRewrite.toList matched.toList path.toList with
    | some np => (String.ofList np, some path)
    | none => (path, none)
  else
    let np := regexReplace path
    if np ≠ path then (np, some path) else (path, none)

end MosnVerif.Model.Retry
