import MosnVerif.Model.Correlate
/-!
Executable property predicate of C02 end to end, on what the CLIENT of the downstream connection observes: the
requests it sent (request id, token) and the frames it received (request id, payload). Declarative: it calls neither
the model's `step` nor anything regenerated.
-/
namespace MosnVerif.Model.Correlate

/-- frame `f` is an acceptable answer to request `r`: it carries the request's id, and its payload is the one produced
for that request (the upstream echoes the token) or a payload-free local error reply -/
def answers (r : Int × Nat) (f : Int × Payload) : Bool :=
  r.1 == f.1 && (match f.2 with
    | .ok t => t == r.2
    | .err => true
    | .mixed => false)

/-- every received frame answers one of the requests sent, and no request id is answered twice (the client's ids are
pairwise distinct, so this is "at most one reply per request") -/
def specE2E (reqs : List (Int × Nat)) (frames : List (Int × Payload)) : Bool :=
  frames.all (fun f => reqs.any (fun r => answers r f)) && decide ((frames.map (·.1)).Nodup)

end MosnVerif.Model.Correlate
