import MosnVerif.Gen.Flow
/-!
Model of MOSN's HTTP/2 **send-side flow control** (pkg/module/http2/flow.go, mhttp2.go).

* `flow.add / available / take` are the *regenerated* definitions of `Gen.Flow` (Go `int32` arithmetic = unbounded `Int`
  wrapped by `wrap32` after every operation).
* One pass of the sender loop (`MClientStream.awaitFlowControl` / `MStream.awaitFlowControl` followed by
  `MFramer.writeData`) is the label `send i`: guard and amount are the regenerated `clientEnabled/clientTake`
  (`serverEnabled/serverTake`), the chunk is cut into DATA frames of at most `Gen.Flow.writeDataSplit` bytes.
* What the peer does are the other labels: WINDOW_UPDATE on a stream / on the connection, SETTINGS_INITIAL_WINDOW_SIZE,
  SETTINGS_MAX_FRAME_SIZE, and `openStream len` (MOSN opens a stream with a body of `len` bytes).  A *schedule* is an
  arbitrary `List Label`; theorems quantify over all of them (every interleaving of sends with peer frames; all
  streams share the connection window).
* `Peer` is an independent account of what the peer advertised (RFC 7540 §6.9 bookkeeping, no code of MOSN in it);
  `peerOk` replays an observation trace against it.  It is the executable property predicate, evaluated on the real
  implementation's DATA frames by the driver and proved of every model run in `Props/C18.lean`.
-/
namespace MosnVerif.Model.Flow
open MosnVerif.Gen.Flow

/-- which of MOSN's two senders: `MClientConn` (request bodies) or `MServerConn` (response bodies) -/
inductive Side | client | server
  deriving DecidableEq, Repr

structure Strm where
  /-- `flow.n` of the stream -/
  n : Int
  /-- `len(remain)`: body bytes not yet handed to the framer -/
  rem : Nat
  deriving Repr, Inhabited

/-- what is observable on the wire / by the peer, in order -/
inductive Obs
  | opened                             -- MOSN opened a stream (its index = number opened before)
  | data (i : Nat) (sizes : List Nat)  -- DATA frames of one take on stream i
  | wuS (i inc : Nat)                  -- peer sent WINDOW_UPDATE(stream i, inc)
  | wuC (inc : Nat)                    -- peer sent WINDOW_UPDATE(0, inc)
  | sInit (v : Nat)                    -- peer sent SETTINGS_INITIAL_WINDOW_SIZE = v
  | sMax (v : Nat)                     -- peer sent SETTINGS_MAX_FRAME_SIZE = v
  | connError                          -- MOSN answered with a connection error (and stops)
  deriving Repr, DecidableEq

inductive Label
  | openStream (len : Nat)
  | send (i : Nat)
  | wuStream (i inc : Nat)
  | wuConn (inc : Nat)
  | setInit (v : Nat)
  | setMaxFrame (v : Nat)
  deriving Repr

structure St where
  side : Side
  /-- connection send window (`cc.flow.n` / `sc.flow.n`) -/
  cn : Int
  /-- `cc.initialWindowSize` / `sc.initialStreamSendWindowSize` -/
  init : Int
  /-- `cc.maxFrameSize` (uint32) / `sc.maxFrameSize` (int32) -/
  maxFrame : Int
  /-- a connection error was raised: the connection is closed, senders return `errClientConnClosed` -/
  closed : Bool
  /-- a Go panic would have happened (`took too much`, negative or over-long slice); proved unreachable -/
  panicked : Bool
  count : Nat
  strm : Nat → Strm
  trace : List Obs

def maxInt32 : Int := 2147483647

def St.initial (side : Side) : St :=
  { side := side
    cn := (add 0 (wrap32 initialWindowSize)).1        -- cc.flow.add(initialWindowSize)
    init := match side with | .client => clientInitialWindowSize | .server => initialWindowSize
    maxFrame := match side with | .client => clientMaxFrameSize | .server => initialMaxFrameSize
    closed := false, panicked := false, count := 0
    strm := fun _ => { n := 0, rem := 0 }, trace := [] }

def upd (f : Nat → Strm) (i : Nat) (v : Strm) : Nat → Strm := fun j => if j = i then v else f j

/-- `MFramer.writeData`: a chunk of `k` bytes leaves as `k / split` full DATA frames and one remainder frame -/
def splitFrames (k : Nat) : List Nat :=
  List.replicate (k / writeDataSplit) writeDataSplit ++ (if k % writeDataSplit = 0 then [] else [k % writeDataSplit])

def enabled : Side → Int → Bool
  | .client, a => clientEnabled a
  | .server, a => serverEnabled a

def takeAmount : Side → Int → Int → Int → Int
  | .client, a, mb, mf => clientTake a mb mf
  | .server, a, mb, mf => serverTake a mb mf

/-- is stream `j` still in the connection's stream table?  The server drops a stream as soon as its response body is
complete (`MStream.WriteTrailers` → `closeStream`), so later WINDOW_UPDATE / SETTINGS no longer touch its window; the
client keeps it until the response ends (not modelled: it stays). -/
def tracked (s : St) (j : Nat) : Bool :=
  decide (j < s.count) && !(s.side == Side.server && (s.strm j).rem == 0)

/-- one pass of the sender loop for stream `i` (no-op when it would block in `cond.Wait`, when the body is done,
or when the connection is closed) -/
def sendStep (s : St) (i : Nat) : St :=
  if s.closed || s.panicked || decide (s.count ≤ i) then s else
  let st := s.strm i
  if st.rem = 0 then s else
  let a := available st.n true s.cn
  if !(enabled s.side a) then s else
  let t := takeAmount s.side a (st.rem : Int) s.maxFrame
  match take st.n true s.cn t with
  | none => { s with panicked := true }
  | some (n', cn') =>
    if t < 0 || decide ((st.rem : Int) < t) then { s with panicked := true, cn := cn', strm := upd s.strm i { st with n := n' } }
    else
      { s with cn := cn', strm := upd s.strm i { n := n', rem := st.rem - t.toNat },
               trace := s.trace ++ [Obs.data i (splitFrames t.toNat)] }

def step (s : St) : Label → St
  | .send i => sendStep s i
  | .openStream len =>
    if s.closed || s.panicked then s else
    { s with strm := upd s.strm s.count { n := (add 0 (wrap32 s.init)).1, rem := len }, count := s.count + 1,
             trace := s.trace ++ [Obs.opened] }
  | .wuStream i inc =>
    if s.closed || s.panicked then s else
    if s.count ≤ i then { s with trace := s.trace ++ [Obs.wuS i inc] }   -- unknown stream (`st == nil`): frame ignored
    else if !(tracked s i) then { s with trace := s.trace ++ [Obs.wuS i inc] }   -- closed stream: frame ignored
    else
      let st := s.strm i
      let r := add st.n (wrap32 inc)
      if r.2 then { s with strm := upd s.strm i { st with n := r.1 }, trace := s.trace ++ [Obs.wuS i inc] }
      else { s with closed := true, trace := s.trace ++ [Obs.wuS i inc, Obs.connError] }
  | .wuConn inc =>
    if s.closed || s.panicked then s else
    let r := add s.cn (wrap32 inc)
    if r.2 then { s with cn := r.1, trace := s.trace ++ [Obs.wuC inc] }
    else { s with closed := true, trace := s.trace ++ [Obs.wuC inc, Obs.connError] }
  | .setInit v =>
    if s.closed || s.panicked then s else
    if maxInt32 < (v : Int) then { s with closed := true, trace := s.trace ++ [Obs.sInit v, Obs.connError] }
    else
      let delta := wrap32 (wrap32 v - wrap32 s.init)
      let anyFail := (List.range s.count).any (fun j => tracked s j && !(add (s.strm j).n delta).2)
      let strm' := fun j => if tracked s j then { s.strm j with n := (add (s.strm j).n delta).1 } else s.strm j
      match s.side with
      | .client =>   -- result of add ignored (mhttp2.go MClientConn.processSettings)
        { s with strm := strm', init := v, trace := s.trace ++ [Obs.sInit v] }
      | .server =>   -- a refused add is a connection error (server.go processSettingInitialWindowSize)
        if anyFail then { s with closed := true, trace := s.trace ++ [Obs.sInit v, Obs.connError] }
        else { s with strm := strm', init := v, trace := s.trace ++ [Obs.sInit v] }
  | .setMaxFrame v =>
    if s.closed || s.panicked then s else
    match s.side with
    | .client =>   -- [c08l9] Setting.Valid() in the callback of MClientConn.processSettings (since fix 'SETTINGS of an upstream validated')
      if v < 16384 || 16777215 < v then { s with closed := true, trace := s.trace ++ [Obs.sMax v, Obs.connError] }
      else { s with maxFrame := v, trace := s.trace ++ [Obs.sMax v] }
    | .server =>   -- Setting.Valid()
      if v < 16384 || 16777215 < v then { s with closed := true, trace := s.trace ++ [Obs.sMax v, Obs.connError] }
      else { s with maxFrame := wrap32 v, trace := s.trace ++ [Obs.sMax v] }

def run (s : St) (sched : List Label) : St := sched.foldl step s

/-- repeat the sender pass of stream `i` (`fuel` times): the `for len(remain) > 0` loop of WriteData -/
def pump (s : St) (i : Nat) : Nat → St
  | 0 => s
  | k + 1 => pump (sendStep s i) i k

/-- DATA bytes written so far on stream `i` -/
def sentOn (i : Nat) : List Obs → Nat
  | [] => 0
  | Obs.data j sizes :: r => (if j = i then sizes.sum else 0) + sentOn i r
  | _ :: r => sentOn i r

/-! ### the peer's books (independent reference; RFC 7540 §6.9.1, §6.9.2, §4.2) -/

structure Peer where
  /-- connection window the peer has granted and not yet seen used -/
  connW : Int
  /-- SETTINGS_INITIAL_WINDOW_SIZE last advertised -/
  init : Int
  /-- SETTINGS_MAX_FRAME_SIZE last advertised -/
  maxF : Int
  count : Nat
  /-- per-stream window -/
  w : Nat → Int
  /-- no DATA beyond a window, no frame above the maximum frame size so far -/
  ok : Bool
  /-- the peer itself never let a window exceed 2^31-1 and only sent RFC-valid settings/increments -/
  conformant : Bool

def Peer.initial : Peer :=
  { connW := 65535, init := 65535, maxF := 16384, count := 0, w := fun _ => 0, ok := true, conformant := true }

def updW (f : Nat → Int) (i : Nat) (v : Int) : Nat → Int := fun j => if j = i then v else f j

def peerStep (p : Peer) : Obs → Peer
  | .opened => { p with w := updW p.w p.count p.init, count := p.count + 1 }
  | .data i sizes =>
    let k : Int := (sizes.sum : Nat)
    { p with ok := p.ok && decide (i < p.count) && decide (k ≤ p.w i) && decide (k ≤ p.connW) &&
                   sizes.all (fun z => decide ((z : Int) ≤ p.maxF)),
             w := updW p.w i (p.w i - k), connW := p.connW - k }
  | .wuS i inc =>
    if i < p.count then
      { p with w := updW p.w i (p.w i + inc),
               conformant := p.conformant && decide (1 ≤ inc) && decide (p.w i + inc ≤ 2147483647) }
    else { p with conformant := false }   -- WINDOW_UPDATE on an idle stream (RFC 7540 §5.1): the peer's protocol error
  | .wuC inc =>
    { p with connW := p.connW + inc, conformant := p.conformant && decide (1 ≤ inc) && decide (p.connW + inc ≤ 2147483647) }
  | .sInit v =>
    { p with w := fun j => if j < p.count then p.w j + ((v : Int) - p.init) else p.w j, init := v,
             conformant := p.conformant && decide ((v : Int) ≤ 2147483647) &&
               (List.range p.count).all (fun j => decide (p.w j + ((v : Int) - p.init) ≤ 2147483647)) }
  | .sMax v => { p with maxF := v, conformant := p.conformant && decide (16384 ≤ v) && decide (v ≤ 16777215) }
  | .connError => p

def peerOf (trace : List Obs) : Peer := trace.foldl peerStep Peer.initial

/-- **the property predicate**: the DATA frames of the trace never exceed the stream window, the connection window or
the maximum frame size the peer had advertised at that point. -/
def peerOk (trace : List Obs) : Bool := (peerOf trace).ok

/-- labels a frame parser can deliver (increment 1..2^31-1 after the reserved-bit mask and the zero check of
`parseWindowUpdateFrame`; settings values are uint32; SETTINGS_MAX_FRAME_SIZE in 1..2^31-1 — a superset of the
RFC range 2^14..2^24-1: MOSN's client, like the reference transport, stores the value unchecked) -/
def Label.wf : Label → Bool
  | .openStream _ => true
  | .send _ => true
  | .wuStream _ inc => decide (1 ≤ inc) && decide (inc ≤ 2147483647)
  | .wuConn inc => decide (1 ≤ inc) && decide (inc ≤ 2147483647)
  | .setInit v => decide (v < 4294967296)
  | .setMaxFrame v => decide (1 ≤ v) && decide (v ≤ 2147483647)

end MosnVerif.Model.Flow
