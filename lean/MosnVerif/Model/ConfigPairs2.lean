import MosnVerif.Model.ConfigCodec
/-!
# Further custom (Un)MarshalJSON pairs of pkg/config/v2 (C19)

All of them wrap an embedded `…Config` struct that goes through the generic codec, and keep fields derived from it:

* **metadata wrappers** — `ClusterWeight` (route.go), `RouteAction` (route.go), `Router` (route.go), `Host` (upstream.go):
  `UnmarshalJSON` decodes the config and sets `MetadataMatch` / `Metadata` / `MetaData` to `configToMetadata` of the
  `*MetadataConfig` member (string values of `filter_metadata."mosn.lb"` only); `MarshalJSON` overwrites that member with
  `metadataToConfig` of the derived field (nil for an empty map) and encodes.  Modelled once, for ANY field table and
  the position of the metadata member (`metaU` / `metaM`); `RouteAction` additionally mirrors `timeout`
  (`api.DurationConfig`, shape `.dur`) into `Timeout` and back, which is the identity on the config.
* **`CircuitBreakers`** (upstream.go): the bare `[]Thresholds`.
* **`Listener`** (server.go): `UnmarshalJSON` rejects an empty address, defaults `network` to `tcp`, lower-cases it, rejects
  anything but tcp / udp / unix, resolves the address (`net.Resolve{TCP,UDP,Unix}Addr`, a parameter `R` of the model) and
  keeps the `net.Addr`; `MarshalJSON` writes `Addr.String()` as the address.

`embShapeOf` unfolds a struct of the regenerated graph like `looseShapeOf`, but a member whose type has a custom pair and
embeds a config struct is given the generic shape of that config (exact for members already in the form their own pair
writes; the driver's cases are generated that way).  Core Lean only.
-/
namespace MosnVerif.Model.ConfigCodec
open MosnVerif.Model MosnVerif.Model.GoTypes MosnVerif.Model.GoDuration

/-! ## field tables by position -/

/-- field `i` is the `omitempty` string member `key` -/
def strAt (fs : Fields) (i : Nat) (key : String) : Bool :=
  match fs.get? i with
  | some (k, o, sh) => k == key && o && sh == .str
  | none => false

/-! ## metadata wrappers -/

/-- in memory: the embedded config and the derived metadata map -/
structure MetaV where
  cfg : CVal
  md : List (String × String)

/-- `UnmarshalJSON` of a metadata wrapper whose config has field table `fs`, metadata member at position `i` -/
def metaU (fs : Fields) (i : Nat) (w : Json) : Option MetaV :=
  match decode (.struct fs) w with
  | some (.struct vs) => some ⟨.struct vs, mdOf vs[i]?⟩
  | _ => none

/-- `MarshalJSON` of a metadata wrapper -/
def metaM (fs : Fields) (i : Nat) (x : MetaV) : Json :=
  encode (.struct fs) (match x.cfg with
    | .struct vs => .struct (vs.set i (fromMeta x.md))
    | c => c)

/-! ## CircuitBreakers -/

def cbU (th : Shape) (w : Json) : Option CVal := decode (.slice th) w
def cbM (th : Shape) (x : CVal) : Json := encode (.slice th) x

/-! ## Listener -/

/-- ASCII `strings.ToLower` (network names are ASCII) -/
def lower (s : String) : String :=
  String.ofList (s.toList.map (fun c => if 'A' ≤ c ∧ c ≤ 'Z' then Char.ofNat (c.toNat + 32) else c))

/-- `network` as `Listener.UnmarshalJSON` folds it: default `tcp`, lower-cased -/
def foldNet (n : String) : String := lower (if n == "" then "tcp" else n)

/-- tcp / udp / unix -/
def netOK (n : String) : Bool := n == "udp" || n == "unix" || n == "tcp"

/-- in memory: the embedded config (network folded) and `Addr.String()` -/
structure LnV where
  cfg : CVal
  addr : String

/-- `Listener.UnmarshalJSON`; `ia` / `inw` = positions of `address` / `network`, `R network address` = the resolver's
answer rendered by `Addr.String()` (`none` = error) -/
def lnU (fs : Fields) (ia inw : Nat) (R : String → String → Option String) (w : Json) : Option LnV :=
  match decode (.struct fs) w with
  | some (.struct vs) =>
    match vs[ia]?, vs[inw]? with
    | some (.str a), some (.str n) =>
      if a == "" then none                                             -- ErrNoAddrListener
      else if !netOK (foldNet n) then none                             -- ErrUnsupportNetwork
      else match R (foldNet n) a with
        | none => none
        | some r => some ⟨.struct (vs.set inw (.str (foldNet n))), r⟩
    | _, _ => none
  | _ => none

/-- `Listener.MarshalJSON` (`Addr` is never nil after `UnmarshalJSON`) -/
def lnM (fs : Fields) (ia : Nat) (x : LnV) : Json :=
  encode (.struct fs) (match x.cfg with
    | .struct vs => .struct (vs.set ia (.str x.addr))
    | c => c)

/-! ## items of the directory modes -/

/-- the `name` member of a cluster / virtual-host value, as the bytes of the Go string -/
def itemName (sh : Shape) (c : CVal) : List UInt8 :=
  match sh, c with
  | .struct fs, .struct vs =>
    (match vs[fs.indexOf "name"]? with
     | some (.str s) => s.toUTF8.toList
     | _ => [])
  | _, _ => []

/-! ## unfolding the regenerated tables, custom members by their embedded config -/

mutual
def embTy (g : Graph) : Nat → GoTy → Option Shape
  | 0, _ => none
  | _ + 1, .str => some .str
  | _ + 1, .num => some .num
  | _ + 1, .bool => some .bool
  | _ + 1, .hole k => if k == "map[string]interface{}" then some .hmap else some .hole
  | _ + 1, .ext n => if n == "api.DurationConfig" then some .dur else some .hole
  | n + 1, .named s =>
    match g.find s with
    | some d =>
      if d.customMarshal || d.customUnmarshal then
        match d.fields with
        | f :: _ =>
          if f.embedded then
            match f.ty with
            | .named c => (match g.find c with | some dc => (embFs g n dc.fields).map .struct | none => some .hole)
            | _ => some .hole
          else some .hole
        | [] => some .hole
      else (embFs g n d.fields).map .struct
    | none => none
  | n + 1, .slice e => (embTy g n e).map .slice
  | n + 1, .map e => (embTy g n e).map .map
  | n + 1, .ptr e => (embTy g n e).map (fun sh => if ptrElemOK sh then .ptr sh else .hole)
def embFs (g : Graph) : Nat → List Field → Option Fields
  | 0, _ => none
  | _ + 1, [] => some .nil
  | n + 1, f :: r =>
    if f.embedded then none
    else if f.json == "-" then embFs g n r
    else match embTy g n f.ty, embFs g n r with
      | some sh, some rest => some (.cons (jsonKey f) f.omitempty sh rest)
      | _, _ => none
end

/-- field table of config struct `s` of the regenerated graph -/
def embFields (s : String) : Option Fields :=
  match embTy G 64 (.named s) with
  | some (.struct fs) => some fs
  | _ => none

end MosnVerif.Model.ConfigCodec
