import MosnVerif.Gen.RouterLocks
import MosnVerif.Model.Updates
/-!
Concurrent mutators of ONE router of the router manager (`pkg/router/routers_manager.go`, property C12).

* `Gen/RouterLocks.lean` is the regenerated **lock structure**: every mutator (`AddOrUpdateRouters`, `AddRoute`, `RemoveAllRoutes`)
  as a step program — the statements in source order, including where the wrapper's `rw.mux` (read / write) and the manager's
  `rm.updateMux` are taken and released, and between which of them the wrapper is read, the live table is modified and the
  configuration is recorded.
* Part 1 (generic): any number of calls (one *thread id* per call) run their step programs against one shared state under an
  arbitrary **schedule** (a list of thread ids; scheduling a finished or blocked thread is a stutter). `rw.mux` is a
  `sync.RWMutex` (`lock` is enabled while nobody holds it in either mode, `rlock` while nobody holds it for writing),
  `rm.updateMux` a `sync.Mutex`. A step that returns early releases what the call holds (Go's `defer`; the extractor rejects an
  early return inside a region whose unlock is not deferred).
* Part 2 (concrete): what each step does. The wrapper holds POINTERS: `rw.routers` to a table object that `routers.AddRoute /
  RemoveAllRoutes` modify IN PLACE, `rw.routersConfig` to a configuration object that `cfg.VirtualHosts[i].Routers = …` modifies
  in place and that `SetRouter(*cfg)` copies when it is called. The model has a heap of table objects and of configuration
  objects; a call's locals are references. The router exists when the calls start (`rm.routersWrapperMap.Load` finds the same
  wrapper for every call: the map entry of a name is stored once, under `rm.updateMux`, and never replaced — `lookup` reads
  nothing that changes); calls racing with the FIRST `AddOrUpdateRouters` of a name are exercised by the harness only.
  What the steps compute is `Model/Updates.lean` (`build`, `Table.addRoute`, `Table.removeAll`, `recordRouter`'s stored copy).
-/
namespace MosnVerif.Model.RouterLocks
open MosnVerif MosnVerif.Gen.RouterLocks MosnVerif.Model.Updates

/-! ### Part 1: threads, schedules, the two mutexes -/

structure Thread (L : Type) where
  todo : List Step
  loc : L

/-- one call: its step program and its initial local state (the arguments). -/
structure Call (L : Type) where
  prog : List Step
  l0 : L

structure Conf (S L : Type) where
  shared : S
  /-- `rw.mux` held for writing by -/
  writer : Option Nat
  /-- `rw.mux` held for reading by -/
  readers : List Nat
  /-- `rm.updateMux` held by -/
  mholder : Option Nat
  threads : Nat → Thread L
  /-- ghost: thread ids in the order in which they released the write lock. -/
  done : List Nat

variable {S L : Type}

/-- a step outside the lock vocabulary: new shared state, new local state, and whether the call returns early. -/
abbrev Exec (S L : Type) := Step → S → L → S × L × Bool

inductive Kind where
  | wlock | wunlock | rl | rul | ml | mul | plain
deriving DecidableEq, Repr

def kind : Step → Kind
  | .lock => .wlock
  | .unlock => .wunlock
  | .rlock => .rl
  | .runlock => .rul
  | .mlock => .ml
  | .munlock => .mul
  | _ => .plain

def isLockOp (a : Step) : Bool := kind a != .plain

def setThread (th : Nat → Thread L) (t : Nat) (v : Thread L) : Nat → Thread L := fun u => if u = t then v else th u

/-- thread `t` moves on to the rest `r` of its program -/
def advance (c : Conf S L) (t : Nat) (r : List Step) : Conf S L :=
  { c with threads := setThread c.threads t { (c.threads t) with todo := r } }

/-- what an early return of thread `t` still has to release (deferred unlocks) -/
def releases (c : Conf S L) (t : Nat) : List Step :=
  (if c.writer = some t then [Step.unlock] else []) ++ (if t ∈ c.readers then [Step.runlock] else []) ++
  (if c.mholder = some t then [Step.munlock] else [])

/-- thread `t` is scheduled for one step. -/
def stepThread (exec : Exec S L) (c : Conf S L) (t : Nat) : Conf S L :=
  match (c.threads t).todo with
  | [] => c
  | a :: r =>
    match kind a with
    | .wlock => if c.writer = none ∧ c.readers = [] then { advance c t r with writer := some t } else c
    | .wunlock =>
      if c.writer = some t then { advance c t r with writer := none, done := c.done ++ [t] } else advance c t r
    | .rl => if c.writer = none then { advance c t r with readers := t :: c.readers } else c
    | .rul => { advance c t r with readers := c.readers.erase t }
    | .ml => if c.mholder = none then { advance c t r with mholder := some t } else c
    | .mul => { advance c t r with mholder := if c.mholder = some t then none else c.mholder }
    | .plain =>
      let o := exec a c.shared (c.threads t).loc
      { c with shared := o.1, threads := setThread c.threads t ⟨if o.2.2 then releases c t else r, o.2.1⟩ }

def runSched (exec : Exec S L) (c : Conf S L) (sched : List Nat) : Conf S L := sched.foldl (stepThread exec) c

def initConf (calls : Nat → Call L) (s0 : S) : Conf S L :=
  { shared := s0, writer := none, readers := [], mholder := none,
    threads := fun t => ⟨(calls t).prog, (calls t).l0⟩, done := [] }

/-- one call executed without interruption (lock steps do nothing when nobody else runs): final shared and local state. -/
def runBody (exec : Exec S L) : List Step → S → L → S × L
  | [], s, l => (s, l)
  | a :: r, s, l =>
    if isLockOp a then runBody exec r s l
    else
      let o := exec a s l
      if o.2.2 then (o.1, o.2.1) else runBody exec r o.1 o.2.1

/-- the calls in `order` executed one after the other: the final shared state. -/
def serialS (exec : Exec S L) (calls : Nat → Call L) : List Nat → S → S
  | [], s => s
  | t :: r, s => serialS exec calls r (runBody exec (calls t).prog s (calls t).l0).1

/-- steps that touch nothing shared and mutable: the map lookup of an existing router and the construction of new tables from
the call's own argument -/
def localStep (a : Step) : Bool := a == .lookup || a == .build || a == .buildAny

/-- steps allowed outside the write lock: local ones, and taking / releasing the other locks -/
def outside (a : Step) : Bool := localStep a || a == .mlock || a == .munlock || a == .rlock || a == .runlock

/-- **lock discipline**: the program holds the wrapper's WRITE lock from before its first access to the wrapper, the table or the
configuration objects until after the configuration is recorded — everything outside `lock … unlock` is local (or takes /
releases another lock), and the write lock is not touched in between. A program that never takes the write lock must be local. -/
def disciplined (p : List Step) : Bool :=
  let pre := p.takeWhile (· != .lock)
  match p.dropWhile (· != .lock) with
  | [] => pre.all outside
  | _ :: r =>
    let mid := r.takeWhile (· != .unlock)
    match r.dropWhile (· != .unlock) with
    | [] => false
    | _ :: post => pre.all outside && mid.all (fun a => !isLockOp a) && post.all outside

/-! ### Part 2: the steps of `routers_manager.go` on one existing router -/

/-- the arguments of one call -/
inductive MOp where
  | update (cfg : RouterCfg)                 -- AddOrUpdateRouters(cfg)
  | addRoute (domain : String) (r : Route)   -- AddRoute(name, domain, r)
  | removeAll (domain : String)              -- RemoveAllRoutes(name, domain)
  deriving Repr

structure Shared where
  /-- heap of `routersImpl` objects (`none` = nil routers) -/
  tables : Nat → Option Table
  /-- heap of `v2.RouterConfiguration` objects -/
  cfgs : Nat → RouterCfg
  /-- `rw.routers` -/
  wtab : Nat
  /-- `rw.routersConfig` -/
  wcfg : Nat
  /-- `conf.Routers[name]` -/
  stored : RouterCfg
  /-- `conf.routerConfigPath[name]` -/
  spath : String

structure Local where
  op : MOp
  /-- the heap cell of this call's own objects (`routerConfig`, the tables `NewRouters` builds) -/
  me : Nat
  built : Option Table := none
  tab : Nat := 0
  cfg : Nat := 0
  idx : Option Nat := none
  snap : List Route := []
  /-- `some true` = returned nil, `some false` = returned an error -/
  result : Option Bool := none

def setAt {α : Type} (m : Nat → α) (k : Nat) (v : α) : Nat → α := fun j => if j = k then v else m j

/-- routes of virtual host `i` of a configuration -/
def routesAt (c : RouterCfg) (i : Nat) : List Route :=
  match c.vhosts[i]? with
  | some vh => vh.routes
  | none => []

def exec (o : Oracle) : Exec Shared Local := fun a s l =>
  match a with
  | .lookup => (s, l, false)
  | .build =>
    match l.op with
    | .update cfg =>
      match build o cfg with
      | none => (s, { l with result := some false }, true)
      | some t => (s, { l with built := some t }, false)
    | _ => (s, l, false)
  | .buildAny =>
    match l.op with
    | .update cfg => (s, { l with built := build o cfg }, false)
    | _ => (s, l, false)
  | .readTable => (s, { l with tab := s.wtab }, false)
  | .checkTable => if (s.tables l.tab).isNone then (s, { l with result := some false }, true) else (s, l, false)
  | .readCfg => (s, { l with cfg := s.wcfg }, false)
  | .mutate =>
    match s.tables l.tab with
    | none => (s, { l with idx := none }, false)
    | some t =>
      let r := match l.op with
        | .addRoute d rt => t.addRoute o d rt
        | .removeAll d => t.removeAll o d
        | .update _ => none
      match r with
      | none => (s, { l with idx := none }, false)
      | some (i, t') => ({ s with tables := setAt s.tables l.tab (some t') }, { l with idx := some i }, false)
  | .checkIndex => if l.idx.isNone then (s, { l with result := some false }, true) else (s, l, false)
  | .peekCfg => (s, { l with snap := routesAt (s.cfgs l.cfg) (l.idx.getD 0) }, false)
  | .writeCfg =>
    let c := s.cfgs l.cfg
    let routes := match l.op with
      | .addRoute _ rt => l.snap ++ [rt]
      | _ => []
    ({ s with cfgs := setAt s.cfgs l.cfg { c with vhosts := modifyAt (fun vh => { vh with routes := routes }) c.vhosts (l.idx.getD 0) } },
     l, false)
  | .setTable =>
    -- `rw.routers = routers`: the tables this call built become an object of their own
    ({ s with tables := setAt s.tables l.me l.built, wtab := l.me }, l, false)
  | .setCfg =>
    match l.op with
    | .update cfg => ({ s with cfgs := setAt s.cfgs l.me cfg, wcfg := l.me }, { l with cfg := l.me }, false)
    | _ => ({ s with wcfg := l.cfg }, l, false)
  | .store =>
    let c := s.cfgs l.cfg
    ({ s with stored := storedCfg c, spath := rememberedPath s.spath c }, { l with result := some true }, false)
  | _ => (s, l, false)

/-- the call of thread `t` with the regenerated program of its kind -/
def callOf (ops : Nat → MOp) (t : Nat) : Call Local :=
  match ops t with
  | .update cfg => ⟨addOrUpdateRouters_found, { op := .update cfg, me := t + 1 }⟩
  | .addRoute d r => ⟨addRoute_found, { op := .addRoute d r, me := t + 1 }⟩
  | .removeAll d => ⟨removeAllRoutes_found, { op := .removeAll d, me := t + 1 }⟩

/-- what the router looks like from outside: the live table, the wrapper's configuration, the stored configuration and path -/
structure View where
  live : Option Table
  cfg : RouterCfg
  stored : RouterCfg
  spath : String
  deriving DecidableEq, Repr

def view (s : Shared) : View := ⟨s.tables s.wtab, s.cfgs s.wcfg, s.stored, s.spath⟩

/-- the operation of `Model/Updates` a call stands for, on router `n` (an `update` carries the router's name itself) -/
def toOp (n : String) : MOp → Op
  | .update cfg => .addOrUpdateRouters cfg
  | .addRoute d r => .addRoute n d r
  | .removeAll d => .removeAllRoutes n d

/-- the call targets router `n` -/
def named (n : String) : MOp → Prop
  | .update cfg => cfg.name = n
  | _ => True

/-- the view of router `n` in a coherent state of `Model/Updates` whose wrapper for `n` is `w` (the store holds the stored copy
of the wrapper's configuration: `Lemmas.Updates.Inv`) -/
def viewOf (s : State) (n : String) (w : Wrapper) : View := ⟨w.routers, w.cfg, storedCfg w.cfg, s.rpath n⟩

/-- a shared state with that view: one table object, one configuration object, the wrapper pointing to them -/
def sharedOf (st : State) (n : String) (w : Wrapper) : Shared :=
  ⟨fun _ => w.routers, fun _ => w.cfg, 0, 0, storedCfg w.cfg, st.rpath n⟩

/-- one call executed alone, on views (what `Model/Updates.step` does to the router) -/
def stepView (o : Oracle) (v : View) : MOp → View
  | .update cfg =>
    match build o cfg with
    | none => v
    | some t => ⟨some t, cfg, storedCfg cfg, rememberedPath v.spath cfg⟩
  | .addRoute d r =>
    match v.live with
    | none => v
    | some t =>
      match t.addRoute o d r with
      | none => v
      | some (i, t') =>
        let cfg' := { v.cfg with vhosts := modifyAt (fun vh => { vh with routes := vh.routes ++ [r] }) v.cfg.vhosts i }
        ⟨some t', cfg', storedCfg cfg', rememberedPath v.spath cfg'⟩
  | .removeAll d =>
    match v.live with
    | none => v
    | some t =>
      match t.removeAll o d with
      | none => v
      | some (i, t') =>
        let cfg' := { v.cfg with vhosts := modifyAt (fun vh => { vh with routes := [] }) v.cfg.vhosts i }
        ⟨some t', cfg', storedCfg cfg', rememberedPath v.spath cfg'⟩

/-- `coherent` for one router: the live table is the one `NewRouters` builds from the stored configuration -/
def coherentView (o : Oracle) (v : View) : Bool := v.live == build o v.stored

/-! ### the FIRST `AddOrUpdateRouters` of a name (the `_absent` program): a syntactic check only -/

/-- every step with "the write lock of the wrapper it works on is held" and "the manager mutex is held" -/
def locksAt : List Step → Bool → Bool → List (Step × Bool × Bool)
  | [], _, _ => []
  | a :: r, w, m =>
    (a, w, m) :: locksAt r (if a == .lock then true else if a == .unlock then false else w)
      (if a == .mlock then true else if a == .munlock then false else m)

/-- the new wrapper is published and its configuration recorded while BOTH the manager mutex (no other complete update runs,
so the name is stored once) and the new wrapper's write lock (no single-route mutator touches it before its configuration is
recorded) are held -/
def firstAddOk (p : List Step) : Bool :=
  (locksAt p false false).all (fun x => if x.1 == .publish || x.1 == .store then x.2.1 && x.2.2 else true) &&
  p.contains .publish && p.contains .store

/-- a reader takes the wrapper's read lock around its single read -/
def readerOk (p : List Step) : Bool :=
  p == [.rlock, .readTable, .runlock] || p == [.rlock, .readCfg, .runlock]

/-! ### the read-lock-then-write-lock shape (NOT what the code does; used for the machine-checked negative witness) -/

/-- `AddRoute` reading the wrapper under the READ lock, inserting the route unlocked, and taking the write lock only to write the
configuration back -/
def addRouteReadThenWrite : List Step :=
  [.lookup, .rlock, .readTable, .readCfg, .runlock, .checkTable, .mutate, .checkIndex, .lock, .peekCfg, .writeCfg, .setCfg, .store, .unlock]

end MosnVerif.Model.RouterLocks
