import MosnVerif.Model.Bolt
import MosnVerif.Gen.C01BoltV2
/-!
Model of the boltv2 frames (`pkg/protocol/xprotocol/boltv2/{decoder,encoder,command,protocol}.go`) on top of the
shared bolt machinery, and the protocol-level entry points of the two codecs:

* `boltProtocol.Decode`   : first byte `0x02` ⇒ hand over to boltv2, else bolt;
* `boltv2Protocol.Decode` : first byte `bolt.ProtocolCode` ⇒ hand over to bolt, else boltv2;
* `Encode` of either codec dispatches on the Go type of the frame, i.e. on `Frame.kind`.
-/
namespace MosnVerif.Model.Bolt
open MosnVerif.Model MosnVerif.Model.Bytes

namespace V2
open Gen.C01BoltV2

def decodeReqMeta (b : Bytes) (oneway : Bool) : Meta :=
  { proto := ProtocolCode,
    cmdType := if oneway then Gen.C01Bolt.CmdTypeRequestOneway else Gen.C01Bolt.CmdTypeRequest,
    cmdCode := getBE b req_CmdCode.1 req_CmdCode.2,
    version := getBE b req_Version.1 req_Version.2,
    reqId := getBE b req_RequestId.1 req_RequestId.2,
    codec := getBE b req_Codec.1 req_Codec.2,
    timeout := getBE b req_Timeout.1 req_Timeout.2,
    ver1 := getBE b req_Version1.1 req_Version1.2,
    switchCode := getBE b req_SwitchCode.1 req_SwitchCode.2 }

def decodeRespMeta (b : Bytes) (_oneway : Bool) : Meta :=
  { proto := ProtocolCode,
    cmdType := Gen.C01Bolt.CmdTypeResponse,
    cmdCode := getBE b resp_CmdCode.1 resp_CmdCode.2,
    version := getBE b resp_Version.1 resp_Version.2,
    reqId := getBE b resp_RequestId.1 resp_RequestId.2,
    codec := getBE b resp_Codec.1 resp_Codec.2,
    status := getBE b resp_ResponseStatus.1 resp_ResponseStatus.2,
    ver1 := getBE b resp_Version1.1 resp_Version1.2,
    switchCode := getBE b resp_SwitchCode.1 resp_SwitchCode.2 }

def req : Kind :=
  { id := .v2req, hdrLen := RequestHeaderLen, cls := req_classLen, hdr := req_headerLen, cnt := req_contentLen,
    frameLen := req_frameLen, headerIndex := req_headerIndex, contentIndex := req_contentIndex,
    idIdx := req_patchIndex, idWidth := req_patchWidth,
    decodeMeta := decodeReqMeta,
    encodeMeta := fun m cl hl ctl =>
      req_encodeMeta (Protocol := m.proto) (Version1 := m.ver1) (CmdType := m.cmdType) (CmdCode := m.cmdCode)
        (Version := m.version) (RequestId := m.reqId) (Codec := m.codec) (SwitchCode := m.switchCode)
        (Timeout := m.timeout) (ClassLen := cl) (HeaderLen := hl) (ContentLen := ctl) }

def resp : Kind :=
  { id := .v2resp, hdrLen := ResponseHeaderLen, cls := resp_classLen, hdr := resp_headerLen, cnt := resp_contentLen,
    frameLen := resp_frameLen, headerIndex := resp_headerIndex, contentIndex := resp_contentIndex,
    idIdx := resp_patchIndex, idWidth := resp_patchWidth,
    decodeMeta := decodeRespMeta,
    encodeMeta := fun m cl hl ctl =>
      resp_encodeMeta (Protocol := m.proto) (Version1 := m.ver1) (CmdType := m.cmdType) (CmdCode := m.cmdCode)
        (Version := m.version) (RequestId := m.reqId) (Codec := m.codec) (SwitchCode := m.switchCode)
        (ResponseStatus := m.status) (ClassLen := cl) (HeaderLen := hl) (ContentLen := ctl) }

/-- `boltv2Protocol.Decode` after the bolt dispatch: the command type is byte 2 -/
def decodeCore (b : Bytes) : Step Frame :=
  if b.length ≥ LessLen then
    let t := byteAt b 2
    if t = Gen.C01Bolt.CmdTypeRequest then decodeKind req false b
    else if t = Gen.C01Bolt.CmdTypeRequestOneway then decodeKind req true b
    else if t = Gen.C01Bolt.CmdTypeResponse then decodeKind resp false b
    else .error
  else .needMore

end V2

def kindOf : KindId → Kind
  | .v1req => V1.req
  | .v1resp => V1.resp
  | .v2req => V2.req
  | .v2resp => V2.resp

/-! ### frames MOSN builds itself (`protocol.go`: `Trigger`, `Reply`, `Hijack`): no raw frame, always the slow path -/

def localFrame (kind : KindId) (fx : Meta) : Frame :=
  { kind := kind, fx := fx, classLen := 0, headerLen := 0, contentLen := 0, cls := [], kvs := [], content := [],
    raw := none, hdrChanged := false, contentChanged := false }

/-- `Trigger(requestId)`: heartbeat request, `uint32(requestId)`, codec hessian2 (1), version 1, timeout −1 -/
def trigger (v2 : Bool) (id : Nat) : Frame :=
  localFrame (if v2 then .v2req else .v1req)
    { proto := if v2 then Gen.C01BoltV2.ProtocolCode else Gen.C01Bolt.ProtocolCode,
      cmdType := Gen.C01Bolt.CmdTypeRequest, cmdCode := Gen.C01Bolt.CmdCodeHeartbeat, version := 1,
      reqId := id % 2 ^ 32, codec := 1, timeout := 4294967295, ver1 := if v2 then 1 else 0 }

/-- `Reply(request)`: heartbeat response with the request's id, status success (0) -/
def reply (v2 : Bool) (id : Nat) : Frame :=
  localFrame (if v2 then .v2resp else .v1resp)
    { proto := if v2 then Gen.C01BoltV2.ProtocolCode else Gen.C01Bolt.ProtocolCode,
      cmdType := Gen.C01Bolt.CmdTypeResponse, cmdCode := Gen.C01Bolt.CmdCodeHeartbeat, version := 1,
      reqId := id % 2 ^ 32, codec := 1, status := 0, ver1 := if v2 then 1 else 0 }

/-- `Hijack(request, statusCode)`: rpc response, id 0 (set by the stream layer), `uint16(statusCode)` -/
def hijack (v2 : Bool) (status : Nat) : Frame :=
  localFrame (if v2 then .v2resp else .v1resp)
    { proto := if v2 then Gen.C01BoltV2.ProtocolCode else Gen.C01Bolt.ProtocolCode,
      cmdType := Gen.C01Bolt.CmdTypeResponse, cmdCode := Gen.C01Bolt.CmdCodeRpcResponse, version := 1,
      reqId := 0, codec := 1, status := status % 65536, ver1 := if v2 then 1 else 0 }

/-- which of the two registered codecs `Decode` is called on -/
inductive Codec where
  | bolt | boltv2
  deriving DecidableEq, Repr

/-- `boltProtocol.Decode` / `boltv2Protocol.Decode` -/
def decode (c : Codec) (b : Bytes) : Step Frame :=
  match c with
  | .bolt => if b.length > 0 ∧ byteAt b 0 = Gen.C01BoltV2.ProtocolCode then V2.decodeCore b else V1.decodeCore b
  | .boltv2 => if b.length > 0 ∧ byteAt b 0 = Gen.C01Bolt.ProtocolCode then V1.decodeCore b else V2.decodeCore b

/-- `Encode` of either codec: by the Go type of the frame -/
def encode (f : Frame) : Option Bytes := encodeKind (kindOf f.kind) f

end MosnVerif.Model.Bolt
