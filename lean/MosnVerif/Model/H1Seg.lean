import MosnVerif.Model.Framing
import MosnVerif.Gen.H1SegOps
/-!
HTTP/1 connection reader as a byte queue (C07, kind `h1seg`; `pkg/stream/http/stream.go`).

`streamConnection.Dispatch` (producer) hands every read of the connection to `streamConnection.Read` through `bufChan`;
`Read` is only called by the connection's `bufio.Reader` (`conn.br`) when the fasthttp parser asks for more bytes, copies
what fits and drains exactly what it copied; `Dispatch` loops until its buffer is empty.  So one `Dispatch` call may reach
the reader in several pieces — another chunking of the same bytes.  `conn.br` is the ONLY place where bytes that were
handed over but not yet parsed live: the queue.

`serve()` (consumer) is a loop; one iteration = one blocking parse (`Request.ReadLimitBody(conn.br,…)` on the server
side, `Response.Read(conn.br)` on the client side), hand the message on, wait for the response / the next request, come
round.  Which operations `serve()` applies to the queue per iteration is REGENERATED (`Gen.H1SegOps`): every use of
`conn.br` inside the loop (method called on it, callee it is passed to, assignment), and every function of the file that
assigns `.br`.  `opOf` classifies them (hand-written): handing the reader to the parser and `Peek`/`Buffered` keep the
queue, `Reset`/`Discard`/assignment/anything unknown destroy what is buffered.

* `Step`/`Stable` : the parser as an oracle of the queue prefix: need-more / message consuming `n > 0` bytes / error.
* `drainQ rst`    : the iterations of `serve()` over what is buffered; `rst` = the loop destroys the queue when it comes
                    round.  `rst = false` is `Framing.drain` (proved in Lemmas/H1Seg).
* `h1Hdr`         : a concrete framer of the generated message shapes (head up to CRLFCRLF, `Content-Length` or
                    `Transfer-Encoding: chunked` without extensions / trailers, responses of status 1xx/204/304 without body),
                    used by the driver as the reference parser and proved prefix-stable (Lemmas/H1SegStable).
Core Lean only.
-/
namespace MosnVerif.Model.H1Seg
open MosnVerif.Model.Framing

/-! ### queue operations of the serve loop -/

inductive QOp where
  | parse | look | destroy
deriving DecidableEq, Repr

/-- classification of a regenerated use of `conn.br` inside the loop of `serve()`:
`arg:<callee>` = the reader is handed to a parser entry point, `call:<method>` = a method of `bufio.Reader` is called
on it directly, `assign` = `conn.br = …`. -/
def opOf (u : String) : QOp :=
  if u == "arg:ReadLimitBody" || u == "arg:ContinueReadBody" || u == "arg:Read" then .parse
  else if u == "call:Peek" || u == "call:Buffered" || u == "call:Size" then .look
  else .destroy

/-- the loop destroys buffered bytes when it comes round -/
def loopResets (uses : List String) : Bool := uses.any (fun u => opOf u == .destroy)

/-- the queue is created once per connection: `.br` is assigned in the two constructors only, and nothing outside the two
serve loops uses it -/
def createdOnce : Bool :=
  MosnVerif.Gen.H1SegOps.brAssignSites == ["newClientStreamConnection", "newServerStreamConnection"] &&
  MosnVerif.Gen.H1SegOps.brStrayUses == []

/-- regenerated uses of conn.br in the loop of serve(), per side -/
def serverUses : List String := MosnVerif.Gen.H1SegOps.serverLoopBrUses
def clientUses : List String := MosnVerif.Gen.H1SegOps.clientLoopBrUses

/-- the per-iteration behaviour the model runs with: buffered bytes are destroyed when the loop comes round -/
def rstOf (uses : List String) : Bool := loopResets uses || !createdOnce

/-- producer: `Read` drains what it copied, `Dispatch` repeats until its buffer is empty, nothing else of the file
touches the hand-over channel -/
def producerAppendsAll : Bool :=
  MosnVerif.Gen.H1SegOps.readDrainsCopied && MosnVerif.Gen.H1SegOps.dispatchUntilEmpty &&
  MosnVerif.Gen.H1SegOps.bufChanReceivers == ["Read"] && MosnVerif.Gen.H1SegOps.bufChanSenders == ["Dispatch"]

/-! ### the serve loop over the queue -/

/-- iterations of `serve()` over the buffered bytes: (messages handed on, residue, failed) -/
def drainQ {F} (rst : Bool) (d : Bytes → Step F) : Nat → Bytes → List F × Bytes × Bool
  | 0, buf => ([], buf, false)
  | fuel+1, buf =>
    if buf.isEmpty then ([], buf, false) else
    match d buf with
    | .needMore => ([], buf, false)
    | .error => ([], buf, true)
    | .frame f n =>
      let r := drainQ rst d fuel (if rst then [] else buf.drop n)
      (f :: r.1, r.2.1, r.2.2)

def feedQ {F} (rst : Bool) (d : Bytes → Step F) (c : Conn F) (chunk : Bytes) : Conn F :=
  if c.failed then { c with buf := c.buf ++ chunk } else
  let b := c.buf ++ chunk
  let r := drainQ rst d (b.length + 1) b
  { buf := r.2.1, out := c.out ++ r.1, failed := r.2.2 }

def runQ {F} (rst : Bool) (d : Bytes → Step F) (chunks : List Bytes) : Conn F :=
  chunks.foldl (feedQ rst d) Conn.init

/-! ### concrete framer -/

/-- offset just behind the first CRLFCRLF -/
def findEnd : Bytes → Option Nat
  | [] => none
  | c :: r => if (c :: r).take 4 = [13, 10, 13, 10] then some 4 else (findEnd r).map (· + 1)

def lower (c : UInt8) : UInt8 := if 65 ≤ c.toNat ∧ c.toNat ≤ 90 then c + 32 else c

/-- lines of a head (split at LF, CR stripped) -/
def splitLines : Bytes → Bytes → List Bytes
  | [], cur => [cur.reverse]
  | c :: r, cur => if c = 10 then cur.reverse :: splitLines r [] else if c = 13 then splitLines r cur else splitLines r (c :: cur)

def dropSp : Bytes → Bytes
  | [] => []
  | c :: r => if c = 32 then dropSp r else c :: r

def decVal : Bytes → Nat → Option Nat
  | [], acc => some acc
  | c :: r, acc => if 48 ≤ c.toNat ∧ c.toNat ≤ 57 then decVal r (acc * 10 + (c.toNat - 48)) else none

def isPrefixB : Bytes → Bytes → Bool
  | [], _ => true
  | _ :: _, [] => false
  | a :: p, b :: l => a == b && isPrefixB p l

def kCL : Bytes := [99, 111, 110, 116, 101, 110, 116, 45, 108, 101, 110, 103, 116, 104, 58]   -- "content-length:"
def kTE : Bytes := [116, 114, 97, 110, 115, 102, 101, 114, 45, 101, 110, 99, 111, 100, 105, 110, 103, 58]   -- "transfer-encoding:"
def kChunked : Bytes := [99, 104, 117, 110, 107, 101, 100]   -- "chunked"

inductive Body where
  | none | cl (n : Nat) | chunked | bad
deriving DecidableEq, Repr

/-- status code of a response head (`HTTP/1.1 200 OK`) -/
def statusOf (line : Bytes) : Nat :=
  match decVal ((dropSp (line.dropWhile (· ≠ 32))).take 3) 0 with
  | some n => n
  | none => 0

def noBodyStatus (st : Nat) : Bool := st < 200 || st == 204 || st == 304

/-- framing a head announces: chunked wins over Content-Length; a request without either has no body; a response of
status 1xx / 204 / 304 has none (other responses without either are not generated: `bad`) -/
def bodyKind (resp : Bool) (head : Bytes) : Body :=
  let lines := splitLines head []
  let hs := (lines.drop 1).map (fun l => l.map lower)
  let te := hs.any (fun l => isPrefixB kTE l && dropSp (l.drop kTE.length) == kChunked)
  let cls := hs.filter (fun l => isPrefixB kCL l)
  if resp && noBodyStatus (statusOf (lines.headD [])) then .none
  else if te then .chunked
  else match cls with
    | [] => if resp then .bad else .none
    | l :: _ => match decVal (dropSp (l.drop kCL.length)) 0 with
      | some n => .cl n
      | none => .bad

def hexVal (c : UInt8) : Option Nat :=
  if 48 ≤ c.toNat ∧ c.toNat ≤ 57 then some (c.toNat - 48)
  else if 97 ≤ c.toNat ∧ c.toNat ≤ 102 then some (c.toNat - 87)
  else if 65 ≤ c.toNat ∧ c.toNat ≤ 70 then some (c.toNat - 55) else none

/-- `<hex digits> CR LF`: (value, length of the line including CRLF) -/
def sizeLine : Bytes → Nat → Nat → Option (Nat × Nat)
  | [], _, _ => none
  | c :: r, acc, k =>
    if c = 13 then (match r with | d :: _ => if d = 10 then some (acc, k + 2) else none | [] => none)
    else match hexVal c with
      | some v => sizeLine r (acc * 16 + v) (k + 1)
      | none => none

/-- length of a complete chunked body (chunks, the terminating chunk, CRLF; no trailers); also the sum of the chunk sizes -/
def chunkEnd : Nat → Bytes → Option (Nat × Nat)
  | 0, _ => none
  | fuel+1, b =>
    match sizeLine b 0 0 with
    | none => none
    | some (n, l) =>
      if n = 0 then (if l + 2 ≤ b.length then some (l + 2, 0) else none)
      else if l + n + 2 ≤ b.length then (chunkEnd fuel (b.drop (l + n + 2))).map (fun r => (r.1 + (l + n + 2), r.2 + n))
      else none

def h1Hdr (resp : Bool) (b : Bytes) : Hdr :=
  match findEnd b with
  | none => .needMore
  | some k =>
    match bodyKind resp (b.take k) with
    | .none => .len k
    | .bad => .error
    | .cl n => if k + n ≤ b.length then .len (k + n) else .needMore
    | .chunked =>
      match chunkEnd (b.length + 1) (b.drop k) with
      | some r => .len (k + r.1)
      | none => .needMore

/-- the reference parser: a message is its raw bytes -/
def h1Step (resp : Bool) : Bytes → Step Bytes := envelope (h1Hdr resp) (fun _ => true)

/-! ### what the receiver is handed, as far as the reference computes it -/

def hexDigit (n : Nat) : Char := if n < 10 then Char.ofNat (n + 48) else Char.ofNat (n + 87)

/-- lower-case hex of a byte string, `-` when empty (the token form of the line protocol) -/
def tokOf (b : Bytes) : String :=
  if b.isEmpty then "-" else String.ofList (b.flatMap (fun x => [hexDigit (x.toNat / 16), hexDigit (x.toNat % 16)]))

/-- body length of a complete raw message -/
def bodyLen (resp : Bool) (raw : Bytes) : Nat :=
  match findEnd raw with
  | none => 0
  | some k =>
    match bodyKind resp (raw.take k) with
    | .cl n => n
    | .chunked => (match chunkEnd (raw.length + 1) (raw.drop k) with | some r => r.2 | none => 0)
    | _ => 0

/-- `<method>:<uri>:<body length>` of a request, `<status>:-:<body length>` of a response (method and URI in hex) -/
def descr (resp : Bool) (raw : Bytes) : String :=
  let line := (splitLines raw []).headD []
  if resp then s!"{statusOf line}:-:{bodyLen resp raw}"
  else
    let m := line.takeWhile (· ≠ 32)
    let u := (dropSp (line.dropWhile (· ≠ 32))).takeWhile (· ≠ 32)
    s!"{tokOf m}:{tokOf u}:{bodyLen resp raw}"

/-! ### executable property predicate (declarative reference: no regenerated code, no queue model)

`whole` / `got`: what the receiver was handed when the stream came in one read / in the chunking of the case (full
descriptors with header and body digests), `got3` the `<method>:<uri>:<body length>` projection of `got`, `wstat` / `gstat`
the end states.  The chunked delivery must equal the whole-stream delivery, and both must be the messages the stream
contains according to the reference framer: same count, same boundaries (method / URI / body length of every message). -/
def specH1 (resp : Bool) (stream : Bytes) (whole got got3 : List String) (wstat gstat : String) : Bool :=
  let ref := run (h1Step resp) [stream]
  got == whole && gstat == wstat && got3 == ref.out.map (descr resp) && gstat == (if ref.failed then "err" else "ok")

end MosnVerif.Model.H1Seg
