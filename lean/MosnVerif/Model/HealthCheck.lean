import MosnVerif.Gen.HealthCheck
/-!
Model of the active health checker's threshold automaton (pkg/upstream/healthcheck/session_checker.go).

`HandleSuccess` / `HandleFailure` are *regenerated* from the Go source (`Gen.HealthCheck.handleSuccess/handleFailure`);
the checker loop's dispatch (answered healthy → HandleSuccess, answered unhealthy → HandleFailure(Active), timed out →
HandleFailure(Network)) and the zero→default rule for the thresholds are regenerated as well.  The host's
`FAILED_ACTIVE_HC` condition is the Boolean `flag` (true = failing active health check).
-/
namespace MosnVerif.Model.HealthCheck

inductive Result where
  | success | failure | timeout
  deriving DecidableEq, Repr

/-- does the checker loop hand this result to `HandleSuccess`? (regenerated dispatch) -/
def Result.isSucc : Result → Bool
  | .success => Gen.HealthCheck.dispatchHealthy
  | .failure => Gen.HealthCheck.dispatchUnhealthy
  | .timeout => Gen.HealthCheck.dispatchTimeout

/-- hand-written reading of a result (used by the reference below, independent of `Gen`): only an answered,
healthy check counts as a success; an unhealthy answer and a timeout are failures -/
def Result.ok : Result → Bool
  | .success => true
  | _ => false

def Result.bad (r : Result) : Bool := !r.ok

structure St where
  unHealthCount : Int
  healthCount : Int
  flag : Bool          -- host has FAILED_ACTIVE_HC
  deriving DecidableEq, Repr

/-- what every callback registered with `AddHostCheckCompleteCb` receives for one check, and the host's flag then -/
structure Out where
  changed : Bool
  healthy : Bool
  flagAfter : Bool
  deriving DecidableEq, Repr

/-- one completed check, thresholds as stored in the checker -/
def step (u h : Int) (st : St) (r : Result) : St × Out :=
  let x := if r.isSucc then Gen.HealthCheck.handleSuccess st.unHealthCount st.healthCount st.flag h
           else Gen.HealthCheck.handleFailure st.unHealthCount st.healthCount st.flag u
  (⟨x.1, x.2.1, x.2.2.1⟩, ⟨x.2.2.2.1, x.2.2.2.2, x.2.2.1⟩)

def run (u h : Int) (st : St) : List Result → List Out
  | [] => []
  | r :: rs => (step u h st r).2 :: run u h (step u h st r).1 rs

def finalSt (u h : Int) (st : St) : List Result → St
  | [] => st
  | r :: rs => finalSt u h (step u h st r).1 rs

/-- a new checker: counters zero, the host's flag whatever the shared word of its address says -/
def St.init (flag : Bool) : St := ⟨0, 0, flag⟩

/-- the whole checker as configured: `newHealthChecker` replaces a zero threshold by the default -/
def runCfg (cfgU cfgH : Nat) (flag0 : Bool) (rs : List Result) : List Out :=
  run (Gen.HealthCheck.effUnhealthyThreshold cfgU) (Gen.HealthCheck.effHealthyThreshold cfgH) (St.init flag0) rs

/-! ### declarative reference: run lengths over the history

`trail p rev` = length of the maximal block of results satisfying `p` at the END of the history whose reversal is
`rev` (i.e. the number of *consecutive* such results up to and including the latest one). -/
def trail (p : Result → Bool) (rev : List Result) : Nat := (rev.takeWhile p).length

/-- reference semantics stated on the history alone: with `unh` = the host is currently failing active health check
and `rev` = the results seen so far (latest first), the next result `r` flips the state exactly when it completes a
block of `u` consecutive failures while not failing / `h` consecutive successes while failing; `changed` is reported
exactly then; `isHealthy` is the result of this check. -/
def spec (u h : Nat) (unh : Bool) (rev : List Result) : List Result → List Out
  | [] => []
  | r :: rs =>
    let changed := (!unh && r.bad && trail Result.bad (r :: rev) == u) ||
                   (unh && r.ok && trail Result.ok (r :: rev) == h)
    let unh' := if changed then !unh else unh
    ⟨changed, r.ok, unh'⟩ :: spec u h unh' (r :: rev) rs

end MosnVerif.Model.HealthCheck
