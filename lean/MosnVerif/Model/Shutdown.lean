import MosnVerif.Gen.Shutdown
/-!
Model of MOSN's graceful-stop / hot-upgrade control logic.

* `Lis`  — the listener of `pkg/network/listener.go`: state field, bind flag, raw socket. `Start` (hand-modelled
  switch), `stopAccept`, `Close`, `Shutdown` use the *regenerated* decision code (`Gen.Shutdown.stopAccept`,
  `closeStep`, `shutdownOnlyStops`, `shutdownCbStop/Close`).
* `drainLoop` — `activeListener.waitConnectionsClose` (`pkg/server/handler.go`) as a function of the sampled
  (request_active, elapsed) pairs, with the regenerated loop condition `Gen.Shutdown.drainContinue`.
* `Sys` — one listener with its connections, the `request_active` gauge and the drain in progress, driven by event
  labels (connect / request bytes / request decoded / response done / signal / tick / exit).  The signal is one more
  label of the schedule, so theorems over all event lists cover every position of the signal in a request's life.
* `SM` — the stage manager of `pkg/stagemanager/stage_manager.go` (regenerated enum, guards and `SetState` orders).

What is not in any model here: real signal delivery, fd passing between two processes, kernel accept queues.
-/
namespace MosnVerif.Model.Shutdown
open MosnVerif.Gen.Shutdown

/-! ## listener -/

structure Lis where
  state : Int          -- `listener.state`
  bind : Bool          -- `bindToPort`
  hasRaw : Bool        -- `rawl != nil` (inherited, or `listen` was called)
  sockOpen : Bool      -- this process's descriptor of the listening socket is open
  known : Bool         -- the listener has (had) an address a client can try
deriving DecidableEq, Repr

inductive LOp
  | start (restart : Bool)
  | shutdown (stage : Int)   -- `Shutdown` with the stage manager in state `stage`
  | close
  | probe                    -- a client tries to connect
deriving DecidableEq, Repr

def LOp.isStart : LOp → Bool
  | .start _ => true
  | _ => false

/-- observation of one operation: callbacks made and a result token
(`run`/`ign`/`panic` for start, `ok`/`err` for shutdown and close, `acc`/`pend`/`ref`/`none` for a probe). -/
structure LObs where
  shutdownCb : Nat
  closeCb : Nat
  ret : String
deriving DecidableEq, Repr

/-- a new connection is handed to `OnAccept` -/
def accepting (l : Lis) : Bool := l.bind && l.sockOpen && l.state == ListenerRunning

def probeResult (l : Lis) : String :=
  if l.sockOpen then (if accepting l then "acc" else "pend")
  else if l.known then "ref" else "none"

/-- `listener.Start(lctx, restart)` (listen failures are not modelled: the configured address is available). -/
def lisStart (l : Lis) (restart : Bool) : Lis × String :=
  if !l.bind then (l, "ign")
  else if l.state == ListenerRunning then (l, "ign")
  else if l.state == ListenerStopped then
    -- setDeadline(zero) (an error is only logged), state = Running, then metrics.AddListenerAddr(l.rawl.Addr()): nil deref without a raw listener
    if l.hasRaw then ({ l with state := ListenerRunning }, "run") else ({ l with state := ListenerRunning }, "panic")
  else if l.state == ListenerClosed then
    if !restart then (l, "ign")
    else ({ l with state := ListenerRunning, hasRaw := true, sockOpen := true, known := true }, "run")
  else
    if l.hasRaw then ({ l with state := ListenerRunning }, "run")
    else ({ l with state := ListenerRunning, hasRaw := true, sockOpen := true, known := true }, "run")

/-- `listener.Close`: (listener, OnClose callbacks). The raw listener pointer stays set after the close. -/
def lisClose (l : Lis) : Lis × Nat :=
  let (st, reach) := closeStep l.state l.bind
  if reach && l.hasRaw then ({ l with state := st, sockOpen := false }, 1)
  else ({ l with state := st }, 0)

/-- `listener.Shutdown` with the stage manager in state `stage`. -/
def lisShutdown (l : Lis) (stage : Int) : Lis × LObs :=
  if shutdownOnlyStops stage then
    let (st, changed) := stopAccept l.state l.bind false
    -- setDeadline(now) fails without a raw listener (only reached when bound)
    let err := changed && l.bind && !l.hasRaw
    ({ l with state := st }, ⟨if shutdownCbStop changed l.bind then 1 else 0, 0, if err then "err" else "ok"⟩)
  else
    let (l', c) := lisClose l
    (l', ⟨if shutdownCbClose false l.bind then 1 else 0, c, "ok"⟩)

def lisStep (l : Lis) : LOp → Lis × LObs
  | .start r => let (l', t) := lisStart l r; (l', ⟨0, 0, t⟩)
  | .shutdown stage => lisShutdown l stage
  | .close => let (l', c) := lisClose l; (l', ⟨0, c, "ok"⟩)
  | .probe => (l, ⟨0, 0, probeResult l⟩)

def lisRun (l : Lis) : List LOp → Lis
  | [] => l
  | op :: r => lisRun (lisStep l op).1 r

/-- states and observations after every operation -/
def lisTrace (l : Lis) : List LOp → List (Int × LObs)
  | [] => []
  | op :: r => let (l', o) := lisStep l op; (l'.state, o) :: lisTrace l' r

def lisInit (bind inherit : Bool) : Lis := ⟨ListenerInited, bind, inherit, inherit, inherit⟩

/-! ## drain loop -/

/-- `waitConnectionsClose(maxWait)` over the successive samples `(activeStreamSize(), time.Since(start))`:
number of sleeps performed and the sample at which the loop left (`none`: the samples ran out while still waiting). -/
def drainLoop (maxWait : Int) : List (Int × Int) → Nat × Option (Int × Int)
  | [] => (0, none)
  | (remain, waited) :: r =>
    if drainContinue remain waited maxWait then
      let (n, e) := drainLoop maxWait r
      (n + 1, e)
    else (0, some (remain, waited))

/-! ## one listener with its connections: the event machine -/

/-- life of a request on a connection as MOSN sees it: `idle` nothing pending, `incomplete` some bytes of a request were
read but no stream exists yet (the request is not decoded), `active` the stream exists and is counted in
`request_active`, until the response is written and the stream cleaned up. -/
inductive Phase | idle | incomplete | active
deriving DecidableEq, Repr

structure Conn where
  phase : Phase
  goAway : Nat      -- `api.OnShutdown` events delivered (proxy: `serverStreamConn.GoAway()`)
  served : Nat      -- requests completed on this connection
  notified : Nat    -- go-away notifications the client can see (bolt go-away frame, HTTP/2 GOAWAY; none for HTTP/1)
  refusedReq : Nat  -- requests refused on this connection because it had gone away (HTTP/2: stream id above the GOAWAY's last id, retryable)
deriving DecidableEq, Repr

structure Sys where
  lis : Lis
  conns : List Conn
  gauge : Int           -- `request_active` of the listener
  stopBegan : Bool      -- graceful stop began (`Shutdown` was invoked)
  draining : Bool       -- `waitConnectionsClose` is running
  waited : Int          -- time since the drain began (same unit as `maxWait`)
  maxWait : Int         -- drain time
  exited : Bool         -- the drain loop returned: `Shutdown` returns and a stopping process goes on to exit
  refused : Nat         -- connection attempts that were not accepted
  notifies : Bool       -- protocol trait: `GoAway()` puts a notification on the wire (bolt with go-away enabled, HTTP/2)
  refuseNew : Bool      -- protocol trait: a connection that has gone away ignores new streams (HTTP/2)
deriving DecidableEq, Repr

inductive Ev
  | connect                 -- a client connects
  | bytes (i : Nat)         -- connection i: part of a request arrives
  | decoded (i : Nat)       -- connection i: the request is complete and decoded, a stream is created
  | respDone (i : Nat)      -- connection i: response written, stream cleaned up
  | signal (stage : Int)    -- graceful stop: `listener.Shutdown` with the stage manager in `stage`
  | tick (d : Nat)          -- time passes
  | exit                    -- the drain loop samples its condition and finds it false
deriving DecidableEq, Repr

def modifyAt (l : List Conn) (i : Nat) (f : Conn → Conn) : List Conn :=
  match l, i with
  | [], _ => []
  | c :: r, 0 => f c :: r
  | c :: r, i + 1 => c :: modifyAt r i f

def phaseAt (l : List Conn) (i : Nat) : Option Phase := (l[i]?).map (·.phase)

def goneAway (l : List Conn) (i : Nat) : Bool := ((l[i]?).map (fun c => decide (c.goAway > 0))).getD false

def countActive (l : List Conn) : Nat := (l.filter (fun c => c.phase == .active)).length

/-- the exit label is enabled: the drain loop is running and its (regenerated) condition is false -/
def exitEnabled (s : Sys) : Bool := s.draining && !s.exited && !drainContinue s.gauge s.waited s.maxWait

def step (s : Sys) (e : Ev) : Sys :=
  if s.exited then s else
  match e with
  | .connect =>
    if accepting s.lis then { s with conns := s.conns ++ [⟨.idle, 0, 0, 0, 0⟩] } else { s with refused := s.refused + 1 }
  | .bytes i =>
    match phaseAt s.conns i with
    | some .idle => { s with conns := modifyAt s.conns i (fun c => { c with phase := .incomplete }) }
    | _ => s
  | .decoded i =>
    match phaseAt s.conns i with
    | some .idle | some .incomplete =>
      if s.refuseNew && goneAway s.conns i then
        -- the stream layer ignores the new stream: no downstream stream, nothing counted; the client may retry elsewhere
        { s with conns := modifyAt s.conns i (fun c => { c with phase := .idle, refusedReq := c.refusedReq + 1 }) }
      else
        { s with conns := modifyAt s.conns i (fun c => { c with phase := .active }), gauge := s.gauge + 1 }
    | _ => s
  | .respDone i =>
    match phaseAt s.conns i with
    | some .active =>
      { s with conns := modifyAt s.conns i (fun c => { c with phase := .idle, served := c.served + 1 }), gauge := s.gauge - 1 }
    | _ => s
  | .signal stage =>
    let (l', o) := lisShutdown s.lis stage
    if o.shutdownCb > 0 then
      -- activeListener.OnShutdown: OnShutdown event to every existing connection, then waitConnectionsClose(drainTime)
      let conns := if onShutdownBroadcasts then
          s.conns.map (fun c => { c with goAway := c.goAway + 1, notified := c.notified + (if s.notifies then 1 else 0) })
        else s.conns
      if onShutdownWaits then
        { s with lis := l', stopBegan := true, conns := conns, draining := true, waited := 0 }
      else { s with lis := l', stopBegan := true, conns := conns, exited := true }
    else { s with lis := l', stopBegan := true }
  | .tick d => { s with waited := s.waited + d }
  | .exit => if exitEnabled s then { s with exited := true, draining := false } else s

def run (s : Sys) : List Ev → Sys
  | [] => s
  | e :: r => run (step s e) r

def sysInit (maxWait : Int) (notifies refuseNew : Bool) : Sys :=
  ⟨⟨ListenerRunning, true, true, true, true⟩, [], 0, false, false, 0, maxWait, false, 0, notifies, refuseNew⟩

/-- a listener that binds no port (`bind_port: false`): it owns no socket, `Start` ignores it (it stays Inited); its
connections are handed to its `OnAccept` by a `use_original_dst` listener (`activeRawConn.UseOriginalDst`), which does
not look at the state of the listener it hands the connection to. -/
def lisVirtual : Lis := lisInit false false

/-- a virtual listener with `n` established (idle) connections -/
def sysVirtual (maxWait : Int) (notifies refuseNew : Bool) (n : Nat) : Sys :=
  ⟨lisVirtual, List.replicate n ⟨.idle, 0, 0, 0, 0⟩, 0, false, false, 0, maxWait, false, 0, notifies, refuseNew⟩

/-- well-formed: the gauge equals the number of active requests -/
def Sys.wf (s : Sys) : Prop := s.gauge = (countActive s.conns : Int)

/-! ## stage manager -/

structure SM where
  state : Int
  stopAction : Int
  exitCode : Int
  bootIdx : Nat              -- start-up stages of `Run` already entered
  released : Bool            -- `wg.Done()` was called: the main goroutine will run `Stop` once `Run` has returned
  fromUpgrade : Bool         -- `app.IsFromUpgrade()`
  hist : List Int            -- values actually stored in `stm.state`, newest first
  notes : List Int           -- values passed to the state-change callbacks, newest first
  calls : List String        -- Application methods invoked, newest first
  exit : Option Int          -- process exit code once `Stop` finished (`none`: still running)
deriving DecidableEq, Repr

def SM.set (m : SM) (s : Int) : SM := { m with state := s, hist := s :: m.hist, notes := s :: m.notes }
def SM.setAll (m : SM) (l : List Int) : SM := l.foldl SM.set m
def SM.call (m : SM) (c : String) : SM := { m with calls := c :: m.calls }
def SM.runDone (m : SM) : Bool := decide (runSeq.length ≤ m.bootIdx)

def smInit (fromUpgrade : Bool) : SM := ⟨Nil, actStop, 0, 0, false, fromUpgrade, [], [], [], none⟩

/-- the part of the graceful stop sequence that precedes the common one (`SetState(GracefulStopping)`) -/
def gracefulPrefix : List Int := stopSeqGraceful.take (stopSeqGraceful.length - stopSeqDirect.length)

/-- `StageManager.Stop()`; `shutdownFails`: `app.Shutdown()` returns an error. -/
def smStop (m : SM) (shutdownFails : Bool) : SM :=
  if m.exit.isSome then m else
  if stopIgnored m.state then m else
  let pre := m.state
  let m := if stopRunsGraceful m.stopAction then
      -- runGracefulStopStage: SetState(GracefulStopping) then app.Shutdown() (the listeners read the state just set)
      let m := if gracefulSetsStateFirst then m.setAll gracefulPrefix else m
      let m := m.call s!"shutdown@{m.state}"
      let m := if gracefulSetsStateFirst then m else m.setAll gracefulPrefix
      if shutdownFails then { m with exitCode := 4 } else m
    else m
  let m := m.setAll (stopSeqDirect.take 1)
  let m := m.call (if closeIsUpgrade pre m.fromUpgrade then "close1" else "close0")
  let m := m.setAll (stopSeqDirect.drop 1)
  let code := if m.exitCode != 0 then m.exitCode else if exitsAbnormally pre then 1 else 0
  { m with exit := some code }

def noticeKind (a : Int) : Nat := ((noticeKinds.find? (fun p => p.1 == a)).map (·.2)).getD 0

/-- `NoticeStop(action)`. For Upgrade: `handler = none` no upgrade handler registered, `some ok` its success. -/
def smNotice (m : SM) (a : Int) (handler : Option Bool) (shutdownFails : Bool) : SM :=
  if m.exit.isSome then m else
  let m := { m with stopAction := a }
  -- runBeforeStopStages runs on a copy: the callbacks are notified, the manager's state is not changed
  let m := if beforeStopOnCopy then { m with notes := beforeStopSeq.reverse ++ m.notes } else m.setAll beforeStopSeq
  match noticeKind a with
  | 1 => if reloadIgnored m.state then m else m.setAll reloadSeq
  | 2 =>
    let m := m.setAll upgradeSeq
    match handler with
    | none => m.setAll resumeSeq
    | some ok =>
      let m := m.call s!"upgrade@{m.state}"
      if ok then { m with released := true } else m.setAll resumeSeq
  | 3 => if noticeStopsDirectly m.state then smStop m shutdownFails else { m with released := true }
  | _ => m

inductive SMEv
  | boot (early : Option Int) (initFails inheritFails : Bool)
      -- the next start-up stage of `Run`; `early`: an init-stage callback calls `NoticeStop(action)`;
      -- the failures only matter in their stage (`app.Init` / `app.InheritConnections`)
  | notice (action : Int) (handler : Option Bool) (shutdownFails : Bool)
  | reloadTimeout                          -- the forked server did not report within 5 s: resume
  | mainStop (shutdownFails : Bool)        -- `Run` returned and the main goroutine was released: `Stop`
deriving DecidableEq, Repr

def smStep (m : SM) (e : SMEv) : SM :=
  if m.exit.isSome then m else
  match e with
  | .boot early initFails inheritFails =>
    match runSeq[m.bootIdx]? with
    | none => m
    | some s =>
      let m := { m.set s with bootIdx := m.bootIdx + 1 }
      if s == Initing then
        let m := match early with
          | some a => smNotice m a none false
          | none => m
        if m.exit.isSome then m else
        let m := m.call "init"
        if initFails then smStop m false else m
      else if s == Starting then
        let m := (m.call "start").call "inherit"
        if inheritFails then smStop { m with exitCode := 2 } false else m
      else m
  | .notice a handler shutdownFails => smNotice m a handler shutdownFails
  | .reloadTimeout => if m.state == StartingNewServer then m.setAll resumeSeq else m
  | .mainStop shutdownFails => if m.released && m.runDone then smStop m shutdownFails else m

def smRun (m : SM) : List SMEv → SM
  | [] => m
  | e :: r => smRun (smStep m e) r

/-- rank of a state on the start→stop line; the two old-server side states count as Running -/
def rank (s : Int) : Int := if s == StartingNewServer || s == Upgrading then Running else s

/-- the stored states, newest first, never go down in rank -/
def monoRev : List Int → Prop
  | [] => True
  | [_] => True
  | a :: b :: r => rank b ≤ rank a ∧ monoRev (b :: r)

end MosnVerif.Model.Shutdown
