import MosnVerif.Gen.ProxyPhase
import MosnVerif.Gen.ProxyReason
import MosnVerif.Gen.Resource
import MosnVerif.Gen.ProxyRetry
import MosnVerif.Gen.ProxyError
import MosnVerif.Gen.ProxyReset
import MosnVerif.Gen.ProxyReply
import MosnVerif.Gen.ProxyTerminate
import MosnVerif.Gen.ProxyTimers
import MosnVerif.Gen.ProxyBackoff
/-!
# The shared downstream machine (DESIGN.md §5) — model of one downstream request of MOSN's proxy core

Mirrors `pkg/proxy/downstream.go`, `upstream.go`, `retrystate.go`, `pkg/stream/stream.go` (BaseStream) and the
resource bookkeeping of `pkg/upstream/cluster/resource_manager.go` as a labelled transition system
`step : Cfg → S → Label → S`.  A *schedule* is an arbitrary `List Label`; `run` folds it.  Every theorem of
C03/C10 quantifies over every `Cfg`, every schedule and (for the ledger) every ambient load.

Granularity.  The request's worker goroutine advances by the label `work`: ONE iteration of the `for`/`switch` of
`downStream.receive` (one phase, including the `processError` call that ends it), or the loop bookkeeping of
`OnReceive` when `receive` returns.  Everything other goroutines do is a separate label, atomic as a whole
(the Go code performs it under a CAS or a one-shot flag): an upstream response (`upResp`), an upstream stream reset
(`upReset`), the two timer callbacks (`perTryFire`, `globalFire`), a downstream stream reset (`downReset`), the
downstream connection close (`connClose`), an asynchronous `TerminateStream` (`terminate`).  `poolFail` scripts the
outcome of the next `ConnectionPool.NewStream`; `hostsGone` makes the next host selection fail.
Partial (streamed) responses: `upRespS` hands over a response head whose body / trailers are still in flight — the
client stream stays registered with its connection, so it can still be reset (`upReset`) or end (`upEnd`); the worker
forwards the head and then waits for the end of the upstream body before it writes the rest (`bodyWait`).  So the model
exhibits every interleaving of asynchronous events with the worker at phase granularity; interleavings *inside* a
phase body are not exhibited (stated partial).

Regenerated parts (`Gen.*`, rebuilt from the Go source on every check): the `Phase` enum and `phase++`, the loop
budget of `OnReceive` and whether retry passes keep it, `processError` (translated statement by statement, generic in
the state), `retryState.retry/shouldRetry/reset` (same), `doRetryCheck`'s decision table, `resource.CanCreate/
Increase/Decrease`, the two conditions of `onUpstreamReset` (may a reset still be retried; reset the client or answer it:
`Gen.ProxyReset`), `types.ConvertReasonToCode`, `streamResetReasonToResponseFlag`, the pool-failure→reason map, the
`api` status codes and response flags.

Growth (proxy3).  Body provenance: every stored response part (`downstreamRespHeaders / DataBuf / Trailers`) carries the
token of the answer it belongs to (`Tok`: upstream attempt k, a local reply, nothing); the downstream sender writes the
stored parts, and nothing is stored any more once response headers went downstream (`Lemmas/Downstream/Prov.lean`), so the
tokens of the state are the tokens of what the client receives; which local-reply paths clear / replace / keep the held data and
trailers is regenerated (`Gen.ProxyReply`).  Stream generation: the pooled `downStream` object gets a new `ID` per request
(`Cfg.gen`); `TerminateStream` is the regenerated step program (`Gen.ProxyTerminate`: the refusal tests in program order,
the claim of the response slot, split at the reset of the upstream request), run for a handler of this request
(`terminate`), for a kept handler of an EARLIER request whose object this request reuses (`terminateStale`), and with an
in-flight upstream response landing between the claim and the reply (`terminateRaced`).  Timers: which timers `setupRetry`
stops is regenerated (`Gen.ProxyTimers`); `gtGen` counts the global timers armed so far
(`utils.NewTimer` in `onUpstreamRequestSent`).

What is not modelled: stream filters other than the asynchronous terminate (C14 adds `Model/FilterChain.lean`),
header contents (C17), buffer reuse (`reuseBuffer`/`giveStream`), statistics other than the active gauges, panics.
-/
namespace MosnVerif.Model.Downstream
open MosnVerif.Gen.ProxyPhase MosnVerif.Gen.ProxyReason

/-- outcome of `ConnectionPool.NewStream` scripted by the label `poolFail` -/
inductive PoolFail where
  | overflow | connfail
  deriving DecidableEq, Repr, Inhabited, Hashable

/-- what route matching + host selection yield for the request -/
inductive Route where
  | cluster                          -- a route to a cluster with a selectable host
  | noRoute                          -- no route / no route rule / unknown cluster: 404 + NoRouteFound
  | noHost                           -- no healthy upstream at first selection: 502 + NoHealthyUpstream
  | direct (code : Nat) (body : Bool) -- direct response / redirect rule: local reply
  deriving DecidableEq, Repr, Inhabited, Hashable

/-- per-request configuration (everything the theorems quantify over besides the schedule) -/
structure Cfg where
  oneway : Bool := false        -- no response sender
  hasData : Bool := false       -- request has a body
  hasTrailers : Bool := false   -- request has trailers
  route : Route := .cluster
  retryOn : Bool := false       -- retry policy: retry_on
  numRetries : Nat := 0         -- retry policy: num_retries
  codes : List Nat := []        -- retry policy: retryable status codes
  tryTimeout : Bool := false    -- a per-try timeout (0 < try < global) is in force
  disableRetry : Bool := false  -- variable proxy_disable_retry
  maxRetries : Nat := 0         -- breaker threshold max_retries   (0 = unlimited)
  maxRequests : Nat := 0        -- breaker threshold max_requests  (0 = unlimited)
  gen : Nat := 1                -- downStream.ID of this request (a pooled object gets a fresh ID per request)
  deriving Repr, Inhabited

/-- whose answer a stored response part / a downstream sender call belongs to -/
inductive Tok where
  | none                 -- nothing stored
  | att (k : Nat)        -- the response of upstream attempt k
  | loc                  -- a reply MOSN generated itself (hijack: route / host / reset / timeout code, direct response, TerminateStream)
  deriving DecidableEq, Repr, Inhabited, Hashable

/-- observable events, one constructor per trace token of `harness/px` -/
inductive Ev where
  | dh (status : Nat) (eos : Bool)  -- downstream AppendHeaders
  | dd (eos : Bool)                 -- downstream AppendData
  | dt                              -- downstream AppendTrailers
  | dr                              -- downstream stream reset by the proxy
  | un (k : Nat)                    -- pool.NewStream admitted attempt k
  | uf (k : Nat) (kind : PoolFail)  -- pool.NewStream refused attempt k
  | uh (k : Nat) (eos : Bool)       -- upstream AppendHeaders
  | ud (k : Nat) (eos : Bool)       -- upstream AppendData
  | ut (k : Nat)                    -- upstream AppendTrailers
  | ur (k : Nat)                    -- live upstream stream k reset by the proxy
  | log (code : Nat) (flags : Nat)  -- access log (runs once inside cleanStream)
  deriving DecidableEq, Repr, Inhabited, Hashable

/-- a client stream created by the pool (placeholder with `real = false` for a refused attempt) -/
structure Stream where
  real : Bool        -- NewStream was admitted
  live : Bool        -- BaseStream.state = reset-able (neither reset nor destroyed yet)
  listening : Bool   -- the proxy's upstreamRequest is registered as event listener
  counted : Bool     -- the pool holds a requests slot and an active-gauge unit for it (receiver ≠ nil)
  deriving DecidableEq, Repr, Inhabited, Hashable

/-- pending downstream response (`downstreamRespHeaders ≠ nil`, with/without data and trailers) -/
structure Resp where
  hasData : Bool
  hasTrailers : Bool
  deriving DecidableEq, Repr, Inhabited, Hashable

/-- `retryState` -/
structure RetryState where
  remaining : Nat    -- retiesRemaining
  held : Bool        -- retryResourceHeld
  deriving DecidableEq, Repr, Inhabited, Hashable

/-- the state of one downstream request (`downStream` + its upstream side + the ledger + the trace) -/
structure S where
  -- worker control
  phase : Phase := .InitPhase       -- next phase the worker runs
  pass : Nat := 0                   -- `i` of OnReceive's loop
  running : Bool := true            -- the worker task has not returned
  -- one-shot words and flags of downStream
  urr : Bool := false               -- upstreamResponseReceived
  cleaned : Bool := false           -- downstreamCleaned
  upReset : Bool := false           -- upstreamReset
  downReset : Bool := false         -- downstreamReset
  resetReason : Reason := .StreamLocalReset
  respStarted : Bool := false       -- downstreamResponseStarted
  recvDone : Bool := false          -- downstreamRecvDone
  reqSent : Bool := false           -- upstreamRequestSent
  procDone : Bool := false          -- upstreamProcessDone
  direct : Bool := false            -- directResponse
  notify : Bool := false            -- the 1-slot notify channel
  setupRetry : Bool := false        -- upstreamRequest.setupRetry of the current upstream request
  rs : Option RetryState := none    -- retryState
  up : Option (Option Nat) := none  -- upstreamRequest: none = nil; some none = no sender; some (some k) = sender of attempt k
  streams : List Stream := []       -- client streams by attempt number
  downLive : Bool := true           -- the downstream (server) stream is neither ended nor reset
  resp : Option Resp := none        -- downstreamRespHeaders/DataBuf/Trailers
  respCode : Nat := 0               -- requestInfo.ResponseCode
  flags : Nat := 0                  -- requestInfo response flags
  statusVar : Option Nat := none    -- the x-mosn-status variable
  perTry : Bool := false            -- perRetryTimer armed
  global : Bool := false            -- responseTimer armed
  failNext : List PoolFail := []    -- scripted outcomes of the next NewStream calls (FIFO)
  hostsGone : Bool := false
  globalExpired : Bool := false     -- globalTimeoutExpired
  -- provenance of the stored response parts (what the downstream sender writes)
  hTok : Tok := .none               -- the answer downstreamRespHeaders belongs to
  dTok : Tok := .none               -- … downstreamRespDataBuf
  tTok : Tok := .none               -- … downstreamRespTrailers
  -- the global timer
  gtGen : Nat := 0                  -- global timers armed so far (utils.NewTimer in onUpstreamRequestSent)
  gtObj : Bool := false             -- `s.responseTimer != nil`: set when the timer is created, kept when it fires, forgotten by cleanUp
  -- ledger
  retries : Int := 0                -- Retries().Cur()
  requests : Int := 0               -- Requests().Cur()
  upActive : Int := 0               -- UpstreamRequestActive
  downActive : Int := 1             -- DownstreamRequestActive (this stream is counted from newActiveStream on)
  -- observable output
  trace : List Ev := []
  deriving Repr, Inhabited, BEq, Hashable

/-- the alphabet of schedules -/
inductive Label where
  | work
  | upResp (k : Nat) (code : Nat) (hasData hasTrailers : Bool)
  | upReset (k : Nat) (reason : Reason)
  | upRespS (k : Nat) (code : Nat) (hasData hasTrailers : Bool)   -- response head of a streamed response (body in flight)
  | upEnd (k : Nat)                                               -- the streamed body of client stream k ended
  | poolFail (kind : PoolFail)
  | hostsGone
  | perTryFire
  | globalFire
  | downReset (reason : Reason)
  | connClose
  | terminate (code : Nat)
  | terminateStale (g : Nat) (code : Nat)                          -- TerminateStream on a kept handler created with downStream.ID = g
  | terminateRaced (code : Nat) (k : Nat) (hasData hasTrailers : Bool)  -- TerminateStream with an in-flight response of client stream k landing inside it
  | lateResp (k : Nat) (hasData hasTrailers : Bool)   -- late response during the back-off: a frame of client stream k, in flight when that attempt was given up for a retry, lands while doRetry sleeps (phase Retry)
  | gtInSetup (afterCas : Bool)   -- [proxy10] the global timer callback lands INSIDE setupRetry (the worker at its yield site after the mark / after upstreamResponseReceived was swung back): its reset is dropped by the marked request
  deriving DecidableEq, Repr, Inhabited, Hashable

def emit (s : S) (e : Ev) : S := { s with trace := s.trace ++ [e] }

def orFlag (s : S) (f : Nat) : S := { s with flags := s.flags ||| f }

/-- `sendNotify` -/
def sendNotify (s : S) : S := { s with notify := true }

/-- `downStream.processDone()` -/
def processDone (s : S) : Bool := s.procDone || s.downReset || s.upReset

def setStream (l : List Stream) (k : Nat) (f : Stream → Stream) : List Stream :=
  match l, k with
  | [], _ => []
  | x :: r, 0 => f x :: r
  | x :: r, k + 1 => x :: setStream r k f

def kill (st : Stream) : Stream := { st with live := false }
def unlisten (st : Stream) : Stream := { st with listening := false }

/-- client stream k exists and is live -/
def streamLive (s : S) (k : Nat) : Bool := match s.streams[k]? with | some st => st.live | none => false
/-- client stream k is live and the pool holds a requests slot for it -/
def streamLiveCounted (s : S) (k : Nat) : Bool := match s.streams[k]? with | some st => st.live && st.counted | none => false

/-- `BaseStream.DestroyStream` of client stream k: listeners' OnDestroyStream (the pool gives back its slot).
Written as one record update: only `streams`, `requests`, `upActive` change. -/
def destroyStream (c : Cfg) (s : S) (k : Nat) : S :=
  { s with streams := if streamLive s k then setStream s.streams k kill else s.streams,
           requests := if streamLiveCounted s k then Gen.Resource.decrease c.maxRequests s.requests else s.requests,
           upActive := if streamLiveCounted s k then s.upActive - 1 else s.upActive }

/-- `upstreamRequest.OnResetStream(reason)` (also reached through `OnFailure`): unless a retry is being set up or a
reset is already pending, record the reset and wake the worker.  One record update. -/
def upOnResetStream (s : S) (reason : Reason) : S :=
  let fire := !s.setupRetry && !s.upReset
  { s with upReset := s.upReset || fire, resetReason := if fire then reason else s.resetReason,
           notify := s.notify || fire }

/-- index of the client stream the current upstream request owns (`requestSender ≠ nil`) -/
def curStream (s : S) : Option Nat := match s.up with | some (some k) => some k | _ => none

/-- `upstreamRequest.resetStream()` of the current upstream request: remove our listener, reset the client stream
(`ur` is recorded only when the stream was still live) -/
def resetUpstream (c : Cfg) (s : S) : S :=
  match curStream s with
  | some k =>
    let s1 := { s with streams := setStream s.streams k unlisten,
                       trace := if streamLive s k then s.trace ++ [.ur k] else s.trace }
    destroyStream c s1 k
  | none => s

/-! ### retry state (regenerated control flow instantiated on the pair retry state × `Retries().Cur()`) -/

def rsRemaining (s : S) : Nat := match s.rs with | some r => r.remaining | none => 0
def rsHeld (s : S) : Bool := match s.rs with | some r => r.held | none => false

abbrev RSt := RetryState × Int

def retryOps (c : Cfg) (check : Bool) : Gen.ProxyRetry.Ops RSt where
  remaining := fun p => p.1.remaining
  setRemaining := fun p n => ({ p.1 with remaining := n }, p.2)
  doRetryCheck := fun _ => check
  canCreate := fun p => Gen.Resource.canCreate c.maxRetries p.2
  held := fun p => p.1.held
  setHeld := fun p b => ({ p.1 with held := b }, p.2)
  increase := fun p => (p.1, Gen.Resource.increase c.maxRetries p.2)
  decrease := fun p => (p.1, Gen.Resource.decrease c.maxRetries p.2)
  countOverflow := id
  countRetry := id

/-- `retryState.doRetryCheck(ctx, headers, reason)` for the current state (status = the x-mosn-status variable) -/
def retryCheck (c : Cfg) (s : S) (reason : Option Reason) : Bool :=
  Gen.ProxyRetry.doRetryCheck c.disableRetry c.retryOn (s.statusVar.map Int.ofNat) (c.codes.map Int.ofNat) reason

/-- result of the regenerated `retryState.retry` on the current retry state (none when there is no retry state) -/
def retryRes (c : Cfg) (s : S) (reason : Option Reason) : Option (RSt × Int) :=
  s.rs.map (fun r => Gen.ProxyRetry.retry (retryOps c (retryCheck c s reason)) (r, s.retries))

/-- `retryState.retry(ctx, headers, reason)`; only `rs` and `retries` change (one record update) -/
def rsRetry (c : Cfg) (s : S) (reason : Option Reason) : S × Int :=
  ({ s with rs := (retryRes c s reason).map (fun x => x.1.1),
            retries := match retryRes c s reason with | some x => x.1.2 | none => s.retries },
   match retryRes c s reason with | some x => x.2 | none => Gen.ProxyRetry.NoRetry)

/-- `retryState.reset()` when a retry state exists; only `rs` and `retries` change (one record update) -/
def rsReset (c : Cfg) (s : S) : S :=
  { s with rs := s.rs.map (fun r => (Gen.ProxyRetry.reset (retryOps c false) (r, s.retries)).1),
           retries := match s.rs with
             | some r => (Gen.ProxyRetry.reset (retryOps c false) (r, s.retries)).2
             | none => s.retries }

/-- `downStream.cleanUp()` -/
def cleanUp (c : Cfg) (s : S) : S :=
  { rsReset c s with perTry := false, global := false, gtObj := false }

/-- the stream holds response data / trailers (`downstreamRespDataBuf != nil` / `downstreamRespTrailers != nil`) -/
def heldData (s : S) : Bool := match s.resp with | some r => r.hasData | none => false
def heldTrailers (s : S) : Bool := match s.resp with | some r => r.hasTrailers | none => false

/-- presence of a response part after a reply path with effect `e` on it: `mine` = this answer has such a part -/
def applyEff (e : Gen.ProxyReply.Eff) (mine held : Bool) : Bool :=
  match e with
  | .clear => false
  | .set => mine
  | .keep => held

/-- … and whose part it is then -/
def effTok (e : Gen.ProxyReply.Eff) (mine : Bool) (me old : Tok) : Tok :=
  match e with
  | .clear => .none
  | .set => if mine then me else .none
  | .keep => old

/-- regenerated: what `sendHijackReply` (no body) / `sendHijackReplyWithBody` (non-empty body) do to the held data / trailers -/
def hijackDataEff (body : Bool) : Gen.ProxyReply.Eff := if body then Gen.ProxyReply.hijackBodyData else Gen.ProxyReply.hijackData
def hijackTrailersEff (body : Bool) : Gen.ProxyReply.Eff := if body then Gen.ProxyReply.hijackBodyTrailers else Gen.ProxyReply.hijackTrailers

/-- `sendHijackReply` / `sendHijackReplyWithBody`: the reply headers are this local reply's; the held data / trailers are
cleared, replaced by the reply's own, or left as they are — as the regenerated effects say -/
def sendHijack (s : S) (code : Nat) (body : Bool) : S :=
  { s with respCode := code, statusVar := some code,
           resp := some ⟨applyEff (hijackDataEff body) body (heldData s), applyEff (hijackTrailersEff body) false (heldTrailers s)⟩,
           direct := true, hTok := .loc,
           dTok := effTok (hijackDataEff body) body .loc s.dTok, tTok := effTok (hijackTrailersEff body) false .loc s.tTok }

/-- the body of `downStream.cleanStream()` after the CAS on `downstreamCleaned` was won: reset the upstream request
unless its processing is done (or one-way), clean up timers and the retry slot, count down the active gauge, write
the access log -/
def cleanBody (c : Cfg) (s : S) : S :=
  let doReset := s.up.isSome && !s.procDone && !c.oneway
  let s1 := { s with cleaned := true, procDone := s.procDone || doReset }
  let s2 := if doReset then resetUpstream c s1 else s1
  let s3 := cleanUp c s2
  { s3 with downActive := s3.downActive - 1, trace := s3.trace ++ [.log s3.respCode s3.flags] }

/-- `downStream.cleanStream()` -/
def cleanStream (c : Cfg) (s : S) : S := if s.cleaned then s else cleanBody c s

/-- `downStream.ResetStream(reason)` (reached from processError when the downstream was reset) -/
def dsResetStream (c : Cfg) (s : S) : S :=
  cleanStream c { s with respCode := TimeoutExceptionCode }

/-- `downStream.OnResetStream(reason)`: the first reset is recorded and wakes the worker.  One record update. -/
def dsOnResetStream (s : S) (reason : Reason) : S :=
  { s with downReset := true, resetReason := if s.downReset then s.resetReason else reason,
           notify := s.notify || !s.downReset }

/-- `downStream.resetStream()`: reset the downstream stream (its listeners — ourselves — are notified) -/
def resetDownstream (c : Cfg) (s : S) : S :=
  if !c.oneway && !s.procDone then
    let s1 := { s with procDone := true, trace := s.trace ++ [.dr] }
    if s.downLive then dsOnResetStream { s1 with downLive := false } .StreamLocalReset else s1
  else s

/-- `downStream.endStream()` -/
def endStream (c : Cfg) (s : S) : S := cleanStream c s

/-- `downStream.setupRetry(endStream)`: refuses (false) when the global timeout has already expired -/
def setupRetry (c : Cfg) (s : S) (eos : Bool) : S × Bool :=
  if setupRetryChecksExpiry && s.globalExpired then (s, false) else
  let s := { s with setupRetry := true }
  let s := if !eos then resetUpstream c s else s
  ({ s with perTry := s.perTry && !Gen.ProxyTimers.setupRetryStopsPerTry, urr := false,
            global := s.global && !Gen.ProxyTimers.setupRetryStopsGlobal }, true)

/-- the fields of `downStream` the regenerated conditions of `onUpstreamReset` may read -/
def resetFlags (c : Cfg) (s : S) : Gen.ProxyReset.Flags where
  responseStarted := s.respStarted
  processDone := s.procDone
  hasRetryState := s.rs.isSome
  requestSent := s.reqSent
  recvDone := s.recvDone
  responseReceived := s.urr
  downstreamReset := s.downReset
  upstreamReset := s.upReset
  hasUpstreamRequest := s.up.isSome
  oneway := c.oneway
  directResponse := s.direct
  hasResponseHeaders := s.resp.isSome

/-- the part of `onUpstreamReset` after the retry decision: clean up timers, then reset or reply -/
def onUpstreamResetFinish (c : Cfg) (s : S) (reason : Reason) : S :=
  let s := cleanUp c s
  if Gen.ProxyReset.resetNotReply (resetFlags c s) then resetDownstream c s
  else
    let s := orFlag s (reasonToFlag reason)
    let s := { s with upReset := false }
    sendHijack s (reasonToCode reason) false

/-- `downStream.onUpstreamReset(reason)` -/
def onUpstreamReset (c : Cfg) (s : S) : S :=
  let reason := s.resetReason
  if Gen.ProxyReset.retryGate reason (resetFlags c s) then
    let (s, check) := rsRetry c s (some reason)
    if check == Gen.ProxyRetry.ShouldRetry then
      match setupRetry c s true with
      | (s, true) => { s with upReset := false }
      | (s, false) => onUpstreamResetFinish c s reason
    else
      let s := if check == Gen.ProxyRetry.RetryOverflow then orFlag s UpstreamOverflow else s
      onUpstreamResetFinish c s reason
  else onUpstreamResetFinish c s reason

/-- `downStream.appendHeaders(endStream)` (response headers to the client) -/
def dsAppendHeaders (c : Cfg) (s : S) (eos : Bool) : S :=
  let s := { s with procDone := eos }
  let s := emit s (.dh (s.statusVar.getD 0) eos)
  if eos then endStream c { s with downLive := false } else s

/-- `downStream.appendData(endStream)` -/
def dsAppendData (c : Cfg) (s : S) (eos : Bool) : S :=
  let s := { s with procDone := eos }
  let s := emit s (.dd eos)
  if eos then endStream c { s with downLive := false } else s

/-- `downStream.appendTrailers()` -/
def dsAppendTrailers (c : Cfg) (s : S) : S :=
  let s := { s with procDone := true }
  let s := emit s .dt
  endStream c { s with downLive := false }

/-- `downStream.onUpstreamResponseRecvFinished()` -/
def onUpstreamResponseRecvFinished (c : Cfg) (s : S) : S :=
  let s := if !s.reqSent then resetUpstream c s else s
  cleanUp c s

/-- the part of `onUpstreamHeaders` after the retry decision -/
def onUpstreamHeadersFinish (c : Cfg) (s : S) (eos : Bool) : S :=
  let s := { s with respStarted := true }
  let s := if eos then onUpstreamResponseRecvFinished c s else s
  dsAppendHeaders c s eos

/-- `downStream.onUpstreamHeaders(endStream)` -/
def onUpstreamHeaders (c : Cfg) (s : S) (eos : Bool) : S :=
  if s.rs.isSome then
    let (s, check) := rsRetry c s none
    let (s, retried) := if check == Gen.ProxyRetry.ShouldRetry then setupRetry c s eos else (s, false)
    if retried then s
    else
      let s := if check == Gen.ProxyRetry.RetryOverflow then orFlag s UpstreamOverflow else s
      onUpstreamHeadersFinish c (rsReset c s) eos
  else onUpstreamHeadersFinish c s eos

/-- `downStream.onUpstreamData(endStream)` -/
def onUpstreamData (c : Cfg) (s : S) (eos : Bool) : S :=
  let s := if eos then onUpstreamResponseRecvFinished c s else s
  dsAppendData c s eos

/-- `downStream.onUpstreamTrailers()` -/
def onUpstreamTrailers (c : Cfg) (s : S) : S :=
  dsAppendTrailers c (onUpstreamResponseRecvFinished c s)

/-- `downStream.setupPerReqTimeout()` -/
def setupPerReqTimeout (c : Cfg) (s : S) : S := { s with perTry := s.perTry || c.tryTimeout }

/-- `downStream.onUpstreamRequestSent()` (the global timeout is always > 0 after `parseProxyTimeout`): the timers
are armed when an upstream request exists and the request is two-way -/
def onUpstreamRequestSent (c : Cfg) (s : S) : S :=
  let arm := s.up.isSome && !c.oneway
  { s with reqSent := true, perTry := s.perTry || (arm && c.tryTimeout), global := s.global || arm,
           gtGen := if arm then s.gtGen + 1 else s.gtGen, gtObj := s.gtObj || arm }

/-- outcome of the next `ConnectionPool.NewStream`: a scripted failure, a natural overflow, or admission -/
def poolOutcome (c : Cfg) (s : S) : Option PoolFail :=
  match s.failNext with
  | f :: _ => some f
  | [] => if Gen.Resource.canCreate c.maxRequests s.requests then none else some .overflow

/-- `upstreamRequest.OnFailure`: pool failure reason → stream reset reason -/
def failReason : PoolFail → Reason
  | .overflow => overflowReason
  | .connfail => connectionFailureReason

/-- `upstreamRequest.appendHeaders(endStream)`: `ConnectionPool.NewStream` + `OnReady` / `OnFailure` -/
def upAppendHeaders (c : Cfg) (s : S) (eos : Bool) : S :=
  if processDone s then s else
  let k := s.streams.length
  match poolOutcome c s with
  | some f =>
    upOnResetStream { s with failNext := s.failNext.drop 1,
                             streams := s.streams ++ [(⟨false, false, false, false⟩ : Stream)],
                             trace := s.trace ++ [.uf k f] } (failReason f)
  | none =>
    { s with failNext := s.failNext.drop 1,
             streams := s.streams ++ [(⟨true, true, true, !c.oneway⟩ : Stream)],
             requests := if !c.oneway then Gen.Resource.increase c.maxRequests s.requests else s.requests,
             upActive := if !c.oneway then s.upActive + 1 else s.upActive,
             up := some (some k),
             trace := (s.trace ++ [.un k]) ++ [.uh k eos] }

/-- the trace after `appendData`/`appendTrailers` of the current upstream request: nothing is written when the
request is done or no client stream exists -/
def dataTrace (s : S) (e : Nat → Ev) : List Ev :=
  match processDone s, curStream s with
  | false, some k => s.trace ++ [e k]
  | _, _ => s.trace

/-- `upstreamRequest.appendData(endStream)` -/
def upAppendData (s : S) (eos : Bool) : S := { s with trace := dataTrace s (fun k => .ud k eos) }

/-- `upstreamRequest.appendTrailers()` -/
def upAppendTrailers (s : S) : S := { s with trace := dataTrace s .ut }

/-- `downStream.chooseHost(endStream)` -/
def chooseHost (c : Cfg) (s : S) : S :=
  let s := { s with recvDone := !c.hasData && !c.hasTrailers }
  match c.route with
  | .noRoute => sendHijack (orFlag s NoRouteFound) RouterUnavailableCode false
  | .direct code body => sendHijack s code body
  | .noHost => sendHijack (orFlag s NoHealthyUpstream) NoHealthUpstreamCode false
  | .cluster =>
    if s.hostsGone then sendHijack (orFlag s NoHealthyUpstream) NoHealthUpstreamCode false
    else { s with rs := some ⟨max Gen.ProxyRetry.retriesFloor c.numRetries, false⟩, up := some none }

/-- `downStream.receiveHeaders(endStream)` -/
def receiveHeaders (c : Cfg) (s : S) (eos : Bool) : S :=
  let s := upAppendHeaders c s eos
  if eos then onUpstreamRequestSent c s else s

/-- `downStream.receiveData(endStream)` -/
def receiveData (c : Cfg) (s : S) (eos : Bool) : S :=
  if processDone s then s else
  let s := { s with recvDone := eos }
  let s := if eos then onUpstreamRequestSent c s else s
  let s := upAppendData s eos
  if s.procDone then cleanStream c s else s

/-- `downStream.receiveTrailers()` -/
def receiveTrailers (c : Cfg) (s : S) : S :=
  if processDone s then s else
  let s := { s with recvDone := true }
  let s := onUpstreamRequestSent c s
  let s := upAppendTrailers s
  if s.procDone then cleanStream c s else s

/-- `s.responseTimer != nil` as `doRetry` reads it.  The field `gtObj` is the pointer (set when the timer is created, kept when it
fires, forgotten by `cleanUp`); an armed timer has an object and an object exists only after the request was sent — on every
reachable state `global → gtObj → reqSent` (`Lemmas/Downstream/TimerObj10.lean`: `timer_object_run`), so this IS `s.gtObj`
(`hasTimerObj_eq`, Props/C03 `timer_object_is_pointer`); written with the two implied facts so that the invariant proof does
not depend on that lemma. -/
def hasTimerObj (s : S) : Bool := (s.gtObj || s.global) && s.reqSent

/-- the operations of `downStream.doRetry` on the machine state ([proxy10] `doRetry` is the REGENERATED step program
`Gen.ProxyBackoff.doRetry`: what it re-checks after its back-off sleep — a pending local reply, the recorded expiry of the
global timeout —, the no-host branch, the fresh upstream request, the three send calls each guarded by `processDone()`, the
timers it arms: both when no global timer object exists yet, else the per-try timer only) -/
def drOps (c : Cfg) : Gen.ProxyBackoff.Ops S where
  directResponse := fun s => s.direct
  globalExpired := fun s => s.globalExpired
  hasUpstreamRequest := fun s => s.up.isSome
  downstreamReset := fun s => s.downReset
  upstreamReset := fun s => s.upReset
  processDone := processDone
  noHost := fun s => s.hostsGone
  hasData := fun _ => c.hasData
  hasTrailers := fun _ => c.hasTrailers
  hasGlobalTimer := hasTimerObj
  requestSent := fun s => s.reqSent
  noReuse := id
  raiseGlobalTimeout := fun s => upOnResetStream s .UpstreamGlobalTimeout
  clearSetupRetry := fun s => { s with setupRetry := false }
  hijack := fun s code => sendHijack s code false
  cleanUp := cleanUp c
  newUpstreamRequest := fun s => { s with up := some none, setupRetry := false }
  appendHeaders := upAppendHeaders c
  appendData := upAppendData
  appendTrailers := upAppendTrailers
  onUpstreamRequestSent := onUpstreamRequestSent c
  setupPerReqTimeout := setupPerReqTimeout c
  setRequestSent := fun s => { s with reqSent := true }
  setRecvDone := fun s => { s with recvDone := true }

/-- `downStream.doRetry()` after its back-off sleep (the sleep itself is the state `backoff`: phase `Retry`, worker not yet
woken; the label `work` in that state is the wake-up) -/
def doRetry (c : Cfg) (s : S) : S := Gen.ProxyBackoff.doRetry (drOps c) s

/-! ### processError (regenerated control flow instantiated on `S`) -/

def peOps (c : Cfg) : Gen.ProxyError.Ops S where
  idMatches := fun _ => true
  cleaned := fun s => s.cleaned
  upstreamReset := fun s => s.upReset
  downstreamReset := fun s => s.downReset
  oneway := fun _ => c.oneway
  directResponse := fun s => s.direct
  curPhase := fun s => s.phase
  processDone := fun s => s.procDone
  hasUpstreamRequest := fun s => s.up.isSome
  setupRetry := fun s => s.setupRetry
  againPhase := fun _ => .InitPhase
  onUpstreamReset := onUpstreamReset c
  resetStream := dsResetStream c
  markDirect := id
  setDirectResponse := fun s b => { s with direct := b }
  releaseRetry := rsReset c
  clearRetryState := fun s => { s with rs := none }
  setSetupRetry := fun s b => { s with setupRetry := b }
  setAgainPhase := fun s _ => s
  detachRetried := fun s => if Gen.ProxyError.detachFresh then { s with up := some none, setupRetry := false } else s

/-- `processError`: new state and `some p` when it returns an error (the phase `receive` hands back) -/
def processError (c : Cfg) (s : S) : S × Option Phase :=
  let (s, p, err) := Gen.ProxyError.processError (peOps c) s
  (s, if err then some p else none)

/-- what `OnReceive`'s loop does when `receive` returned phase `p` -/
def reenter (s : S) (p : Phase) : S :=
  if p == .End then { s with running := false, phase := .End }
  else
    let pass := if p == .Retry && retryKeepsBudget then s.pass else s.pass + 1
    if pass < loopBudget then { s with pass := pass, phase := p, notify := false }   -- next iteration starts with cleanNotify
    else { s with pass := pass, running := false, phase := p }

/-- end of a phase body: `if p, err := s.processError(id); err != nil { return p }; phase++` -/
def finishPhase (c : Cfg) (s : S) : S :=
  match processError c s with
  | (s, some p) => reenter s p
  | (s, none) => { s with phase := s.phase.next }

/-- the current upstream request owns a client stream that is still live -/
def bodyOpen (s : S) : Bool := match curStream s with | some k => streamLive s k | none => false

/-- the worker has forwarded the head of a streamed response and waits for the end of the upstream body (real code: it
sits inside the downstream sender — in a codec that streams, blocked on the body pipe): the upstream stream is still
open and neither a reset nor the client's departure has been signalled -/
def bodyWait (s : S) : Bool :=
  s.running && (s.phase == .UpRecvData || s.phase == .UpRecvTrailer) && bodyOpen s && !processDone s

/-- the label `work`: one iteration of `receive`'s loop -/
def work (c : Cfg) (s : S) : S :=
  if !s.running then s else
  if bodyWait s then s else
  match s.phase with
  | .InitPhase => { s with phase := s.phase.next }
  | .DownFilter => finishPhase c s
  | .MatchRoute => finishPhase c s
  | .DownFilterAfterRoute => finishPhase c s
  | .ChooseHost => finishPhase c (chooseHost c s)
  | .DownFilterAfterChooseHost => finishPhase c s
  | .DownRecvHeader => finishPhase c (receiveHeaders c s (!c.hasData && !c.hasTrailers))
  | .DownRecvData => if c.hasData then finishPhase c (receiveData c s (!c.hasTrailers)) else { s with phase := s.phase.next }
  | .DownRecvTrailer => if c.hasTrailers then finishPhase c (receiveTrailers c s) else { s with phase := s.phase.next }
  | .Oneway =>
    if c.oneway then
      match processError c (cleanStream c s) with
      | (s, some p) => reenter s p
      | (s, none) => { s with phase := onewayNext }
    else { s with phase := onewayNext }
  | .Retry => finishPhase c (doRetry c s)
  | .WaitNotify => if s.notify then finishPhase c { s with notify := false } else s
  | .UpFilter =>
    match processError c s with
    | (s, some p) => reenter s p
    | (s, none) => { s with up := (if s.up.isNone then some none else s.up), phase := s.phase.next }
  | .UpRecvHeader =>
    match s.resp with
    | some r =>
      let eos := !r.hasData && !r.hasTrailers
      finishPhase c (if processDone s || s.setupRetry then s else onUpstreamHeaders c s eos)
    | none => { s with phase := s.phase.next }
  | .UpRecvData =>
    match s.resp with
    | some r =>
      if r.hasData then finishPhase c (if processDone s || s.setupRetry then s else onUpstreamData c s (!r.hasTrailers))
      else { s with phase := s.phase.next }
    | none => { s with phase := s.phase.next }
  | .UpRecvTrailer =>
    match s.resp with
    | some r =>
      if r.hasTrailers then finishPhase c (if processDone s || s.setupRetry then s else onUpstreamTrailers c s)
      else { s with phase := s.phase.next }
    | none => { s with phase := s.phase.next }
  | .End => { s with running := false }

/-! ### labels of other goroutines -/

/-- a response frame for client stream k arrives: `stream.client` destroys the stream, then `upstreamRequest.OnReceive`.
Only a stream that is still registered with its connection can be answered: not yet answered and not reset
(xprotocol `xStream.ResetStream` and `handleResponse` delete it from `clientStreams`); one-way streams never.
The frame is accepted (`acc`) unless the request is done, a retry is being set up, or the CAS on
`upstreamResponseReceived` is lost. -/
def upResp (c : Cfg) (s : S) (k code : Nat) (d t : Bool) : S :=
  match s.streams[k]? with
  | some st =>
    if !st.real || !st.counted || !st.live then s else
    if s.urr then s else     -- a stream whose (streamed) response was accepted is not answered a second time
    let acc := !(processDone s || s.setupRetry) && !s.urr
    { destroyStream c s k with
        statusVar := some code,        -- the codec publishes the status before handing the frame over
        urr := s.urr || acc, respCode := if acc then code else s.respCode,
        resp := if acc then some ⟨d, t⟩ else s.resp, notify := s.notify || acc,
        hTok := if acc then .att k else s.hTok, dTok := if acc then (if d then .att k else .none) else s.dTok,
        tTok := if acc then (if t then .att k else .none) else s.tTok }
  | none => s

/-- the head of a streamed response for client stream k arrives: `upstreamRequest.OnReceive` with the body still in
flight — the codec keeps the stream registered (it is NOT destroyed), so it can still end (`upEnd`) or be reset.  A
response without body and trailers is complete with its head: `upResp`.  Accepted under the same conditions as a
complete response. -/
def upRespS (c : Cfg) (s : S) (k code : Nat) (d t : Bool) : S :=
  if !d && !t then upResp c s k code d t else
  match s.streams[k]? with
  | some st =>
    if !st.real || !st.counted || !st.live then s else
    if s.urr then s else
    let acc := !(processDone s || s.setupRetry)
    { s with statusVar := some code, urr := s.urr || acc, respCode := if acc then code else s.respCode,
             resp := if acc then some ⟨d, t⟩ else s.resp, notify := s.notify || acc,
             hTok := if acc then .att k else s.hTok, dTok := if acc then (if d then .att k else .none) else s.dTok,
             tTok := if acc then (if t then .att k else .none) else s.tTok }
  | none => s

/-- the streamed body of client stream k ended: the codec destroys the stream (the pool gives back its slot).  Only a
stream whose response head was accepted has a body in flight. -/
def upEndL (c : Cfg) (s : S) (k : Nat) : S :=
  match s.streams[k]? with
  | some st => if !st.real || !st.live || !st.counted || !s.urr then s else destroyStream c s k
  | none => s

/-- [proxy7] the label `reset during UpFilter` is enabled: the worker is inside the UpFilter phase of `receive` — it runs the
sender filters of the response whose head it accepted and has not yet reached the `processError` that ends the phase (in the
machine: the next `work` is that phase).  An upstream reset raised now (the client stream of a streamed response is still
registered) is found by that `processError` at `s.phase == UpFilter`. -/
def upfRunning (s : S) : Bool := s.running && s.phase == .UpFilter

/-- client stream k is reset by its connection / peer: listeners' OnResetStream, then destroy.  A one-way client
stream (no receiver) is not registered with its connection (xprotocol `streamConn.NewStream`), nothing resets it.
[proxy10] The reset of a stream whose streamed response was accepted is a label in EVERY state: while the worker waits for the
body (`bodyWait`), while it runs the sender filters of the response ([proxy7] `upfRunning`), and between the acceptance of the
head and its forwarding (the wake-up in WaitNotify not yet consumed, before UpRecvHeader) — the next `processError` finds the
raised reset together with the accepted head. -/
def upResetL (c : Cfg) (s : S) (k : Nat) (reason : Reason) : S :=
  match s.streams[k]? with
  | some st =>
    if !st.real || !st.live || !st.counted then s else
    let s := if st.listening then upOnResetStream s reason else s
    destroyStream c s k
  | none => s

/-- per-try timer callback -/
def perTryFire (c : Cfg) (s : S) : S :=
  if !s.perTry then s else
  let s := { s with perTry := false }
  if s.cleaned then s
  else if s.urr then s
  else
    let s := { s with urr := true }
    if !s.respStarted then
      let s := resetUpstream c s
      let s := orFlag s UpstreamRequestTimeout
      upOnResetStream s .UpstreamPerTryTimeout
    else s

/-- global timer callback -/
def globalFire (c : Cfg) (s : S) : S :=
  if !s.global then s else
  let s := { s with global := false }
  if s.cleaned then s
  else
    let s := if globalCallbackRecordsExpiry then { s with globalExpired := true } else s
    if s.urr then s
    else
      let s := { s with urr := true }
      if s.up.isSome then upOnResetStream (resetUpstream c s) .UpstreamGlobalTimeout else s

/-- the downstream stream is reset by the stream layer (client went away) -/
def downResetL (c : Cfg) (s : S) (reason : Reason) : S :=
  if c.oneway || !s.downLive then s else dsOnResetStream { s with downLive := false } reason

/-- `proxy.onDownstreamEvent(close)` for this stream -/
def connClose (s : S) : S :=
  if s.cleaned || s.procDone then s else dsOnResetStream s .StreamConnectionTermination

/-- the worker is parked in `waitNotify` and nothing has woken it yet -/
def parked (s : S) : Bool := s.running && s.phase == .WaitNotify && !s.notify

/-- asynchronous `TerminateStream(code)` of a receiver-filter handler (`streamfilters.go`), called by another goroutine
while the worker is parked waiting for the upstream — the asynchronous-filter use; a call racing with a running worker
is not modelled (the label is a no-op then).  What the call does is the REGENERATED step program
`Gen.ProxyTerminate` over these operations: it is refused when response headers are stored (`downstreamRespHeaders != nil`:
also the stale headers of a try that was retried because of its status), when the stream is cleaned, when the handler
was created for another generation of the pooled object (`hid` ≠ `Cfg.gen`), or when the response slot
`upstreamResponseReceived` is taken; otherwise: the slot is claimed, both timers stopped (not forgotten), the upstream
request reset (as the timeout callbacks do), the DownStreamTerminate flag, a local reply with `code`, wake-up. -/
def termOps (c : Cfg) (hid code : Nat) : Gen.ProxyTerminate.Ops S where
  hasResponseHeaders := fun s => s.resp.isSome
  cleaned := fun s => s.cleaned
  idMatches := fun _ => hid == c.gen
  responseReceived := fun s => s.urr
  setResponseReceived := fun s => { s with urr := true }
  noReuse := id
  stopGlobalTimer := fun s => { s with global := false }
  stopPerTryTimer := fun s => { s with perTry := false }
  resetUpstream := resetUpstream c
  flagTerminate := fun s => orFlag s DownStreamTerminate
  hijack := fun s => sendHijack s code false
  notify := sendNotify

/-- `upstreamRequest.OnReceive` of the current upstream request for a response frame of client stream k that was already
past the codec's stream-table lookup when the proxy reset the stream (in flight): nothing is left to destroy; the frame
is accepted under the conditions of every response.  The codec of this frame carries the status in the frame (the
status variable is not republished). -/
def lateRecv (s : S) (k : Nat) (d t : Bool) : S :=
  if curStream s != some k || streamLive s k then s else
  let acc := !(processDone s || s.setupRetry) && !s.urr
  { s with urr := s.urr || acc, respCode := if acc then s.statusVar.getD s.respCode else s.respCode,
           resp := if acc then some ⟨d, t⟩ else s.resp, notify := s.notify || acc,
           hTok := if acc then .att k else s.hTok, dTok := if acc then (if d then .att k else .none) else s.dTok,
           tTok := if acc then (if t then .att k else .none) else s.tTok }

/-- the worker is inside `doRetry`'s back-off sleep: `processError` handed back the phase `Retry`, `doRetry` has not yet
chosen a host nor created the next upstream request -/
def backoff (s : S) : Bool := s.running && s.phase == .Retry

/-- the label `late response during the back-off` (phase Retry): a response frame of client stream k — the attempt the
proxy has just given up for a retry (per-try timeout, upstream reset, retriable status) — that was already past the codec's
stream-table lookup when the stream went away reaches `upstreamRequest.OnReceive` of the request object that created
stream k while the worker sleeps in `doRetry`.  It is `lateRecv`: accepted only if that object is still the stream's
current upstream request and neither marked `setupRetry` nor done.  (`processError` detaches the request it hands over to
a retry — `Gen.ProxyError`, op `detachRetried` —, so on the repaired code the frame finds no current request.) -/
def lateBackoff (s : S) (k : Nat) (d t : Bool) : S := if backoff s then lateRecv s k d t else s

/-- [proxy10] the worker goroutine is not running: parked in `waitNotify` with nothing signalled, or asleep in `doRetry`'s
back-off.  An asynchronous `TerminateStream` is delivered in these states (a call racing with a RUNNING worker is not a label
of the machine; the call landing inside `setupRetry` is driven on the implementation at the worker's yield sites and behaves
as the call in the back-off — `processError` abandons the retry that was being set up, fix 4e7d4a7f0;
`Lemmas/Downstream/TermInSetup10.lean`: the regenerated `setupRetry` with the regenerated `TerminateStream` at either yield site) -/
def asleep (s : S) : Bool := parked s || backoff s

/-- `TerminateStream(code)` on a handler created with `downStream.ID = hid`, with `between` interleaved inside its reset
of the upstream request -/
def terminateG (c : Cfg) (s : S) (hid code : Nat) (between : S → S) : S :=
  if !asleep s then s else (Gen.ProxyTerminate.terminateStream (termOps c hid code) between s).1

/-- the label `terminate`: a handler of this request, nothing interleaves -/
def terminateL (c : Cfg) (s : S) (code : Nat) : S := terminateG c s c.gen code id

/-- [proxy10] the label `global timer callback inside setupRetry`.  The worker has just accepted a retry: `setupRetry` tested
`globalTimeoutExpired` (not set), marked the given-up upstream request, and — `afterCas` — swung `upstreamResponseReceived`
back; `processError` has not yet detached the marked request.  The callback of the global timer runs THERE (regenerated order
`Gen.ProxyBackoff.globalCallback`: record the expiry, compare-and-swap the response slot, reset the upstream request,
`OnResetStream`): the expiry is recorded; its compare-and-swap wins exactly when the slot is free at that moment — before the
swing only after an upstream reset (and `setupRetry`'s swing then frees the slot again), after the swing always (the slot stays
taken); the reset it raises is DROPPED by `upstreamRequest.OnResetStream` because the request is marked.  Nothing the rest of
the worker's phase does (clearing `upstreamReset`, `processError`'s tests, the detach) reads or writes one of the three fields,
so the label is its net effect on the back-off state the worker enters: timer fired, expiry recorded, slot taken iff
`afterCas` (`Lemmas/Downstream/Window10.lean`: `gtInSetup_after_mark` / `gtInSetup_after_swing` derive this effect from the
regenerated step programs — `Gen.ProxyBackoff.setupRetry` with the regenerated callback at its two yield sites, then the rest of
the worker's phase — up to the listener registration of the client stream that is gone).  Enabled while the global timer is armed. -/
def gtInSetup (s : S) (afterCas : Bool) : S :=
  if !(backoff s && s.global) then s else
  { s with global := false, globalExpired := s.globalExpired || globalCallbackRecordsExpiry, urr := s.urr || afterCas }

def step (c : Cfg) (s : S) : Label → S
  | .work => work c s
  | .upResp k code d t => upResp c s k code d t
  | .upReset k r => upResetL c s k r
  | .upRespS k code d t => upRespS c s k code d t
  | .upEnd k => upEndL c s k
  | .poolFail f => { s with failNext := s.failNext ++ [f] }
  | .hostsGone => { s with hostsGone := true }
  | .perTryFire => perTryFire c s
  | .globalFire => globalFire c s
  | .downReset r => downResetL c s r
  | .connClose => connClose s
  | .terminate code => terminateL c s code
  | .terminateStale g code => terminateG c s g code id
  | .terminateRaced code k d t => terminateG c s c.gen code (fun s => lateRecv s k d t)
  | .lateResp k d t => lateBackoff s k d t
  | .gtInSetup b => gtInSetup s b

/-- initial state for ambient load (slots held by other requests of the cluster) -/
def init (ambRetries ambRequests : Nat) : S := { retries := ambRetries, requests := ambRequests, upActive := 0 }

def run (c : Cfg) (s : S) (l : List Label) : S := l.foldl (step c) s

/-- the worker runs until it blocks or returns (what `WaitQuiescent` of the harness waits for); fuel bounds the
number of phase iterations -/
def settle (c : Cfg) : Nat → S → S
  | 0, s => s
  | n + 1, s =>
    if !s.running then s
    else if s.phase == .WaitNotify && !s.notify then s
    else if bodyWait s then s
    else settle c n (work c s)

end MosnVerif.Model.Downstream
