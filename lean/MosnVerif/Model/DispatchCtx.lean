import MosnVerif.Gen.DispatchCtx
/-!
# Per-frame context discipline of `streamConn.Dispatch` (pkg/stream/xprotocol/conn.go) — C02 / C07

`Dispatch` decodes the frames that are complete in the connection read buffer in a loop.  Every frame is decoded and
handled with a *stream-level context* fetched from the connection's `ContextManager` (`Get` returns the current
context, `Next` installs a new one).  The context owns pooled per-request objects: the bolt / boltv2 decoders write the
decoded request into the `Request` object pooled in the context, `newServerStream` takes the server `xStream` out of
the context's pooled `streamBuffers`, the decoder and `newServerStream` store the raw frame bytes and the stream id in
the context's variables.  The receiver (the proxy) keeps context, frame and stream and works on them on another
goroutine, after `Dispatch` has gone on to the next frame — so two frames that are decoded with one context overwrite
each other's request.

The model: a frame is `(kind, id, tokF, tokR)`; a `Dispatch` call is the list of frames completed by that read; the
call structure (`Shape`: is `Get` a statement of the loop or does it precede it? behind which stream types is `Next`
reached? is the server stream pooled in the context?) is REGENERATED from conn.go (`Gen/DispatchCtx.lean`,
`genShape`).  What a step does to the context objects is hand-written below.  Core Lean only.
-/
namespace MosnVerif.Model.DispatchCtx

inductive Kind | request | oneway | response | heartbeat
  deriving DecidableEq, Repr

/-- what `GetStreamType` reports; a heartbeat is a Request frame that `handleRequest` answers itself -/
inductive SType | request | oneway | response
  deriving DecidableEq, Repr

def Kind.stype : Kind → SType
  | .request => .request
  | .heartbeat => .request
  | .oneway => .oneway
  | .response => .response

/-- frames for which `handleRequest` creates a server stream and calls the receiver -/
def Kind.delivers : Kind → Bool
  | .request => true
  | .oneway => true
  | _ => false

structure Frame where
  kind : Kind
  id   : Nat
  /-- token of headers + body as held by the decoded frame object -/
  tokF : Nat
  /-- token of the raw frame bytes the decoder stores in the context variable -/
  tokR : Nat
  deriving DecidableEq, Repr

/-- the call structure of `Dispatch` -/
structure Shape where
  getInLoop    : Bool
  nextAfter    : SType → Bool
  streamPooled : Bool

/-- the shape read off conn.go on this run -/
def genShape : Shape where
  getInLoop := Gen.DispatchCtx.getInLoop
  nextAfter := fun
    | .request => Gen.DispatchCtx.nextAfterRequest
    | .oneway => Gen.DispatchCtx.nextAfterOneWay
    | .response => Gen.DispatchCtx.nextAfterResponse
  streamPooled := Gen.DispatchCtx.serverStreamPooled

/-- `Get` inside the loop, `Next` behind every frame -/
def Shape.perFrame (sh : Shape) : Prop := sh.getInLoop = true ∧ ∀ t, sh.nextAfter t = true

instance (sh : Shape) : Decidable sh.perFrame :=
  if h : sh.getInLoop = true ∧ sh.nextAfter .request = true ∧ sh.nextAfter .oneway = true ∧ sh.nextAfter .response = true then
    isTrue ⟨h.1, fun t => by cases t; exact h.2.1; exact h.2.2.1; exact h.2.2.2⟩
  else isFalse (fun ⟨g, n⟩ => h ⟨g, n _, n _, n _⟩)

/-- the two shapes of the seeded changes -/
def hoistedShape : Shape := { getInLoop := false, nextAfter := fun _ => true, streamPooled := true }
def requestOnlyShape : Shape :=
  { getInLoop := true, nextAfter := fun | .request => true | _ => false, streamPooled := true }

/-- the objects one context owns -/
structure CtxObj where
  /-- pooled decoded request object (bolt / boltv2): id, token -/
  frame  : Option (Nat × Nat) := none
  /-- pooled server stream: its id -/
  stream : Option Nat := none
  /-- context variable: stream id -/
  varSid : Option Nat := none
  /-- context variable: raw request bytes -/
  varRaw : Option Nat := none
  deriving DecidableEq, Repr

/-- what the receiver keeps of one delivered request -/
structure Delivered where
  /-- the frame it was delivered for (history variable) -/
  frame : Frame
  ctx   : Nat
  deriving DecidableEq, Repr

structure St where
  /-- ContextManager.curr -/
  cur       : Nat
  /-- contexts ever created -/
  fresh     : Nat
  store     : Nat → CtxObj
  delivered : List Delivered
  /-- the context each decoded frame was decoded with, in order -/
  decoded   : List Nat
  /-- ids of the heartbeat acknowledgements written -/
  acks      : List Nat

/-- `newStreamConnection` calls `Next()` once -/
def init : St := { cur := 0, fresh := 1, store := fun _ => {}, delivered := [], decoded := [], acks := [] }

def upd (st : Nat → CtxObj) (c : Nat) (o : CtxObj) : Nat → CtxObj := fun i => if i = c then o else st i

/-- `protocol.Decode(ctx, buf)` returning a frame: a request-type frame is written into the context's pooled request
object when the codec pools it (`pf`), its raw bytes into the context variable.  Responses use the response object and
the response variable, which a receiver of requests never reads. -/
def decodeObj (pf : Bool) (o : CtxObj) (f : Frame) : CtxObj :=
  match f.kind.stype with
  | .response => o
  | _ => { o with frame := if pf then some (f.id, f.tokF) else o.frame, varRaw := some f.tokR }

/-- `handleRequest` past the heartbeat test: `newServerStream` (id, stream-id variable) -/
def streamObj (sh : Shape) (o : CtxObj) (f : Frame) : CtxObj :=
  { o with stream := if sh.streamPooled then some f.id else o.stream, varSid := some f.id }

/-- one iteration of the loop on a complete frame; `loc` is what a `Get` before the loop returned -/
def frameStep (sh : Shape) (pf : Bool) (loc : Nat) (s : St) (f : Frame) : St :=
  let c := if sh.getInLoop then s.cur else loc
  let o1 := decodeObj pf (s.store c) f
  let s1 : St :=
    match f.kind with
    | .heartbeat => { s with store := upd s.store c o1, decoded := s.decoded ++ [c], acks := s.acks ++ [f.id] }
    | .response => { s with store := upd s.store c o1, decoded := s.decoded ++ [c] }
    | _ => { s with store := upd s.store c (streamObj sh o1 f), decoded := s.decoded ++ [c],
                    delivered := s.delivered ++ [{ frame := f, ctx := c }] }
  if sh.nextAfter f.kind.stype then { s1 with cur := s1.fresh, fresh := s1.fresh + 1 } else s1

/-- one `Dispatch` call: the frames completed by this read (an incomplete tail fetches the context and decodes
nothing: no effect) -/
def dispatch (sh : Shape) (pf : Bool) (s : St) (fs : List Frame) : St := fs.foldl (frameStep sh pf s.cur) s

/-- a connection: a chunking = the list of `Dispatch` calls -/
def run (sh : Shape) (pf : Bool) (calls : List (List Frame)) : St := calls.foldl (dispatch sh pf) init

/-- what the receiver reads back from what it kept -/
structure Seen where
  fid  : Option Nat
  ftok : Option Nat
  sid  : Option Nat
  vid  : Option Nat
  rtok : Option Nat
  deriving DecidableEq, Repr

/-- a frame object that is not pooled in the context is private to its request; a server stream likewise; a one-way
request is delivered without a sender (no stream to ask) -/
def seenOf (sh : Shape) (pf : Bool) (o : CtxObj) (f : Frame) : Seen where
  fid := if pf then o.frame.map (·.1) else some f.id
  ftok := if pf then o.frame.map (·.2) else some f.tokF
  sid := if f.kind = .oneway then none else if sh.streamPooled then o.stream else some f.id
  vid := o.varSid
  rtok := o.varRaw

def readback (sh : Shape) (pf : Bool) (s : St) (d : Delivered) : Seen := seenOf sh pf (s.store d.ctx) d.frame

def own (f : Frame) : Seen where
  fid := some f.id
  ftok := some f.tokF
  sid := if f.kind = .oneway then none else some f.id
  vid := some f.id
  rtok := some f.tokR

/-- what all receivers see at this point -/
def views (sh : Shape) (pf : Bool) (s : St) : List Seen := s.delivered.map (readback sh pf s)

/-- isolation: every receiver sees exactly its own frame, no context was used by two frames, none is handed back to the
pools twice (the receiver releases the context of its request when the request ends) -/
def Isolated (sh : Shape) (pf : Bool) (s : St) : Prop :=
  (∀ d ∈ s.delivered, readback sh pf s d = own d.frame) ∧ s.decoded.Nodup ∧ (s.delivered.map (·.ctx)).Nodup

instance (sh : Shape) (pf : Bool) (s : St) : Decidable (Isolated sh pf s) := by
  unfold Isolated; exact inferInstance

/-- the model with snapshots: after every call, what the receivers created by that call read back -/
def runA (sh : Shape) (pf : Bool) (s : St) (acc : List Seen) : List (List Frame) → St × List Seen
  | [] => (s, acc)
  | c :: cs =>
    let s' := dispatch sh pf s c
    runA sh pf s' (acc ++ (views sh pf s').drop acc.length) cs

/-- index of the first element equal to the i-th (identity classes as the harness prints them) -/
def classes (l : List Nat) : List Nat := l.map (fun c => l.idxOf c)

def deliveredClasses (s : St) : List Nat := s.delivered.map (fun d => s.decoded.idxOf d.ctx)

end MosnVerif.Model.DispatchCtx
