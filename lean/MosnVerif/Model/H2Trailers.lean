import MosnVerif.Gen.C08H2Trailers
/-!
# [c08l9] a second HEADERS frame (trailers) on a request stream of the HTTP/2 server (C08: no panic on peer input)

One stream of a server connection as seen by `MServerConn.processHeaders / mprocessTrailerHeaders / processData`
(module state: idle | open | half-closed(remote) | closed, gotTrailerHeader, declared `Trailer`) and by
`serverStreamConnection.handleFrame / handleError` (stream registered, trailer object allocated, body buffer, deliveries
to the proxy, resets, RST_STREAM frames written, connection closed).  `panicked` = handleFrame assigned through a nil
`stream.trailer`.  Which tests run in front of the trailer processing and where the trailer object is allocated is
regenerated (Gen/C08H2Trailers); the model is parameterised by those facts (`Cfg`).  Core Lean only.
-/
namespace MosnVerif.Model.H2Trailers
open MosnVerif.Gen

structure Cfg where
  /-- processHeaders answers HEADERS for a half-closed(remote) stream with a stream error before any trailer processing -/
  stateCheck : Bool
  /-- handleFrame allocates the trailer object for a request whose HEADERS carry END_STREAM -/
  objWhenEnded : Bool
  objWhenOpen : Bool
  derefGuarded : Bool
  /-- [c01h10] processHeaders allocates the request's trailer map for every request whose HEADERS do not end the stream:
  undeclared trailer fields are collected (and checked) like declared ones -/
  mapWhenOpen : Bool := false
deriving Repr, DecidableEq

/-- the configuration of the code as it is, read off the regenerated structure -/
def cfgGen : Cfg :=
  { stateCheck := C08H2Trailers.srvBeforeTrailers.contains "st.state==stateHalfClosedRemote => streamError(id,ErrCodeStreamClosed)"
    objWhenEnded := C08H2Trailers.srvTrailerObjWhenEnded
    objWhenOpen := C08H2Trailers.srvTrailerObjWhenOpen
    derefGuarded := C08H2Trailers.srvTrailerDerefGuarded
    mapWhenOpen := C08H2Trailers.srvTrailerMapWhenOpen }

inductive MS where
  | idle | open | hcr | closed
deriving Repr, DecidableEq

/-- header block kinds: request head (pseudo fields), trailer fields, trailer with a pseudo field, trailer with a field
that is forbidden in trailers -/
inductive Blk where
  | head | trail | trailPseudo | trailForbidden
deriving Repr, DecidableEq

inductive Ev where
  | headers (b : Blk) (decl : Bool) (es : Bool)
  | data (es : Bool)
deriving Repr, DecidableEq

structure St where
  ms : MS := .idle
  gotT : Bool := false
  decl : Bool := false
  reg : Bool := false
  tobj : Bool := false
  body : Bool := false
  del : List String := []
  resets : Nat := 0
  rst : Nat := 0
  closed : Bool := false
  panicked : Bool := false
deriving Repr, DecidableEq

def Blk.hasPseudo : Blk → Bool
  | .head | .trailPseudo => true
  | _ => false

/-- handleError(StreamError): the registered stream is removed and reset (RST_STREAM written, module stream closed) -/
def streamErr (s : St) : St :=
  if s.reg then { s with reg := false, resets := s.resets + 1, rst := s.rst + 1, ms := .closed } else s

/-- handleError(ConnectionError): the connection is closed; the Dispatch ends -/
def connErr (s : St) : St := { s with closed := true }

def deliver (s : St) (what : String) : St := { s with del := s.del ++ [what] }

/-- one frame of the stream through HandleFrame + handleFrame -/
def step (c : Cfg) (s : St) : Ev → St
  | .headers b decl es =>
    match s.ms with
    | .idle =>
      -- new stream (the first frame is a request head): registered; END_STREAM delivers at once, no trailer object
      let s1 := { s with ms := if es then .hcr else .open, decl := decl || (!es && c.mapWhenOpen), reg := true,
                         tobj := if es then c.objWhenEnded else c.objWhenOpen }
      if es then deliver s1 "h" else s1
    | .closed => connErr s                      -- id <= maxClientStreamID: PROTOCOL_ERROR
    | .open | .hcr =>
      if c.stateCheck && s.ms == .hcr then streamErr s
      else if s.gotT then connErr s             -- mprocessTrailerHeaders
      else
        let s1 := { s with gotT := true }
        if !es then streamErr s1
        else if b.hasPseudo then streamErr s1
        else if s.decl && b == .trailForbidden then streamErr s1
        else
          let s2 := { s1 with ms := .hcr }
          -- handleFrame: hasTrailer, endStream
          if !s2.reg then s2
          else if !s2.tobj && !c.derefGuarded then { s2 with panicked := true }
          else deliver { s2 with body := true } (if s2.decl then "hbt" else "hb")
  | .data es =>
    match s.ms with
    | .idle => connErr s
    | .open =>
      if s.gotT then streamErr s
      else
        let s1 := { s with ms := if es then .hcr else .open }
        if !s1.reg then s1
        else
          let s2 := { s1 with body := true }
          if es then deliver s2 "hb" else s2
    | _ => streamErr s                          -- STREAM_CLOSED (the RST goes out only for a registered stream)

/-- the frames of one Dispatch: a connection error or a panic ends it -/
def run (c : Cfg) : St → List Ev → St
  | s, [] => s
  | s, e :: r => let s' := step c s e; if s'.closed || s'.panicked then s' else run c s' r

/-- the executable predicate of kind `h2trail`: the Dispatch returned (no panic out of the read path, no hang) -/
def h2trailSpec (outcome : String) : Bool := outcome == "ret"

end MosnVerif.Model.H2Trailers
