import MosnVerif.Gen.H1Drain
/-!
The drain mark of one HTTP/1 server connection (pkg/stream/http/stream.go, `serverStreamConnection.close`).

HTTP/1 has no go-away frame: a keep-alive client learns that the old MOSN of a hot upgrade is going away from the
`Connection: close` of the next response and reconnects (to the new process, which owns the listening socket by then).
The old process marks every HTTP/1 downstream connection ONCE: `StopConnection` closes the connections' stop channel,
each read loop runs the transfer event listener, which for HTTP/1 sets `close = true` and refuses the hand-over.  The
mark can arrive at any point of the request cycle: while the connection is idle, while a request is half received,
while the request waits for the upstream, or while the response is being written (after `endStream` read the mark).

Events of one connection (the schedule the theorems quantify over):
* `mark`        the transfer event listener runs (between two reads of the connection's read loop, or concurrently
                with the worker that writes a response — then it is ordered after that `respond`)
* `parse rc`    `serve()` has parsed a complete request (`rc` = it carries `Connection: close`); enabled only when no
                request is outstanding (`serve` waits for `responseDoneChan` before it reads again) and the connection is open
* `respond`     the proxy ends the response of the outstanding request: `endStream`

Regenerated (`Gen.H1Drain`): the new value of the mark at each of its assignment sites (`markUpdate`, `parseUpdate`),
the guard under which `endStream` answers `Connection: close` and closes (`respCloses`).
-/
namespace MosnVerif.Model.H1Drain
open MosnVerif.Gen.H1Drain

inductive Ev
  | mark
  | parse (reqClose : Bool)
  | respond
deriving DecidableEq, Repr

inductive Out
  | resp (connClose : Bool)   -- a response was written; `connClose`: it carries `Connection: close`
  | closed                    -- the connection was closed by MOSN (after flushing the response)
deriving DecidableEq, Repr

structure Conn where
  /-- `serverStreamConnection.close` -/
  flag : Bool
  /-- the outstanding request: `some rc` between `parse rc` and its `respond` -/
  cur : Option Bool
  closed : Bool
deriving DecidableEq, Repr

def Conn.initial : Conn := ⟨false, none, false⟩

/-- the assignment rules of the mark: at the transfer event and after a request was parsed -/
structure Rules where
  onMark : Bool → Bool
  onParse : Bool → Bool → Bool

/-- the code as it is -/
def codeRules : Rules := ⟨markUpdate, parseUpdate⟩

def stepWith (r : Rules) (c : Conn) : Ev → Conn × List Out
  | .mark => ({ c with flag := r.onMark c.flag }, [])
  | .parse rc =>
    if c.closed || c.cur.isSome then (c, [])
    else ({ c with flag := r.onParse c.flag rc, cur := some rc }, [])
  | .respond =>
    match c.cur with
    | none => (c, [])
    | some rc =>
      if c.closed then (c, []) else
      let cl := respCloses c.flag rc
      ({ c with cur := none, closed := cl }, Out.resp cl :: (if cl then [Out.closed] else []))

def step (c : Conn) (e : Ev) : Conn × List Out := stepWith codeRules c e

def runWith (r : Rules) (c : Conn) : List Ev → Conn × List Out
  | [] => (c, [])
  | e :: es =>
    let (c1, o1) := stepWith r c e
    let (c2, o2) := runWith r c1 es
    (c2, o1 ++ o2)

def run (c : Conn) (evs : List Ev) : Conn × List Out := runWith codeRules c evs

/-- per-event outputs (for the correspondence run) -/
def trace (c : Conn) : List Ev → List (List Out)
  | [] => []
  | e :: r => let (c1, o1) := step c e; o1 :: trace c1 r

/-- the seeded defect class: the mark is overwritten by every parsed request -/
def overwriteRules : Rules := ⟨fun _ => true, fun _ rc => rc⟩

end MosnVerif.Model.H1Drain
