import MosnVerif.Gen.GaugeSites
/-!
# Request gauges under every valuation of the request-info flags (C10, builder c10r7) — core Lean only

`Gen.GaugeSites.moves` is the regenerated table of EVERY counter / gauge movement of `pkg/proxy` and of the connection
pools together with the conditions it is nested under.  Here: the semantics of that table (`fires`, `delta` under a
valuation `ρ` of the condition atoms — `s.requestInfo.IsHealthCheck()`, `s.isRequestFailed()`, response-code tests, …),
the per-request value of a downstream gauge computed FROM the table (`gaugeAfter`: the movements of `newActiveStream`
under the valuation at creation plus, once the stream is cleaned, the movements of `downStream.requestMetrics` under the
valuation at clean time), and the decidable pairing checks the theorems of `Props/C10.lean` discharge.

A filter may change any request-info flag between creation and clean, so the two valuations are independent: a pair is
condition-matched exactly when both movements are unconditional unit movements.
-/
namespace MosnVerif.Model.GaugeFlags
open MosnVerif.Gen.GaugeSites

/-- a valuation of the condition atoms (Go condition text ↦ truth value) -/
abbrev Val := String → Bool

def litHolds (ρ : Val) (l : Lit) : Bool := ρ l.atom != l.neg
def fires (ρ : Val) (m : Move) : Bool := m.conds.all (litHolds ρ)
/-- the unit a movement adds to its metric (`Update` is a histogram sample; an amount other than the literal 1 is not a
unit movement: `unitOnly` below rejects it for gauges) -/
def unitOf (m : Move) : Int := match m.op with | .inc => 1 | .dec => -1 | .update => 0

/-- net movement of a list of sites under `ρ` -/
def delta (ρ : Val) : List Move → Int
  | [] => 0
  | m :: ms => (if fires ρ m then unitOf m else 0) + delta ρ ms

def dsFile : String := "pkg/proxy/downstream.go"
def startFn : String := "newActiveStream"
def endFn : String := "downStream.requestMetrics"
def reqGauge : String := "DownstreamRequestActive"

/-- the movements of metric `g` of owner `o` in function `fn` of downstream.go, in table `t` -/
def sitesOf (t : List Move) (fn : String) (o : Owner) (g : String) : List Move :=
  t.filter fun m => m.file == dsFile && m.fn == fn && m.owner == o && m.metric == g

/-- value of the request's share of gauge `g` (owner `o`): created under `ρ₀`, cleaned (or not yet) under `ρ₁` -/
def gaugeAfter (t : List Move) (ρ₀ ρ₁ : Val) (o : Owner) (g : String) (cleaned : Bool) : Int :=
  delta ρ₀ (sitesOf t startFn o g) + (if cleaned then delta ρ₁ (sitesOf t endFn o g) else 0)

def uncond (ms : List Move) : Bool := ms.all fun m => m.conds.isEmpty
def unitOnly (ms : List Move) : Bool := ms.all fun m => m.amount == "1"

/-- **condition-matched pairs** of the downstream request gauges in table `t`: every movement of a gauge (`…Active`) in
downstream.go is an unconditional unit movement, an increment in `newActiveStream` or a decrement in `requestMetrics`,
and each owner (proxy-global, per-listener) has exactly one of each -/
def pairsOK (t : List Move) : Bool :=
  let gs := t.filter fun m => m.file == dsFile && m.gauge
  uncond gs && unitOnly gs
  && gs.all (fun m => (m.fn == startFn && m.op == .inc) || (m.fn == endFn && m.op == .dec))
  && gs.all (fun m => m.metric == reqGauge && (m.owner == .proxy || m.owner == .listener))
  && [Owner.proxy, Owner.listener].all (fun o =>
        (sitesOf t startFn o reqGauge).length == 1 && (sitesOf t endFn o reqGauge).length == 1)

/-- the functions that carry the movements are entered once per request: `newActiveStream` only from `NewStreamDetect`,
unconditionally; `requestMetrics` only from `cleanStream`, under nothing but the once-guard on `downstreamCleaned` -/
def callsOK (cs : List Call) : Bool :=
  (cs.filter fun c => c.callee == "newActiveStream") == [⟨"pkg/proxy/proxy.go", "proxy.NewStreamDetect", "newActiveStream", []⟩]
  && (cs.filter fun c => c.callee == "requestMetrics") ==
      [⟨dsFile, "downStream.cleanStream", "requestMetrics", [⟨false, "atomic.CompareAndSwapUint32(&s.downstreamCleaned, 0, 1)"⟩]⟩]

/-- the pools' side: every movement of the upstream `request_active` gauge in a connection pool is a unit movement, every
DECREMENT is unconditional inside its destroy handler (no response code, no request-info flag decides whether a request is
given back), host and cluster gauge move together (same function, same conditions), one pair per pool file -/
def poolFiles : List String :=
  ["pkg/stream/http/connpool.go", "pkg/stream/http2/connpool.go", "pkg/stream/xprotocol/connpool_binding.go",
   "pkg/stream/xprotocol/connpool_multiplex.go", "pkg/stream/xprotocol/connpool_pingpong.go"]

def poolOK (t : List Move) : Bool :=
  let us := t.filter fun m => m.metric == "UpstreamRequestActive"
  unitOnly us
  && (us.map (·.file)).eraseDups == poolFiles
  && poolFiles.all (fun f =>
      let fs := us.filter fun m => m.file == f
      let decs := fs.filter fun m => m.op == .dec
      let incs := fs.filter fun m => m.op == .inc
      uncond decs
      && (decs.map fun m => (m.owner, m.fn)).length == 2 && (incs.length == 2)
      && (decs.map (·.owner)) == [.host, .cluster] && (incs.map (·.owner)) == [.host, .cluster]
      && (decs.map (·.fn)).eraseDups.length == 1 && (incs.map (·.fn)).eraseDups.length == 1
      && (incs.map (·.conds)).eraseDups.length == 1)

/-! ### the request-level view used by the correspondence (kind `flg`) -/

/-- request-info flags a stream filter can set and the metrics code reads -/
structure Flags where
  hc : Bool := false       -- SetHealthCheck(true)
  failed : Bool := false   -- a response flag of MosnProcessFailedFlags
  deriving Repr, DecidableEq

/-- the valuation a flag set induces on the atoms of `requestMetrics` (any other atom: false) -/
def valOf (f : Flags) : Val := fun a =>
  if a == "s.requestInfo.IsHealthCheck()" then f.hc
  else if a == "s.isRequestFailed()" then f.failed
  else false

end MosnVerif.Model.GaugeFlags
