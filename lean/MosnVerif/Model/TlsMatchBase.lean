/-!
Target vocabulary of the statement-by-statement translation of pkg/mtls' selection code (`Gen/TlsMatch.lean`,
extract/translate_c13m.go): Go strings are `List Char` (ASCII), `[]string` is `List Str`, a `map[string]struct{}` is the
list of its keys in insertion order (only membership is ever read), Go `int` is `Int`.  A loop body is a function from
the loop's mutable variables to `Flow`: `ret v` = the enclosing function returns `v`, `next s` = the iteration ended
(fell off the end, or `continue`) with the variables `s`.  `for cond { … }` loops carry a fuel bound (a termination
measure supplied by the gen job plus an arbitrary extra amount the theorems quantify over).
Core Lean only.
-/
namespace MosnVerif.Model.TlsMatchBase

abbrev Str := List Char

inductive Flow (ρ σ : Type) where
  | ret (r : ρ)
  | next (s : σ)

/-- `for _, x := range xs { body }` -/
def rangeLoop {α ρ σ : Type} : List α → (α → σ → Flow ρ σ) → σ → Flow ρ σ
  | [], _, s => .next s
  | x :: r, body, s =>
    match body x s with
    | .ret v => .ret v
    | .next s' => rangeLoop r body s'

/-- `for cond { body }` (a three-clause loop has its post statement at the end of `body`); `fuel` bounds the number of
iterations -/
def whileLoop {ρ σ : Type} : Nat → (σ → Bool) → (σ → Flow ρ σ) → σ → Flow ρ σ
  | 0, _, _, s => .next s
  | n + 1, cond, body, s =>
    if cond s then
      match body s with
      | .ret v => .ret v
      | .next s' => whileLoop n cond body s'
    else .next s

/-- the index values of `for i := range xs` -/
def idxRange {α : Type} (xs : List α) : List Int := (List.range xs.length).map (fun (n : Nat) => (n : Int))

def len {α : Type} (l : List α) : Int := (l.length : Int)
def listAt {α : Type} [Inhabited α] (l : List α) (i : Int) : α := l.getD i.toNat default
def byteAt (s : Str) (i : Int) : Char := s.getD i.toNat ' '
def sliceFrom {α : Type} (l : List α) (i : Int) : List α := l.drop i.toNat
def sliceTo {α : Type} (l : List α) (j : Int) : List α := l.take j.toNat
def sliceFromTo {α : Type} (l : List α) (i j : Int) : List α := (l.take j.toNat).drop i.toNat
def setAt {α : Type} (l : List α) (i : Int) (v : α) : List α := l.set i.toNat v

/-- `strings.ToLower` on ASCII -/
def toLower (s : Str) : Str := s.map Char.toLower

/-- `strings.Split(s, sep)` for a one-character separator (always at least one piece) -/
def splitOn (sep : Char) : Str → List Str
  | [] => [[]]
  | c :: r =>
    if c == sep then [] :: splitOn sep r
    else match splitOn sep r with
      | [] => [[c]]
      | h :: t => (c :: h) :: t

/-- `strings.Join(l, sep)` -/
def join : List Str → Str → Str
  | [], _ => []
  | [a], _ => a
  | a :: b :: r, sep => a ++ sep ++ join (b :: r) sep

/-- `_, ok := m[k]` -/
def mapHas (m : List Str) (k : Str) : Bool := m.contains k
/-- `m[k] = struct{}{}` -/
def mapInsert (m : List Str) (k : Str) : List Str := m ++ [k]

/-- the parsed leaf certificate of a `tls.Certificate`, as far as `buildMatch` reads it -/
structure X509 where
  cn : Str
  dnsNames : List Str
  deriving DecidableEq, Repr, Inhabited

/-- a `types.TLSProvider` of a listener, as far as `GetConfigForClient` reads it: its position in `mng.providers`
(what `GetTLSConfigContext(false).Config()` identifies), `Ready()`, and the match set of its context -/
structure Prov where
  idx : Nat
  ready : Bool
  keys : List Str
  deriving DecidableEq, Repr, Inhabited

end MosnVerif.Model.TlsMatchBase
