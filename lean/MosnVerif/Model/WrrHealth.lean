import MosnVerif.Gen.EdfRefresh
import MosnVerif.Model.LB
/-!
Weighted round robin under host-health CHANGES after the balancer was built (`EdfLoadBalancer.refresh` +
`EdfLoadBalancer.ChooseHost`, loadbalancer.go).

* `refresh` builds the EDF scheduler from the host set it is handed — once: balancers are rebuilt on a host-set update,
  NOT on a health flip. Which hosts it adds is regenerated (`Gen.EdfRefresh.rangeStep`: the `hosts.Range` callback as a
  function of `host.Health()` at build time; `dropsEmpty`: whether an empty scheduler is dropped; the two early returns).
  `buildWith` runs that callback over the build-time health pattern.
* afterwards health is an INPUT of every lookup: `Ev.flip` changes the health pattern between lookups, `Ev.look` is one
  `ChooseHost` (`LB.wrrChoose`: up to `total` scheduler picks, the first healthy one is served, then the round-robin
  fallback). The scheduler's entries never change after the build.
* a lookup is recorded as `Rec`: the health pattern it saw, the scheduler picks it made (skipped ones and the served
  one) and its result. A lookup was *served by the scheduler* (`Rec.weighted`) iff its last pick was a healthy host.
-/
namespace MosnVerif.Model.WrrHealth
open MosnVerif.Gen MosnVerif.Model.EDF MosnVerif.Model.LB

/-- the host set with configured weights `ws` under the health pattern `health` (a missing entry reads as unhealthy). -/
def mkH (ws : List Nat) (health : List Bool) : Hosts :=
  (List.range ws.length).map (fun i =>
    { id := i, weight := ws.getD i 0, healthy := health.getD i false, req := 0, conn := 0, score := 1 })

/-- `hostWeightsAreEqual` on the configured weights. -/
def wsEqual : List Nat → Bool
  | [] => true
  | w :: r => r.all (fun x => x == w)

/-- the `hosts.Range` of `refresh`: the callback `step` (health at build time ↦ (add, go on)) host by host. -/
def rangeAdd (step : Bool → Bool × Bool) (wf : Nat → Rat) : List Bool → Nat → Sched → Sched
  | [], _, s => s
  | h :: r, i, s =>
    let s' := if (step h).1 then s.add i (wf i) else s
    if (step h).2 then rangeAdd step wf r (i + 1) s' else s'

/-- the scheduler `refresh` leaves behind for the build-time health pattern `hp` (one entry per host of the set):
Range, optional drop of an empty scheduler, warm-up picks. -/
def buildWith (step : Bool → Bool × Bool) (drops : Bool) (wf : Nat → Rat) (hp : List Bool) (pre : List (Option Nat)) :
    Option Sched :=
  let s := rangeAdd step wf hp 0 {}
  if drops && s.entries.isEmpty then none else some (s.run wf pre).2

/-- … with the regenerated callback and drop flag. -/
def build (wf : Nat → Rat) (hp : List Bool) (pre : List (Option Nat)) : Option Sched :=
  buildWith EdfRefresh.rangeStep EdfRefresh.dropsEmpty wf hp pre

/-- the health pattern normalised to one entry per host. -/
def pattern (n : Nat) (hp : List Bool) : List Bool := (List.range n).map (fun i => hp.getD i false)

/-- state of the weighted round-robin balancer constructed over `ws` while the hosts' health is `hp0`
(slow start off: `slowStart.Mode == ""`), with the regenerated early returns. -/
def newStateWith (step : Bool → Bool × Bool) (drops : Bool) (ws : List Nat) (hp0 : List Bool) (rr0 : Nat)
    (pre : List (Option Nat)) : LBState :=
  { rr := if ws.length = 0 then 0 else rr0 % ws.length
    sched := if EdfRefresh.skipSmall (ws.length : Int) || EdfRefresh.skipEqual "" (wsEqual ws) then none
             else buildWith step drops (wrrWeight ws) (pattern ws.length hp0) pre }

def newStateH (ws : List Nat) (hp0 : List Bool) (rr0 : Nat) (pre : List (Option Nat)) : LBState :=
  newStateWith EdfRefresh.rangeStep EdfRefresh.dropsEmpty ws hp0 rr0 pre

/-- the hosts the Range added, in order (for the correspondence on the observed `Add` calls). -/
def addedHosts (ws : List Nat) (hp0 : List Bool) : List Nat :=
  (rangeAdd EdfRefresh.rangeStep (wrrWeight ws) (pattern ws.length hp0) 0 {}).entries.map (·.item)

/-- the weighted loop of `ChooseHost` with its trace: (scheduler picks made, result, scheduler, hints left).
Projection to the last three components is `LB.edfLoop`. -/
def loopH (hs : Hosts) (wf : Nat → Rat) : Nat → Sched → List (Option Nat) → List Nat × Option Nat × Sched × List (Option Nat)
  | 0, s, hints => ([], none, s, hints)
  | k + 1, s, hints =>
    match s.nextAndPush wf (hints.headD none) with
    | none => ([], none, s, hints)
    | some (i, s') =>
      if hAt hs i then ([i], some i, s', hints.tail)
      else let r := loopH hs wf k s' hints.tail; (i :: r.1, r.2)

/-- events after the balancer was built. -/
inductive Ev
  | flip (i : Nat) (b : Bool)          -- `SetHealthFlag` / `ClearHealthFlag` on host `i`
  | look (hints : List (Option Nat))   -- one `ChooseHost` (hints: how the float code resolved exact ties)
deriving Repr, Inhabited

/-- one lookup as observed. -/
structure Rec where
  health : List Bool
  picks : List Nat
  result : Option Nat
deriving Repr, Inhabited, BEq

def Rec.healthyAt (r : Rec) (i : Nat) : Bool := r.health.getD i false

/-- the lookup was served by the scheduler: its last scheduler pick was a healthy host. -/
def Rec.weighted (r : Rec) : Bool :=
  match r.picks.getLast? with
  | some l => r.healthyAt l
  | none => false

/-- scheduler picks of one lookup (none when the balancer has no scheduler or fewer than two hosts). -/
def picksOf (hs : Hosts) (st : LBState) (hints : List (Option Nat)) : List Nat :=
  if hs.length ≤ 1 then [] else
  match st.sched with
  | none => []
  | some s => (loopH hs (wrrWf hs) hs.length s hints).1

/-- one event: new health pattern, new balancer state, and the record of a lookup. -/
def stepEv (ws : List Nat) (health : List Bool) (st : LBState) : Ev → (List Bool × LBState) × Option Rec
  | .flip i b => ((health.set i b, st), none)
  | .look hints =>
    let hs := mkH ws health
    let out := wrrChoose hs st { hints := hints }
    ((health, out.st), some { health := health, picks := picksOf hs st hints, result := out.result })

/-- a sequence of events: the lookups' records and the final (health, balancer). -/
def runEv (ws : List Nat) : List Bool → LBState → List Ev → List Rec × (List Bool × LBState)
  | health, st, [] => ([], (health, st))
  | health, st, e :: r =>
    match stepEv ws health st e with
    | ((h', st'), some rc) => let (l, fin) := runEv ws h' st' r; (rc :: l, fin)
    | ((h', st'), none) => runEv ws h' st' r

/-! ### executable property predicate (declarative; mentions neither the scheduler nor regenerated code) -/

/-- effective weight of host `i`. -/
def effW (ws : List Nat) (i : Nat) : Int := wrrW ws i

/-- number of lookups of the window served host `i` by a weighted pick. -/
def served (recs : List Rec) (i : Nat) : Nat := recs.countP (fun r => r.weighted && r.result == some i)

/-- host `i` is healthy at every lookup of the window. -/
def healthyThroughout (recs : List Rec) (i : Nat) : Bool := recs.all (fun r => r.healthyAt i)

/-- a host healthy throughout this many consecutive lookups must be served by a weighted pick in them:
`⌊Σw / wᵢ⌋ + n + 1` (from the lag bound: while `i` waits, every host `j` is picked at most `wⱼ/wᵢ + 1` times, and
every lookup makes at least one pick). -/
def serveWindow (ws : List Nat) (i : Nat) : Nat :=
  (((List.range ws.length).map (fun j => (effW ws j).toNat)).sum) / (effW ws i).toNat + ws.length + 1

/-- the statement's inequality for one window and one ordered pair, multiplied by `wᵢ·wⱼ`:
`nᵢ·wⱼ − nⱼ·wᵢ ≤ wᵢ + wⱼ`. -/
def pairBound (ws : List Nat) (recs : List Rec) (i j : Nat) : Bool :=
  decide ((served recs i : Int) * effW ws j - (served recs j : Int) * effW ws i ≤ effW ws i + effW ws j)

/-- one window: every ordered pair of hosts healthy throughout respects the lag bound, and a host healthy throughout a
window of at least `serveWindow` lookups is served in it. -/
def windowOk (ws : List Nat) (recs : List Rec) : Bool :=
  (List.range ws.length).all (fun i =>
    !healthyThroughout recs i ||
      ((decide (recs.length < serveWindow ws i) || decide (0 < served recs i)) &&
       (List.range ws.length).all (fun j => !healthyThroughout recs j || pairBound ws recs i j)))

/-- all windows (every start, every length) of consecutive lookups. -/
def windows (recs : List Rec) : List (List Rec) :=
  (List.range (recs.length + 1)).flatMap (fun a =>
    (List.range (recs.length + 1 - a)).map (fun len => (recs.drop a).take len))

/-- `refresh` builds a scheduler exactly for ≥ 2 hosts whose configured weights are not all equal (slow start off). -/
def expectSched (ws : List Nat) : Bool := decide (2 ≤ ws.length) && !wsEqual ws

/-- what `ChooseHost` owes one lookup: picks are hosts of the set, every pick before the last one was unhealthy; a
balancer over ≥ 2 hosts with unequal weights makes at least one weighted pick; a lookup whose last pick is healthy
returns it; otherwise (designed degradation: `total` unhealthy picks in a row) the result is what C05 demands of any
balancer — a healthy host if there is one, no host only if there is none. -/
def lookupOk (ws : List Nat) (r : Rec) : Bool :=
  let n := ws.length
  let expectSched := expectSched ws
  r.picks.all (fun x => decide (x < n)) &&
  r.picks.dropLast.all (fun x => !r.healthyAt x) &&
  (!expectSched || !r.picks.isEmpty) &&
  (if r.weighted then r.result == r.picks.getLast?
   else (!expectSched || r.picks.length == n) &&
        specChoice (mkH ws r.health) r.result)

/-- the predicate on the lookups observed after the balancer was built: every lookup is in order, and — when the
balancer is a weighted one — every window of consecutive lookups is (equal configured weights build no scheduler: plain
round robin, nothing is served by a weighted pick). -/
def specH (ws : List Nat) (recs : List Rec) : Bool :=
  recs.all (lookupOk ws) && (!expectSched ws || (windows recs).all (windowOk ws))

end MosnVerif.Model.WrrHealth
