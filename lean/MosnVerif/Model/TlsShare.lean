import MosnVerif.Gen.TlsShare
import MosnVerif.Model.TlsSds
/-!
Model of the sds provider cache of pkg/mtls (secret_manager.go) as the listeners of a process use it: contexts of one
listener, of several listeners and of clusters may name the SAME certificate / validation secrets.

* the cache `secretManager.validations[val].certificates[cert].sdsProviders[index]` is a map from the REGENERATED key
  `Gen.TlsShare.cacheKey val cert index` to a provider state (`Model.TlsSds.Prov`: stored configuration, secret, context
  in force); a pem provider (val, cert) exists from its first use on and holds the latest complete secret;
* `NewTLSServerContextManager` (`build`) walks the tls contexts of the listener: the context at position n goes to
  `NewProvider(Gen.TlsShare.serverIndex name n, cfg)` = `addOrUpdate`: create (with the secret the pem provider holds) or
  `updateConfig` (regenerated: Gen.TlsSds); static contexts do not touch the cache but count as positions;
* a complete secret for a pem provider (`complete`) is handed to every provider under it (regenerated push).
Secrets are numbers. Core Lean only.
-/
namespace MosnVerif.Model.TlsShare
open MosnVerif.Gen.TlsShare MosnVerif.Model.TlsSelect
open MosnVerif.Model.TlsSds (Prov SOp step create)

abbrev Key := List Char × List Char × List Char
abbrev PemKey := List Char × List Char

/-- the secret names of an sds tls context -/
structure Ref where
  val : Name
  cert : Name
  deriving DecidableEq, Repr

/-- an sds tls context of a listener: its own configuration and the secrets it names -/
structure SCtx (κ : Type) where
  cfg : κ
  ref : Ref
  deriving DecidableEq, Repr

structure Cache (κ : Type) where
  provs : Key → Option (Prov κ Nat)
  pems : PemKey → Option (Option Nat)   -- none = no such pem provider yet; some none = exists, secret incomplete

variable {κ : Type}

def Cache.empty : Cache κ := ⟨fun _ => none, fun _ => none⟩

def pemOf (k : Key) : PemKey := (k.1, k.2.1)

/-- the complete secret a pem provider holds -/
def pemSecret (ca : Cache κ) (pk : PemKey) : Option Nat := (ca.pems pk).join

/-- `secretManager.AddOrUpdateProvider(index, cfg)`: the pem provider is created on first use, the sds provider of the key
is created from what the pem provider holds or gets `updateConfig cfg` -/
def addOrUpdate (ca : Cache κ) (key : Key) (cfg : κ) (g : Bool) : Cache κ :=
  let pems : PemKey → Option (Option Nat) :=
    if (ca.pems (pemOf key)).isSome then ca.pems else fun q => if q = pemOf key then some none else ca.pems q
  let p' : Prov κ Nat :=
    match ca.provs key with
    | some p => step p (.update cfg g)
    | none => create cfg (pems (pemOf key)).join g
  ⟨fun k => if k = key then some p' else ca.provs k, pems⟩

/-- the pem provider `pk` receives the complete secret `s` (certificate + validation): every provider under it gets it -/
def complete (ca : Cache κ) (pk : PemKey) (s : Nat) : Cache κ :=
  if (ca.pems pk).isSome then
    ⟨fun k => (ca.provs k).map (fun p => if pemOf k = pk then step p (.push s) else p),
     fun q => if q = pk then some (some s) else ca.pems q⟩
  else ca

/-- the cache key of the context at position n of listener `name` -/
def serverKey (name : Name) (n : Nat) (r : Ref) : Key := cacheKey r.val r.cert (serverIndex name n)

/-- `NewTLSServerContextManager` from position n on (`none` = a static context) -/
def buildFrom (name : Name) (g : Bool) : List (Option (SCtx κ)) → Nat → Cache κ → Cache κ
  | [], _, ca => ca
  | none :: r, n, ca => buildFrom name g r (n + 1) ca
  | some c :: r, n, ca => buildFrom name g r (n + 1) (addOrUpdate ca (serverKey name n c.ref) c.cfg g)

def build (name : Name) (cs : List (Option (SCtx κ))) (g : Bool) (ca : Cache κ) : Cache κ := buildFrom name g cs 0 ca

inductive COp (κ : Type) where
  | build (name : Name) (cs : List (Option (SCtx κ))) (g : Bool)   -- a listener is added / updated
  | cluster (name : Name) (c : SCtx κ) (g : Bool)                  -- a cluster's client manager is built / rebuilt
  | complete (pk : PemKey) (s : Nat)                               -- the sds server completes / rotates a secret

def apply (ca : Cache κ) : COp κ → Cache κ
  | .build name cs g => build name cs g ca
  | .cluster name c g => addOrUpdate ca (cacheKey c.ref.val c.ref.cert (clientIndex name)) c.cfg g
  | .complete pk s => complete ca pk s

def run (ops : List (COp κ)) : Cache κ := ops.foldl apply Cache.empty

/-- the table "listener name ↦ contexts of its latest build" -/
def noteBuild (T : Name → Option (List (Option (SCtx κ)))) : COp κ → Name → Option (List (Option (SCtx κ)))
  | .build n cs _ => fun m => if m = n then some cs else T m
  | _ => T

/-- the contexts of the last build of listener `name` -/
def lastBuild (ops : List (COp κ)) (name : Name) : Option (List (Option (SCtx κ))) :=
  (ops.foldl noteBuild (fun _ => none)) name

/-- the tls context in force of the provider the manager of listener `name` holds for position n -/
def ctxAt (ca : Cache κ) (name : Name) (n : Nat) (r : Ref) : Option (κ × Nat) :=
  (ca.provs (serverKey name n r)).bind (·.ctx)

/-- the statement: the context at a position is built from THAT position's configuration and the latest complete
secret of the secrets it names -/
def specCtxAt (ca : Cache κ) (c : SCtx κ) : Option (κ × Nat) :=
  (pemSecret ca (c.ref.val, c.ref.cert)).map (fun s => (c.cfg, s))

/-! ### the client-authentication mode of every kind of context -/

/-- where a listener context's certificate and trust anchors come from -/
inductive CtxKind where
  | staticWithCA            -- cert_chain / private_key / ca_cert inline or files
  | staticWithoutCA         -- no ca_cert: the host's root store
  | sdsWithValidation       -- sds certificate secret + sds validation secret
  | sdsWithoutValidation    -- sds certificate secret only: the host's root store
  deriving DecidableEq, Repr

def CtxKind.all : List CtxKind := [.staticWithCA, .staticWithoutCA, .sdsWithValidation, .sdsWithoutValidation]

/-- the tls.ClientAuthType of a context of kind `k` with flags require_client_cert / verify_client (`none` while the
context is not built: sds secret pending). Every kind is built by newTLSContext → SetServerConfig →
hooks.GetClientAuth(cfg) (`Gen.TlsShare.clientAuthFromHookForEveryContext`), and GetClientAuth reads nothing but the two
flags (`Gen.TlsShare.getClientAuthReads`; the regenerated `getClientAuth` has no other input): the kind cannot matter. -/
def ctxClientAuth (_k : CtxKind) (ready : Bool) (req ver : Bool) : Option Int :=
  if ready then some (MosnVerif.Gen.TlsPolicy.getClientAuth req ver) else none

/-- the trust anchor a peer certificate is judged against: the configured CA, or the host's root store -/
def CtxKind.hostStore : CtxKind → Bool
  | .staticWithoutCA => true
  | .sdsWithoutValidation => true
  | _ => false

/-! ### what a listener's manager selects among -/

/-- the configuration of an sds tls context of a listener (the fields outside the secret) -/
structure LCfg where
  verify : Bool
  require : Bool
  sname : Name
  alpnCfg : Name
  deriving DecidableEq, Repr

/-- the selection view of an sds context in force: `names s` = CN and SANs of the certificate of secret `s` of the
certificate secret called `cert` -/
def viewCtx (names : Name → Nat → Name × List Name) (cert : Name) : Option (LCfg × Nat) → Ctx
  | none => ⟨false, [], [], [], []⟩
  | some (cfg, s) => ⟨true, (names cert s).1, (names cert s).2, cfg.alpnCfg, cfg.sname⟩

/-- the ClientAuthType in force of an sds context (regenerated table) -/
def authOf : Option (LCfg × Nat) → Option Int
  | none => none
  | some (cfg, _) => some (MosnVerif.Gen.TlsPolicy.getClientAuth cfg.require cfg.verify)

/-- the contexts of a listener from position n on, each seen through `f position context` (`statics n` = the static
context at position n) -/
def viewFrom (statics : Nat → Ctx) (f : Nat → SCtx LCfg → Ctx) : List (Option (SCtx LCfg)) → Nat → List Ctx
  | [], _ => []
  | none :: r, n => statics n :: viewFrom statics f r (n + 1)
  | some c :: r, n => f n c :: viewFrom statics f r (n + 1)

/-- the providers of the manager of listener `name` as the cache has them NOW (providers are shared objects) -/
def managerView (names : Name → Nat → Name × List Name) (statics : Nat → Ctx) (ca : Cache LCfg) (name : Name)
    (cs : List (Option (SCtx LCfg))) : List Ctx :=
  viewFrom statics (fun n c => viewCtx names c.ref.cert (ctxAt ca name n c.ref)) cs 0

/-- the statement: every context with its OWN configuration and the latest secret of the names it uses -/
def specView (names : Name → Nat → Name × List Name) (statics : Nat → Ctx) (ca : Cache LCfg)
    (cs : List (Option (SCtx LCfg))) : List Ctx :=
  viewFrom statics (fun _ c => viewCtx names c.ref.cert (specCtxAt ca c)) cs 0

end MosnVerif.Model.TlsShare
