import MosnVerif.Model.StreamTable
import MosnVerif.Gen.H2ClientTable
/-!
Model of the client side of an HTTP/2 stream connection (C02, kind `h2tbl`).

Two tables keyed by the stream id, both Go maps (association lists with map semantics: `Model.StreamTable.lookup / insert /
erase`, refinement lemmas in `Lemmas/StreamTable`):

* `mod` = `MClientConn.streams` (pkg/module/http2/mhttp2.go): decides what `MClientConn.HandleFrame` hands up - a frame
  for an id that is not in it is dropped (HEADERS) or answered with a stream / connection error (DATA);
* `tbl` = `clientStreamConnection.streams` (pkg/stream/http2/stream.go): decides WHICH stream object is notified.

Ids come from `MClientConn.newStream` (`nextStreamID`, uint32, regenerated `newStreamId`); a stream is registered in both
tables only when its HEADERS frame could be written (`validStreamID`). Every key used at an insert / lookup / delete site
is the regenerated key function of `Gen.H2ClientTable` applied to the id the site has at hand, every guard is the
regenerated guard. One operation = one call into the connection (a request opened, one frame dispatched, one reset)
together with everything it triggers synchronously.

Hand-modelled (validated by the correspondence run): the HEADERS state machine of `processHeaders` (first HEADERS =
response, a later one must be trailers with END_STREAM and no pseudo header, else connection error), that a connection
error closes the connection and the close event resets every stream of `tbl` (`client.OnEvent` -> `Reset`), that the
receiver wrapper destroys the stream before it notifies, `BaseStream.ResetStream` notifying once while not destroyed,
HEADERS / DATA / RST_STREAM on stream 0 being connection errors of the frame parser. Response streaming
(`Http2UseStream`) is off.
-/
namespace MosnVerif.Model.H2ClientTable
open MosnVerif.Gen.H2ClientTable
open MosnVerif.Model.StreamTable (Table lookup erase insert)

inductive Reason | localReset | remoteReset | connFailed | connTerm
  deriving DecidableEq, Repr

/-- a piece of a response as a stream object keeps it: the id of the frame it came in and the token it carried -/
structure Part where
  fid : Int
  tok : Nat
  deriving DecidableEq, Repr

/-- one OnReceive: header, body pieces, trailer -/
structure Delivery where
  hdr : Option Part
  body : List Part
  trailer : Option Part
  deriving DecidableEq, Repr

structure Str where
  id : Int := 0                  -- clientStream.id (0 until the request HEADERS went out)
  registered : Bool := true      -- a receiver was given (client.NewStream with a receiver)
  hasCs : Bool := false          -- h2s.clientStream != nil: WriteHeaders succeeded
  connReset : Bool := false      -- clientStream.connReset
  live : Bool := true            -- BaseStream.state = reset (not destroyed yet)
  pastHeaders : Bool := false    -- module clientStream: firstByte / pastHeaders
  pastTrailers : Bool := false
  header : Option Part := none   -- stream.header
  body : List Part := []         -- stream.recData
  trailer : Option Part := none  -- stream.trailer.H
  got : List Delivery := []
  resets : List Reason := []
  deriving Repr

structure Conn where
  next : Int                     -- MClientConn.nextStreamID
  mod : Table := []
  tbl : Table := []
  last : Int := 0                -- clientStreamConnection.lastStream
  goaways : Nat := 0             -- OnGoAway notifications
  closed : Bool := false
  rst : List Int := []           -- RST_STREAM frames written to the peer
  wire : List Int := []          -- ids of the request HEADERS frames written to the peer
  nW : Nat := 0
  str : Nat → Str := fun _ => {}

inductive Op
  | open_ (oneway : Bool)
  | headers (id : Int) (tok : Nat) (ended : Bool)      -- HEADERS with :status
  | data (id : Int) (tok : Nat) (ended : Bool) (empty : Bool)
  | trailers (id : Int) (tok : Nat)                    -- HEADERS, END_STREAM, no pseudo header
  | rst (id : Int)
  | window (id : Int)
  | goaway (last : Int) (code : Int)
  | reset (w : Nat)                                    -- clientStream.ResetStream(StreamLocalReset) by the stream's user
  | connReset                                          -- client.OnEvent(close) without the connection closing
  | connError                                          -- a frame that is a connection error (PUSH_PROMISE)
  | noise                                              -- SETTINGS, PING
  deriving Repr

/-- everything the model takes from the Go source: id allocation, the key used at every table site, every guard -/
structure Shape where
  newId : Int → Int × Int
  valid : Int → Bool
  writeRefuses : Bool
  modInsertKey : Int → Int
  sbKey : Int → Int
  sbDelKey : Int → Int
  sbRemoves : Bool → Bool → Bool
  modHeadersKey : Int → Int
  modHeadersRemove : Bool → Bool
  modDataKey : Int → Int
  modDataRemove : Bool → Bool
  modRstKey : Int → Int
  modRstRemove : Bool → Bool
  modWindowKey : Int → Int
  modWindowRemove : Bool → Bool
  modResetKey : Int → Int
  modResetRemove : Bool → Bool
  modOwnResetKey : Int → Int
  modOwnResetRemove : Bool → Bool
  ownResetNeedsCs : Bool
  unknownDataConnErr : Int → Int → Bool
  dataBeforeHeadersErr : Bool
  goawayLast : Int → Int → Int
  goawayActs : Int → Bool
  goawayOverrides : Int → Int → Bool
  frameLookupKey : Int → Int
  hdrEndDeleteKey : Int → Int
  endDeleteKey : Int → Int
  errLookupKey : Int → Int
  insertKey : Int → Int
  resetDeleteKey : Int → Int
  resetDeletes : Bool → Bool

/-- the shape regenerated from the working tree -/
def genShape : Shape where
  newId := newStreamId
  valid := validStreamID
  writeRefuses := writeRefusesInvalidId
  modInsertKey := modInsertKey
  sbKey := streamByIDKey
  sbDelKey := streamByIDDeleteKey
  sbRemoves := streamByIDRemoves
  modHeadersKey := modHeadersKey
  modHeadersRemove := modHeadersRemove
  modDataKey := modDataKey
  modDataRemove := modDataRemove
  modRstKey := modRstKey
  modRstRemove := modRstRemove
  modWindowKey := modWindowKey
  modWindowRemove := modWindowRemove
  modResetKey := modResetKey
  modResetRemove := modResetRemove
  modOwnResetKey := modOwnResetKey
  modOwnResetRemove := modOwnResetRemove
  ownResetNeedsCs := ownResetNeedsModuleStream
  unknownDataConnErr := unknownDataIsConnError
  dataBeforeHeadersErr := dataBeforeHeadersIsStreamError
  goawayLast := goawayLast
  goawayActs := goawayActs
  goawayOverrides := goawayOverrides
  frameLookupKey := frameLookupKey
  hdrEndDeleteKey := hdrEndDeleteKey
  endDeleteKey := endDeleteKey
  errLookupKey := errLookupKey
  insertKey := insertKey
  resetDeleteKey := resetDeleteKey
  resetDeletes := resetDeletes

/-- the shape the theorems are about: every site uses the id it has at hand (the frame's / the error's stream id, the
stream object's own id) unchanged; `Props.C02.h2_shape` shows the regenerated shape IS this one -/
def goodShape : Shape where
  newId := fun next => (next, (next + 2) % 4294967296)
  valid := fun id => decide (id ≠ 0) && decide ((id / 2147483648) % 2 = 0)
  writeRefuses := true
  modInsertKey := fun x => x
  sbKey := fun x => x
  sbDelKey := fun x => x
  sbRemoves := fun andRemove found => andRemove && found
  modHeadersKey := fun x => x
  modHeadersRemove := fun ended => ended
  modDataKey := fun x => x
  modDataRemove := fun ended => ended
  modRstKey := fun x => x
  modRstRemove := fun _ => true
  modWindowKey := fun x => x
  modWindowRemove := fun _ => false
  modResetKey := fun x => x
  modResetRemove := fun _ => true
  modOwnResetKey := fun x => x
  modOwnResetRemove := fun _ => true
  ownResetNeedsCs := true
  unknownDataConnErr := fun frameId next => decide (frameId ≥ next)
  dataBeforeHeadersErr := true
  goawayLast := fun errCode last => if errCode = 0 then last else 0
  goawayActs := fun l => decide (l ≠ 0)
  goawayOverrides := fun lastStream id => decide (lastStream > 0) && decide (id > lastStream)
  frameLookupKey := fun x => x
  hdrEndDeleteKey := fun x => x
  endDeleteKey := fun x => x
  errLookupKey := fun x => x
  insertKey := fun x => x
  resetDeleteKey := fun x => x
  resetDeletes := fun connReset => !connReset

def Conn.updW (s : Conn) (w : Nat) (f : Str → Str) : Conn :=
  { s with str := fun k => if k = w then f (s.str w) else s.str k }

/-- `MClientConn.streamByID(id, andRemove)` with the call site's key: (found stream object, state) -/
def streamByID (sh : Shape) (s : Conn) (id : Int) (andRemove : Bool) : Option Nat × Conn :=
  match lookup s.mod (sh.sbKey id) with
  | some w => (some w, if sh.sbRemoves andRemove true then { s with mod := erase s.mod (sh.sbDelKey id) } else s)
  | none => (none, s)

/-- `MClientConn.resetStream(se)`: remove the stream, write RST_STREAM when it was there (a closed connection writes nothing) -/
def modReset (sh : Shape) (s : Conn) (errId : Int) : Conn :=
  match streamByID sh s (sh.modResetKey errId) (sh.modResetRemove false) with
  | (some _, s1) => if s1.closed then s1 else { s1 with rst := s1.rst ++ [errId] }
  | (none, s1) => s1

/-- `BaseStream.ResetStream`: listeners are told once, only while the stream is not destroyed -/
def baseReset (s : Conn) (w : Nat) (r : Reason) : Conn :=
  if (s.str w).live then s.updW w (fun x => { x with resets := x.resets ++ [r], live := false }) else s

/-- `clientStream.ResetStream(reason)` on stream object `w` (order: Gen.resetActs) -/
def resetStream (sh : Shape) (s : Conn) (w : Nat) (r : Reason) : Conn :=
  let x := s.str w
  let r := if sh.goawayOverrides s.last x.id then Reason.connFailed else r
  -- s.h2s.Reset(): MClientStream.Reset
  let s1 := if x.hasCs || !sh.ownResetNeedsCs then (streamByID sh (modReset sh s x.id) (sh.modOwnResetKey x.id) (sh.modOwnResetRemove false)).2 else s
  let s2 := if sh.resetDeletes x.connReset then { s1 with tbl := erase s1.tbl (sh.resetDeleteKey x.id) } else s1
  baseReset s2 w r

/-- `clientStreamConnection.Reset(reason)` over the entries of the table -/
def resetAll (sh : Shape) (s : Conn) (r : Reason) : List (Int × Nat) → Conn
  | [] => s
  | (_, w) :: l => resetAll sh (resetStream sh (s.updW w (fun x => { x with connReset := true })) w r) r l

/-- a connection error / unreadable frame: `conn.Close`, whose close event makes the stream client reset every stream -/
def connClose (sh : Shape) (s : Conn) : Conn :=
  let s1 := { s with closed := true }
  resetAll sh s1 .connTerm s1.tbl

/-- `clientStreamConnection.handleError` with a StreamError for `errId` -/
def streamError (sh : Shape) (s : Conn) (errId : Int) : Conn :=
  match lookup s.tbl (sh.errLookupKey errId) with
  | some w => resetStream sh s w .remoteReset
  | none => s

/-- the receiver wrapper: DestroyStream, then the receiver's OnReceive -/
def deliver (s : Conn) (w : Nat) (d : Delivery) : Conn :=
  s.updW w (fun x => { x with live := false, got := x.got ++ [d] })

def openStream (sh : Shape) (s : Conn) (oneway : Bool) : Conn :=
  let (id, nx) := sh.newId s.next
  let w := s.nW
  let s0 : Conn := { s with next := nx, nW := w + 1, str := fun k => if k = w then { registered := !oneway } else s.str k }
  if sh.valid id || !sh.writeRefuses then
    { s0 with mod := insert s0.mod (sh.modInsertKey id) w, tbl := insert s0.tbl (sh.insertKey id) w, wire := s0.wire ++ [id],
              str := fun k => if k = w then { id := id, registered := !oneway, hasCs := true } else s0.str k }
  else
    -- ErrStreamID: OnGoAway, ResetStream(StreamConnectionFailed); the stream never got an id
    resetStream sh { s0 with goaways := s0.goaways + 1 } w .connFailed

def onHeaders (sh : Shape) (s : Conn) (id : Int) (tok : Nat) (ended : Bool) : Conn :=
  if id = 0 then connClose sh s else
  match streamByID sh s (sh.modHeadersKey id) (sh.modHeadersRemove ended) with
  | (none, s1) => s1
  | (some mw, s1) =>
    if !(s1.str mw).pastHeaders then
      let s2 := s1.updW mw (fun x => { x with pastHeaders := true })
      match lookup s2.tbl (sh.frameLookupKey id) with
      | none => s2
      | some w =>
        if ended then
          if (s2.str w).registered then
            let s3 := deliver s2 w ⟨some ⟨id, tok⟩, [], none⟩
            { s3 with tbl := erase s3.tbl (sh.hdrEndDeleteKey id) }
          else s2
        else s2.updW w (fun x => { x with header := some ⟨id, tok⟩, trailer := none })
    else
      -- a second HEADERS frame carrying :status: too many HEADERS / no END_STREAM / pseudo header in trailers
      connClose sh (s1.updW mw (fun x => { x with pastTrailers := true }))

/-- END_STREAM on DATA / trailers: notify (when a receiver was given), then remove -/
def finish (sh : Shape) (s : Conn) (w : Nat) (id : Int) : Conn :=
  let x := s.str w
  let s1 := if x.registered then deliver s w ⟨x.header, x.body, x.trailer⟩ else s
  { s1 with tbl := erase s1.tbl (sh.endDeleteKey id) }

def onData (sh : Shape) (s : Conn) (id : Int) (tok : Nat) (ended empty : Bool) : Conn :=
  if id = 0 then connClose sh s else
  match streamByID sh s (sh.modDataKey id) (sh.modDataRemove ended) with
  | (none, s1) =>
    if sh.unknownDataConnErr id s1.next then connClose sh s1 else streamError sh (modReset sh s1 id) id
  | (some mw, s1) =>
    if !(s1.str mw).pastHeaders && sh.dataBeforeHeadersErr then streamError sh (modReset sh s1 id) id else
    match lookup s1.tbl (sh.frameLookupKey id) with
    | none => s1
    | some w =>
      let s2 := s1.updW w (fun x => { x with body := x.body ++ (if empty then [] else [⟨id, tok⟩]) })
      if ended then finish sh s2 w id else s2

def onTrailers (sh : Shape) (s : Conn) (id : Int) (tok : Nat) : Conn :=
  if id = 0 then connClose sh s else
  match streamByID sh s (sh.modHeadersKey id) (sh.modHeadersRemove true) with
  | (none, s1) => s1
  | (some mw, s1) =>
    if !(s1.str mw).pastHeaders then connClose sh (s1.updW mw (fun x => { x with pastHeaders := true }))   -- no :status
    else if (s1.str mw).pastTrailers then connClose sh s1
    else
      let s2 := s1.updW mw (fun x => { x with pastTrailers := true })
      match lookup s2.tbl (sh.frameLookupKey id) with
      | none => s2
      | some w => finish sh (s2.updW w (fun x => { x with trailer := some ⟨id, tok⟩ })) w id

def onRst (sh : Shape) (s : Conn) (id : Int) : Conn :=
  if id = 0 then connClose sh s else
  let s1 := (streamByID sh s (sh.modRstKey id) (sh.modRstRemove false)).2
  -- HandleFrame: err = StreamError -> resetStream(ev) (nothing left to remove), then handleError
  streamError sh (modReset sh s1 id) id

def onGoAway (sh : Shape) (s : Conn) (last code : Int) : Conn :=
  let l := sh.goawayLast code last
  if sh.goawayActs l then { s with last := l, goaways := s.goaways + 1 } else s

def step (sh : Shape) (s : Conn) (op : Op) : Conn :=
  if s.closed then s else
  match op with
  | .open_ oneway => openStream sh s oneway
  | .headers id tok ended => onHeaders sh s id tok ended
  | .data id tok ended empty => onData sh s id tok ended empty
  | .trailers id tok => onTrailers sh s id tok
  | .rst id => onRst sh s id
  | .window id => (streamByID sh s (sh.modWindowKey id) (sh.modWindowRemove false)).2
  | .goaway last code => onGoAway sh s last code
  | .reset w => if w < s.nW then resetStream sh s w .localReset else s
  | .connReset => resetAll sh s .connTerm s.tbl
  | .connError => connClose sh s
  | .noise => s

def run (sh : Shape) (s : Conn) : List Op → Conn
  | [] => s
  | op :: r => run sh (step sh s op) r

def init (first : Int) : Conn := { next := u32 first }

/-- the connection as `NewClientConn` makes it -/
def fresh : Conn := init idInit

def trace (sh : Shape) (s : Conn) : List Op → List Conn
  | [] => []
  | op :: r => step sh s op :: trace sh (step sh s op) r

end MosnVerif.Model.H2ClientTable
