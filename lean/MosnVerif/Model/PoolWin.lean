import MosnVerif.Model.Pool
import MosnVerif.Gen.PoolDestroy
/-!
Small-step model of the two ping-pong pools (HTTP/1 `connPool`, xprotocol `poolPingPong`) for the INTERMEDIATE states of
`OnDestroyStream` and of the close event it may cause, with the full request / connection ledger.

`Model/Pool.lean` runs one operation to quiescence; here `OnDestroyStream` is a *task*: the regenerated statement program
of the method (`Gen.PoolDestroy.{h1,pp}DestroyProg`, helpers inlined: gauge −1, gauge −1, `Requests().Decrease()`,
close test + close, guarded put back — in the order of the Go source), executed one statement per `taskStep` label.
Closing the connection is itself two steps: the connection is marked closed (`netOpen := false`) and the close event is
delivered to the listeners in registration order — the pool's handler (`poolEvent`: `closed := true`, counter −1, removal
from the idle list, connection_active −1) is a later step of the same task.  Between any two steps any other label may
run: a `NewStream` (atomic: breaker test, lease from the idle list under the pool's lock or a dial), the end of another
request, a connection lost, a go-away frame.  The theorems quantify over all label lists (= all such interleavings).

Assumption kept from `Model/Pool.lean`: a connection LOST (closed by the upstream, or by MOSN's read loop) is one atomic
label — the pool's close handler runs before the stream on it is reset.
-/
namespace MosnVerif.Model.PoolWin
open MosnVerif.Gen.Pool MosnVerif.Gen.PoolDestroy
open MosnVerif.Model.Pool (Kind Dial Res canNew reuseRefused putBack closeOnDestroy markClose closeDelta removeIdle)

inductive DStep
  | decHost | decCluster | decRes
  | closeIf (ret : Bool)      -- `if <close test> { close the connection; [return] }`
  | put                       -- guarded append to the idle list
  | poolEvent (ret : Bool)    -- the pool's handler of the close event caused by `closeIf`
  | bad                       -- unknown step code
  deriving DecidableEq, Repr

def DStep.ofCode : Nat → DStep
  | 0 => .decHost | 1 => .decCluster | 2 => .decRes | 3 => .closeIf false | 4 => .closeIf true | 5 => .put | _ => .bad

def destroyProg : Kind → List DStep
  | .h1 => h1DestroyProg.map DStep.ofCode
  | .pp => ppDestroyProg.map DStep.ofCode

def takeCodes : Kind → List Nat | .h1 => h1TakeProg | .pp => ppTakeProg
def closeGaugeCodes : Kind → List Nat | .h1 => h1CloseGauges | .pp => ppCloseGauges
def dialGaugeCodes : Kind → List Nat | .h1 => h1DialGauges | .pp => ppDialGauges

structure Client where
  closed    : Bool := false   -- book: activeClient.closed
  closeConn : Bool := false   -- book: closeConn / shouldCloseConn
  netOpen   : Bool := true    -- truth: the TCP connection is open
  dirty     : Bool := false   -- ghost: a request on it was reset, or the response said `Connection: close`
  live      : Bool := false   -- ghost: a request is in flight on it (leased, stream not ended)
  deriving DecidableEq, Repr

abbrev Task := Nat × List DStep

structure State where
  kind      : Kind
  maxConn   : Nat
  maxReq    : Nat
  prog      : List DStep      -- the statement program of OnDestroyStream (regenerated: `destroyProg kind`)
  total     : Int := 0
  idle      : List Nat := []
  nClients  : Nat := 0
  client    : Nat → Client := fun _ => {}
  reqCur    : Int := 0        -- Requests().Cur()
  ext       : Nat := 0        -- ghost: slots held by other pools of the cluster
  rqHost    : Int := 0        -- host upstream_request_active
  rqCluster : Int := 0        -- cluster upstream_request_active
  cnHost    : Int := 0        -- host upstream_connection_active
  cnCluster : Int := 0        -- cluster upstream_connection_active
  tasks     : List Task := []  -- OnDestroyStream calls in progress: client, remaining statements
  liveN     : Int := 0        -- ghost: requests admitted minus requests ended (= requests in flight)
  openN     : Nat := 0        -- ghost: open TCP connections

/-- the pool with an arbitrary OnDestroyStream program (the theorems are proved for a decidable class of programs) -/
def initWith (k : Kind) (maxConn maxReq : Nat) (prog : List DStep) : State :=
  { kind := k, maxConn := maxConn, maxReq := maxReq, prog := prog }

/-- the pool as it is: the regenerated program -/
def init (k : Kind) (maxConn maxReq : Nat) : State := initWith k maxConn maxReq (destroyProg k)

def State.updC (s : State) (c : Nat) (f : Client → Client) : State :=
  { s with client := fun k => if k = c then f (s.client c) else s.client k }

/-- one regenerated counter movement -/
def applyMove (s : State) : Nat → State
  | 0 => { s with rqHost := s.rqHost - 1 }
  | 1 => { s with rqCluster := s.rqCluster - 1 }
  | 2 => { s with reqCur := resDecrease s.maxReq s.reqCur }
  | 10 => { s with rqHost := s.rqHost + 1 }
  | 11 => { s with rqCluster := s.rqCluster + 1 }
  | 12 => { s with reqCur := resIncrease s.maxReq s.reqCur }
  | 20 => { s with cnHost := s.cnHost - 1 }
  | 21 => { s with cnCluster := s.cnCluster - 1 }
  | 22 => { s with cnHost := s.cnHost + 1 }
  | 23 => { s with cnCluster := s.cnCluster + 1 }
  | _ => s

def applyMoves (s : State) (l : List Nat) : State := l.foldl applyMove s

/-- a successful dial: a new client, the connection_active movements of `newActiveClient` -/
def newClient (s : State) : State :=
  applyMoves { s with nClients := s.nClients + 1, openN := s.openN + 1,
                      client := fun k => if k = s.nClients then {} else s.client k } (dialGaugeCodes s.kind)

/-- `getAvailableClient` / `GetActiveClient` after the breaker (the decisions are those of `Gen.Pool`). -/
def acquire (s : State) (d : Dial) : State × Res :=
  if s.idle.isEmpty then
    match s.kind with
    | .h1 =>
      let t := s.total + h1NewDelta
      if h1CanNew s.maxConn t then
        if d.fails then ({ s with total := t + h1DialFailDelta d.isTimeout }, .connFail d.isTimeout)
        else (newClient { s with total := t }, .ok s.nClients)
      else ({ s with total := t + h1OverflowDelta }, .overflow)
    | .pp =>
      if ppCanNew s.maxConn s.total then
        if d.fails then ({ s with total := s.total + ppDialFailDelta d.isTimeout }, .connFail d.isTimeout)
        else (newClient { s with total := s.total + ppNewDelta }, .ok s.nClients)
      else (s, .overflow)
  else
    if reuseRefused s.kind s.maxConn s.total s.idle.length then (s, .overflow)
    else ({ s with idle := s.idle.dropLast }, .ok (s.idle.getLast?.getD 0))

/-- an admitted request on client `c`: what `NewStream` takes (regenerated), the stream is in flight -/
def lease (s : State) (c : Nat) : State :=
  applyMoves { s.updC c (fun cl => { cl with live := true }) with liveN := s.liveN + 1 } (takeCodes s.kind)

/-- `NewStream` (atomic): requests breaker, then a client -/
def newStream (s : State) (d : Dial) : State × Res :=
  if canCreate s.maxReq s.reqCur then
    match acquire s d with
    | (s1, .ok c) => (lease s1 c, .ok c)
    | (s1, r) => (s1, r)
  else (s, .overflow)

/-- the pool's handler of a close event of client `c` -/
def poolOnClose (s : State) (c : Nat) : State :=
  applyMoves { s.updC c (fun cl => { cl with closed := true }) with
               total := s.total + closeDelta s.kind, idle := removeIdle s.kind s.idle c } (closeGaugeCodes s.kind)

/-- how a request ends (other than by the loss of its connection) -/
inductive Cause | complete | completeClose | localReset | remoteReset
  deriving DecidableEq, Repr

def endMarks (k : Kind) (cause : Cause) (cl : Client) : Client :=
  match cause with
  | .complete => cl
  | .completeClose => match k with
      | .h1 => { cl with closeConn := true, dirty := true }    -- OnGoAway before the response is handed over
      | .pp => cl
  | .localReset => { cl with closeConn := cl.closeConn || markClose k reasonStreamLocalReset cl.closed, dirty := true }
  | .remoteReset => { cl with closeConn := cl.closeConn || markClose k reasonStreamRemoteReset cl.closed, dirty := true }

inductive Label
  | newStream (d : Dial)
  | endStream (c : Nat) (cause : Cause)   -- the stream on `c` ends: marks, then OnDestroyStream starts as a task
  | taskStep (k : Nat)                    -- one statement of the k-th OnDestroyStream in progress
  | netClose (c : Nat)                    -- the connection is lost (atomic with the pool's close handler)
  | goAway (c : Nat)                      -- go-away frame (ping-pong xprotocol)
  | extInc | extDec
  deriving Repr

def setTask (ts : List Task) (k : Nat) (c : Nat) (rest : List DStep) : List Task :=
  if rest.isEmpty then ts.eraseIdx k else ts.set k (c, rest)

/-- one statement of `OnDestroyStream` of client `c`; returns the new state and the task's remaining statements -/
def execStep (s : State) (c : Nat) (st : DStep) (rest : List DStep) : State × List DStep :=
  let cl := s.client c
  match st with
  | .decHost => (applyMove s 0, rest)
  | .decCluster => (applyMove s 1, rest)
  | .decRes => (applyMove s 2, rest)
  | .closeIf ret =>
    if closeOnDestroy s.kind cl.closed cl.closeConn then
      if cl.netOpen then
        -- Connection.Close: the connection is closed, the event is on its way through the listener list
        ({ s.updC c (fun cl => { cl with netOpen := false }) with openN := s.openN - 1 }, .poolEvent ret :: rest)
      else (s, if ret then [] else rest)     -- Close of a closed connection: CAS fails, no event
    else (s, rest)
  | .poolEvent ret => (poolOnClose s c, if ret then [] else rest)
  | .put => (if putBack s.kind cl.closed then { s with idle := s.idle ++ [c] } else s, rest)
  | .bad => (s, rest)

def step (s : State) : Label → State × Res
  | .newStream d => newStream s d
  | .endStream c cause =>
    if c < s.nClients ∧ (s.client c).live = true ∧ (cause = .remoteReset → s.kind = .h1) then
      ({ s.updC c (fun cl => { endMarks s.kind cause cl with live := false }) with
         liveN := s.liveN - 1, tasks := s.tasks ++ [(c, s.prog)] }, .none)
    else (s, .none)
  | .taskStep k =>
    match s.tasks[k]? with
    | some (c, st :: rest) =>
      let (s1, rest') := execStep s c st rest
      ({ s1 with tasks := setTask s1.tasks k c rest' }, .none)
    | _ => (s, .none)
  | .netClose c =>
    if c < s.nClients ∧ (s.client c).netOpen = true then
      let s1 := poolOnClose { s.updC c (fun cl => { cl with netOpen := false }) with openN := s.openN - 1 } c
      if (s.client c).live then
        ({ s1.updC c (fun cl => { cl with live := false, dirty := true }) with
           liveN := s1.liveN - 1, tasks := s1.tasks ++ [(c, s1.prog)] }, .none)
      else (s1, .none)
    else (s, .none)
  | .goAway c =>
    if c < s.nClients ∧ s.kind = .pp then (s.updC c (fun cl => { cl with closeConn := true }), .none) else (s, .none)
  | .extInc => ({ s with reqCur := resIncrease s.maxReq s.reqCur, ext := s.ext + 1 }, .none)
  | .extDec => if s.ext > 0 then ({ s with reqCur := resDecrease s.maxReq s.reqCur, ext := s.ext - 1 }, .none) else (s, .none)

def run (s : State) : List Label → State
  | [] => s
  | l :: r => run (step s l).1 r

/-- run the pending tasks to the end, oldest first (quiescence); fuel bounds the number of steps -/
def drain : Nat → State → State
  | 0, s => s
  | n + 1, s => if s.tasks.isEmpty then s else drain n (step s (.taskStep 0)).1

/-- run task `k` up to and including its close statement (the window is open when the head is `poolEvent`) -/
def toWindow : Nat → State → Nat → State
  | 0, s, _ => s
  | n + 1, s, k =>
    match s.tasks[k]? with
    | some (_, .poolEvent _ :: _) => s
    | some (_, _ :: _) =>
      let before := s.tasks.length
      let s1 := (step s (.taskStep k)).1
      if s1.tasks.length < before then s1 else toWindow n s1 k
    | _ => s

def State.windowOpen (s : State) (k : Nat) : Bool :=
  match s.tasks[k]? with
  | some (_, .poolEvent _ :: _) => true
  | _ => false

end MosnVerif.Model.PoolWin
