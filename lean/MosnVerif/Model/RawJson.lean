import MosnVerif.Model.Redact
import MosnVerif.Gen.RawRedact
/-!
# The raw-bytes level of the hole redaction (`redactedRawJSON`, pkg/configmanager/redact.go)

`Model/Redact.lean` works on DECODED documents (`redJ` = `redactJSONValue`).  An extend config is a
`json.RawMessage`: the bytes of the configuration file, kept verbatim, decoded only by whoever consumes them
(MOSN's extensions use encoding/json).  JSON lets every character of an object key be written as an escape
(`"private\u005fkey"`, `"\u0070rivate_key"`); the consumer's decoder turns those into `private_key`.  So whether a
document holds a private key is a property of its DECODING, and a redactor that decides anything from the raw
bytes can be wrong.  This file models

* the decoder as far as key spelling needs it: `decStr` (string literal → characters: `\uXXXX` incl. surrogate
  pairs, the eight short escapes, control characters and unknown escapes refused) and the value parser `pVal`
  (objects decoded the way a Go map receives them: a later duplicate member replaces the earlier one);
  `parseDoc` = a whole document (json.Unmarshal / the validity check json.Marshal applies to a RawMessage),
  `parseFirst` = the first value of the stream (what `Decoder.Decode` reads);
* `redactedRawJSON` itself, **interpreted from the regenerated statement list** `Gen.RawRedact.steps`
  (`progOf`): the tests that return the raw bytes before the decode (`Guard`, each with the condition the
  extractor read off the `if`), then the pipeline decode → `redactJSONValue` → unchanged ⇒ raw → `json.Marshal`.
  A guard that inspects the raw bytes becomes a `Guard` of the program and changes what `redactedRaw` computes.

A text is a list of characters (`Text`): bytes of valid UTF-8; invalid UTF-8 (which Go's decoder replaces by U+FFFD)
is not represented.  Case folding of keys is `Redact.isPK` (`strings.EqualFold` with the key constant).
Core Lean only.
-/
namespace MosnVerif.Model.RawJson
open MosnVerif.Model MosnVerif.Model.Redact

abbrev Text := List Char

/-! ## string literals -/

def hexVal (c : Char) : Option Nat := Json.hexVal c

def hex4 (a b c d : Char) : Option Nat :=
  match hexVal a, hexVal b, hexVal c, hexVal d with
  | some a, some b, some c, some d => some (((a * 16 + b) * 16 + c) * 16 + d)
  | _, _, _, _ => none

def replacement : Char := Char.ofNat 0xFFFD
def isHighSur (n : Nat) : Bool := 0xD800 ≤ n && n < 0xDC00
def isLowSur (n : Nat) : Bool := 0xDC00 ≤ n && n < 0xE000

/-- the character a single `\uXXXX` escape denotes (a lone surrogate decodes to U+FFFD, as in encoding/json) -/
def uChar (n : Nat) : Char := if isHighSur n || isLowSur n then replacement else Char.ofNat n

def pairChar (hi lo : Nat) : Char := Char.ofNat (0x10000 + (hi - 0xD800) * 0x400 + (lo - 0xDC00))

/-- the eight two-character escapes of JSON -/
def shortEsc (e : Char) : Option Char :=
  if e == '"' then some '"' else if e == '\\' then some '\\' else if e == '/' then some '/'
  else if e == 'b' then some (Char.ofNat 8) else if e == 'f' then some (Char.ofNat 12)
  else if e == 'n' then some '\n' else if e == 'r' then some '\r' else if e == 't' then some '\t'
  else none

/-- a high surrogate escape waiting for its partner: it becomes U+FFFD unless a low surrogate escape follows -/
def flush (pend : Option Nat) (acc : List Char) : List Char :=
  match pend with
  | some _ => replacement :: acc
  | none => acc

/-- body of a string literal after the opening quote: the decoded characters and the text after the closing
quote; `none` = not a string literal (unterminated, unknown escape, bad hex digit, raw control character).
`pend` = the high surrogate named by the escape just read. -/
def decStrP : Text → Option Nat → List Char → Option (List Char × Text)
  | [], _, _ => none
  | c :: r, pend, acc =>
    if c == '"' then some ((flush pend acc).reverse, r)
    else if c == '\\' then
      match r with
      | [] => none
      | e :: r1 =>
        if e == 'u' then
          match r1 with
          | a :: b :: c2 :: d :: r2 =>
            match hex4 a b c2 d with
            | none => none
            | some n =>
              match pend with
              | some hi =>
                if isLowSur n then decStrP r2 none (pairChar hi n :: acc)
                else if isHighSur n then decStrP r2 (some n) (replacement :: acc)
                else decStrP r2 none (uChar n :: replacement :: acc)
              | none =>
                if isHighSur n then decStrP r2 (some n) acc
                else decStrP r2 none (uChar n :: acc)
          | _ => none
        else
          match shortEsc e with
          | some x => decStrP r1 none (x :: flush pend acc)
          | none => none
    else if c.toNat < 0x20 then none
    else decStrP r none (c :: flush pend acc)

def decStr (t : Text) (acc : List Char) : Option (List Char × Text) := decStrP t none acc

/-! ## values -/

def isWs (c : Char) : Bool := c == ' ' || c == '\n' || c == '\t' || c == '\r'

def skipWs : Text → Text
  | c :: r => if isWs c then skipWs r else c :: r
  | [] => []

def isDigit (c : Char) : Bool := '0' ≤ c && c ≤ '9'

def spanDigits : Text → Text → Text × Text
  | c :: r, acc => if isDigit c then spanDigits r (c :: acc) else (acc.reverse, c :: r)
  | [], acc => (acc.reverse, [])

/-- `-? (0 | [1-9][0-9]*) (\.[0-9]+)? ([eE][+-]?[0-9]+)?` : the literal and the rest -/
def scanNum (t : Text) : Option (Text × Text) :=
  let (sgn, t0) := (match t with | '-' :: r => (['-'], r) | t => ([], t) : Text × Text)
  match t0 with
  | [] => none
  | c :: r =>
    if !isDigit c then none else
    let (ip, r1) := (if c == '0' then ([c], r) else (let (ds, r') := spanDigits r []; (c :: ds, r')) : Text × Text)
    let frac : Option (Text × Text) :=
      match r1 with
      | '.' :: r' => let (ds, r'') := spanDigits r' []; if ds.isEmpty then none else some ('.' :: ds, r'')
      | _ => some ([], r1)
    match frac with
    | none => none
    | some (fp, r2) =>
      let ex : Option (Text × Text) :=
        match r2 with
        | e :: r' =>
          if e == 'e' || e == 'E' then
            let (sg, r'') := (match r' with | '+' :: x => (['+'], x) | '-' :: x => (['-'], x) | x => ([], x) : Text × Text)
            let (ds, r3) := spanDigits r'' []
            if ds.isEmpty then none else some (e :: sg ++ ds, r3)
          else some ([], r2)
        | [] => some ([], r2)
      match ex with
      | none => none
      | some (ep, r3) => some (sgn ++ ip ++ fp ++ ep, r3)

/-- the rest after a fixed word -/
def lit : Text → Text → Option Text
  | [], r => some r
  | w :: ws, c :: r => if w == c then lit ws r else none
  | _ :: _, [] => none

/-- a Go map receives the members one by one: a later member with the same key replaces the earlier one -/
def dedupLast : List (String × Json) → List (String × Json)
  | [] => []
  | (k, v) :: r => if r.any (fun kv => kv.1 == k) then dedupLast r else (k, v) :: dedupLast r

mutual
def pVal : Nat → Text → Option (Json × Text)
  | 0, _ => none
  | fuel + 1, t =>
    match skipWs t with
    | [] => none
    | c :: r =>
      if c == '"' then (decStr r []).map (fun (s, r') => (Json.str (String.ofList s), r'))
      else if c == '[' then
        match skipWs r with
        | ']' :: r' => some (.arr [], r')
        | r' => (pElems fuel r' []).map (fun (xs, r'') => (.arr xs, r''))
      else if c == '{' then
        match skipWs r with
        | '}' :: r' => some (.obj [], r')
        | r' => (pMembers fuel r' []).map (fun (kvs, r'') => (.obj (dedupLast kvs), r''))
      else if c == 'n' then (lit ['u', 'l', 'l'] r).map (fun r' => (.null, r'))
      else if c == 't' then (lit ['r', 'u', 'e'] r).map (fun r' => (.bool true, r'))
      else if c == 'f' then (lit ['a', 'l', 's', 'e'] r).map (fun r' => (.bool false, r'))
      else (scanNum (c :: r)).map (fun (n, r') => (.num (String.ofList n), r'))
def pElems : Nat → Text → List Json → Option (List Json × Text)
  | 0, _, _ => none
  | fuel + 1, t, acc =>
    match pVal fuel t with
    | none => none
    | some (v, r) =>
      match skipWs r with
      | ',' :: r' => pElems fuel r' (v :: acc)
      | ']' :: r' => some ((v :: acc).reverse, r')
      | _ => none
def pMembers : Nat → Text → List (String × Json) → Option (List (String × Json) × Text)
  | 0, _, _ => none
  | fuel + 1, t, acc =>
    match skipWs t with
    | '"' :: r =>
      match decStr r [] with
      | none => none
      | some (k, r1) =>
        match skipWs r1 with
        | ':' :: r2 =>
          match pVal fuel r2 with
          | none => none
          | some (v, r3) =>
            match skipWs r3 with
            | ',' :: r4 => pMembers fuel r4 ((String.ofList k, v) :: acc)
            | '}' :: r4 => some (((String.ofList k, v) :: acc).reverse, r4)
            | _ => none
        | _ => none
    | _ => none
end

/-- the first value of the text and what follows it -/
def parsePrefix (t : Text) : Option (Json × Text) := pVal (t.length + 1) t

/-- `Decoder.Decode`: the first value of the stream; what follows an object or array is not looked at -/
def parseFirst (t : Text) : Option Json := (parsePrefix t).map (·.1)

/-- a whole document (`json.Unmarshal`, and the validation `json.Marshal` applies to a `RawMessage`) -/
def parseDoc (t : Text) : Option Json :=
  match parsePrefix t with
  | some (j, r) => if (skipWs r).isEmpty then some j else none
  | none => none

/-! ## strings a consumer reads as private keys -/

mutual
/-- every string stored directly under an object key that folds to `private_key`, at any depth -/
def pkStrings (key : Bool) : Json → List String
  | .str s => if key then [s] else []
  | .arr xs => pkStringsL xs
  | .obj kvs => pkStringsO kvs
  | _ => []
def pkStringsL : List Json → List String
  | [] => []
  | x :: r => pkStrings false x ++ pkStringsL r
def pkStringsO : List (String × Json) → List String
  | [] => []
  | (k, v) :: r => pkStrings (isPK k) v ++ pkStringsO r
end

/-! ## the program of `redactedRawJSON` read off the regenerated statement list -/

/-- a test that makes `redactedRawJSON` return the raw bytes before anything is decoded -/
inductive Guard where
  | len0                                                  -- `len(raw) == 0`
  | contains (lower neg : Bool) (needle : Text)           -- `[!]bytes.Contains([bytes.ToLower](raw), needle)`
  | unknown (tag : String)                                -- any other condition (an oracle of the raw bytes)
  deriving Repr, DecidableEq

def stripPrefix : Text → Text → Option Text
  | [], t => some t
  | p :: ps, c :: r => if p == c then stripPrefix ps r else none
  | _ :: _, [] => none

def guardOfTag (tag : String) : Guard :=
  let t := tag.toList
  if tag == "len0" then .len0
  else match stripPrefix "not-contains-lower:".toList t with
  | some n => .contains true true n
  | none =>
  match stripPrefix "contains-lower:".toList t with
  | some n => .contains true false n
  | none =>
  match stripPrefix "not-contains:".toList t with
  | some n => .contains false true n
  | none =>
  match stripPrefix "contains:".toList t with
  | some n => .contains false false n
  | none => .unknown tag

/-- `bytes.ToLower` on ASCII text -/
def lowerC (c : Char) : Char := if 'A' ≤ c ∧ c ≤ 'Z' then Char.ofNat (c.toNat + 32) else c

def isPrefixOf : Text → Text → Bool
  | [], _ => true
  | p :: ps, c :: r => p == c && isPrefixOf ps r
  | _ :: _, [] => false

def containsSub (needle : Text) : Text → Bool
  | [] => needle.isEmpty
  | c :: r => isPrefixOf needle (c :: r) || containsSub needle r

/-- the guard's `if` condition holds of the raw bytes (then the raw bytes are returned) -/
def Guard.fires (unk : String → Text → Bool) : Guard → Text → Bool
  | .len0, raw => raw.isEmpty
  | .contains lower neg needle, raw => (containsSub needle (if lower then raw.map lowerC else raw)) != neg
  | .unknown tag, raw => unk tag raw

abbrev Steps := List (String × List String)

/-- the statements after the early returns, as written in redact.go: a decoder over the raw bytes with UseNumber,
`Decode` (error ⇒ raw), `redactJSONValue`, unchanged ⇒ raw, `json.Marshal` (error ⇒ raw), the encoding. -/
def pipeline : Steps :=
  [("call", ["dec", "json.NewDecoder", "bytes.NewReader(raw)"]),
   ("call", ["", "dec.UseNumber", ""]),
   ("var", ["var v interface{}"]),
   ("decode", ["dec.Decode", "&v", "raw"]),
   ("call", ["nv,changed", "redactJSONValue", "v"]),
   ("return-if", ["not:changed", "raw"]),
   ("call", ["b,err", "json.Marshal", "nv"]),
   ("return-if", ["err", "raw"]),
   ("return", ["b"])]

/-- leading `if cond { return raw }` statements and the rest -/
def splitGuards : Steps → List Guard × Steps
  | ("return-if", [tag, "raw"]) :: r => let (g, rest) := splitGuards r; (guardOfTag tag :: g, rest)
  | r => ([], r)

structure Prog where
  guards : List Guard
  /-- what follows the guards is exactly `pipeline` -/
  piped : Bool
  deriving Repr

def progOf (s : Steps) : Prog :=
  let (g, rest) := splitGuards s
  ⟨g, rest == pipeline⟩

/-- what happens after the decode: error ⇒ raw; nothing to redact ⇒ raw; else the encoding of the walked tree -/
def walkOut (enc : Json → Option Text) (raw : Text) : Option Json → Text
  | none => raw
  | some j => if cleanJ false j then raw else (enc (redJ false j)).getD raw

/-- `redactedRawJSON(raw)`.  `enc` = `json.Marshal` of a decoded tree (`none` = error ⇒ the raw bytes), `unk` =
the verdicts of conditions the extractor does not recognise. -/
def redactedRaw (p : Prog) (unk : String → Text → Bool) (enc : Json → Option Text) (raw : Text) : Text :=
  if p.guards.any (fun g => g.fires unk raw) then raw
  else walkOut enc raw (parseFirst raw)

/-- the program regenerated from the working tree -/
def rawProg : Prog := progOf MosnVerif.Gen.RawRedact.steps

/-! ## which holes are raw, and who redacts them -/

def isRawHoleTy : MosnVerif.Model.GoTypes.GoTy → Bool
  | .hole k => k == "json.RawMessage"
  | .slice e => isRawHoleTy e
  | .map e => isRawHoleTy e
  | .ptr e => isRawHoleTy e
  | _ => false

/-- every `json.RawMessage` position of the structs reachable from the effective config: (struct, field) -/
def rawHoles : List (String × String) :=
  MosnVerif.Gen.ConfigGraph.reachable.flatMap (fun n =>
    match G.find n with
    | some d => d.fields.filterMap (fun f => if isRawHoleTy f.ty then some (n, f.name) else none)
    | none => [])

/-- `redactedExtends` / `redactedFilters` as written: copy the slice, then redact every `Config` unconditionally
(the raw one through `redactedRawJSON`, the decoded one through `redactJSONValue`) -/
def callerBodiesExpected : List (String × List String) :=
  [("redactedExtends", ["if len(src) == 0 { return src }", "dst := make([]v2.ExtendConfig, len(src))", "copy(dst, src)",
      "for i := range dst { dst[i].Config = redactedRawJSON(dst[i].Config) }", "return dst"]),
   ("redactedFilters", ["if len(src) == 0 { return src }", "dst := make([]v2.Filter, len(src))", "copy(dst, src)",
      "for i := range dst { if v, changed := redactJSONValue(dst[i].Config); changed { dst[i].Config = v.(map[string]interface{}) } }",
      "return dst"])]

/-- the closed Boolean the raw-level theorems need from the regenerated files: `redactedRawJSON` is the bare
pipeline behind the single guard `len(raw) == 0`; it is called, unconditionally, for the `Config` of every extend config (`callerBodies`) and nowhere
else; filter configs (already decoded maps) go through the same walker; the only test against the key constant is
the case-folding comparison of a DECODED key; every raw hole of the graph is `ExtendConfig.Config` or on the
plain-hole list. -/
def rawChecks : Bool :=
  rawProg.piped && rawProg.guards == [.len0] &&
  MosnVerif.Gen.RawRedact.param == "raw" &&
  MosnVerif.Gen.RawRedact.callSites ==
    [("redactedExtends", "redactedRawJSON", "dst[i].Config"), ("redactedFilters", "redactJSONValue", "dst[i].Config"),
     ("redactedRawJSON", "redactJSONValue", "v")] &&
  MosnVerif.Gen.RawRedact.keyUses == ["redactJSONValue: strings.EqualFold(k, privateKeyJSONKey)"] &&
  MosnVerif.Gen.RawRedact.callerBodies == callerBodiesExpected &&
  rawHoles.all (fun h => plainHoles.contains h || h == ("ExtendConfig", "Config")) &&
  rawHoles.contains ("ExtendConfig", "Config")

/-! ## the stores of the walker (`redactJSONValue`): copy on write

A decoded hole (`Filter.Config`) is a tree of maps and slices SHARED with the live configuration; the walker must
never store into a container it did not allocate itself.  `Gen.RawRedact.walkerStores` lists every store of the
function (index assignments and `copy`) with the container written, `walkerContainerDefs` every assignment to those
container names. -/

structure WalkCfg where
  /-- some store of the `map[string]interface{}` clause writes a container the call did not `make` -/
  objInPlace : Bool
  /-- the same for the `[]interface{}` clause -/
  arrInPlace : Bool
  /-- a store outside the two clauses -/
  other : Bool
  deriving Repr, DecidableEq

/-- every assignment to `base` is an allocation (`base = make(…)`), and there is one -/
def allocated (defs : List String) (base : String) : Bool :=
  let ds := defs.filter (fun d => isPrefixOf (base ++ " = ").toList d.toList)
  !ds.isEmpty && ds.all (fun d => isPrefixOf (base ++ " = make(").toList d.toList)

def walkCfgOf (stores : List (String × String × String)) (defs : List String) : WalkCfg :=
  ⟨stores.any (fun st => st.1 == "map[string]interface{}" && !allocated defs st.2.1),
   stores.any (fun st => st.1 == "[]interface{}" && !allocated defs st.2.1),
   stores.any (fun st => st.1 != "map[string]interface{}" && st.1 != "[]interface{}")⟩

/-- the configuration regenerated from the working tree -/
def walkCfg : WalkCfg := walkCfgOf MosnVerif.Gen.RawRedact.walkerStores MosnVerif.Gen.RawRedact.walkerContainerDefs

mutual
/-- number of stores of one walk that hit a container of the INPUT tree (every recursive call receives an original
child, so the stores of the whole walk are the sum over all nodes) -/
def wWrites (c : WalkCfg) : Json → Nat
  | .arr xs => wWritesL c xs
  | .obj kvs => wWritesO c kvs
  | _ => 0
def wWritesL (c : WalkCfg) : List Json → Nat
  | [] => 0
  | x :: r => (if c.arrInPlace && !cleanJ false x then 1 else 0) + wWrites c x + wWritesL c r
def wWritesO (c : WalkCfg) : List (String × Json) → Nat
  | [] => 0
  | (k, v) :: r => (if c.objInPlace && !cleanJ (isPK k) v then 1 else 0) + wWrites c v + wWritesO c r
end

def walkChecks : Bool := walkCfg == ⟨false, false, false⟩

/-! ## a concrete encoder (examples, driver) -/

/-- compact rendering, members in list order (json.Marshal sorts them; no model output depends on the order) -/
def render (j : Json) : Text := (Json.render j).toList

/-! ## key spellings -/

/-- one character of a key as the file spells it -/
inductive Sp where
  | plain (c : Char)                               -- the character itself
  | uni (c : Char) (u0 u1 u2 u3 : Bool)            -- `\uXXXX`, each hex digit in either case
  | short (e : Char)                               -- `\"  \\  \/  \b  \f  \n  \r  \t`
  deriving Repr

def hexDig (n : Nat) (upper : Bool) : Char :=
  if n < 10 then Char.ofNat (n + 48) else if upper then Char.ofNat (n - 10 + 65) else Char.ofNat (n - 10 + 97)

def Sp.text : Sp → Text
  | .plain c => [c]
  | .uni c u0 u1 u2 u3 =>
    ['\\', 'u', hexDig (c.toNat / 4096 % 16) u0, hexDig (c.toNat / 256 % 16) u1, hexDig (c.toNat / 16 % 16) u2, hexDig (c.toNat % 16) u3]
  | .short e => ['\\', e]

/-- the character the spelling denotes -/
def Sp.char : Sp → Char
  | .plain c => c
  | .uni c _ _ _ _ => c
  | .short e => (shortEsc e).getD e

/-- the spelling is legal JSON: a plain character is not `"`, `\` or a control character; a `\u` escape names a
character of the basic plane that is not a surrogate; a short escape is one of the eight. -/
def Sp.ok : Sp → Bool
  | .plain c => c != '"' && c != '\\' && !(c.toNat < 0x20)
  | .uni c _ _ _ _ => c.toNat < 0x10000 && !isHighSur c.toNat && !isLowSur c.toNat
  | .short e => (shortEsc e).isSome

def spell (sps : List Sp) : Text := sps.flatMap Sp.text

end MosnVerif.Model.RawJson
