import MosnVerif.Model.DispatchLoop
import MosnVerif.Model.FrameChk
/-! the checked-access xprotocol decoders of C08 (`Model/FrameChk`) as the decoder parameter of the Dispatch loop. Core Lean only. -/
namespace MosnVerif.Model.DispatchLoop
open MosnVerif.Model.FrameBytes

/-- an out-of-range access is a panic: Dispatch is left through the read loop's recover, nothing is drained -/
def ofOut : Out → DStep
  | .needMore => .needMore
  | .frame n => .frame n
  | .error k => .error k
  | .oob => .error 0

def decOf (chk : List UInt8 → Res) (b : List UInt8) : DStep := ofOut (chk b).out

end MosnVerif.Model.DispatchLoop
