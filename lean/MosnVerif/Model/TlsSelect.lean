import MosnVerif.Gen.TlsPolicy
/-!
Model of MOSN's TLS selection and policy layer (pkg/mtls): `tlsContext.buildMatch`, `MatchedServerName`,
`MatchedALPN`, `tlsConfigTemplate`'s ALPN filter, the provider walk of `serverContextManager.GetConfigForClient`
(loop body and tail *regenerated*: `Gen.TlsPolicy.walkStep/walkFinish`), the client-auth table (`getClientAuth`,
regenerated), the client-side verification flags (`clientVerify`, regenerated), and the inspector decision of
`serverContextManager.Conn` (`connDecision`, regenerated).

Strings are `List Char` (ASCII names: Go's `strings.ToLower` is modelled by `Char.toLower`, which agrees on ASCII).
The second half (`Spec…`) is the declarative reading of the property statement, written without the regenerated
functions and without the shared match set; it is what the driver evaluates on the implementation's outputs.
-/
namespace MosnVerif.Model.TlsSelect
open MosnVerif.Gen.TlsPolicy

abbrev Name := List Char

/-- `strings.ToLower` on ASCII -/
def lower (n : Name) : Name := n.map Char.toLower

/-- `for len(name) > 0 && name[len(name)-1] == '.' { name = name[:len(name)-1] }` -/
def stripDots (n : Name) : Name := (n.reverse.dropWhile (· == '.')).reverse

/-- `strings.Split(s, sep)` for a one-character separator (always at least one piece) -/
def splitOn (sep : Char) : Name → List Name
  | [] => [[]]
  | c :: r =>
    if c == sep then [] :: splitOn sep r
    else match splitOn sep r with
      | [] => [[c]]
      | h :: t => (c :: h) :: t

/-- `strings.Join(labels, ".")` -/
def joinDot : List Name → Name
  | [] => []
  | [a] => a
  | a :: b :: r => a ++ '.' :: joinDot (b :: r)

/-- the candidates of the loop `for i := 0; i < len(labels)-1; i++ { labels[i] = "*"; candidate := Join(labels[i:], ".") }`,
in loop order -/
def candidates : List Name → List Name
  | [] => []
  | [_] => []
  | _ :: b :: r => joinDot (['*'] :: b :: r) :: candidates (b :: r)

/-- the SNI as it is looked up: lower-cased, trailing dots removed -/
def normSni (sn : Name) : Name := stripDots (lower sn)

/-- `tlsContext.MatchedServerName` over the match set `m` -/
def matchedServerName (m : List Name) (sn : Name) : Bool :=
  m.contains (normSni sn) || (candidates (splitOn '.' (normSni sn))).any (fun c => m.contains c)

/-- `tlsContext.MatchedALPN` -/
def matchedALPN (m : List Name) (protos : List Name) : Bool :=
  protos.any (fun p => m.contains (lower p))

/-- `tlsConfigTemplate`: `NextProtos` = the pieces of the `alpn` config string whose lower-case form is in the table,
kept as written -/
def parseALPN (cfg : Name) : List Name :=
  if cfg.isEmpty then []
  else (splitOn ',' cfg).filter (fun p => (alpnSupported.map String.toList).contains (lower p))

/-- one TLS context of a listener, as far as selection reads it -/
structure Ctx where
  ready : Bool
  cn : Name            -- certificate Subject.CommonName ([] = absent)
  sans : List Name     -- certificate DNSNames
  alpnCfg : Name       -- the `alpn` config string
  serverName : Name    -- the `server_name` config string
  deriving DecidableEq, Repr

def Ctx.alpn (c : Ctx) : List Name := parseALPN c.alpnCfg

/-- `tlsContext.buildMatch`: CN (if any), the non-empty SANs, NextProtos and server_name (if set), lower-cased, in ONE
set (proved equal to the regenerated function: Lemmas/TlsMatch `gen_buildMatch_eq`) -/
def buildMatch (c : Ctx) : List Name :=
  (if c.cn.length > 0 then [lower c.cn] else []) ++ (c.sans.filter (fun s => s.length > 0)).map lower ++
    c.alpn.map lower ++ (if c.serverName.length > 0 then [lower c.serverName] else [])

def Ctx.sniMatch (c : Ctx) (sni : Name) : Bool := matchedServerName (buildMatch c) sni
def Ctx.alpnMatch (c : Ctx) (protos : List Name) : Bool := matchedALPN (buildMatch c) protos

/-- the loop of `GetConfigForClient` from provider index `i` on, with the regenerated loop body and tail -/
def walk (sni : Name) (protos : List Name) : List Ctx → Nat → Option Nat → Option Nat → Outcome
  | [], _, d, a => walkFinish d a
  | p :: r, i, d, a =>
    match walkStep d a i p.ready (p.sniMatch sni) (p.alpnMatch protos) with
    | .ret o => o
    | .next d' a' => walk sni protos r (i + 1) d' a'

/-- `serverContextManager.GetConfigForClient` -/
def select (ps : List Ctx) (sni : Name) (protos : List Name) : Outcome := walk sni protos ps 0 none none

/-! ### client authentication (server side) and upstream verification (client side) -/

/-- what the peer presents, relative to the configured CA -/
inductive Peer where
  | none | selfSigned | otherCA | rightCA | expired | stolenKey
  deriving DecidableEq, Repr

/-- crypto/x509 chain verification against the configured CA (black box; these are the expected verdicts) -/
def Peer.chainOK : Peer → Bool
  | .rightCA => true
  | .stolenKey => true      -- the certificate itself is genuine
  | _ => false

/-- the peer holds the private key of the certificate it presents (CertificateVerify) -/
def Peer.possession : Peer → Bool
  | .stolenKey => false
  | _ => true

/-- server-side result of a handshake under ClientAuthType `auth` (forked crypto/tls handshake_server: a certificate is
requested iff `auth ≥ RequestClientCert`; an empty certificate list is refused iff `requiresClientCert auth`; the chain
is verified iff `auth ≥ VerifyClientCertIfGiven` and a certificate was given; CertificateVerify is checked whenever a
certificate was given). The peer sends its certificate whenever one is requested. -/
def serverAccepts (auth : Int) (p : Peer) : Bool :=
  if auth < RequestClientCert then true
  else if p == .none then !requiresClientCert auth
  else (if auth ≥ VerifyClientCertIfGiven then p.chainOK else true) && p.possession

/-- the certificate an upstream server presents to MOSN's client side -/
inductive ServerCert where
  | rightCA | selfSigned | otherCA | expired | wrongName
  deriving DecidableEq, Repr

/-- verification is skipped altogether: no chain/hostname check and no hook -/
def verifySkipped (flags : Bool × Bool) : Bool := flags.1 && !flags.2

/-- client-side result of a handshake with the flags of `SetClientConfig` (`hookOK` = verdict of the extension hook;
an empty `server_name` without InsecureSkipVerify is refused by crypto/tls before anything is sent) -/
def clientAccepts (hookVerify insecureSkip serverNameSet : Bool) (s : ServerCert) (hookOK : Bool) : Bool :=
  let flags := clientVerify hookVerify insecureSkip
  (flags.1 || serverNameSet) && (flags.1 || s == .rightCA) && (!flags.2 || hookOK)

/-- result of `clientContextManager.Conn` -/
inductive ClientResult where
  | notls | ok | fail
  deriving DecidableEq, Repr

/-- `clientContextManager.Conn`: `if !mng.Enabled() { return c, nil }` — a provider that is not ready (sds secret
pending) leaves the upstream connection in plaintext; otherwise the handshake decides -/
def clientConn (ready hookVerify insecureSkip serverNameSet : Bool) (s : ServerCert) (hookOK : Bool) : ClientResult :=
  if !ready then .notls
  else if clientAccepts hookVerify insecureSkip serverNameSet s hookOK then .ok else .fail

/-- plaintext is served on this connection -/
def servesPlain : ConnResult → Bool
  | .raw => true
  | .plainPeeked => true
  | _ => false

/-! ### Spec: the statement read declaratively (separate name and ALPN namespaces) -/

/-- `pat` is a wildcard name `*.suffix` and `n` ends in `.suffix` -/
def isWildOf (pat n : Name) : Bool :=
  match pat with
  | '*' :: '.' :: suf => ('.' :: suf).isSuffixOf n
  | _ => false

/-- the names a context answers to: certificate names and the configured server_name -/
def Ctx.names (c : Ctx) : List Name :=
  (if c.cn ≠ [] then [c.cn] else []) ++ c.sans ++ (if c.serverName ≠ [] then [c.serverName] else [])

/-- "certificate names or server_name match the SNI exactly or by wildcard label" (host names compare
case-insensitively) -/
def nameRule (c : Ctx) (sni : Name) : Bool :=
  let n := normSni sni
  n ≠ [] && c.names.any (fun x => lower x == n || isWildOf (lower x) n)

/-- "ALPN list intersects the client's" (MOSN's ALPN tokens are accepted case-insensitively by tlsConfigTemplate) -/
def alpnRule (c : Ctx) (protos : List Name) : Bool :=
  protos.any (fun q => (c.alpn.map lower).contains (lower q))

def orElse' : Option Nat → Option Nat → Option Nat
  | some x, _ => some x
  | none, y => y

/-- the statement's precedence: first ready name match, else first ready ALPN match, else first ready -/
def specSelect (ps : List Ctx) (sni : Name) (protos : List Name) : Option Nat :=
  orElse' (ps.findIdx? (fun c => c.ready && nameRule c sni))
    (orElse' (ps.findIdx? (fun c => c.ready && alpnRule c protos)) (ps.findIdx? (fun c => c.ready)))

/-- the statement's client-auth table, with crypto/tls' numeric ClientAuthType values -/
def specClientAuth (requireClientCert verifyClient : Bool) : Int :=
  match requireClientCert, verifyClient with
  | true, true => 4    -- RequireAndVerifyClientCert
  | false, true => 3   -- VerifyClientCertIfGiven
  | true, false => 1   -- RequestClientCert
  | false, false => 0  -- NoClientCert

/-- the statement's server-side trust table -/
def specServerAccepts (requireClientCert verifyClient : Bool) (p : Peer) : Bool :=
  match requireClientCert, verifyClient with
  | true, true => p == .rightCA
  | false, true => p == .none || p == .rightCA
  | true, false => p != .stolenKey
  | false, false => true

/-- the statement's inspector rule for a TCP connection on a TLS-enabled listener whose first byte was read -/
def specPlain (inspector : Bool) (first : Nat) : Bool := inspector && first != 22

/-- predicate on an observed `Conn` result of a listener (`configured` = it has TLS contexts at all): without TLS
contexts the connection is passed through; on a TCP connection with a ready context a failed peek is an error and
otherwise plaintext is served iff the inspector rule allows it; in the remaining cases (transport not TCP, or no context
ready yet) MOSN passes the connection through, which the statement allows only under inspector mode -/
def specConn (tcp configured enabled inspector peekFailed : Bool) (first : Nat) (r : ConnResult) : Bool :=
  if !configured then r == .raw
  else if tcp && enabled then
    (if inspector && peekFailed then r == .peekError
     else servesPlain r == specPlain inspector first && r != .raw && r != .peekError)
  else r == .raw && inspector

/-- predicate on the observed client-side flags: verification is skipped iff insecure_skip; the hook survives iff it
exists and insecure_skip is off -/
def specCv (hook insecureSkip : Bool) (flags : Bool × Bool) : Bool :=
  (flags.1 && !flags.2) == insecureSkip && (flags.2 == (hook && !insecureSkip))

/-- predicate on an observed client-side result: with insecure_skip nothing is required beyond "not refused"; otherwise
the connection is TLS and succeeds exactly per the trust table (a plaintext connection is never acceptable) -/
def specClientConn (hook insecureSkip serverNameSet : Bool) (s : ServerCert) (hookOK : Bool) (r : ClientResult) : Bool :=
  if insecureSkip then r != .fail
  else r == (if (if hook then hookOK else serverNameSet && s == .rightCA) then .ok else .fail)

/-- the statement's client-side trust table -/
def specClientAccepts (hook insecureSkip serverNameSet : Bool) (s : ServerCert) (hookOK : Bool) : Bool :=
  if insecureSkip then true else if hook then hookOK else serverNameSet && s == .rightCA

end MosnVerif.Model.TlsSelect
