import MosnVerif.Model.H2Frame
import MosnVerif.Model.HpackTable
/-!
Model of `MFramer.ReadFrame` / `readMetaFrame` (pkg/module/http2/mhttp2.go) over a byte buffer: frame splitting with
the `ErrAGAIN` outcome, the per-type payload parsers of frame.go, `checkFrameOrder` (HEADERS/CONTINUATION
contiguity), collection of CONTINUATION fragments and HPACK decoding of the joined block with the connection's
decoder.  Semantic header validation (field-name/value syntax, pseudo-header rules, MAX_HEADER_LIST_SIZE truncation)
is NOT modelled: the generators keep header lists valid and below the limit.
-/
namespace MosnVerif.Model.H2Seq
open MosnVerif.Model.H2Frame MosnVerif.Gen.H2Frame MosnVerif.Model.HpackTable

inductive Frame
  | data (sid flags len : Nat) (data : Bytes)
  | headers (sid flags : Nat) (prio : Option Priority) (fields : List Field)
  | settings (flags : Nat) (ss : List (Nat × Nat))
  | windowUpdate (sid inc : Nat)
  | ping (flags : Nat) (data : Bytes)
  | rst (sid code : Nat)
  | goAway (last code : Nat) (debug : Bytes)
  | priority (sid : Nat) (p : Priority)
  | unknown (type flags sid : Nat) (payload : Bytes)
  deriving Repr

inductive RErr
  | conn (code : Nat)
  | stream (sid code : Nat)
  | tooLarge
  | other        -- io.ErrUnexpectedEOF from readByte / readUint32
  deriving DecidableEq, Repr

inductive Res (α : Type)
  | again            -- ErrAGAIN: more bytes needed, nothing consumed
  | err (e : RErr)
  | ok (a : α)

def errProtocol : Nat := 1
def errFlowControl : Nat := 3
def errFrameSize : Nat := 6
def errCompression : Nat := 9

structure RSt where
  dec : Dec
  /-- `fr.lastHeaderStream`: non-zero while CONTINUATION frames for that stream are expected -/
  lastHeaderStream : Nat
  maxReadSize : Nat

def RSt.initial : RSt :=
  { dec := { Dec.new 4096 with maxStrLen := 1048576 }, lastHeaderStream := 0, maxReadSize := 1048576 }

def be32 (b : Bytes) : Nat :=
  (b.getD 0 0).toNat * 2 ^ 24 + (b.getD 1 0).toNat * 2 ^ 16 + (b.getD 2 0).toNat * 2 ^ 8 + (b.getD 3 0).toNat

/-- one raw frame at the head of the buffer: header, payload, the rest -/
def splitFrame (st : RSt) (buf : Bytes) : Res (FrameHeader × Bytes × Bytes) :=
  match parseHeader buf with
  | none => .again
  | some h =>
    if h.length > st.maxReadSize then .err .tooLarge
    else if buf.length - frameHeaderLen < h.length then .again
    else .ok (h, (buf.drop frameHeaderLen).take h.length, buf.drop (frameHeaderLen + h.length))

/-- `checkFrameOrder`: new `lastHeaderStream`, or a connection error -/
def checkOrder (last : Nat) (h : FrameHeader) : Except RErr Nat :=
  if last ≠ 0 ∧ (h.type ≠ frameContinuation ∨ h.streamID ≠ last) then .error (.conn errProtocol)
  else if last = 0 ∧ h.type = frameContinuation then .error (.conn errProtocol)
  else if h.type = frameHeaders ∨ h.type = frameContinuation then
    .ok (if hasFlag h.flags flagHeadersEndHeaders then 0 else h.streamID)
  else .ok last

def parseSettings (payload : Bytes) : List (Nat × Nat) :=
  (List.range (payload.length / 6)).map (fun k =>
    let p := payload.drop (6 * k)
    ((p.getD 0 0).toNat * 256 + (p.getD 1 0).toNat, be32 (p.drop 2)))

/-- collect CONTINUATION fragments (`readMetaFrame`'s loop): fragments so far, remaining buffer -/
def collect : Nat → RSt → Nat → Bytes → List Bytes → Res (List Bytes × Bytes × Nat)
  | 0, _, _, _, _ => .err .other
  | fuel + 1, st, last, buf, acc =>
    if last = 0 then .ok (acc.reverse, buf, 0) else
    match splitFrame st buf with
    | .again => .again
    | .err e => .err e
    | .ok (h, payload, rest) =>
      -- the per-type parser runs before checkFrameOrder
      if h.type = frameContinuation ∧ h.streamID = 0 then .err (.conn errProtocol) else
      match checkOrder last h with
      | .error e => .err e
      | .ok last' => collect fuel st last' rest (payload :: acc)

/-- `MFramer.ReadFrame` on `buf`: the frame, the remaining buffer and the new reader state -/
def readFrame (st : RSt) (buf : Bytes) : Res (Frame × Bytes × RSt) :=
  match splitFrame st buf with
  | .again => .again
  | .err e => .err e
  | .ok (h, payload, rest) =>
    let t := h.type
    -- 1. typeFrameParser(fh.Type)
    let parsed : Except RErr (Frame ⊕ (Option Priority × Bytes)) :=
      if t = frameData then
        if h.streamID = 0 then .error (.conn errProtocol) else
        match parseData h.flags payload with
        | .ok d => .ok (.inl (.data h.streamID h.flags h.length d))
        | .error .short => .error .other
        | .error .protocol => .error (.conn errProtocol)
      else if t = frameHeaders then
        if h.streamID = 0 then .error (.conn errProtocol) else
        match parseHeaders h.flags payload with
        | .ok x => .ok (.inr x)
        | .error .short => .error .other
        | .error .protocol => .error (.stream h.streamID errProtocol)
      else if t = frameContinuation then
        if h.streamID = 0 then .error (.conn errProtocol) else .ok (.inl (.unknown t h.flags h.streamID payload))
      else if t = frameSettings then
        if hasFlag h.flags flagSettingsAck ∧ h.length > 0 then .error (.conn errFrameSize)
        else if h.streamID ≠ 0 then .error (.conn errProtocol)
        else if payload.length % 6 ≠ 0 then .error (.conn errFrameSize)
        else
          let ss := parseSettings payload
          -- `f.Value(SettingInitialWindowSize)`: the last occurrence
          match (ss.filter (fun s => s.1 = 4)).getLast? with
          | some s => if s.2 > 2147483647 then .error (.conn errFlowControl) else .ok (.inl (.settings h.flags ss))
          | none => .ok (.inl (.settings h.flags ss))
      else if t = framePing then
        if payload.length ≠ 8 then .error (.conn errFrameSize)
        else if h.streamID ≠ 0 then .error (.conn errProtocol)
        else .ok (.inl (.ping h.flags payload))
      else if t = frameGoAway then
        if h.streamID ≠ 0 then .error (.conn errProtocol)
        else if payload.length < 8 then .error (.conn errFrameSize)
        else .ok (.inl (.goAway (be32 payload % 2 ^ 31) (be32 (payload.drop 4)) (payload.drop 8)))
      else if t = frameWindowUpdate then
        if payload.length ≠ 4 then .error (.conn errFrameSize)
        else
          let inc := be32 payload % 2 ^ 31
          if inc = 0 then (if h.streamID = 0 then .error (.conn errProtocol) else .error (.stream h.streamID errProtocol))
          else .ok (.inl (.windowUpdate h.streamID inc))
      else if t = framePriority then
        if h.streamID = 0 then .error (.conn errProtocol)
        else if payload.length ≠ 5 then .error (.conn errFrameSize)
        else .ok (.inl (.priority h.streamID (decodePrio (payload.getD 0 0) (payload.getD 1 0) (payload.getD 2 0) (payload.getD 3 0) (payload.getD 4 0))))
      else if t = frameRSTStream then
        if payload.length ≠ 4 then .error (.conn errFrameSize)
        else if h.streamID = 0 then .error (.conn errProtocol)
        else .ok (.inl (.rst h.streamID (be32 payload)))
      else .ok (.inl (.unknown t h.flags h.streamID payload))
    match parsed with
    | .error e => .err e
    | .ok p =>
      -- 2. checkFrameOrder
      match checkOrder st.lastHeaderStream h with
      | .error e => .err e
      | .ok last =>
        match p with
        | .inl f => .ok (f, rest, { st with lastHeaderStream := last })
        | .inr (prio, frag) =>
          -- 3. readMetaFrame: CONTINUATION frames, then HPACK
          match collect (rest.length + 1) st last rest [frag] with
          | .again => .again          -- state restored by ReadFrame
          | .err e => .err e
          | .ok (frags, rest', last') =>
            match st.dec.decodeFull frags.flatten with
            | .error _ => .err (.conn errCompression)
            | .ok (dec', fields) =>
              .ok (.headers h.streamID h.flags prio fields, rest', { st with dec := dec', lastHeaderStream := last' })

inductive End
  | clean | short | failed (e : RErr)
  deriving Repr

/-- read frames until the buffer is exhausted, incomplete, or an error occurs -/
def readAll : Nat → RSt → Bytes → List Frame → List Frame × End
  | 0, _, _, acc => (acc.reverse, .clean)
  | fuel + 1, st, buf, acc =>
    if buf.isEmpty then (acc.reverse, .clean) else
    match readFrame st buf with
    | .again => (acc.reverse, .short)
    | .err e => (acc.reverse, .failed e)
    | .ok (f, rest, st') => readAll fuel st' rest (f :: acc)

end MosnVerif.Model.H2Seq
