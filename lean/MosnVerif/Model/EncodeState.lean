import MosnVerif.Model.Bytes
import MosnVerif.Model.BoltV2
import MosnVerif.Model.Dubbo
import MosnVerif.Gen.C01EncodeEffect
/-!
# Encoding the same frame OBJECT more than once (C01): `Encode` as a state transformer

The proxy keeps one frame object per downstream request (`xStream.frame`; its `Content` is the very IoBuffer the proxy
holds as the request body) and calls `Encode` on it once per try: first try, every retry on another host, the mirror
copy.  So `Encode` is not a function of the frame's *value* only: whatever it consumes or overwrites in the object is
what the next `Encode` finds.

The frame object is a record of its mutable parts: plain fields `fx` (fixed fields, class, stored length fields …), the
header block with its `Changed` flag, the body buffer WITH ITS READ CURSOR, the raw frame (wrapper with cursor),
`ContentChanged`, and the stored `ClassLen/HeaderLen/ContentLen`.  `encode` returns the new object and the bytes.  What
the encoder of each codec does to each buffer part (peek / consume) and which fields it assigns is REGENERATED from the
Go AST of the five codecs' encoders (`Gen/C01EncodeEffect.lean`); the bytes are produced by the pure codec models of C01
(`Bolt.encode`, `Dubbo.encode`, …) applied to what the encoder can SEE of the object (`view`: the unread part of every
buffer).  Core Lean only.
-/
namespace MosnVerif.Model.EncodeState
open MosnVerif.Model MosnVerif.Gen.C01EncodeEffect

/-- an IoBuffer: contents and read cursor (`Bytes()` / `Len()` show the part after the cursor; `WriteTo`, `Read`,
`Drain`, `Cut` … move it) -/
structure Buf where
  bytes : Bytes
  off : Nat := 0
  deriving Repr, DecidableEq

def Buf.visible (b : Buf) : Bytes := b.bytes.drop b.off
/-- a consuming read of everything (`WriteTo`, `Drain(Len())`, `Read` into a large enough slice) -/
def Buf.drain (b : Buf) : Buf := { b with off := b.bytes.length }

abbrev KV := Bytes × Bytes

/-- the frame object -/
structure Obj (F : Type) where
  fx : F
  kvs : List KV
  changed : Bool
  content : Buf
  contentChanged : Bool
  raw : Option Buf
  /-- stored `ClassLen`, `HeaderLen`, `ContentLen` -/
  lens : Nat × Nat × Nat := (0, 0, 0)

/-- what an encoder can read of the object without changing it -/
structure View (F : Type) where
  fx : F
  kvs : List KV
  changed : Bool
  content : Bytes
  contentChanged : Bool
  raw : Option Bytes

def Obj.view {F : Type} (o : Obj F) : View F :=
  { fx := o.fx, kvs := o.kvs, changed := o.changed, content := o.content.visible, contentChanged := o.contentChanged,
    raw := o.raw.map Buf.visible }

/-- one codec: the regenerated effect of its encode function on the object + its pure byte-level model -/
structure Codec (F : Type) where
  eff : Effect
  /-- the raw-frame block ends in a return (bolt: raw frame present and nothing marked changed; dubbo: raw frame present) -/
  isFast : View F → Bool
  /-- the bytes, from what the encoder sees (`none` = error return) -/
  enc : View F → Option Bytes
  /-- the values the slow path stores into `ClassLen`, `HeaderLen`, `ContentLen` -/
  lensOf : View F → Nat × Nat × Nat
  /-- `SetRequestId` -/
  setId : F → Nat → F
  /-- `SetData` with another buffer drops the raw frame (dubbo, dubbothrift) -/
  dataDropsRaw : Bool
  /-- `SetData`'s effect on plain fields (dubbo: `DataLen`) -/
  onData : F → Bytes → F

/-- one access of the encoder to a buffer part -/
def useOn {F : Type} (o : Obj F) (u : Use) : Obj F :=
  match u.acc, u.part with
  | .peek, _ => o
  | .consume, .content => { o with content := o.content.drain }
  | .consume, .data => { o with raw := o.raw.map Buf.drain }
  | .consume, .other => o

/-- fields every slow-path encode recomputes before it reads them: overwriting them cannot reach the next output -/
def derivedFields : List String := ["ClassLen", "HeaderLen", "ContentLen"]

/-- one assignment of the encoder to a field of the object (`l` = the recomputed lengths).  An assignment to a structural
part is modelled as clearing it (the extractor only reports the name). -/
def assignOn {F : Type} (l : Nat × Nat × Nat) (o : Obj F) (name : String) : Obj F :=
  if name = "ClassLen" then { o with lens := (l.1, o.lens.2.1, o.lens.2.2) }
  else if name = "HeaderLen" then { o with lens := (o.lens.1, l.2.1, o.lens.2.2) }
  else if name = "ContentLen" then { o with lens := (o.lens.1, o.lens.2.1, l.2.2) }
  else if name = "Content" ∨ name = "content" ∨ name = "payload" then { o with content := ⟨[], 0⟩ }
  else if name = "rawData" ∨ name = "Data" ∨ name = "data" then { o with raw := none }
  else if name = "BytesHeader.Changed" then { o with changed := false }
  else if name = "ContentChanged" then { o with contentChanged := false }
  else o

/-- **Encode** of the frame object: the bytes come from what is visible now; the object keeps what the accesses and
assignments of the path taken leave of it -/
def encode {F : Type} (C : Codec F) (o : Obj F) : Obj F × Option Bytes :=
  let v := o.view
  let fast := C.isFast v
  let o1 := (if fast then C.eff.fast else C.eff.slow).foldl useOn o
  let o2 := (if fast then C.eff.fastAssigns else C.eff.slowAssigns).foldl (assignOn (C.lensOf v)) o1
  (o2, C.enc v)

/-- the tries of one request: `SetRequestId(id of the try)` + `Encode` on the SAME object, try after try -/
def tries {F : Type} (C : Codec F) : List Nat → Obj F → List (Option Bytes)
  | [], _ => []
  | i :: is, o =>
    let r := encode C { o with fx := C.setId o.fx i }
    r.2 :: tries C is r.1

/-- modifications made through the XFrame / HeaderMap API before the first encode -/
inductive Mod (F : Type) where
  | set (k v : Bytes)
  | del (k : Bytes)
  | data (d : Bytes)
  | plain (g : F → F)

def applyMod {F : Type} (C : Codec F) (o : Obj F) : Mod F → Obj F
  | .set k v => { o with kvs := BoltHeader.set o.kvs k v, changed := true }
  | .del k => { o with kvs := (BoltHeader.del o.kvs k).1, changed := o.changed || (BoltHeader.del o.kvs k).2 }
  | .data d => { o with fx := C.onData o.fx d, content := ⟨d, 0⟩, contentChanged := true,
                        raw := if C.dataDropsRaw then none else o.raw }
  | .plain g => { o with fx := g o.fx }

/-- every access leaves the cursor alone and only derived fields are assigned -/
def benign (e : Effect) : Bool :=
  (e.fast ++ e.slow).all (fun u => u.acc == .peek) && (e.fastAssigns ++ e.slowAssigns).all (fun n => derivedFields.contains n)

/-! ### bolt / boltv2 -/

structure BoltFx where
  kind : Bolt.KindId
  fx : Bolt.Meta
  cls : Bytes
  classLen : Nat
  headerLen : Nat
  contentLen : Nat

def viewToBolt (v : View BoltFx) : Bolt.Frame :=
  { kind := v.fx.kind, fx := v.fx.fx, classLen := v.fx.classLen, headerLen := v.fx.headerLen, contentLen := v.fx.contentLen,
    cls := v.fx.cls, kvs := v.kvs, content := v.content, raw := v.raw, hdrChanged := v.changed,
    contentChanged := v.contentChanged }

def ofBolt (f : Bolt.Frame) : Obj BoltFx :=
  { fx := { kind := f.kind, fx := f.fx, cls := f.cls, classLen := f.classLen, headerLen := f.headerLen, contentLen := f.contentLen },
    kvs := f.kvs, changed := f.hdrChanged, content := ⟨f.content, 0⟩, contentChanged := f.contentChanged,
    raw := f.raw.map (fun r => ⟨r, 0⟩), lens := (f.classLen, f.headerLen, f.contentLen) }

def boltCodec (eff : Effect) : Codec BoltFx :=
  { eff := eff
    isFast := fun v => v.raw.isSome && !v.changed && !v.contentChanged
    enc := fun v => Bolt.encode (viewToBolt v)
    lensOf := fun v => (v.fx.cls.length, (if v.kvs.isEmpty then 0 else BoltHeader.encodeLen v.kvs), v.content.length)
    setId := fun f i => { f with fx := { f.fx with reqId := i % 2 ^ 32 } }
    dataDropsRaw := false
    onData := fun f _ => f }

def modOfOp : Bolt.Op → Mod BoltFx
  | .set k v => .set k v
  | .del k => .del k
  | .body d => .data d
  | .cls c => .plain (fun f => { f with cls := c })

/-- the regenerated effect of the encode function a frame of this kind goes through -/
def boltEff : Bolt.KindId → Effect
  | .v1req => boltRequest
  | .v1resp => boltResponse
  | .v2req => boltv2Request
  | .v2resp => boltv2Response

/-! ### dubbo -/

structure DubboFx where
  magic0 : Nat
  magic1 : Nat
  flag : Nat
  status : Nat
  id : Nat
  dataLen : Nat

def viewToDubbo (v : View DubboFx) : Dubbo.Frame :=
  { magic0 := v.fx.magic0, magic1 := v.fx.magic1, flag := v.fx.flag, status := v.fx.status, id := v.fx.id,
    dataLen := v.fx.dataLen, payload := v.content, raw := v.raw }

def ofDubbo (f : Dubbo.Frame) : Obj DubboFx :=
  { fx := { magic0 := f.magic0, magic1 := f.magic1, flag := f.flag, status := f.status, id := f.id, dataLen := f.dataLen },
    kvs := [], changed := false, content := ⟨f.payload, 0⟩, contentChanged := false, raw := f.raw.map (fun r => ⟨r, 0⟩) }

def dubboCodec (eff : Effect) : Codec DubboFx :=
  { eff := eff
    isFast := fun v => v.raw.isSome
    enc := fun v => some (Dubbo.encode (viewToDubbo v))
    lensOf := fun _ => (0, 0, 0)
    setId := fun f i => { f with id := i % 2 ^ 64 }
    dataDropsRaw := true
    onData := fun f d => { f with dataLen := d.length % 2 ^ 32 } }

end MosnVerif.Model.EncodeState
