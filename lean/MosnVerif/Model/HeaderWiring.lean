import MosnVerif.Model.Headers
import MosnVerif.Gen.HeaderWiring
/-!
Construction of the header parsers FROM CONFIGURATION (pkg/router: `NewRouters` → `NewConfigImpl`, `NewVirtualHostImpl`,
`NewRouteRuleImplBase`, each calling `getHeaderParser(<adds field>, <removes field>)` twice) and the two directions of
`Finalize*Headers` over the parsers so built.  Which configuration field feeds which parser is the regenerated table
`Gen.HeaderWiring.parserWiring`; the nil-parser rule of `getHeaderParser` is the regenerated `parserIsNil`; the order of the
levels is the regenerated `requestOrder` / `responseOrder`.
-/
namespace MosnVerif.Model.HeaderWiring
open MosnVerif.Model.Headers MosnVerif.Gen.HeaderMutation MosnVerif.Gen.HeaderWiring

/-- the four header-mutation fields of one configuration object (v2.RouterConfiguration / v2.VirtualHost / v2.RouteAction);
`none` = the Go nil slice (field absent from the configuration), `some []` = present and empty -/
structure LevelCfg where
  requestHeadersToAdd : Option (List Add) := none
  requestHeadersToRemove : Option (List String) := none
  responseHeadersToAdd : Option (List Add) := none
  responseHeadersToRemove : Option (List String) := none

def LevelCfg.adds (c : LevelCfg) : AddField → Option (List Add)
  | .requestHeadersToAdd => c.requestHeadersToAdd
  | .responseHeadersToAdd => c.responseHeadersToAdd

def LevelCfg.removes (c : LevelCfg) : RemoveField → Option (List String)
  | .requestHeadersToRemove => c.requestHeadersToRemove
  | .responseHeadersToRemove => c.responseHeadersToRemove

/-- a complete three-level configuration -/
structure Config where
  route : LevelCfg
  vhost : LevelCfg
  router : LevelCfg

def Config.at (c : Config) : Level → LevelCfg
  | .route => c.route | .vhost => c.vhost | .router => c.router

abbrev Wiring := List (Level × Dir × AddField × RemoveField)

/-- `getHeaderParser`: nil under the regenerated condition, else (additions, removals) of the two arguments -/
def getHeaderParser (a : Option (List Add)) (r : Option (List String)) : Option Parser :=
  if parserIsNil a.isNone r.isNone then none else some ⟨a.getD [], r.getD []⟩

/-- the parser a level holds for a direction: built from the two fields the wiring table names (no row = no parser) -/
def builtParser (w : Wiring) (c : Config) (lv : Level) (d : Dir) : Option Parser :=
  match w.find? (fun row => row.1 == lv && row.2.1 == d) with
  | some (_, _, af, rf) => getHeaderParser ((c.at lv).adds af) ((c.at lv).removes rf)
  | none => none

/-- `(*headerParser).evaluateHeaders` with its nil-receiver guard -/
def evaluateOpt : Option Parser → Hdrs → Hdrs
  | none, h => h
  | some p, h => evaluate p h

/-- the header-mutation part of `Finalize{Request,Response}Headers` of a rule built from configuration `c`:
the levels' parsers of direction `d`, in the given order -/
def finalizeDir (w : Wiring) (order : List Level) (c : Config) (d : Dir) (h : Hdrs) : Hdrs :=
  order.foldl (fun h lv => evaluateOpt (builtParser w c lv d) h) h

/-- `RouteRuleImplBase.FinalizeResponseHeaders` on a rule built by `router.NewRouters` from `c` -/
def finalizeResponseHeaders (c : Config) (h : Hdrs) : Hdrs := finalizeDir parserWiring responseOrder c .response h
/-- the header mutations of `RouteRuleImplBase.finalizeRequestHeaders` on a rule built by `router.NewRouters` from `c` -/
def finalizeRequestMutations (c : Config) (h : Hdrs) : Hdrs := finalizeDir parserWiring requestOrder c .request h

/-! ### declarative reference (written without the regenerated table) -/

/-- the mutations of ONE direction at the three levels, as configured -/
def dirLevels (c : Config) : Dir → Levels
  | .request =>
    { route := ⟨c.route.requestHeadersToAdd.getD [], c.route.requestHeadersToRemove.getD []⟩,
      vhost := ⟨c.vhost.requestHeadersToAdd.getD [], c.vhost.requestHeadersToRemove.getD []⟩,
      router := ⟨c.router.requestHeadersToAdd.getD [], c.router.requestHeadersToRemove.getD []⟩ }
  | .response =>
    { route := ⟨c.route.responseHeadersToAdd.getD [], c.route.responseHeadersToRemove.getD []⟩,
      vhost := ⟨c.vhost.responseHeadersToAdd.getD [], c.vhost.responseHeadersToRemove.getD []⟩,
      router := ⟨c.router.responseHeadersToAdd.getD [], c.router.responseHeadersToRemove.getD []⟩ }

/-- the intended wiring: each direction's parser is fed by that direction's two fields -/
def diagonalRow (lv : Level) : Dir → Level × Dir × AddField × RemoveField
  | .request => (lv, .request, .requestHeadersToAdd, .requestHeadersToRemove)
  | .response => (lv, .response, .responseHeadersToAdd, .responseHeadersToRemove)

def lookup (w : Wiring) (lv : Level) (d : Dir) : Option (Level × Dir × AddField × RemoveField) :=
  w.find? (fun row => row.1 == lv && row.2.1 == d)

def allSlots : List (Level × Dir) :=
  [(.route, .request), (.route, .response), (.vhost, .request), (.vhost, .response), (.router, .request), (.router, .response)]

/-- executable: every level × direction has a row and it is the diagonal one -/
def isDiagonal (w : Wiring) : Bool := allSlots.all (fun s => lookup w s.1 s.2 == some (diagonalRow s.1 s.2))

/-- the copy/paste slip: the virtual host's RESPONSE parser gets the REQUEST removals -/
def crossedWiring : Wiring :=
  [(.route, .request, .requestHeadersToAdd, .requestHeadersToRemove),
   (.route, .response, .responseHeadersToAdd, .responseHeadersToRemove),
   (.vhost, .request, .requestHeadersToAdd, .requestHeadersToRemove),
   (.vhost, .response, .responseHeadersToAdd, .requestHeadersToRemove),
   (.router, .request, .requestHeadersToAdd, .requestHeadersToRemove),
   (.router, .response, .responseHeadersToAdd, .responseHeadersToRemove)]

end MosnVerif.Model.HeaderWiring
