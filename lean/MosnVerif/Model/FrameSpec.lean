import MosnVerif.Model.Framing
/-!
Executable property predicates of C07 / C08 (declarative references; they do not depend on any regenerated code nor on
the decoder models).  Evaluated by the driver on the *implementation's* outputs.  Core Lean only.
-/
namespace MosnVerif.Model.FrameSpec
open MosnVerif.Model.Framing

/-- cut a stream at the given frame lengths: (frames, rest) -/
def splitBy : Bytes → List Nat → List Bytes × Bytes
  | s, [] => ([], s)
  | s, n :: ns => let r := splitBy (s.drop n) ns; (s.take n :: r.1, r.2)

/-- C07, one delivery of a whole stream in any chunking: the frames that came out are exactly the frames the stream
was built from (in order, each once, byte-identical), what is left in the buffer is exactly the incomplete tail, and
the connection did not fail. -/
def specSeg (stream : Bytes) (lens : List Nat) (frames : List Bytes) (residue : Bytes) (failed : Bool) : Bool :=
  let e := splitBy stream lens
  frames == e.1 && residue == e.2 && !failed

/-- FNV-1a (32 bit) over length-prefixed frames then the length-prefixed residue: compact observable of a run -/
def fnvStep (h : UInt32) (x : UInt8) : UInt32 := (h ^^^ x.toUInt32) * 16777619

def fnvLen (h : UInt32) (n : Nat) : UInt32 :=
  [UInt8.ofNat (n / 16777216), UInt8.ofNat (n / 65536), UInt8.ofNat (n / 256), UInt8.ofNat n].foldl fnvStep h

def fnvBytes (h : UInt32) (b : Bytes) : UInt32 := b.foldl fnvStep (fnvLen h b.length)

def digest (frames : List Bytes) (residue : Bytes) : UInt32 :=
  fnvBytes (frames.foldl fnvBytes 2166136261) residue

/-- number of frames (given by their lengths) that end at or before offset `k` -/
def completeBy : List Nat → Nat → Nat
  | [], _ => 0
  | n :: ns, k => if n ≤ k then 1 + completeBy ns (k - n) else 0

/-- C07, the stream cut into two reads at offset `k`: after the first read exactly the frames wholly inside it were
delivered (an incomplete frame consumed nothing, complete ones were not held back), at the end all frames, same bytes. -/
def specCut (stream : Bytes) (lens : List Nat) (k : Nat) (afterFirst total : Nat) (dig : UInt32) (failed : Bool) : Bool :=
  let e := splitBy stream lens
  afterFirst == completeBy lens k && total == lens.length && dig == digest e.1 e.2 && !failed

/-- C07, matcher answers on the prefixes of length 0,1,2,… of one stream (`A`gain / `S`uccess / `F`ailed): once a
matcher has answered `S` or `F` the answer never changes. -/
def specMono : List Char → Bool
  | [] => true
  | [_] => true
  | a :: b :: r => (a == 'A' || a == b) && specMono (b :: r)

/-- C08 outcome classes as printed by the harness -/
inductive Outcome where
  | needMore (drained : Nat) | frame (drained : Nat) | error (drained : Nat) | panic | hang
deriving Repr, DecidableEq

/-- C08: decoding an arbitrary buffer of `len` bytes yields a frame, asks for more data or fails; it does not panic or
hang; it never drains more than was received; asking for more data drains nothing; a frame drains something. -/
def specContained (len : Nat) : Outcome → Bool
  | .needMore d => d == 0
  | .frame d => decide (0 < d) && decide (d ≤ len)
  | .error d => decide (d ≤ len)
  | .panic => false
  | .hang => false

end MosnVerif.Model.FrameSpec
