import MosnVerif.Model.Bytes
import MosnVerif.Gen.C01Retain
/-!
# Encoding the same decoded frame again (C01): reference counts and the IoBuffer pool

A decoded xprotocol frame keeps pointing at the `IoBuffer` that wraps its raw bytes (`Request.Data`, `Frame.data`).
The fast path of `Encode` hands out THAT buffer; `connection.doWriteIo` gives every buffer it has written to
`buffer.PutIoBuffer`, which decrements the reference count and, at zero, frees the buffer and puts the wrapper object
into the global pool, from which any later `GetIoBuffer` of any connection takes it.  A retry encodes the same frame
again.  The model: wrapper objects with a count and contents, the pool, buffers held by other traffic; what a
successful return of each encode function hands out (`Ret`) and whether the write recycles are REGENERATED
(`Gen/C01Retain.lean`).  `patch id b` is the fast path's in-place id overwrite (any function here; the codec models of
C01 say which).  Core Lean only.
-/
namespace MosnVerif.Model.Reencode
open MosnVerif.Model MosnVerif.Gen.C01Retain

structure Buf where
  count : Int
  bytes : Bytes
  deriving DecidableEq, Repr

structure St where
  /-- wrapper objects by identity -/
  bufs : Nat → Buf
  /-- identities created so far -/
  next : Nat
  /-- wrappers lying in the global IoBuffer pool -/
  pool : List Nat
  /-- wrappers other traffic holds -/
  held : List Nat
  /-- the buffer the decoded frame points at -/
  data : Nat
  /-- what went out on the wire, per write -/
  sent : List Bytes

def updB (f : Nat → Buf) (w : Nat) (b : Buf) : Nat → Buf := fun i => if i = w then b else f i

def empty : St := { bufs := fun _ => ⟨0, []⟩, next := 0, pool := [], held := [], data := 0, sent := [] }

/-- `buffer.GetIoBuffer`: sync.Pool hands out some pooled wrapper (`choice`: which) or nothing (a new object);
`take` does `Alloc; Count(1)`; the caller fills it -/
def get (s : St) (choice : Option Nat) (fill : Bytes) : St × Nat :=
  match choice.bind (fun i => s.pool[i]?) with
  | some w => ({ s with bufs := updB s.bufs w ⟨(s.bufs w).count + 1, fill⟩, pool := s.pool.erase w }, w)
  | none => ({ s with bufs := updB s.bufs s.next ⟨1, fill⟩, next := s.next + 1 }, s.next)

/-- `buffer.PutIoBuffer`: `Count(-1)`; still referenced: nothing; zero: `Free` and into the pool; below zero: an error is
logged -/
def put (s : St) (w : Nat) : St :=
  if (s.bufs w).count - 1 = 0 then { s with bufs := updB s.bufs w ⟨0, []⟩, pool := w :: s.pool }
  else { s with bufs := updB s.bufs w ⟨(s.bufs w).count - 1, (s.bufs w).bytes⟩ }

/-- what the rest of the process does with the pool: take a buffer and fill it, or give one of ITS buffers back -/
inductive Other
  | get (choice : Option Nat) (fill : Bytes)
  | put (j : Nat)
  deriving Repr

def other (s : St) : Other → St
  | .get c f => let r := get s c f; { r.1 with held := r.2 :: r.1.held }
  | .put j =>
    match s.held[j]? with
    | some w => put { s with held := s.held.eraseIdx j } w
    | none => s

/-- Decode: the frame's bytes are wrapped by a new buffer object with count 1 (`NewIoBufferBytes` in dubbo /
dubbothrift / tars; bolt / boltv2 use `GetIoBuffer`, which may reuse a pooled wrapper — the same up to identity) -/
def decode (s : St) (raw : Bytes) : St :=
  { s with bufs := updB s.bufs s.next ⟨1, raw⟩, next := s.next + 1, data := s.next }

/-- one (re)try: SetRequestId + Encode of the unmodified frame, the connection write, then other traffic -/
structure Round where
  id      : Nat
  choice  : Option Nat
  traffic : List Other
  deriving Repr

def encode (pol : Ret) (patch : Nat → Bytes → Bytes) (raw : Bytes) (s : St) (id : Nat) (choice : Option Nat) : St × Nat :=
  match pol with
  | .retain => ({ s with bufs := updB s.bufs s.data ⟨(s.bufs s.data).count + 1, patch id (s.bufs s.data).bytes⟩ }, s.data)
  | .bare => ({ s with bufs := updB s.bufs s.data ⟨(s.bufs s.data).count, patch id (s.bufs s.data).bytes⟩ }, s.data)
  | .fresh => get s choice (patch id raw)

def round (pol : Ret) (recycles : Bool) (patch : Nat → Bytes → Bytes) (raw : Bytes) (s : St) (r : Round) : St :=
  let e := encode pol patch raw s r.id r.choice
  let s2 : St := { e.1 with sent := e.1.sent ++ [(e.1.bufs e.2).bytes] }
  let s3 := if recycles then put s2 e.2 else s2
  r.traffic.foldl other s3

/-- the encodings that went out: earlier traffic, decode, then the (re)tries -/
def run (pol : Ret) (recycles : Bool) (patch : Nat → Bytes → Bytes) (raw : Bytes) (pre : List Other) (rounds : List Round) : List Bytes :=
  (rounds.foldl (round pol recycles patch raw) (decode (pre.foldl other empty) raw)).sent

/-- the policy of the path an UNMODIFIED decoded frame takes: the first successful return of the encode function (its
fast path where it has one) -/
def fastOf (rets : List Ret) : Ret := rets.headD .fresh

/-- all encode functions of the five codecs, as regenerated -/
def genFast : List Ret :=
  [fastOf boltRequest, fastOf boltResponse, fastOf boltv2Request, fastOf boltv2Response, fastOf dubboFrame,
   fastOf thriftFrame, fastOf tarsRequest, fastOf tarsResponse]

def fastByName : String → Bool → Ret
  | "bolt", true => fastOf boltRequest
  | "bolt", false => fastOf boltResponse
  | "boltv2", true => fastOf boltv2Request
  | "boltv2", false => fastOf boltv2Response
  | "dubbo", _ => fastOf dubboFrame
  | "thrift", _ => fastOf thriftFrame
  | "tars", true => fastOf tarsRequest
  | "tars", false => fastOf tarsResponse
  | _, _ => .fresh

end MosnVerif.Model.Reencode
