import MosnVerif.Model.FrameH2
/-!
What a FAILING `MFramer.ReadFrame(ctx, data, 0)` consumes.  A connection error (and every error the stream layer closes
the connection for) consumes nothing.  A StreamError does not end the connection — `Dispatch` goes on reading — so the
frame that answered it has to be consumed, or every later read parses it again and nothing behind it is ever reached:
`if _, ok := err.(StreamError); ok && off == 0 { data.Drain(…) }` after the payload parser (the frame) and after
`readMetaFrame` (HEADERS and its CONTINUATIONs); their presence and arguments are regenerated
(`Gen.FrameLen.h2_streamErrDrains`).  Which failures are stream errors is decided by the payload parsers / the header
validation (oracles here), so the model answers the SET of possible consumptions.  Core Lean only.
-/
namespace MosnVerif.Model.FrameH2
open MosnVerif.Model.Framing MosnVerif.Gen.FrameLen MosnVerif.Gen.FrameConsts

def errDrains (maxRead : Nat) (parseOk : Bytes → Bool) (b : Bytes) : List Nat :=
  0 :: (if h2_streamErrDrains then
      (match one maxRead (fun _ => true) b 0 with      -- a complete first frame: its parser may answer a StreamError
       | .ok h => [h2_size h.len]
       | _ => []) ++
      (match h2Hdr maxRead parseOk b with                -- a complete header block: its validation may
       | .len n => [n]
       | _ => [])
    else [])

end MosnVerif.Model.FrameH2
