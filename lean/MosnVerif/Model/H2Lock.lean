import MosnVerif.Gen.H2Lock
/-!
Lock discipline of the HTTP/2 stream connection (pkg/stream/http2/stream.go): `conn.mutex` is a non-reentrant
`sync.RWMutex`; the control-flow paths of every method that touches it, with their Lock / Unlock / defer Unlock positions
and the calls of methods that take the same mutex, are regenerated (`Gen.H2Lock`).

* `check`: ONE goroutine walking a path — taking the mutex while holding it (directly, or by calling a method that takes
  it) is a self-deadlock; `Unlock` / `RUnlock` of a mutex not held that way is Go's fatal "Unlock of unlocked RWMutex";
  a path that returns with the mutex held blocks every later user of the connection.
* `flatten`: the path as the sequence of acquire / release operations it performs (a deferred Unlock runs at the return,
  a called method that takes the mutex is an acquire–release pair).
* `Sys`: any number of goroutines running flattened paths against one RWMutex under an arbitrary schedule.
Core Lean only.
-/
namespace MosnVerif.Model.H2Lock
open MosnVerif.Gen.H2Lock

/-- does a call of `callee` take the mutex now? (`acq`: regenerated (method, guardedByConnReset) list) -/
def acquiresNow (acq : List (String × Bool)) (callee : String) (connReset : Bool) : Bool :=
  match acq.find? (fun p => p.1 == callee) with
  | some (_, guarded) => !(guarded && connReset)
  | none => false

/-- mutex operations: `w` = Lock/Unlock, `r` = RLock/RUnlock -/
inductive Op
  | acq (write : Bool)
  | rel (write : Bool)
  deriving DecidableEq, Repr

/-- the deferred calls run at return, last registered first -/
def deferredOps (d : List Bool) : List Op := d.map Op.rel

/-- the operations a goroutine performs along a path; `d` = deferred unlocks (true = Unlock, false = RUnlock),
newest first. What follows a `ret` is not executed. -/
def flattenFrom (acq : List (String × Bool)) : List Bool → List Act → List Op
  | d, [] => deferredOps d
  | d, .ret :: _ => deferredOps d
  | d, .lock :: r => .acq true :: flattenFrom acq d r
  | d, .unlock :: r => .rel true :: flattenFrom acq d r
  | d, .rlock :: r => .acq false :: flattenFrom acq d r
  | d, .runlock :: r => .rel false :: flattenFrom acq d r
  | d, .deferUnlock :: r => flattenFrom acq (true :: d) r
  | d, .deferRUnlock :: r => flattenFrom acq (false :: d) r
  | d, .call c cr :: r =>
    if acquiresNow acq c cr then .acq true :: .rel true :: flattenFrom acq d r else flattenFrom acq d r

def flatten (acq : List (String × Bool)) (acts : List Act) : List Op := flattenFrom acq [] acts

inductive Bad
  | selfDeadlock      -- Lock / RLock (or a call that locks) while this goroutine holds the mutex
  | badUnlock         -- Unlock / RUnlock of a mutex not held in that mode: Go runtime fatal error
  | leak              -- the path ends with the mutex held
  deriving DecidableEq, Repr

/-- one goroutine, alone: `held` = none | some true (write) | some false (read); `none` = the path runs to its end -/
def checkOps : Option Bool → List Op → Option Bad
  | none, [] => none
  | some _, [] => some .leak
  | none, .acq w :: r => checkOps (some w) r
  | some _, .acq _ :: _ => some .selfDeadlock
  | some h, .rel w :: r => if h = w then checkOps none r else some .badUnlock
  | none, .rel _ :: _ => some .badUnlock

/-- a path is disciplined: alone it runs to its end without self-deadlock, bad unlock or leak -/
def disciplined (acq : List (String × Bool)) (p : Path) : Bool := checkOps none (flatten acq p.acts) == none

/-! ### several goroutines, one RWMutex, arbitrary schedule -/

structure Thread where
  ops : List Op
  holds : Option Bool     -- what this goroutine holds
  deriving DecidableEq, Repr

structure Sys where
  threads : List Thread
  deriving DecidableEq, Repr

def Sys.writer (s : Sys) : Bool := s.threads.any (fun t => t.holds == some true)
def Sys.readers (s : Sys) : Bool := s.threads.any (fun t => t.holds == some false)

/-- can the mutex operation proceed? `Lock` needs no holder at all, `RLock` no writer; releases never block
(a release of something not held is the runtime's fatal error: counted as "proceeds", `check` excludes it) -/
def opEnabled (s : Sys) : Op → Bool
  | .acq true => !s.writer && !s.readers
  | .acq false => !s.writer
  | .rel _ => true

def Thread.done (t : Thread) : Bool := t.ops.isEmpty

def Sys.enabled (s : Sys) (i : Nat) : Bool :=
  match s.threads[i]? with
  | some t => match t.ops with
    | [] => false
    | o :: _ => opEnabled s o
  | none => false

def Thread.step (t : Thread) : Thread :=
  match t.ops with
  | [] => t
  | .acq w :: r => { ops := r, holds := some w }
  | .rel _ :: r => { ops := r, holds := none }

/-- goroutine `i` performs its next operation if it can (a blocked or finished goroutine stays where it is) -/
def Sys.step (s : Sys) (i : Nat) : Sys :=
  if s.enabled i then { threads := s.threads.modify i Thread.step } else s

def Sys.run (s : Sys) (sched : List Nat) : Sys := sched.foldl Sys.step s

def Sys.allDone (s : Sys) : Bool := s.threads.all Thread.done

/-- nobody can move although somebody is not finished -/
def Sys.stuck (s : Sys) : Bool := !s.allDone && (List.range s.threads.length).all (fun i => !s.enabled i)

def Sys.start (paths : List (List Op)) : Sys := { threads := paths.map (fun o => { ops := o, holds := none }) }

/-- remaining operations of all goroutines: the termination measure -/
def Sys.remaining (s : Sys) : Nat := (s.threads.map (fun t => t.ops.length)).sum

/-! ### the paths the correspondence run needs -/

def findPath (paths : List Path) (fn : String) (conds : List String) : Option Path :=
  paths.find? (fun p => p.fn == fn && conds.all (fun c => p.conds.contains c))

end MosnVerif.Model.H2Lock
