import MosnVerif.Gen.Edf
/-!
Model of the earliest-deadline-first scheduler of `pkg/upstream/cluster/edf.go` over exact rationals.

* `Entry` = `edfEntry` (item, deadline, weight of the last push, queuedTime); `Sched` = `edfScheduler`
  (queue, `currentTime`, `clock`).  The queue is kept as a list; `Model/EdfHeap.lean` shows that the array heap
  of `edfheap.go` serves the minimum of the same order.
* The order (`edfEntryLess`), the deadline arithmetic (`deadline + 1/weight`, `currentTime + 1/weight`) and
  `fixHostWeight` are the regenerated definitions of `Gen/Edf.lean`.
* float64 → ℚ is the stated gap of C06: exact ties of deadlines may be broken differently by the float code.  A pick
  therefore takes an optional *hint* (the item the implementation served): it is followed iff that entry holds a
  minimal exact deadline; otherwise (and without hint) the pick is the minimum of the heap order (ties by `queued`).
  Every theorem quantifies over all hints.
-/
namespace MosnVerif.Model.EDF
open MosnVerif.Gen

structure Entry where
  item : Nat
  deadline : Rat
  weight : Rat
  queued : Int
deriving Repr, BEq, Inhabited

structure Sched where
  entries : List Entry := []
  now : Rat := 0
  clock : Int := 0
deriving Repr, Inhabited

/-- `edfEntryLess(a, b)` (regenerated). -/
def less (a b : Entry) : Bool := Edf.edfEntryLess a.deadline a.queued b.deadline b.queued

/-- `Add(item, weight)`: `tick()` then push `{deadline: currentTime + 1/weight, queuedTime: clock}`. -/
def Sched.add (s : Sched) (item : Nat) (w : Rat) : Sched :=
  { s with entries := s.entries ++ [{ item := item, deadline := Edf.addDeadline s.now w, weight := w, queued := s.clock + 1 }]
           clock := s.clock + 1 }

/-- minimum of the heap order, first among equals (what `Peek` returns, see `Model/EdfHeap.lean`). -/
def minEntry : List Entry → Option Entry
  | [] => none
  | e :: r => some (r.foldl (fun best x => if less x best then x else best) e)

/-- `e` holds a minimal exact deadline. -/
def isMinDeadline (es : List Entry) (e : Entry) : Bool := es.all (fun f => decide (e.deadline ≤ f.deadline))

/-- the entry served next. -/
def Sched.pick (s : Sched) (hint : Option Nat) : Option Entry :=
  match hint.bind (fun h => s.entries.find? (fun e => e.item == h && isMinDeadline s.entries e)) with
  | some e => some e
  | none => minEntry s.entries

/-- the served entry after `NextAndPush`: deadline advanced by `1/weight` with the weight evaluated now. -/
def repush (e : Entry) (w : Rat) (clock : Int) : Entry :=
  { e with deadline := Edf.nextDeadline e.deadline w, weight := w, queued := clock }

/-- `NextAndPush(weightFunc)`: serve the entry with the closest deadline, advance `currentTime` to it, re-queue it. -/
def Sched.nextAndPush (s : Sched) (wf : Nat → Rat) (hint : Option Nat) : Option (Nat × Sched) :=
  match s.pick hint with
  | none => none
  | some e =>
    let e' := repush e (wf e.item) (s.clock + 1)
    some (e.item, { entries := s.entries.map (fun f => if f.item = e.item then e' else f)
                    now := Edf.nextTime e.deadline
                    clock := s.clock + 1 })

/-- `n` consecutive `NextAndPush` calls (hints consumed from the front); returns the served items. -/
def Sched.run (s : Sched) (wf : Nat → Rat) : List (Option Nat) → List Nat × Sched
  | [] => ([], s)
  | h :: hs =>
    match s.nextAndPush wf h with
    | none => ([], s)
    | some (i, s') => let (r, s'') := Sched.run s' wf hs; (i :: r, s'')

/-- weight of host `i` in the weighted round-robin balancer: `fixHostWeight(float64(host.Weight()))`. -/
def wrrW (ws : List Nat) (i : Nat) : Int := Edf.fixHostWeight ((ws.getD i 0 : Nat) : Int)
def wrrWeight (ws : List Nat) (i : Nat) : Rat := ((wrrW ws i : Int) : Rat)

/-- scheduler after the `Add` phase of `EdfLoadBalancer.refresh`: one entry per host in host-set order. -/
def initWith (wf : Nat → Rat) (n : Nat) : Sched :=
  (List.range n).foldl (fun s i => s.add i (wf i)) {}

/-- `refresh`: add every host, then `pre` (= `rand.Intn(size)`) warm-up picks. -/
def refresh (wf : Nat → Rat) (n : Nat) (pre : List (Option Nat)) : Sched := ((initWith wf n).run wf pre).2

/-! ### executable property predicate (independent of the scheduler): bounded lag in every window

For hosts `i ≠ j` with weights `wᵢ wⱼ` and a pick sequence, `g t = nᵢ(t)·wⱼ − nⱼ(t)·wᵢ` over the prefixes `t`;
every window `[s,t)` satisfies `|nᵢ/wᵢ − nⱼ/wⱼ| ≤ 1/wᵢ + 1/wⱼ` iff `max g − min g ≤ wᵢ + wⱼ`. -/

/-- running (value, min, max) of `g` along the sequence. -/
def lagRange (wi wj : Int) (i j : Nat) (seq : List Nat) : Int × Int × Int :=
  seq.foldl (fun (acc : Int × Int × Int) x =>
    let g := if x = i then acc.1 + wj else if x = j then acc.1 - wi else acc.1
    (g, min acc.2.1 g, max acc.2.2 g)) (0, 0, 0)

def pairOk (w : Nat → Int) (seq : List Nat) (i j : Nat) : Bool :=
  let r := lagRange (w i) (w j) i j seq
  decide (r.2.2 - r.2.1 ≤ w i + w j)

/-- all windows of `seq` respect the lag bound for all pairs of the `n` hosts with (positive integral) weights `w`. -/
def windowsOk (w : Nat → Int) (n : Nat) (seq : List Nat) : Bool :=
  (List.range n).all (fun i => (List.range n).all (fun j => decide (j ≤ i) || pairOk w seq i j))

end MosnVerif.Model.EDF
