import MosnVerif.Gen.Pool
import MosnVerif.Gen.PoolMux
import MosnVerif.Gen.PoolDestroyMx
/-!
Small-step (interleaving) model of the xprotocol MULTIPLEX pool (`connpool_multiplex.go`) and of the HTTP/2 pool
(`pkg/stream/http2/connpool.go`) with the request ledger, in the style of `Model/PoolWin.lean`.

Every handler of the pool is a *task*: the regenerated statement program of the method (`Gen/PoolDestroyMx.lean`, source
order, helpers inlined) executed ONE statement per `taskStep` label — `NewStream` (tests, creation of the stream, the three
takes), `OnResetStream` + `OnDestroyStream` of a stream that ends, the close-event handler, `OnGoAway`.  Between any two
statements any other label may run: the start of another `NewStream`, the end of a request, a connection lost, a go-away
frame, a statement of any other task.  Only the pool's mutex excludes: a task whose next statement is `lock` while another
task holds the mutex is blocked (the label is a no-op); the lock scopes are regenerated (codes 40 / 41).

Closing a connection (`Close()` inside a handler, or the connection lost) is synchronous in the closing goroutine: the
requests in flight on it stop being in flight and the statements that follow are, in listener order (regenerated:
`*PoolHearsFirst`), for each of the k requests `OnResetStream` + `OnDestroyStream`, and the pool's close handler.

State is split by TYPE: `Led` (the requests breaker, the two request_active gauges, the requests in flight) is written
only by the six counter statements, by `place` (the stream is created on the connection) and by a close; `Books` (slots,
clients, connection gauges, mutex) by everything else.

`place` (the stream is created on the connection) and `listen` (the pool starts to listen to it) are SEPARATE statements
(mux7).  Where the codec's NewStream enters the stream into the connection's stream table (`placeVisible`, regenerated:
xprotocol yes, HTTP/2 no) a connection closed between the two resets the stream UNHEARD: it is dropped from `deaf` and
nothing runs for it; the later `listen` finds it dead (`Out.lost`) — the connection is closed for good, so the
closed-connection test that follows the listener (`undoChk`, code 48) WILL fire: its give-back (the destroy program, once)
replaces it in the rest of the task.  `undoChk` on a stream that was heard and is still in flight (created on a
connection that was already closed) resets it: OnResetStream + OnDestroyStream, then ConnectionFailure.

Assumptions: each stream ends once (`BaseStream`, kind `once`); `CheckAndInit` with its connecting goroutine is
one atomic label (`connect`: the goroutine's body runs under the pool's mutex).
-/
namespace MosnVerif.Model.PoolMxWin
open MosnVerif.Gen.Pool MosnVerif.Gen.PoolMux MosnVerif.Gen.PoolDestroyMx

inductive Kind | mux | h2
  deriving DecidableEq, Repr

inductive Stmt
  | decHost | decCluster | decRes | incHost | incCluster | incRes
  | cn (code : Nat)                      -- 20..23 connection_active movements
  | closeIfDrained | closeIfIdle | closeConn
  | loadSlot | slotIdx | chkNil | chkBreaker | place | chkState
  | delIfGoAway | clearClient | dialIfNil | markActive | delIfCurrent
  | lock | unlock | tstNotGoAway | delSlotIfCurrent | listen | setGoawayWord | setStateGoAway
  | undoChk
  | bad
  deriving DecidableEq, Repr

def Stmt.ofCode : Nat → Stmt
  | 0 => .decHost | 1 => .decCluster | 2 => .decRes | 10 => .incHost | 11 => .incCluster | 12 => .incRes
  | 20 => .cn 20 | 21 => .cn 21 | 22 => .cn 22 | 23 => .cn 23
  | 6 => .closeIfDrained | 7 => .closeIfIdle | 8 => .closeConn
  | 28 => .loadSlot | 29 => .slotIdx | 30 => .chkNil | 31 => .chkBreaker | 32 => .place | 33 => .chkState
  | 35 => .delIfGoAway | 36 => .clearClient | 37 => .dialIfNil | 38 => .markActive | 39 => .delIfCurrent
  | 40 => .lock | 41 => .unlock | 45 => .tstNotGoAway | 46 => .delSlotIfCurrent | 47 => .listen | 48 => .undoChk
  | 50 => .setGoawayWord | 51 => .setStateGoAway
  | _ => .bad

/-! ### what a statement moves (the ledger's four columns) -/
def dH : Stmt → Int | .decHost => -1 | .incHost => 1 | _ => 0
def dC : Stmt → Int | .decCluster => -1 | .incCluster => 1 | _ => 0
def dR : Stmt → Int | .decRes => -1 | .incRes => 1 | _ => 0
/-- the statement after which the request counts as in flight for the pool: the pool listens to the stream -/
def dP : Stmt → Int | .listen => 1 | _ => 0

def dsum (f : Stmt → Int) (l : List Stmt) : Int := (l.map f).sum

structure Progs where
  nsPre   : List Stmt     -- NewStream up to and including the breaker test
  nsPost  : List Stmt     -- NewStream after the breaker test (committed)
  destroy : List Stmt
  reset   : List Stmt
  close   : List Stmt
  goAway  : List Stmt
  delMoves  : List Nat    -- http2 deleteActiveClient
  dialMoves : List Nat
  hearsFirst : Bool
  placeVisible : Bool := true   -- the codec's NewStream enters the stream into the connection's stream table
  deriving Repr

def splitPre (p : List Stmt) : List Stmt := p.takeWhile (· ≠ .chkBreaker) ++ [.chkBreaker]
def splitPost (p : List Stmt) : List Stmt := (p.dropWhile (· ≠ .chkBreaker)).drop 1

def progsOf : Kind → Progs
  | .mux => { nsPre := splitPre (muxNewStreamProg.map .ofCode), nsPost := splitPost (muxNewStreamProg.map .ofCode),
              destroy := muxDestroyProg.map .ofCode, reset := muxResetProg.map .ofCode, close := muxCloseProg.map .ofCode,
              goAway := muxGoAwayProg.map .ofCode, delMoves := [], dialMoves := muxDialMoves, hearsFirst := muxPoolHearsFirst,
              placeVisible := muxPlaceVisible }
  | .h2 => { nsPre := splitPre (h2NewStreamProg.map .ofCode), nsPost := splitPost (h2NewStreamProg.map .ofCode),
             destroy := h2DestroyProg.map .ofCode, reset := h2ResetProg.map .ofCode, close := h2CloseProg.map .ofCode,
             goAway := h2GoAwayProg.map .ofCode, delMoves := h2DeleteMoves, dialMoves := h2DialMoves, hearsFirst := h2PoolHearsFirst,
             placeVisible := h2PlaceVisible }

/-- the request ledger -/
structure Led where
  maxReq    : Nat
  reqCur    : Int := 0       -- Requests().Cur()
  rqHost    : Int := 0       -- host upstream_request_active
  rqCluster : Int := 0       -- cluster upstream_request_active
  ext       : Nat := 0       -- ghost: slots held by other pools of the cluster
  streams   : List Nat := []  -- truth: the connection of every request in flight (the pool listens, not yet ending)
  deaf      : List Nat := []  -- truth: the connection of every stream created in a stream table the pool does not listen to yet
  deriving Repr

structure Client where
  state   : Nat := muxConnected   -- multiplex: activeClientMultiplex.state
  goaway  : Bool := false         -- the go-away word / mark
  netOpen : Bool := true
  slot    : Nat := 0
  mark    : Bool := false         -- closeWithActiveReq
  gaSeen  : Bool := false         -- ghost: OnGoAway wrote the state word of this client
  deriving DecidableEq, Repr

inductive Res | none | ok (c : Nat) | overflow | connFail
  deriving DecidableEq, Repr

structure Books where
  kind      : Kind
  nSlots    : Nat
  slots     : Nat → Option Nat := fun _ => none   -- multiplex: slot → client; http2: slot 0 = p.activeClient
  nClients  : Nat := 0
  client    : Nat → Client := fun _ => {}
  cnHost    : Int := 0
  cnCluster : Int := 0
  lockedBy  : Option Nat := none
  lastRes   : Res := .none
  nextId    : Nat := 0

structure Task where
  id   : Nat
  c    : Option Nat := none   -- the client the handler runs for / the client NewStream loaded
  slot : Nat := 0
  dialOk : Bool := true
  pre  : Bool := false        -- a NewStream that has not passed the breaker test
  gaAtTest : Bool := false    -- ghost: OnGoAway had written the client's state word when this NewStream passed the state test
  openAtEnd : Bool := true    -- ghost: the connection was open when this NewStream ran its last test
  rest : List Stmt

structure State where
  pg    : Progs
  led   : Led
  bk    : Books
  tasks : List Task := []

def initWith (k : Kind) (nSlots maxReq : Nat) (pg : Progs) : State :=
  { pg := pg, led := { maxReq := maxReq }, bk := { kind := k, nSlots := nSlots } }

def init (k : Kind) (nSlots maxReq : Nat) : State := initWith k nSlots maxReq (progsOf k)

def Books.updC (b : Books) (c : Nat) (f : Client → Client) : Books :=
  { b with client := fun k => if k = c then f (b.client c) else b.client k }

def Books.setSlot (b : Books) (i : Nat) (v : Option Nat) : Books :=
  { b with slots := fun k => if k = i then v else b.slots k }

def Books.cnMove (b : Books) : Nat → Books
  | 20 => { b with cnHost := b.cnHost - 1 }
  | 21 => { b with cnCluster := b.cnCluster - 1 }
  | 22 => { b with cnHost := b.cnHost + 1 }
  | 23 => { b with cnCluster := b.cnCluster + 1 }
  | 36 => b.setSlot 0 none
  | _ => b

def Books.moves (b : Books) (l : List Nat) : Books := l.foldl Books.cnMove b

/-- a successful dial: a new client object with its connection -/
def Books.newClient (b : Books) (slot : Nat) (dialMoves : List Nat) : Books :=
  ({ b with nClients := b.nClients + 1,
            client := fun k => if k = b.nClients then { slot := slot } else b.client k }.setSlot slot (some b.nClients)).moves dialMoves

/-- what a statement asks of the scheduler -/
inductive Out
  | cont | blocked | refuse | pass | close (c : Nat) | lost | undo (c : Nat)
  deriving DecidableEq, Repr

def slotOf (b : Books) (k : Nat) : Nat := if b.nSlots > 1 then k else 0

/-- the BOOK part of one statement of task `t`: new books, the client the task now works on, what happens next -/
def bookStmt (pg : Progs) (led : Led) (b : Books) (t : Task) : Stmt → Books × Option Nat × Out
  | .cn code => (b.cnMove code, t.c, .cont)
  | .closeIfDrained =>
    match t.c with
    | some c => (b, t.c, if (b.client c).goaway && led.streams.count c + led.deaf.count c == 0 then .close c else .cont)
    | none => (b, t.c, .cont)
  | .closeIfIdle =>
    match t.c with
    | some c => (b, t.c, if led.streams.count c + led.deaf.count c == 0 then .close c else .cont)
    | none => (b, t.c, .cont)
  | .closeConn => match t.c with | some c => (b, t.c, .close c) | none => (b, t.c, .cont)
  | .loadSlot => (b, b.slots (slotOf b t.slot), .cont)
  | .chkNil => match t.c with
    | none => ({ b with lastRes := .connFail }, t.c, .refuse)
    | some _ => (b, t.c, .cont)
  | .chkState => match t.c with
    | some c => if (b.client c).state = muxConnected then (b, t.c, .cont) else ({ b with lastRes := .connFail }, t.c, .refuse)
    | none => ({ b with lastRes := .connFail }, t.c, .refuse)
  | .chkBreaker => if canCreate led.maxReq led.reqCur then (b, t.c, .pass) else ({ b with lastRes := .overflow }, t.c, .refuse)
  | .place => ({ b with lastRes := .ok (t.c.getD 0) }, t.c, .cont)
  | .listen => (b, t.c, if pg.placeVisible && !(led.deaf.contains (t.c.getD 0)) then .lost else .cont)
  | .undoChk => match t.c with
    | some c => if (b.client c).netOpen then (b, t.c, .cont) else ({ b with lastRes := .connFail }, t.c, .undo c)
    | none => (b, t.c, .cont)
  | .delIfGoAway =>
    match b.slots 0 with
    | some a => (if (b.client a).goaway then b.moves pg.delMoves else b, t.c, .cont)
    | none => (b, t.c, .cont)
  | .dialIfNil =>
    match b.slots 0 with
    | some a => (b, some a, .cont)
    | none => if t.dialOk then (b.newClient 0 pg.dialMoves, some b.nClients, .cont) else (b, none, .cont)
  | .markActive => match t.c with | some c => (b.updC c (fun cl => { cl with mark := true }), t.c, .cont) | none => (b, t.c, .cont)
  | .delIfCurrent => (if t.c.isSome && b.slots 0 == t.c then b.moves pg.delMoves else b, t.c, .cont)
  | .lock => match b.lockedBy with
    | none => ({ b with lockedBy := some t.id }, t.c, .cont)
    | some _ => (b, t.c, .blocked)
  | .unlock => ({ b with lockedBy := none }, t.c, .cont)
  | .delSlotIfCurrent => match t.c with
    | some c =>
      let cl := b.client c
      (if cl.state ≠ muxGoAway && b.slots cl.slot == some c then b.setSlot cl.slot none else b, t.c, .cont)
    | none => (b, t.c, .cont)
  | .setGoawayWord => match t.c with | some c => (b.updC c (fun cl => { cl with goaway := true }), t.c, .cont) | none => (b, t.c, .cont)
  | .setStateGoAway => match t.c with
    | some c => (b.updC c (fun cl => { cl with state := muxGoAway, gaSeen := true }), t.c, .cont)
    | none => (b, t.c, .cont)
  | _ => (b, t.c, .cont)

/-- the LEDGER part of one statement -/
def ledStmt (vis : Bool) (l : Led) (c : Option Nat) : Stmt → Led
  | .decHost => { l with rqHost := l.rqHost - 1 }
  | .incHost => { l with rqHost := l.rqHost + 1 }
  | .decCluster => { l with rqCluster := l.rqCluster - 1 }
  | .incCluster => { l with rqCluster := l.rqCluster + 1 }
  | .decRes => { l with reqCur := resDecrease l.maxReq l.reqCur }
  | .incRes => { l with reqCur := resIncrease l.maxReq l.reqCur }
  | .place => if vis then { l with deaf := l.deaf ++ [c.getD 0] } else l
  | .listen => { l with streams := l.streams ++ [c.getD 0], deaf := l.deaf.erase (c.getD 0) }
  | _ => l

/-- what the closing goroutine runs when a connection with `n` requests in flight closes -/
def lostProg (pg : Progs) (n : Nat) : List Stmt :=
  let each := (List.replicate n (pg.reset ++ pg.destroy)).flatten
  if pg.hearsFirst then pg.close ++ each else each ++ pg.close

def Led.drop (l : Led) (c : Nat) : Led := { l with streams := l.streams.filter (· != c), deaf := l.deaf.filter (· != c) }

/-- the closed-connection test replaced by what it will do for a stream that was reset unheard: the give-back, once -/
def expandUndo (pg : Progs) (rest : List Stmt) : List Stmt :=
  rest.flatMap (fun st => if st = .undoChk then pg.destroy else [st])

def newTask (s : State) (t : Task) : State :=
  { s with tasks := s.tasks ++ [{ t with id := s.bk.nextId }], bk := { s.bk with nextId := s.bk.nextId + 1 } }

def stepTask (s : State) (k : Nat) : State :=
  match s.tasks[k]? with
  | none => s
  | some t =>
    match t.rest with
    | [] => s
    | st :: rest =>
      match bookStmt s.pg s.led s.bk t st, t.pre with
      | (_, _, .blocked), _ => s
      | (b, c', .refuse), true => { s with bk := b, tasks := s.tasks.set k { t with c := c', rest := [], pre := false } }
      | (b, c', .pass), true => { s with bk := b, tasks := s.tasks.set k { t with c := c', rest := s.pg.nsPost, pre := false } }
      | (b, c', .close c), false =>
        if (b.client c).netOpen then
          { s with bk := b.updC c (fun cl => { cl with netOpen := false }), led := (ledStmt s.pg.placeVisible s.led c' st).drop c,
                   tasks := s.tasks.set k { t with c := c', rest := lostProg s.pg ((ledStmt s.pg.placeVisible s.led c' st).streams.count c) ++ rest } }
        else { s with bk := b, led := ledStmt s.pg.placeVisible s.led c' st, tasks := s.tasks.set k { t with c := c', rest := rest } }
      | (b, c', .lost), false =>
        { s with bk := { b with lastRes := .connFail }, tasks := s.tasks.set k { t with c := c', openAtEnd := false, rest := expandUndo s.pg rest } }
      | (b, c', .undo c), false =>
        if c ∈ s.led.streams then
          { s with bk := b, led := { s.led with streams := s.led.streams.erase c },
                   tasks := s.tasks.set k { t with c := c', openAtEnd := false, rest := s.pg.reset ++ s.pg.destroy ++ rest } }
        else { s with bk := b, tasks := s.tasks.set k { t with c := c', openAtEnd := false, rest := rest } }
      | (b, c', _), true =>
        let ga := if st = .chkState then (b.client (c'.getD 0)).gaSeen else t.gaAtTest
        { s with bk := b, tasks := s.tasks.set k { t with c := c', rest := rest, gaAtTest := ga } }
      | (b, c', _), false => { s with bk := b, led := ledStmt s.pg.placeVisible s.led c' st, tasks := s.tasks.set k { t with c := c', rest := rest } }

inductive Cause | complete | localReset | remoteReset
  deriving DecidableEq, Repr

/-- multiplex `CheckAndInit` on slot `i` with its connecting goroutine (atomic) -/
def connect (pg : Progs) (b : Books) (i : Nat) (dialOk : Bool) : Books :=
  if i ≥ b.nSlots then b else
  match b.slots i with
  | some c =>
    if (b.client c).state = muxConnected then b
    else if muxReinitFrom.contains (b.client c).state then
      let b1 := b.updC c (fun cl => { cl with state := muxReinitTo })
      if dialOk then b1.newClient i pg.dialMoves else b1.setSlot i none
    else b
  | none => if dialOk then b.newClient i pg.dialMoves else b

inductive Label
  | newStream (slot : Nat) (dialOk : Bool)   -- a NewStream call starts
  | connect (slot : Nat) (dialOk : Bool)
  | endStream (c : Nat) (cause : Cause)      -- a request in flight on `c` ends: OnResetStream (reset causes) + OnDestroyStream start
  | taskStep (k : Nat)
  | netClose (c : Nat)                       -- the connection is lost / closed from outside the pool
  | goAway (c : Nat)
  | extInc | extDec
  deriving Repr

def step (s : State) : Label → State
  | .newStream slot d => newTask s { id := 0, slot := slot, dialOk := d, pre := true, rest := s.pg.nsPre }
  | .connect slot d => { s with bk := connect s.pg s.bk slot d }
  | .endStream c cause =>
    if c ∈ s.led.streams then
      newTask { s with led := { s.led with streams := s.led.streams.erase c } }
        { id := 0, c := some c, rest := (if cause = .complete then [] else s.pg.reset) ++ s.pg.destroy }
    else s
  | .taskStep k => stepTask s k
  | .netClose c =>
    if c < s.bk.nClients ∧ (s.bk.client c).netOpen = true then
      newTask { s with bk := s.bk.updC c (fun cl => { cl with netOpen := false }), led := s.led.drop c }
        { id := 0, c := some c, rest := lostProg s.pg (s.led.streams.count c) }
    else s
  | .goAway c => if c < s.bk.nClients then newTask s { id := 0, c := some c, rest := s.pg.goAway } else s
  | .extInc => { s with led := { s.led with reqCur := resIncrease s.led.maxReq s.led.reqCur, ext := s.led.ext + 1 } }
  | .extDec => if s.led.ext > 0 then { s with led := { s.led with reqCur := resDecrease s.led.maxReq s.led.reqCur, ext := s.led.ext - 1 } } else s

def run (s : State) : List Label → State
  | [] => s
  | l :: r => run (step s l) r

def pend (f : Stmt → Int) (ts : List Task) : Int := (ts.map (fun t => dsum f t.rest)).sum

/-- nothing in progress and no request in flight -/
def State.quiescent (s : State) : Prop := (∀ t ∈ s.tasks, t.rest = []) ∧ s.led.streams = []

/-- index of the oldest unfinished task -/
def firstBusy (ts : List Task) : Option Nat := ts.findIdx? (fun t => !t.rest.isEmpty)

/-- run the handlers in progress to their end, oldest first -/
def drain : Nat → State → State
  | 0, s => s
  | n + 1, s => match firstBusy s.tasks with
    | some k => drain n (stepTask s k)
    | none => s

end MosnVerif.Model.PoolMxWin
