import MosnVerif.Model.Downstream
/-!
# The back-off of `doRetry` (proxy9 → proxy10)

proxy9 modelled `terminate during the back-off` as an EXTENSION outside the label type (`terminateB`, `doRetryB`, `workB`).
proxy10 moved it into the machine proper (`Model/Downstream.lean`): the back-off sleep is the state `backoff` (phase `Retry`,
worker not yet woken), every label may fire during it — the asynchronous `TerminateStream` (`asleep`), a late frame of the
given-up attempt, the global timer callback, the client's departure, the connection close, hosts removed, pool failures
armed — and the label `work` in that state is the wake-up: the regenerated `doRetry` (`Gen.ProxyBackoff.doRetry`) with the
guards it re-checks after the sleep.  What stays here is the classification of trace events used by the theorems about it.
-/
namespace MosnVerif.Model.Downstream

/-- an upstream attempt event of the trace (`ConnectionPool.NewStream` admitted / refused) -/
def attemptEv : Ev → Bool
  | .un _ => true
  | .uf _ _ => true
  | _ => false

end MosnVerif.Model.Downstream
