import MosnVerif.Model.Downstream
/-!
# `terminate during the back-off` (proxy9) — extension of the shared downstream machine

`downStream.doRetry` sleeps ~10 ms before it creates the next upstream attempt.  While the worker sleeps there the response
slot `upstreamResponseReceived` is FREE (setupRetry swung it back) and no response headers are stored when the attempt was
given up because of a reset / per-try timeout: a stream filter's asynchronous `handler.TerminateStream(code)` is accepted —
it stores the local reply and sets `directResponse`.  The labels of `Model/Downstream.lean` deliver `TerminateStream` only
to a PARKED worker (`terminateG`); this file adds the delivery during the back-off and the Retry pass that follows it:

* `terminateB`  — the regenerated step program of `TerminateStream` (`Gen.ProxyTerminate`, the same operations `termOps`)
  applied while `backoff s` (worker inside `doRetry`'s sleep);
* `doRetryB`    — `doRetry` with the regenerated guard `Gen.ProxyPhase.retrySkipsOnDirect` (`if s.directResponse { return }`
  after the sleep, before a host is chosen): with the guard and a pending local reply nothing is done, otherwise `doRetry`;
* `workB`       — `work` with `doRetryB` in the Retry phase (every other phase: `work`).

On every state of the machine that satisfies the invariant `direct` is false in the Retry phase (K7), so `workB = work`
there (`Lemmas/Downstream/Backoff9.lean`: `workB_eq_work`): the extension only matters after `terminateB`.
-/
namespace MosnVerif.Model.Downstream
open MosnVerif.Gen.ProxyPhase MosnVerif.Gen.ProxyReason

/-- an upstream attempt event of the trace (`ConnectionPool.NewStream` admitted / refused) -/
def attemptEv : Ev → Bool
  | .un _ => true
  | .uf _ _ => true
  | _ => false

/-- `TerminateStream(code)` on a handler of this request, called by another goroutine while the worker sleeps in
`doRetry`'s back-off -/
def terminateB (c : Cfg) (s : S) (code : Nat) : S :=
  if !backoff s then s else (Gen.ProxyTerminate.terminateStream (termOps c c.gen code) id s).1

/-- `downStream.doRetry()` including its test for a pending local reply after the sleep (regenerated guard) -/
def doRetryB (c : Cfg) (s : S) : S :=
  if Gen.ProxyPhase.retrySkipsOnDirect && s.direct then s else doRetry c s

/-- the label `work` with `doRetryB` -/
def workB (c : Cfg) (s : S) : S :=
  if s.running && s.phase == .Retry then finishPhase c (doRetryB c s) else work c s

/-- the worker runs (with `workB`) until it blocks or returns -/
def settleB (c : Cfg) : Nat → S → S
  | 0, s => s
  | n + 1, s =>
    if !s.running then s
    else if s.phase == .WaitNotify && !s.notify then s
    else if bodyWait s then s
    else settleB c n (workB c s)

end MosnVerif.Model.Downstream
