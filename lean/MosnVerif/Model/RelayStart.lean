import MosnVerif.Model.Relay
import MosnVerif.Gen.C01RelayOrder
/-!
The start of a relayed connection, peer-speaks-first direction (`proxy.initializeUpstreamConnection` in
`pkg/filter/network/streamproxy/streamproxy.go` on top of `clientConnection.Connect` / `connection.startReadLoop` /
`connection.onRead` / `filterManager.OnRead` in `pkg/network`; and `activeListener.OnNewConnection` for the accepted side).

MOSN sets a new connection up with a list of calls (regenerated from the Go AST, in statement order).  Two of them matter:
the call that REGISTERS the read filter (`AddReadFilter` on the upstream connection; `CreateFilterChain` /
`InitializeReadFilters` on the accepted one) and the call that STARTS the read loop (`Connect`, whose `Start` runs before it
notifies the event listeners and returns; `Start`).  From the moment the read loop runs, bytes the peer has sent since
accept are read into the connection's read buffer and `filterManager.OnRead` hands the buffer to the registered read
filters — with no filter registered they stay in the read buffer; a later read appends to them; EOF closes the
connection and drops the buffer.

A schedule is an arbitrary list of: the next set-up call, the peer sends bytes, the peer closes, one iteration of the
read loop.
-/
namespace MosnVerif.Model.RelayStart
open MosnVerif.Model

structure St where
  todo : List String          -- set-up calls not yet made
  filterOn : Bool := false    -- a read filter is registered
  loopOn : Bool := false      -- the read loop runs
  wire : Bytes := []          -- sent by the peer, not yet read
  peerSent : Bytes := []      -- everything the peer has sent since it accepted / connected
  peerClosed : Bool := false
  buf : Bytes := []           -- the connection's read buffer: read, not yet taken by a read filter
  delivered : List Bytes := []  -- OnData deliveries to the proxy, oldest first (each one is a `read` event of `Model/Relay`)
  eof : Bool := false         -- the read loop hit EOF: the connection is closed, its read buffer is gone
  deriving Repr, DecidableEq

inductive Ev where
  | setup                      -- MOSN makes its next set-up call
  | peerSend (b : Bytes)
  | peerClose
  | loop                       -- one iteration of the read loop (`doRead`)
  deriving Repr

/-- `reg`: the call that registers the read filter, `start`: the call that starts the read loop -/
def step (reg start : String) (s : St) : Ev → St
  | .setup =>
    match s.todo with
    | [] => s
    | c :: r =>
      let s := { s with todo := r }
      if c == reg then { s with filterOn := true }
      else if c == start then { s with loopOn := true }
      else s
  | .peerSend b => if s.peerClosed then s else { s with wire := s.wire ++ b, peerSent := s.peerSent ++ b }
  | .peerClose => { s with peerClosed := true }
  | .loop =>
    if !s.loopOn || s.eof then s
    else if s.wire.isEmpty then
      (if s.peerClosed then { s with eof := true, buf := [] } else s)
    else
      let buf := s.buf ++ s.wire
      if s.filterOn then { s with wire := [], buf := [], delivered := s.delivered ++ [buf] }
      else { s with wire := [], buf := buf }

def run (reg start : String) (s : St) (evs : List Ev) : St := evs.foldl (step reg start) s

/-- at every call that starts the read loop, the read filter is already registered (`f`: registered so far) -/
def safeOrder (reg start : String) : List String → Bool → Bool
  | [], _ => true
  | c :: r, f =>
    if c == reg then safeOrder reg start r true
    else if c == start then f && safeOrder reg start r f
    else safeOrder reg start r f

def flat : List Bytes → Bytes
  | [] => []
  | b :: r => b ++ flat r

/-- the deliveries as events of the relay model (`d`: the connection they were read from) -/
def toRelay (d : Relay.Side) (s : St) : List Relay.Ev := s.delivered.map (fun b => Relay.Ev.read d b)

/-! the three set-ups of the shipped code, over the regenerated call lists -/
def upReg := "AddReadFilter"
def upStart := "Connect"
def upstreamInit : St := { todo := Gen.C01RelayOrder.upstreamCalls }
/-- `Connect` starts the read loop: it calls `Start` (regenerated call list of `clientConnection.Connect`) -/
def connectStartsLoop : Bool := Gen.C01RelayOrder.connectCalls.contains "Start"
def downStart := "Start"
def downstreamInit : St := { todo := Gen.C01RelayOrder.downstreamCalls }

end MosnVerif.Model.RelayStart
