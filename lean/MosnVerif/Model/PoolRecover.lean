import MosnVerif.Gen.C08Recover
/-!
# Panic containment on the read / dispatch path — which goroutine runs a task handed to the worker pool (C08)

`pkg/sync/workerpool.go`: `Schedule`, `ScheduleAlways`, `ScheduleAuto` are sequences of `select` statements over
`p.work <- task` (ready iff a worker is parked on `<-p.work`), `p.sem <- struct{}{}` (ready iff fewer than `size` workers
exist) and `default`.  The clause tables, what `spawnWorker` does and who hands the connection read turn to the pool
(netpoll mode: `eventloop.go` readCallback → `readPool.ScheduleAuto`; otherwise `connection.startRWLoop`) are REGENERATED
(`Gen/C08Recover`).  The model: for a pool state per select statement, the set of goroutine kinds the task may end up in
(Go picks ANY ready clause; `default` only when none is ready; no clause ready and no default = the call blocks), and
whether a panic of the task is recovered there.  An unrecovered panic in any goroutine ends the PROCESS, i.e. every
connection — that is what C08 forbids.  Core Lean only.
-/
namespace MosnVerif.Model.PoolRecover
open MosnVerif.Gen.C08Recover

/-- the pool at the moment a select statement is evaluated -/
structure PoolState where
  workerWaiting : Bool   -- a worker is parked on `<-p.work`
  slotFree : Bool        -- `p.sem` has room: fewer than `size` workers exist
  deriving DecidableEq, Repr

def ready (s : PoolState) (guard : String) : Bool :=
  (guard == "work" && s.workerWaiting) || (guard == "sem" && s.slotFree)

/-- what may happen to the task in ONE select statement; `[]` = the call blocks here -/
def selectOutcomes (s : PoolState) (sel : List (String × String)) : List String :=
  let r := sel.filter (fun c => ready s c.1)
  if r.isEmpty then (sel.filter (fun c => c.1 == "default")).map (·.2) else r.map (·.2)

/-- over the select statements of a method (`none` = fall through to the next one; `st i` = the pool when the i-th select
runs — other goroutines change it in between); `dropped` = the method ends without having passed the task on -/
def outcomes (st : Nat → PoolState) : Nat → Selects → List String
  | _, [] => ["dropped"]
  | i, sel :: rest =>
    (selectOutcomes (st i) sel).flatMap (fun a => if a == "none" then outcomes st (i + 1) rest else [a])

/-- is a panic of the task recovered in the goroutine that action puts it in -/
def survives (a : String) : Bool :=
  if a == "handoff" then workerRecovers && workerTakesFromWork   -- runs inside a parked worker's loop
  else if a == "spawn" then workerRecovers                        -- first task of a new worker
  else if a == "recover" then true                                -- temporary goroutine with a recover
  else if a == "dropped" then true                                -- never runs
  else false                                                      -- bare goroutine / inline in the caller / unknown

/-- every action named anywhere in the table recovers -/
def allSurvive (sels : Selects) : Bool :=
  sels.all (fun sel => sel.all (fun c => c.2 == "none" || survives c.2))

def apiOf (name : String) : Option Selects :=
  if name == "Schedule" then some schedule
  else if name == "ScheduleAlways" then some scheduleAlways
  else if name == "ScheduleAuto" then some scheduleAuto
  else none

/-- driver: outcome classes of a panicking task scheduled through `api` in pool state `s` (the same state at every
select: the harness holds the pool still) -/
def verdicts (api : Selects) (s : PoolState) : List String :=
  let o := outcomes (fun _ => s) 0 api
  if o.isEmpty then ["blocked"] else o.map (fun a => if survives a then "survived" else "died")

end MosnVerif.Model.PoolRecover
