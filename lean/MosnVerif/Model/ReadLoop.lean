import MosnVerif.Model.Framing
import MosnVerif.Gen.ReadLoopConn
/-!
The connection read loop BELOW `streamConn.Dispatch` (property C07): `pkg/network/connection.go`
`startReadLoop` / `doRead` / `onRead`, as a machine over the results of successive `ReadOnce` calls.

* label `Ev`    : what one `c.readBuffer.ReadOnce(c.rawConnection)` returned — `read chunk` = `(|chunk|, nil)`,
                  `timeout` = `(0, net.Error with Timeout())` (the peer stalled longer than
                  `types.DefaultConnReadTimeout`), `eof chunk` = `(|chunk|, io.EOF)`, `error` = `(0, any other error)`.
* state `St`    : the connection read buffer (`buf` = `readBuffer.Bytes()`, the unread contents; `off`, `cap` = the
                  geometry of the `IoBuffer`: consumed prefix still in the slice, capacity; `allocated` = `readBuffer != nil`),
                  the state of whatever sits behind the filter manager (`k`), `closed`, and two ghost logs.
* `Consumer`    : the filter chain: `filterManager.OnRead()` hands the read buffer to `ReadFilter.OnData`, which drains
                  some prefix of it.  `dispatchConsumer d` is the xprotocol stream connection: exactly `Framing.feed d`.
* REGENERATED (Gen/ReadLoopConn): when `doRead` reaches `onRead` and which error goes back to the loop (`doReadAfter`),
  when `onRead` calls the filter manager (`onReadDispatches`), the size of the first allocation, the guarded
  `Free(); Alloc(E)` statements of the loop's timeout branch (`timeoutShrinks`), the close event of every other error.
* hand-modelled from mosn.io/pkg v1.6.0 (`buffer/iobuffer.go`, `bytebuffer_pool.go`): the geometry of `ReadOnce`
  (reset / compaction / release of buffers above 1 MiB / growth when a read filled the free space), `Drain`, `Free`,
  `Alloc`, the size classes of the byte pool.  Validated by the correspondence run (`Cap()` at every hand-off).

Core Lean only (linked into the native driver).
-/
namespace MosnVerif.Model.ReadLoop
open MosnVerif.Model.Framing
open MosnVerif.Gen.ReadLoopConn

inductive Ev where
  | read (chunk : Bytes)
  | timeout
  | eof (chunk : Bytes)
  | error
deriving Repr, DecidableEq

def Ev.chunk : Ev → Bytes
  | .read c => c
  | .eof c => c
  | _ => []

def Ev.kind : Ev → ErrKind
  | .read _ => .none
  | .timeout => .timeout
  | .eof _ => .eof
  | .error => .other

/-- the read filters behind `filterManager.OnRead()`: given the read buffer, a new state and what is left in the buffer -/
structure Consumer (κ : Type) where
  onData : κ → Bytes → κ × Bytes

/-- a consumer only drains from the front (`IoBuffer.Drain`) -/
def Consumer.Drains {κ} (c : Consumer κ) : Prop := ∀ k b, ∃ n, (c.onData k b).2 = b.drop n

/-- the part of the loop that the model is parameterised by: the connection's network, its default read buffer size
(`c.defaultReadBufferSize`: `DefaultReadBufferSize` or the listener's setting) and the re-allocations of the timeout branch -/
structure Params where
  network : String
  dflt : Int
  shrinks : List Shrink

/-- the loop as it is in the source tree -/
def Params.actual (dflt : Int) : Params := { network := "tcp", dflt := dflt, shrinks := timeoutShrinks }

structure St (κ : Type) where
  k : κ
  buf : Bytes
  allocated : Bool
  off : Nat
  cap : Nat
  closed : Option CloseEv
  /-- ghost: the bytes the consumer drained, in order -/
  consumed : Bytes
deriving Repr

def St.init {κ} (k : κ) : St κ :=
  { k := k, buf := [], allocated := false, off := 0, cap := 0, closed := none, consumed := [] }

/-! ### IoBuffer geometry (mosn.io/pkg v1.6.0) -/

def minRead : Nat := 512
def maxRead : Nat := 131072
def defaultSize : Nat := 16
def maxBufferLength : Nat := 1048576
def maxThreshold : Nat := 4194304

/-- capacity of `GetBytes(n)`: the byte pool's size classes are the powers of two 2^6 … 2^27 -/
def classOf (n : Nat) : Nat :=
  if n > 2 ^ 27 then n else
  (((List.range 22).map (fun i => 2 ^ (i + 6))).find? (fun c => n ≤ c)).getD n

/-- `Alloc(size)` / `GetIoBuffer(size)` -/
def allocCap (size : Int) : Nat := classOf (if size ≤ 0 then defaultSize else size.toNat)

/-- `copy(AutoExpand)` -/
def growCap (cap : Nat) : Nat :=
  classOf (if cap < 2 * minRead then 2 * minRead else if cap < maxThreshold then 2 * cap else cap + cap / 4)

/-- `ReadOnce` when the reader returns `chunk` -/
def readOnce {κ} (s : St κ) (chunk : Bytes) : St κ :=
  -- everything consumed: Reset
  let off := if s.off > 0 && s.buf.isEmpty then 0 else s.off
  -- no room behind the data but a consumed prefix in front: move the data to the front
  let off := if off ≥ s.cap - (off + s.buf.length) then 0 else off
  -- release buffers above MaxBufferLength once they are empty
  let (off, cap) := if s.buf.isEmpty && s.cap > maxBufferLength then (0, classOf maxRead) else (off, s.cap)
  let free := cap - (off + s.buf.length)
  -- the read filled the free space: grow
  let (off, cap) := if chunk.length == free then (0, growCap cap) else (off, cap)
  { s with buf := s.buf ++ chunk, off := off, cap := cap }

/-- `filterManager.OnRead()`: the consumer drains a prefix (`Drain` advances `off`) -/
def handoff {κ} (c : Consumer κ) (s : St κ) : St κ :=
  let r := c.onData s.k s.buf
  let n := s.buf.length - r.2.length
  { s with k := r.1, buf := r.2, off := s.off + n, consumed := s.consumed ++ s.buf.take n }

/-- one `if COND { c.readBuffer.Free(); c.readBuffer.Alloc(E) }` -/
def applyShrink {κ} (P : Params) (s : St κ) (sh : Shrink) : St κ :=
  if sh.cond P.network s.allocated s.buf.length s.cap P.dflt then
    { s with buf := [], off := 0, cap := allocCap (sh.size P.dflt), allocated := true }
  else s

/-- doRead up to and including `ReadOnce`: first allocation, then the read -/
def pre {κ} (P : Params) (s : St κ) (e : Ev) : St κ :=
  let s := if s.allocated then s else { s with allocated := true, off := 0, cap := allocCap (firstAllocSize P.dflt) }
  readOnce s e.chunk

/-- does this `doRead` reach the filter manager (regenerated `doReadAfter` and `onReadDispatches`; the connection is
not being closed by another goroutine, reads are enabled) -/
def dispatches {κ} (s1 : St κ) (e : Ev) : Bool :=
  (doReadAfter 0 e.kind e.chunk.length).1 && onReadDispatches true s1.buf.length

/-- one iteration of the `for` of `startReadLoop` -/
def step {κ} (P : Params) (c : Consumer κ) (s : St κ) (e : Ev) : St κ :=
  if s.closed.isSome then s else
  let s1 := pre P s e
  let s2 := if dispatches s1 e then handoff c s1 else s1
  match (doReadAfter 0 e.kind e.chunk.length).2 with
  | .none => s2
  | .timeout => P.shrinks.foldl (applyShrink P) s2
  | err => { s2 with closed := some (closeOnErr err) }

def run {κ} (P : Params) (c : Consumer κ) (k : κ) (evs : List Ev) : St κ :=
  evs.foldl (step P c) (St.init k)

/-- what the hand-off of this iteration shows the consumer: `Len()` and `Cap()` of the read buffer (driver only) -/
def observe {κ} (P : Params) (s : St κ) (e : Ev) : Option (Nat × Nat) :=
  if s.closed.isSome then none else
  let s1 := pre P s e
  if dispatches s1 e then some (s1.buf.length, s1.cap) else none

/-- does the loop leave after this `ReadOnce` result -/
def closes (e : Ev) : Bool :=
  match (doReadAfter 0 e.kind e.chunk.length).2 with
  | .none => false
  | .timeout => false
  | _ => true

/-- the chunks `ReadOnce` put into the read buffer while the loop was running -/
def appended : List Ev → List Bytes
  | [] => []
  | e :: es => e.chunk :: (if closes e then [] else appended es)

/-- the chunks of the `read` labels -/
def readsOf (evs : List Ev) : List Bytes :=
  evs.filterMap (fun e => match e with | .read c => some c | _ => none)

/-- a label that keeps the loop running: a read of at least one byte, or a read timeout -/
def Ev.plain : Ev → Bool
  | .read c => !c.isEmpty
  | .timeout => true
  | _ => false

/-- the timeout branch may discard the buffer only when it holds nothing -/
def SafeShrinks (P : Params) : Prop :=
  ∀ sh ∈ P.shrinks, ∀ (alloc : Bool) (len cap : Int), sh.cond P.network alloc len cap P.dflt = true → len = 0

/-! ### the xprotocol stream connection as the consumer -/

/-- `proxy.OnData` → `streamConn.Dispatch(buf)` on the connection's read buffer: `Framing.feed` with nothing new to
append (the read loop has already appended the chunk); state = (frames handed on, failed) -/
def dispatchConsumer {F} (d : Bytes → Step F) : Consumer (List F × Bool) where
  onData k b :=
    let c := feed d { buf := b, out := k.1, failed := k.2 } []
    ((c.out, c.failed), c.buf)

def toConn {F} (s : St (List F × Bool)) : Conn F := { buf := s.buf, out := s.k.1, failed := s.k.2 }

/-- expected uses of `c.readBuffer` that can change it, outside the recognised re-allocations: it is assigned twice (first
allocation, udp / default) and read into once, all in `doRead` -/
def mutatingUses (uses : List (String × String)) : List (String × String) :=
  uses.filter (fun u => !(["nilcheck", "Len", "Cap", "Bytes"].contains u.2))

def expectedMutatingUses : List (String × String) := [("doRead", "assign"), ("doRead", "assign"), ("doRead", "ReadOnce")]

end MosnVerif.Model.ReadLoop
