import MosnVerif.Gen.StreamOnce
/-!
Concurrent callers of `BaseStream.ResetStream` / `BaseStream.DestroyStream` (`pkg/stream/stream.go`).

`Gen/StreamOnce.lean` is the regenerated **step program** of the two methods: every atomic access of `state`
(load-guard / CAS-guard / store), `Lock` / `Unlock` of the stream mutex, the two listener loops, the (deferred) call of
`DestroyStream`, and the yield markers of the verif hook.  A goroutine is the list of steps it still has to execute
(the concatenation of the programs of the calls it issues; `callDestroy` splices `destroyProg` in front of the
caller's remaining steps).  A **schedule** is a list of goroutine indices: each entry lets that goroutine execute ONE
step (an index out of range, a finished goroutine or a goroutine blocked on the mutex is a stutter).  `sync/atomic`
accesses are sequentially consistent single steps; `sync.Mutex` is taken only when free.

The machine is generic in the two programs (`Progs`), so that theorems can be stated for a class of shapes and
witnesses can be computed for other shapes (`loadStoreProgs`: the exactly-once guard as "load, then store under the lock").
-/
namespace MosnVerif.Model.StreamOnce
open MosnVerif.Gen.StreamOnce

structure Progs where
  reset : List Step
  destroy : List Step
  deriving DecidableEq, Repr

/-- the shape of the current source -/
def genProgs : Progs := ⟨resetProg, destroyProg⟩

/-- `DestroyStream` with the exactly-once guard written as check-then-act: load, then store under the stream lock -/
def loadStoreDestroy : List Step :=
  [.yield, .loadGuard 0 7, .yield, .lock, .store 1, .notifyDestroy, .yield, .store 2, .unlock]

def loadStoreProgs : Progs := ⟨resetProg, loadStoreDestroy⟩

inductive Call | reset | destroy
  deriving DecidableEq, Repr

def Progs.of (P : Progs) : Call → List Step
  | .reset => P.reset
  | .destroy => P.destroy

/-- a goroutine issuing `calls` one after the other -/
def threadOf (P : Progs) : List Call → List Step
  | [] => []
  | c :: r => P.of c ++ threadOf P r

structure Conf where
  state : Nat                   -- BaseStream.state (zero value of uint32 = streamStateReset: the stream is live)
  holder : Option Nat           -- the goroutine between s.Lock() and s.Unlock()
  threads : List (List Step)    -- what each goroutine still has to execute
  resets : Nat                  -- OnResetStream notifications each registered listener has received
  destroys : Nat                -- OnDestroyStream notifications each registered listener has received
  deriving DecidableEq, Repr

def Conf.init (P : Progs) (ts : List (List Call)) : Conf :=
  { state := 0, holder := none, threads := ts.map (threadOf P), resets := 0, destroys := 0 }

/-- goroutine `t` executes one step -/
def Conf.step (P : Progs) (c : Conf) (t : Nat) : Conf :=
  match c.threads[t]? with
  | none => c
  | some [] => c
  | some (a :: r) =>
    match a with
    | .yield => { c with threads := c.threads.set t r }
    | .loadGuard want skip =>
      { c with threads := c.threads.set t (if c.state = want then r else r.drop skip) }
    | .casGuard old new skip =>
      if c.state = old then { c with state := new, threads := c.threads.set t r }
      else { c with threads := c.threads.set t (r.drop skip) }
    | .store v => { c with state := v, threads := c.threads.set t r }
    | .lock => if c.holder = none then { c with holder := some t, threads := c.threads.set t r } else c
    | .unlock => { c with holder := none, threads := c.threads.set t r }
    | .notifyReset => { c with resets := c.resets + 1, threads := c.threads.set t r }
    | .notifyDestroy => { c with destroys := c.destroys + 1, threads := c.threads.set t r }
    | .callDestroy => { c with threads := c.threads.set t (P.destroy ++ r) }

def Conf.run (P : Progs) (c : Conf) : List Nat → Conf
  | [] => c
  | t :: s => Conf.run P (c.step P t) s

def Conf.done (c : Conf) : Bool := c.threads.all (·.isEmpty)

/-- number of `ResetStream` calls among the goroutines' calls -/
def resetCalls (ts : List (List Call)) : Nat := (ts.map (fun l => l.count .reset)).sum

/-! ### the harness' scheduler granularity

The deterministic scheduler of the harness parks every goroutine at the verif yield points; resuming a goroutine lets
it run from its yield point up to the next one (or to the end of its calls).  `resume` is that macro step: the yield
marker at the head, then every step up to the next marker.  A goroutine parked before `Lock` is resumed only when the
mutex is free (the harness tests it with `TryLock`); `resume` reports a step that could not be taken as `blocked`. -/

def atYield : List Step → Bool
  | .yield :: _ => true
  | _ => false

/-- run goroutine `t` until it is at a yield marker again or has finished (fuel = an upper bound on the steps) -/
def runToYield (P : Progs) : Nat → Conf → Nat → Conf × Bool
  | 0, c, _ => (c, false)
  | fuel + 1, c, t =>
    match c.threads[t]? with
    | none => (c, true)
    | some [] => (c, true)
    | some l =>
      if atYield l then (c, true)
      else
        let c' := c.step P t
        if c' == c then (c, false)        -- blocked on the mutex
        else runToYield P fuel c' t

/-- one entry of a harness schedule: goroutine `t` passes its yield marker and runs to the next one -/
def resume (P : Progs) (c : Conf) (t : Nat) : Conf × Bool :=
  match c.threads[t]? with
  | some (.yield :: _) => runToYield P 64 (c.step P t) t
  | _ => (c, false)

/-! ### executable property predicate (declarative; independent of the step programs)

What the counting listeners of one stream may have seen after any number of overlapping `ResetStream` /
`DestroyStream` calls: the destruction at most once — exactly once when every call has returned and there was at least
one —, a reset notification at most once per `ResetStream` call, and the stream is no longer live once destroyed. -/
def onceSpec (nResetCalls nCalls : Nat) (finished : Bool) (state resets destroys : Nat) : Bool :=
  decide (destroys ≤ 1) && decide (resets ≤ nResetCalls) &&
  (!finished || nCalls == 0 || (destroys == 1 && state != 0)) &&
  (destroys == 0 || state != 0)

end MosnVerif.Model.StreamOnce
