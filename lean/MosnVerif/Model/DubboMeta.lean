import MosnVerif.Gen.C08DubboMeta
/-!
# dubbo service-aware metadata: the walk of `getServiceAwareMeta` over the hessian2 fields of a request
(pkg/protocol/xprotocol/dubbo/decoder.go).  The hessian2 decoder is a black box that delivers, per position, a string,
nil, a value of any other Go type (int, list, map, object …) or a decode error.  Positions: 0 framework version, 1 path,
2 version (nil allowed), 3 method — comma-ok tests, a non-string is an error return; only for the listeners
ingress_dubbo / egress_dubbo whose service was not found in the metadata tree (`aware`): 4 argument-type descriptor —
the ONE unchecked assertion `field.(string)` (panic on a non-string, turned into an error iff the deferred recover
dominates it: regenerated `Gen/C08DubboMeta`), then the announced number of arguments (any type), then the attachments
(any type; only a map is read, with comma-ok tests).  Core Lean only.
-/
namespace MosnVerif.Model.DubboMeta
open MosnVerif.Gen.C08DubboMeta

inductive Fld where
  | str | null | other | derr
  deriving DecidableEq, Repr

inductive WOut where
  | ok | err | panic
  deriving DecidableEq, Repr

/-- a position that must be a string (comma-ok) -/
def needStr (f : Fld) (nullOk : Bool) (k : WOut) : WOut :=
  match f with
  | .str => k
  | .null => if nullOk then k else .err
  | .other => .err
  | .derr => .err

/-- the arguments are decoded and dropped: only a decode error matters -/
def skipArgs (f : Nat → Fld) : Nat → Nat → WOut → WOut
  | _, 0, k => k
  | p, n + 1, k => if f p = .derr then .err else skipArgs f (p + 1) n k

/-- what becomes of a non-string argument-type descriptor -/
def typesNonString : WOut :=
  if uncheckedStringAsserts = 0 then .err          -- a comma-ok test
  else if typesAssertRecovered then .err           -- panic, recovered into `err`
  else .panic

def walk (aware : Bool) (f : Nat → Fld) (nargs : Nat) : WOut :=
  needStr (f 0) false <| needStr (f 1) false <| needStr (f 2) true <| needStr (f 3) false <|
    if !aware then .ok
    else match f 4 with
      | .derr => .err
      | .null => typesNonString
      | .other => typesNonString
      | .str => skipArgs f 5 nargs (if f (5 + nargs) = .derr then .err else .ok)

end MosnVerif.Model.DubboMeta
