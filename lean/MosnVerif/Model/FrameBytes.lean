import MosnVerif.Model.Framing
/-!
Byte access for the framing family.

* total reads (`be`, `u8`): value of a big-endian field, bytes missing read as absent (shorter value); the abstract
  decoders only use them behind the length tests of the code.
* checked access in continuation style (`need`, `rdBE`, `slice`, `rd32At`): every access of the Go code is mirrored by
  one of these; an access outside the *received* bytes yields `Out.oob` (Go: index/slice out of range panic —
  Go checks slice expressions against the capacity, the model against the length, which is at least as strict).

Core Lean only.
-/
namespace MosnVerif.Model.FrameBytes
open MosnVerif.Model.Framing

def beNat (s : Bytes) : Nat := s.foldl (fun acc x => acc * 256 + x.toNat) 0

/-- big-endian value of `b[lo:hi]` -/
def be (b : Bytes) (lo hi : Nat) : Nat := beNat ((b.take hi).drop lo)

def fld (b : Bytes) (r : Nat × Nat) : Nat := be b r.1 r.2

def u8 (b : Bytes) (i : Nat) : Nat := be b i (i + 1)

/-- outcome class of one `Decode` call -/
inductive Out where
  | needMore : Out
  | frame (n : Nat) : Out          -- a frame, `n` bytes drained
  | error (drained : Nat) : Out    -- `err != nil`, `drained` bytes were drained before
  | oob : Out                      -- an access outside the received bytes (Go: panic)
deriving Repr, DecidableEq

/-- outcome + the allocation the decoder asked for (bytes / table slots) -/
structure Res where
  out : Out
  alloc : Nat
deriving Repr, DecidableEq

def Res.needMore : Res := ⟨.needMore, 0⟩
def Res.frame (n : Nat) : Res := ⟨.frame n, 0⟩
def Res.error (k : Nat) : Res := ⟨.error k, 0⟩
def Res.oob : Res := ⟨.oob, 0⟩

/-- record an allocation request of `n` and continue -/
def alloc (n : Nat) (k : Res) : Res := { k with alloc := k.alloc + n }

/-- all fixed-offset reads below `hi` (`bytes[4]`, `bytes[5:9]`, …) -/
def need (b : Bytes) (hi : Nat) (k : Res) : Res := if hi ≤ b.length then k else Res.oob

/-- `binary.BigEndian.UintNN(b[lo:hi])` -/
def rdBE (b : Bytes) (r : Nat × Nat) (k : Nat → Res) : Res :=
  if r.1 ≤ r.2 ∧ r.2 ≤ b.length then k (be b r.1 r.2) else Res.oob

/-- `b[lo:hi]` -/
def slice (b : Bytes) (lo hi : Nat) (k : Bytes → Res) : Res :=
  if lo ≤ hi ∧ hi ≤ b.length then k ((b.take hi).drop lo) else Res.oob

/-- `recover()` around a block: a panic inside becomes an ordinary decode error with nothing drained -/
def recovered (r : Res) : Res := match r.out with
  | .oob => { r with out := .error 0 }
  | _ => r

/-- what the dispatch loop sees of an outcome (a panic in `Dispatch` is recovered by the read loop, which closes the
connection: for the loop it is an error) -/
def Out.toStep (b : Bytes) : Out → Step Bytes
  | .needMore => .needMore
  | .frame n => .frame (b.take n) n
  | .error _ => .error
  | .oob => .error

end MosnVerif.Model.FrameBytes
