import MosnVerif.Gen.Updates
/-!
Model of MOSN's runtime-update paths (property C12).

* router manager  — `pkg/router/routers_manager.go` (`AddOrUpdateRouters`, `AddRoute`, `RemoveAllRoutes`) over
  `routersImpl` / `VirtualHostImpl` (`routers_impl.go`, `virtualhost.go`);
* cluster manager — `pkg/upstream/cluster/cluster_manager.go` (`UpdateCluster` with the two handler sets of
  `AddOrUpdatePrimaryCluster` / `AddOrUpdateClusterAndHost`, `UpdateHosts` with the replace / append / remove handlers,
  `RemovePrimaryCluster`), `host_set.go` (`NewHostSet`: distinct by address, first occurrence kept);
* effective-config store — `pkg/configmanager/effectiveconfig.go` (`SetRouter`, `SetClusterConfig`, `SetHosts`,
  `SetRemoveClusterConfig`);
* xDS — `istio/istio1106/xds/conv/update.go` `ConvertUpdateEndpoints` over multi-locality assignments.

The state has two sides: the LIVE objects (`wrappers`, `clusters`) and the STORED configuration (`rstore`, `cstore`).
Every mutator updates the live side and then records the configuration, exactly in the places the Go code does; whether a
mutator records at all is a regenerated fact (`Gen.Updates.*_records*`), and so is the shape of `ConvertUpdateEndpoints`.
`build*` construct live objects from a configuration the way a fresh start does (`NewRouters`; `ParseClusterConfig` +
`AddOrUpdatePrimaryCluster` + `UpdateClusterHosts`).

Abstract on purpose: what a route matches (a route is an opaque value with a validity bit = "`NewRouteBase` succeeds"), and
how a domain string selects a virtual host (`Oracle.resolve`, property C04's subject) — the theorems hold for every oracle.
Go maps (`sync.Map`, `map[string]…`) are total functions `String → Option _`.
-/
namespace MosnVerif.Model.Updates
open MosnVerif

/-! ## finite maps as functions -/
abbrev FMap (α : Type) := String → Option α

def FMap.set {α} (m : FMap α) (k : String) (v : α) : FMap α := fun k' => if k' = k then some v else m k'
def FMap.del {α} (m : FMap α) (k : String) : FMap α := fun k' => if k' = k then none else m k'
def FMap.empty {α} : FMap α := fun _ => none

/-! ## routers -/

/-- a route of a virtual host. `valid = false` ⇔ `NewRouteBase` returns an error (bad regex, bad redirect scheme …). -/
structure Route where
  id : String
  pfx : String
  valid : Bool
  deriving DecidableEq, Repr

/-- `v2.VirtualHost` -/
structure VHost where
  name : String
  domains : List String
  routes : List Route
  deriving DecidableEq, Repr

/-- `v2.RouterConfiguration`: name, the virtual hosts in effect (`VirtualHosts`), and the two fields of the embedded
`RouterConfigurationConfig` that decide the MODE the router is persisted in: `path` = `RouterConfigPath` (`router_configs`,
non-empty = dynamic / directory mode: one file per virtual host) and `static` = `StaticVirtualHosts` (`virtual_hosts`, what
`UnmarshalJSON` decoded from a static configuration; empty for a router built by code or loaded from a directory). -/
structure RouterCfg where
  name : String
  vhosts : List VHost
  path : String := ""
  static : List VHost := []
  deriving DecidableEq, Repr

/-- `VirtualHostImpl`: the live route list of one virtual host -/
structure LiveVH where
  name : String
  routes : List Route
  deriving DecidableEq, Repr

/-- `routersImpl`: live virtual hosts in configuration order + the domain index (a function of the domain lists) -/
structure Table where
  doms : List (List String)
  vhs : List LiveVH
  deriving DecidableEq, Repr

/-- how domains select virtual hosts (C04's subject), abstract here. -/
structure Oracle where
  /-- `generateHostWithPortConfig` accepts all domains (no empty / duplicate / malformed domain) -/
  domainsOk : List (List String) → Bool
  /-- `findVirtualHostIndex`: index of the virtual host serving a domain string, `none` = -1 -/
  resolve : List (List String) → String → Option Nat

/-- `NewRouters`: `none` = error (no virtual host, a route that cannot be built, a bad domain). -/
def build (o : Oracle) (cfg : RouterCfg) : Option Table :=
  if cfg.vhosts.isEmpty then none
  else if cfg.vhosts.any (fun vh => vh.routes.any (fun r => !r.valid)) then none
  else if !o.domainsOk (cfg.vhosts.map (·.domains)) then none
  else some ⟨cfg.vhosts.map (·.domains), cfg.vhosts.map (fun vh => ⟨vh.name, vh.routes⟩)⟩

/-- `xs[i] := f xs[i]` -/
def modifyAt {α} (f : α → α) : List α → Nat → List α
  | [], _ => []
  | x :: r, 0 => f x :: r
  | x :: r, i + 1 => x :: modifyAt f r i

/-- `routersImpl.AddRoute`: `none` = -1 (no virtual host for the domain, or the route cannot be built). -/
def Table.addRoute (o : Oracle) (t : Table) (domain : String) (r : Route) : Option (Nat × Table) :=
  match o.resolve t.doms domain with
  | none => none
  | some i =>
    if i < t.vhs.length then
      if r.valid then some (i, { t with vhs := modifyAt (fun vh => { vh with routes := vh.routes ++ [r] }) t.vhs i })
      else none
    else none

/-- `routersImpl.RemoveAllRoutes` -/
def Table.removeAll (o : Oracle) (t : Table) (domain : String) : Option (Nat × Table) :=
  match o.resolve t.doms domain with
  | none => none
  | some i =>
    if i < t.vhs.length then some (i, { t with vhs := modifyAt (fun vh => { vh with routes := [] }) t.vhs i })
    else none

/-- `RoutersWrapper`: live routers (`nil` when the first `NewRouters` failed) + the wrapper's configuration -/
structure Wrapper where
  routers : Option Table
  cfg : RouterCfg
  deriving DecidableEq, Repr

/-! ## clusters and hosts -/

structure Host where
  addr : String
  name : String
  weight : Nat
  deriving DecidableEq, Repr

/-- `hostSet.setFinalHost`: distinct by address string, first occurrence kept (`seen` = the `distinctHosts` map). -/
def dedupAux (seen : List String) : List Host → List Host
  | [] => []
  | h :: t => if h.addr ∈ seen then dedupAux seen t else h :: dedupAux (h.addr :: seen) t

/-- `NewHostSet` -/
def dedup (l : List Host) : List Host := dedupAux [] l

/-- insertion into a list ascending by address string -/
def insertByAddr (h : Host) : List Host → List Host
  | [] => [h]
  | x :: t => if h.addr ≤ x.addr then h :: x :: t else x :: insertByAddr h t

/-- `sort.Sort(types.SortedHosts(hosts))` — ascending by address string (Go's byte-wise string order; the sort is modelled
by its specification: on address-distinct input the ascending permutation is unique). -/
def sortByAddr (l : List Host) : List Host := l.foldr insertByAddr []

/-- SPECIFICATION of one iteration of `RemoveClusterHosts`' loop on a sorted slice: at the smallest index whose address is
`>= addr`, delete that host when its address equals `addr`. The loop as written is `removeStep` below (binary search + the
regenerated guard and deletion statements); `Lemmas.Updates.removeStep_eq_removeSorted` proves the two equal on sorted slices. -/
def removeSorted : List Host → String → List Host
  | [], _ => []
  | h :: t, a => if a ≤ h.addr then (if h.addr = a then t else h :: t) else h :: removeSorted t a

/-- Go's `sort.Search(n, f)` as written in the standard library (binary search: `i, j := 0, n; for i < j { h := (i+j)/2;
if !f(h) { i = h+1 } else { j = h } }; return i`). `fuel` bounds the iterations (`j - i` shrinks in every one). On a
predicate that is not monotone (an unsorted slice) it still returns what the Go loop returns. -/
def goSearchAux (f : Nat → Bool) : Nat → Nat → Nat → Nat
  | 0, i, _ => i
  | fuel + 1, i, j =>
    if i < j then
      let h := (i + j) / 2
      if !f h then goSearchAux f fuel (h + 1) j else goSearchAux f fuel i h
    else i

def goSearch (n : Nat) (f : Nat → Bool) : Nat := goSearchAux f (n + 1) 0 n

/-- address of element `k` of the slice (`""` out of range: never read there by a guarded access) -/
def addrAt (l : List Host) (k : Nat) : String :=
  match l[k]? with
  | some h => h.addr
  | none => ""

/-- one iteration of `RemoveClusterHosts`' loop AS WRITTEN, over a deletion statement `del`:
`i := sort.Search(len, pred); if found { del }` with the regenerated predicate and guard. -/
def removeStepWith (del : List Host → Nat → List Host) (l : List Host) (a : String) : List Host :=
  let i := goSearch l.length (Gen.Updates.removeSearchPred l.length (addrAt l) a)
  if Gen.Updates.removeFound l.length (addrAt l) a i then del l i else l

/-- … with the regenerated deletion statement(s) -/
def removeStep (l : List Host) (a : String) : List Host := removeStepWith Gen.Updates.removeDelete l a

/-- the whole handler over a deletion statement: collect, (sort,) loop over the addresses, `NewHostSet` -/
def removeHostsWith (del : List Host → Nat → List Host) (addrs : List String) (old : List Host) : List Host :=
  dedup (addrs.foldl (removeStepWith del) (if Gen.Updates.removeHosts_sorts then sortByAddr old else old))

/-- the "move the last host into the slot and shorten the slice" deletion (`s[i] = s[len-1]; s = s[:len-1]`): NOT what the
code does — it breaks the sort order the next `sort.Search` of the same call relies on; used only for the machine-checked
negative witness in `Props/C12`. -/
def swapLastDelete (l : List Host) (i : Nat) : List Host :=
  (match l[l.length - 1]? with
   | some x => l.set i x
   | none => l).take (l.length - 1)

/-- the host-update handlers of `cluster_manager.go`, as functions old hosts → new hosts -/
def replaceHosts (hs : List Host) (_old : List Host) : List Host := dedup hs                    -- NewSimpleHostHandler
def appendHosts (hs : List Host) (old : List Host) : List Host := dedup (hs ++ old)             -- AppendSimpleHostHandler
def removeHosts (addrs : List String) (old : List Host) : List Host :=                          -- RemoveClusterHosts' handler
  removeHostsWith Gen.Updates.removeDelete addrs old

/-- live cluster: the configuration it was created from (`tag` stands for every `ClusterInfo` field) + its host set -/
structure LiveCluster where
  tag : Nat
  hosts : List Host
  deriving DecidableEq, Repr

/-- stored `v2.Cluster`: configuration + `Hosts` -/
structure StoredCluster where
  tag : Nat
  hosts : List Host
  deriving DecidableEq, Repr

/-- `parseHostConfig`: the weight clamp a fresh start applies (regenerated `transHostWeight`). -/
def clampHost (h : Host) : Host := { h with weight := (Gen.Updates.transHostWeight (h.weight : Int)).toNat }

/-- a fresh start from a stored cluster: `ParseClusterConfig` (clamp) then `AddOrUpdatePrimaryCluster` + `UpdateClusterHosts`. -/
def buildCluster (sc : StoredCluster) : LiveCluster := ⟨sc.tag, dedup (sc.hosts.map clampHost)⟩

/-- load balancers read weights through `fixHostWeight` (same bounds): live clusters are compared after the clamp. -/
def normalize (lc : LiveCluster) : LiveCluster := ⟨lc.tag, lc.hosts.map clampHost⟩

/-! ## listeners (`pkg/server/handler.go`, `pkg/server/adapter.go`) -/

/-- the part of `v2.Listener` the update paths distinguish -/
structure ListenerCfg where
  name : String
  addr : String
  chains : Nat          -- number of filter chains (exactly one is accepted)
  sf : List String      -- stream filters
  nf : Nat              -- network filters of the filter chain
  idle : Nat            -- connection idle timeout (0 = unset)
  keep : Nat            -- stands for the fields an update does not copy (default_read_buffer_size, access logs, bind_port …)
  tlsOk : Bool          -- `NewTLSServerContextManager` succeeds on its TLS contexts
  deriving DecidableEq, Repr

/-- `activeListener` + what the stream-filter manager holds for it: what new connections are served with -/
structure LiveListener where
  cfg : ListenerCfg     -- `al.listener.Config()` (rawConfig)
  sf : List String      -- stream-filter manager entry of the listener
  nf : Nat              -- `al.networkFiltersFactories`
  idle : Nat            -- `al.idleTimeout`
  deriving DecidableEq, Repr

/-- the name a listener is registered under: `lc.Name`, or the address when the name is empty -/
def effName (lc : ListenerCfg) : String := if lc.name.isEmpty then lc.addr else lc.name

/-- a fresh start adds the stored listener to an empty handler (`AddOrUpdateListener`, add path); `none` = refused -/
def buildListener (c : ListenerCfg) : Option LiveListener :=
  if c.chains ≠ 1 then none
  else if !c.tlsOk then none
  else some ⟨{ c with name := effName c }, c.sf, c.nf, c.idle⟩

/-! ## state -/

structure State where
  wrappers : FMap Wrapper        -- routersManagerImpl.routersWrapperMap
  rstore : FMap RouterCfg        -- configmanager conf.Routers
  clusters : FMap LiveCluster    -- clusterManager.clustersMap (published snapshot)
  cstore : FMap StoredCluster    -- configmanager conf.Cluster
  listeners : FMap LiveListener  -- connHandler.listeners (by name) + stream-filter manager
  lstore : FMap ListenerCfg      -- configmanager conf.Listener
  rpath : String → String := fun _ => ""  -- configmanager conf.routerConfigPath (a Go map: "" for an absent key)

def init : State := ⟨FMap.empty, FMap.empty, FMap.empty, FMap.empty, FMap.empty, FMap.empty, fun _ => ""⟩

/-- an xDS endpoint: address and optional load-balancing weight -/
structure XHost where
  addr : String
  lbWeight : Option Nat
  deriving DecidableEq, Repr

/-- `ConvertEndpointsConfig` for one endpoint -/
def convHost (x : XHost) : Host :=
  ⟨x.addr, "", match x.lbWeight with
    | none => 0
    | some w => (Gen.Updates.xdsEndpointWeight (w : Int)).toNat⟩

inductive Op
  | routersNil                                                              -- AddOrUpdateRouters(nil)
  | addOrUpdateRouters (cfg : RouterCfg)
  | addRoute (rname domain : String) (r : Route)
  | removeAllRoutes (rname domain : String)
  | addOrUpdateCluster (name : String) (tag : Nat) (cfgHosts : List Host)  -- AddOrUpdatePrimaryCluster (cluster.Hosts = cfgHosts)
  | addOrUpdateClusterAndHost (name : String) (tag : Nat) (cfgHosts hosts : List Host)
  | addClusterNil (name : String)                                          -- a cluster type whose factory returns nil
  | updateHosts (name : String) (hosts : List Host)
  | appendHosts (name : String) (hosts : List Host)
  | removeHosts (name : String) (addrs : List String)
  | removeClusters (names : List String)
  | xdsEndpoints (assignments : List (String × List (List XHost)))
  | addOrUpdateListener (lc : ListenerCfg)                                  -- ListenerAdapter.AddOrUpdateListener
  | deleteListener (name : String)                                          -- ListenerAdapter.DeleteListener
  deriving Repr

/-! ### effective-config store -/

/-- the condition under which a statement of `SetRouter` is executed (regenerated) -/
def condHolds (c : Gen.Updates.RCond) (cfg : RouterCfg) : Bool :=
  match c with
  | .always => true
  | .pathNonEmpty => cfg.path != ""
  | .pathEmpty => cfg.path == ""

/-- what `SetRouter` puts into `conf.Routers`: the configuration it was given, its path cleared when the regenerated body
clears it before the assignment ("so the dump api will show all routes in the router") -/
def storedCfg (cfg : RouterCfg) : RouterCfg :=
  if Gen.Updates.setRouter_clearsStoredPath then { cfg with path := "" } else cfg

/-- what `SetRouter` leaves in `conf.routerConfigPath[name]`: the path of the configuration it was given, copied under the
regenerated condition (`none` = never assigned) -/
def rememberedPath (old : String) (cfg : RouterCfg) : String :=
  match Gen.Updates.setRouter_rememberPath with
  | some c => if condHolds c cfg then cfg.path else old
  | none => old

/-- `configmanager.SetRouter`: which fields are copied under which condition is regenerated (`Gen.Updates.setRouter_*`) -/
def recordRouter (on : Bool) (s : State) (cfg : RouterCfg) : State :=
  if on then
    { s with rstore := if Gen.Updates.setRouter_storesRouter then s.rstore.set cfg.name (storedCfg cfg) else s.rstore,
             rpath := fun n => if n = cfg.name then rememberedPath (s.rpath n) cfg else s.rpath n }
  else s

/-- `configmanager.SetHosts` via `refreshHostsConfig` (only when the cluster is known to the store) -/
def refreshHosts (on : Bool) (s : State) (name : String) (hosts : List Host) : State :=
  if on && Gen.Updates.refreshHostsConfig_setsHosts then
    match s.cstore name with
    | some c => { s with cstore := s.cstore.set name { c with hosts := hosts } }
    | none => s
  else s

/-! ### cluster manager -/

/-- `clusterManager.UpdateCluster` with a handler computing the new host set from the old cluster. -/
def updateCluster (s : State) (name : String) (tag : Nat) (cfgHosts : List Host)
    (handler : Option LiveCluster → List Host) : State × Bool :=
  let s1 := if Gen.Updates.updateCluster_recordsClusterConfig then { s with cstore := s.cstore.set name ⟨tag, cfgHosts⟩ } else s
  let newHosts := handler (s.clusters name)
  let s2 := { s1 with clusters := s1.clusters.set name ⟨tag, newHosts⟩ }
  (refreshHosts Gen.Updates.updateCluster_refreshesHosts s2 name newHosts, true)

/-- `clusterManager.UpdateHosts` -/
def updateHosts (s : State) (name : String) (f : List Host → List Host) : State × Bool :=
  match s.clusters name with
  | none => (s, false)
  | some lc =>
    let newHosts := f lc.hosts
    let s1 := { s with clusters := s.clusters.set name { lc with hosts := newHosts } }
    (refreshHosts Gen.Updates.updateHosts_refreshesHosts s1 name newHosts, true)

/-- `RemovePrimaryCluster`'s delete loop -/
def removeCluster (s : State) (name : String) : State :=
  match s.clusters name with
  | none => s
  | some _ =>
    { s with clusters := s.clusters.del name,
             cstore := if Gen.Updates.removePrimaryCluster_removesClusterConfig then s.cstore.del name else s.cstore }

/-- `InheritClusterHostsHandler`: the new cluster takes over the old cluster's host set; a new cluster starts empty. -/
def inheritHosts (old : Option LiveCluster) : List Host :=
  match old with
  | some oc => oc.hosts
  | none => []

/-! ### xDS -/

/-- one `ClusterLoadAssignment` of `ConvertUpdateEndpoints`, following the regenerated shape of the function: host-set
replacements inside the locality loop (one per locality) and/or one after it (with the accumulated hosts). -/
def xdsAssign (s : State) (cname : String) (locs : List (List XHost)) : State × Bool :=
  if locs.isEmpty then updateHosts s cname (replaceHosts [])
  else
    let r1 : State × Bool :=
      if Gen.Updates.endpointUpdatesInsideLocalityLoop > 0 then
        locs.foldl (fun (acc : State × Bool) loc =>
          let r := updateHosts acc.1 cname (replaceHosts (loc.map convHost))
          (r.1, acc.2 && r.2)) (s, true)
      else (s, true)
    if Gen.Updates.endpointUpdatesAfterLocalityLoop > 0 then
      let all := if Gen.Updates.localityLoopAccumulates then (locs.map (·.map convHost)).flatten else []
      let r2 := updateHosts r1.1 cname (replaceHosts all)
      (r2.1, r1.2 && r2.2)
    else r1

/-! ### listeners -/

/-- `configmanager.SetListenerConfig` -/
def recordListener (s : State) (cfg : ListenerCfg) : State :=
  if Gen.Updates.addOrUpdateListener_recordsListenerConfig then { s with lstore := s.lstore.set cfg.name cfg } else s

/-- `connHandler.AddOrUpdateListener` through the adapter. The update branch follows the regenerated facts: whether a rejected
update is rejected before anything is changed, and whether the new idle timeout reaches the live listener / its config. -/
def addOrUpdateListener (s : State) (lc0 : ListenerCfg) : State × Bool :=
  let name := effName lc0
  let lc := { lc0 with name := name }
  if lc.chains ≠ 1 then (s, false)
  else
    match s.listeners name with
    | some al =>
      if al.cfg.addr ≠ lc.addr || !lc.tlsOk then
        if Gen.Updates.updateListener_lateErrorReturns = 0 then (s, false)
        else ({ s with listeners := s.listeners.set name { al with sf := lc.sf } }, false)  -- factories already replaced
      else
        let cfg' := { al.cfg with sf := lc.sf, nf := lc.nf, tlsOk := lc.tlsOk,
                                  idle := if Gen.Updates.updateListener_idleConfig then lc.idle else al.cfg.idle }
        let al' : LiveListener := ⟨cfg', lc.sf, lc.nf, if Gen.Updates.updateListener_idleLive then lc.idle else al.idle⟩
        (recordListener { s with listeners := s.listeners.set name al' } cfg', true)
    | none =>
      -- add path: `newActiveListener` fails on a bad tls context (the registrations left behind serve no listener)
      if !lc.tlsOk then (s, false)
      else (recordListener { s with listeners := s.listeners.set name ⟨lc, lc.sf, lc.nf, lc.idle⟩ } lc, true)

/-- `ListenerAdapter.DeleteListener`: graceful close + `RemoveListeners`; no error for an unknown name -/
def deleteListener (s : State) (name : String) : State × Bool :=
  match s.listeners name with
  | none => (s, true)
  | some _ =>
    ({ s with listeners := s.listeners.del name,
              lstore := if Gen.Updates.removeListeners_removesListenerConfig then s.lstore.del name else s.lstore }, true)

/-! ### one operation -/

def recordsAddOrUpdate : Bool :=
  Gen.Updates.addOrUpdateRouters_recordsRouter && Gen.Updates.addOrUpdateRouters_recordsOnBothBranches

/-- the new state and whether the call returned `nil` (no error). -/
def step (o : Oracle) (s : State) : Op → State × Bool
  | .routersNil => (s, false)
  | .addOrUpdateRouters cfg =>
    match s.wrappers cfg.name with
    | some _ =>
      match build o cfg with
      | none => (s, false)
      | some t =>
        (recordRouter recordsAddOrUpdate { s with wrappers := s.wrappers.set cfg.name ⟨some t, cfg⟩ } cfg, true)
    | none =>
      (recordRouter recordsAddOrUpdate { s with wrappers := s.wrappers.set cfg.name ⟨build o cfg, cfg⟩ } cfg, true)
  | .addRoute rname domain r =>
    match s.wrappers rname with
    | none => (s, true)
    | some w =>
      match w.routers with
      | none => (s, false)
      | some t =>
        match t.addRoute o domain r with
        | none => (s, false)
        | some (i, t') =>
          let cfg' := { w.cfg with vhosts := modifyAt (fun vh => { vh with routes := vh.routes ++ [r] }) w.cfg.vhosts i }
          (recordRouter Gen.Updates.addRoute_recordsRouter { s with wrappers := s.wrappers.set rname ⟨some t', cfg'⟩ } cfg', true)
  | .removeAllRoutes rname domain =>
    match s.wrappers rname with
    | none => (s, true)
    | some w =>
      match w.routers with
      | none => (s, false)
      | some t =>
        match t.removeAll o domain with
        | none => (s, false)
        | some (i, t') =>
          let cfg' := { w.cfg with vhosts := modifyAt (fun vh => { vh with routes := [] }) w.cfg.vhosts i }
          (recordRouter Gen.Updates.removeAllRoutes_recordsRouter { s with wrappers := s.wrappers.set rname ⟨some t', cfg'⟩ } cfg', true)
  | .addOrUpdateCluster name tag cfgHosts =>
    -- InheritClusterHostsHandler: keep the old cluster's host set; a new cluster starts empty (cluster.Hosts is not read)
    updateCluster s name tag cfgHosts inheritHosts
  | .addOrUpdateClusterAndHost name tag cfgHosts hosts =>
    updateCluster s name tag cfgHosts (fun _ => replaceHosts hosts [])
  | .addClusterNil _ => (s, false)
  | .updateHosts name hosts => updateHosts s name (replaceHosts hosts)
  | .appendHosts name hosts => updateHosts s name (appendHosts hosts)
  | .removeHosts name addrs => updateHosts s name (removeHosts addrs)
  | .removeClusters names =>
    if names.all (fun n => (s.clusters n).isSome) then (names.foldl removeCluster s, true) else (s, false)
  | .xdsEndpoints assignments =>
    assignments.foldl (fun (acc : State × Bool) a =>
      let r := xdsAssign acc.1 a.1 a.2
      (r.1, acc.2 && r.2)) (s, true)
  | .addOrUpdateListener lc => addOrUpdateListener s lc
  | .deleteListener name => deleteListener s name

/-- state after a history -/
def run (o : Oracle) (ops : List Op) : State := ops.foldl (fun s op => (step o s op).1) init

/-- state after a history, from an arbitrary state -/
def runFrom (o : Oracle) (s : State) (ops : List Op) : State := ops.foldl (fun s op => (step o s op).1) s

/-- per-operation results of a history -/
def results (o : Oracle) : State → List Op → List Bool
  | _, [] => []
  | s, op :: r => (step o s op).2 :: results o (step o s op).1 r

/-! ## dump and rebuild -/

/-- what `configmanager` dumps: the stored routers and clusters -/
structure Dump where
  routers : FMap RouterCfg
  clusters : FMap StoredCluster
  listeners : FMap ListenerCfg

/-- `transferConfig`: every stored router gets its remembered path back (`r.RouterConfigPath = conf.routerConfigPath[name]`) -/
def dumpRouter (s : State) (n : String) : Option RouterCfg := (s.rstore n).map (fun c => { c with path := s.rpath n })

def dump (s : State) : Dump := ⟨dumpRouter s, s.cstore, s.lstore⟩

/-! ### the persisted router: `RouterConfiguration.MarshalJSON` / `UnmarshalJSON` (pkg/config/v2/route.go)

What the dumped file says about one router: `router_configs` (the path), `virtual_hosts` (the static list) and — in directory
mode — the virtual hosts written into the directory. How a directory gives its files back (`ioutil.ReadDir` order, file names,
property C19's `dynamic_roundtrip`) is the parameter `fsr`. -/
structure RouterFile where
  name : String
  path : String               -- `router_configs`
  static : List VHost         -- `virtual_hosts`
  dir : List VHost            -- the files of the directory `path` after the dump (directory mode only)
  deriving DecidableEq, Repr

/-- `MarshalJSON`: static mode (`RouterConfigPath == ""`) sets `StaticVirtualHosts = VirtualHosts`; directory mode writes one
file per virtual host, removes the other files, and marshals the embedded config AS IT IS (its `StaticVirtualHosts` included). -/
def marshalRouter (c : RouterCfg) : RouterFile :=
  if c.path = "" then ⟨c.name, "", c.vhosts, []⟩ else ⟨c.name, c.path, c.static, c.vhosts⟩

/-- `UnmarshalJSON`: both `virtual_hosts` and `router_configs` is `ErrDuplicateStaticAndDynamic` (`none`); otherwise the
static list followed by the files of the directory. -/
def unmarshalRouter (fsr : List VHost → List VHost) (f : RouterFile) : Option RouterCfg :=
  if !f.static.isEmpty && f.path != "" then none
  else some ⟨f.name, (if !f.static.isEmpty then f.static else []) ++ (if f.path != "" then fsr f.dir else []), f.path, f.static⟩

/-- dump → reload of one router name: `none` = not in the dump, `some none` = the dumped file cannot be loaded -/
def reloadRouter (fsr : List VHost → List VHost) (s : State) (n : String) : Option (Option RouterCfg) :=
  (dumpRouter s n).map (fun c => unmarshalRouter fsr (marshalRouter c))

/-- live route tables of a fresh start from a dump (`none` = no such router, `some none` = router without tables) -/
def rebuildRouters (o : Oracle) (d : Dump) : FMap (Option Table) := fun n => (d.routers n).map (build o)
def rebuildClusters (d : Dump) : FMap LiveCluster := fun n => (d.clusters n).map buildCluster

def rebuildListeners (d : Dump) : FMap LiveListener := fun n => (d.listeners n).bind buildListener

def liveRouters (s : State) : FMap (Option Table) := fun n => (s.wrappers n).map (·.routers)
def liveClusters (s : State) : FMap LiveCluster := fun n => (s.clusters n).map normalize

/-- abstract route matching: first route of the resolved virtual host accepted by the matcher `m` (`MatchRoute`);
`findVirtualHost` itself is part of the oracle. -/
def matchRoute (o : Oracle) (m : Route → Bool) (t : Option Table) (host : String) : Option Route :=
  match t with
  | none => none
  | some t =>
    match o.resolve t.doms host with
    | none => none
    | some i => match t.vhs[i]? with
      | none => none
      | some vh => vh.routes.find? m

end MosnVerif.Model.Updates
