import MosnVerif.Model.FrameBytes
import MosnVerif.Gen.FrameConsts
/-!
Protocol matchers used by automatic protocol detection (`<proto>/matcher.go`, `stream/http/stream.go ProtocolMatch`,
`stream/http2/stream.go ProtocolMatch`) and `protocol.SelectStreamFactoryProtocol` (pkg/protocol/api.go) over an ordered
list of matchers.  Constants (codes, magic bytes, lengths, the HTTP method table, the HTTP/2 preface) are regenerated
(`Gen.FrameConsts`).  Core Lean only.
-/
namespace MosnVerif.Model.Match
open MosnVerif.Model.Framing MosnVerif.Model.FrameBytes
open MosnVerif.Gen.FrameConsts

inductive MR where
  | again | success | failed
deriving Repr, DecidableEq

def nats (b : Bytes) : List Nat := b.map (·.toNat)

/-- `boltMatcher` / `boltv2Matcher`: first byte = protocol code -/
def codeMatch (code : Nat) (b : Bytes) : MR :=
  if b.length = 0 then .again else if u8 b 0 = code then .success else .failed

def boltMatch : Bytes → MR := codeMatch bolt_ProtocolCode
def boltv2Match : Bytes → MR := codeMatch boltv2_ProtocolCode

/-- `dubboMatcher`: needs the whole header, then compares the magic -/
def dubboMatch (b : Bytes) : MR :=
  if b.length < dubbo_HeaderLen then .again
  else if nats ((b.take dubbo_FlagIdx).drop dubbo_MagicIdx) ≠ dubbo_MagicTag then .failed else .success

/-- `thriftMatcher`: message size + magic -/
def thriftMatch (b : Bytes) : MR :=
  if b.length < thrift_MessageLenSize + thrift_MagicLen then .again
  else if nats ((b.take (thrift_MessageLenSize + thrift_MagicLen)).drop thrift_MessageLenSize) ≠ thrift_MagicTag then .failed
  else .success

/-- TarsGo `TarsRequest` status -/
inductive TarsStatus where
  | less | full | error
deriving Repr, DecidableEq

def tarsRequest (b : Bytes) : TarsStatus :=
  if b.length < tars_lenFieldSize then .less else
  let n := be b 0 tars_lenFieldSize
  if n < tars_minPackageLength ∨ n > tars_maxPackageLength then .error else
  if b.length < n then .less else .full

/-- `tarsMatcher` -/
def tarsMatch (b : Bytes) : MR :=
  if b.length < tars_matchMinLen then .again else
  if tars_versionOk (u8 b tars_IVersionHeaderIdx) (u8 b tars_iVersionDataIdx) then
    match tarsRequest b with
    | .less => .again
    | .error => .failed
    | .full => .success
  else .failed

/-- HTTP/1 `ProtocolMatch`: some `magic[0:i]`, `min ≤ i ≤ size`, is a method -/
def http1Match (b : Bytes) : MR :=
  if b.length < http_minMethodLen then .again else
  let size := if b.length > http_maxMethodLen then http_maxMethodLen else b.length
  if (List.range (size + 1)).any (fun i => decide (http_minMethodLen ≤ i) && http_methods.contains (nats (b.take i))) then .success
  else if size < http_maxMethodLen then .again else .failed

/-- HTTP/2 `ProtocolMatch`: prefix of the client preface -/
def http2Match (b : Bytes) : MR :=
  if b.length ≥ http2_preface.length then
    (if nats (b.take http2_preface.length) = http2_preface.take http2_preface.length then .success else .failed)
  else
    (if nats (b.take b.length) = http2_preface.take b.length then .again else .failed)

/-- a matcher is monotone: an answer other than `again` is final on every extension -/
def Monotone (m : Bytes → MR) : Prop := ∀ p e, m p ≠ .again → m (p ++ e) = m p

def matcherOf (name : String) : Option (Bytes → MR) :=
  match name with
  | "bolt" => some boltMatch
  | "boltv2" => some boltv2Match
  | "dubbo" => some dubboMatch
  | "thrift" => some thriftMatch
  | "tars" => some tarsMatch
  | "http1" => some http1Match
  | "http2" => some http2Match
  | _ => none

/-- `SelectStreamFactoryProtocol` over an ordered scope: first success wins; otherwise `again` if any matcher wants
more bytes, else `failed`.  (With an empty scope the Go code ranges over a map: the order is then arbitrary.) -/
inductive SelRes where
  | proto (name : String) | again | failed
deriving Repr, DecidableEq

def select (ms : List (String × (Bytes → MR))) (b : Bytes) : SelRes :=
  match ms.find? (fun m => m.2 b == .success) with
  | some m => .proto m.1
  | none => if ms.any (fun m => m.2 b == .again) then .again else .failed

/-- the scope of a listener: configured protocol names, in order -/
def scopeOf (names : List String) : List (String × (Bytes → MR)) :=
  names.filterMap (fun n => (matcherOf n).map (fun m => (n, m)))

end MosnVerif.Model.Match
