import MosnVerif.Gen.TcpProxy
import MosnVerif.Gen.Resource
/-!
# The stream proxy's connection life cycle and its ledger (property C10, TCP half)

`pkg/filter/network/streamproxy/streamproxy.go` as a labelled machine.  The CONTROL FLOW of the handlers — which
statement moves which counter, before or after the dial, on which exit — is the regenerated `Gen.TcpProxy`
(`initializeUpstreamConnection` with its retry-over-hosts loop, `onUpstreamEvent`, `onUpstreamEventStats`,
`finalizeUpstreamConnectionStats`, `onDownstreamEvent`, `onInitFailure`, `closeUpstreamConnection`), generic in the
state.  This file supplies the state and the operations those handlers call:

* a session `Sess`: the two MOSN connection objects of one downstream connection (closed flag, queued flush, raw
  connection present, listener registered) and the filter's fields (`p.upstreamConnection`, the upstream host stored
  on the read callbacks);
* `connection.Close(type, event)` as `pkg/network/connection.go` implements it (FlushWrite = queue an EOF for the write
  loop; NoFlush = CAS on `closed`, nothing more when the client connection never got a raw connection, else the event
  is delivered to the registered listeners — which run the regenerated handlers, nested, as in Go);
* `clientConnection.Connect()` (the oracle says connected / refused / timed out; the event is delivered to the listeners
  before Connect returns);
* the handlers do not compute on the counters, they only move them: a handler run yields a LOG of counter actions
  (`Act`), applied to the counters afterwards (`applyActs`).  The one read of a counter, `CanCreate()`, is a step of its
  own in the regenerated code; its answer is computed from the counter at the start of the label and the log records
  where it was taken (`Act.check`), so that "no counter moved before the check" is a checked fact (`checkFresh`).

Labels (per session): `accept` (listener accepts, `OnNewConnection` → `initializeUpstreamConnection`, with the oracle
answers of up to three host tries), `up e` / `down e` (the IO loops, or an idle checker, close the upstream / downstream
connection with close event `e`), `data`; global: `ambInc` / `ambDec` (another user of the cluster's connections
resource — a connection pool — takes / returns a slot, admission-checked like the pools do).
-/
namespace MosnVerif.Model.TcpLedger
open MosnVerif.Gen.TcpProxy

/-- what one iteration of the retry-over-hosts loop meets: no host chosen, connected, refused, dial timeout -/
inductive Try where
  | none | ok | fail | timeout
  deriving DecidableEq, Repr, Inhabited

/-- a counter action of a handler -/
inductive Act where
  | check                                   -- CanCreate() evaluated here
  | resInc | resDec                         -- Connections().Increase() / Decrease()
  | bump (sc : Scope) (st : Stat) (d : Int) -- a stats counter
  | downNew | downGone                      -- the listener's connection count (activeListener.OnNewConnection / removeConnection)
  | flag (f : Flag)                         -- response flag (not a counter; kept for the refusal theorem)
  deriving DecidableEq, Repr

/-- the persistent state of one downstream connection and its filter instance -/
structure Sess where
  /-- the downstream server connection exists (accepted, filter created) -/
  accepted : Bool := false
  downClosed : Bool := false
  /-- an EOF is queued on the downstream connection (Close(FlushWrite)): its write loop will close it -/
  downEof : Bool := false
  /-- p.upstreamConnection != nil -/
  upSet : Bool := false
  /-- p.upstreamCallbacks is registered on that client connection -/
  upListener : Bool := false
  /-- that client connection has a raw connection: Connect succeeded, its IO loops run -/
  upRaw : Bool := false
  upClosed : Bool := false
  upEof : Bool := false
  /-- p.readCallbacks.UpstreamHost() is set -/
  hostKnown : Bool := false
  deriving DecidableEq, Repr, Inhabited

/-- the state the regenerated handlers run on: the session, the oracle of the current label, the log -/
structure Ctl where
  s : Sess
  /-- oracle: GetClusterSnapshot returns nil -/
  noCluster : Bool := false
  /-- the answer CanCreate() gives (computed from the counter at the start of the label) -/
  grant : Bool := true
  hostNum : Int := 0
  /-- oracle: what the next host tries meet -/
  tries : List Try := []
  /-- connectionData of the current loop iteration -/
  cur : Try := .none
  /-- p.upstreamCallbacks registered on the connection object just created (not yet stored in p.upstreamConnection) -/
  candListener : Bool := false
  log : List Act := []
  /-- the model left its domain (nesting deeper than `depth`, or a call the Go code cannot survive) — never, see `step_ok` -/
  stuck : Bool := false
  deriving Repr

def Ctl.act (c : Ctl) (a : Act) : Ctl := { c with log := c.log ++ [a] }

/-- `connection.Close` on the DOWNSTREAM (server) connection; `deliver` runs the listeners' callbacks -/
def closeDown (deliver : Event → Ctl → Ctl) (ty : CloseType) (ev : Event) (c : Ctl) : Ctl :=
  match ty with
  | .FlushWrite =>                                   -- c.Write(EOF buffer); on a closed connection the write fails, nothing else
    if c.s.downClosed then c else { c with s := { c.s with downEof := true } }
  | .NoFlush =>
    if c.s.downClosed then c                         -- CAS(closed, 0, 1) fails
    else
      let c := { c with s := { c.s with downClosed := true } }
      let c := deliver ev c                          -- streamproxy's downstreamCallbacks (registered by InitializeReadFilterCallbacks)
      if Event.isClose ev then c.act .downGone else c -- activeConnection.OnEvent → removeConnection

/-- `connection.Close` on the UPSTREAM (client) connection stored in p.upstreamConnection -/
def closeUp (deliver : Event → Ctl → Ctl) (ty : CloseType) (ev : Event) (c : Ctl) : Ctl :=
  match ty with
  | .FlushWrite =>
    if c.s.upClosed then c
    else if c.s.upRaw then { c with s := { c.s with upEof := true } }
    else { c with stuck := true }                    -- a write to a connection whose loops never started: not reachable
  | .NoFlush =>
    if c.s.upClosed then c
    else
      let c := { c with s := { c.s with upClosed := true } }
      if !c.s.upRaw then c                           -- "connection failed in client mode": no raw connection, no event
      else if c.s.upListener then deliver ev c else c

/-- `clientConnection.Connect()`: the dial's outcome is the oracle answer of this iteration; the event goes to the
listeners before Connect returns -/
def connectUp (deliver : Event → Ctl → Ctl) (c : Ctl) : Ctl × Bool :=
  let ev (e : Event) (c : Ctl) := if c.s.upListener then deliver e c else c
  match c.cur with
  | .ok => (ev .Connected { c with s := { c.s with upRaw := true } }, false)
  | .fail => (ev .ConnectFailed c, true)
  | .timeout => (ev .ConnectTimeout c, true)
  | .none => ({ c with stuck := true }, true)         -- Connect on a nil connection

/-- the operations of the regenerated handlers; `dUp` / `dDown` deliver an event to the filter's callbacks -/
def mkOps (dUp dDown : Event → Ctl → Ctl) : Ops Ctl where
  snapshotNil c := c.noCluster
  canCreate c := (c.act .check, c.grant)
  hostNum c := c.hostNum
  connNil c := c.cur == .none
  upstreamConnSet c := c.s.upSet
  hostKnown c := c.s.hostKnown
  setClusterInfo c := c
  getConn c :=
    match c.tries with
    | [] => { c with cur := .none }
    | t :: ts => { c with cur := t, tries := ts, candListener := false }
  addListener c := { c with candListener := true }
  addReadFilter c := c
  setUpstreamConn c :=
    { c with s := { c.s with upSet := true, upListener := c.candListener, upRaw := false, upClosed := false, upEof := false } }
  connect c := connectUp dUp c
  resIncrease c := c.act .resInc
  resDecrease c := c.act .resDec
  setUpstreamHost c := { c with s := { c.s with hostKnown := true } }
  bump sc st d c := c.act (.bump sc st d)
  flag f c := c.act (.flag f)
  closeDownstream ty ev c := closeDown dDown ty ev c
  closeUpstream ty ev c := closeUp dUp ty ev c

/-- handlers nested to depth `n`: an event delivered at depth 0 leaves the model's domain -/
def ops : Nat → Ops Ctl
  | 0 => mkOps (fun _ c => { c with stuck := true }) (fun _ c => { c with stuck := true })
  | n + 1 => mkOps (fun e c => onUpstreamEvent (ops n) e c) (fun e c => onDownstreamEvent (ops n) e c)

/-- nesting depth used by the machine (three levels occur: init → downstream close → upstream close → its event) -/
def depth : Nat := 4

/-- the close events the IO loops and idle checkers produce -/
inductive CloseEv where
  | remote | local | readErr | writeErr | writeTimeout
  deriving DecidableEq, Repr, Inhabited

def CloseEv.toEvent : CloseEv → Event
  | .remote => .RemoteClose
  | .local => .LocalClose
  | .readErr => .OnReadErrClose
  | .writeErr => .OnWriteErrClose
  | .writeTimeout => .OnWriteTimeout

/-- session labels -/
inductive Ev where
  /-- the listener hands a new downstream connection to the filter; `hostNum` hosts in the cluster snapshot,
  `t0 t1 t2` what the first three host tries meet -/
  | accept (noCluster : Bool) (hostNum : Nat) (t0 t1 t2 : Try)
  /-- the upstream connection is closed by its read loop (remote / readErr), its write loop (local = the queued EOF,
  writeErr, writeTimeout) or its idle checker (local) -/
  | up (e : CloseEv)
  | down (e : CloseEv)
  | data
  deriving DecidableEq, Repr

/-- more than `defaultConnectRetryTimes` hosts behave like `defaultConnectRetryTimes + 1` (theorem `hostNum_clamp`) -/
def hostAbs (n : Nat) : Int := Int.ofNat (min n 4)

/-- one label on one session: the new session state and the log.  `grant` = what CanCreate() answers now. -/
def sstep (grant : Bool) (s : Sess) : Ev → Ctl
  | .accept nc hn t0 t1 t2 =>
    if s.accepted then { s := s }
    else
      let c : Ctl := { s := { s with accepted := true }, noCluster := nc, grant := grant, hostNum := hostAbs hn, tries := [t0, t1, t2] }
      let c := c.act .downNew
      (initializeUpstreamConnection (ops depth) c).1
  | .up e =>
    if s.upRaw && !s.upClosed then closeUp (fun ev c => onUpstreamEvent (ops depth) ev c) .NoFlush e.toEvent { s := s }
    else { s := s }
  | .down e =>
    if s.accepted && !s.downClosed then closeDown (fun ev c => onDownstreamEvent (ops depth) ev c) .NoFlush e.toEvent { s := s }
    else { s := s }
  | .data => { s := s }

/-- the counters -/
structure G where
  /-- ResourceManager().Connections().Cur() -/
  cur : Int := 0
  stats : Scope → Stat → Int := fun _ _ => 0
  /-- connHandler.NumConnections() -/
  numConns : Int := 0

def applyAct (max : Int) (g : G) : Act → G
  | .resInc => { g with cur := Gen.Resource.increase max g.cur }
  | .resDec => { g with cur := Gen.Resource.decrease max g.cur }
  | .bump sc st d => { g with stats := fun sc' st' => if sc' = sc ∧ st' = st then g.stats sc st + d else g.stats sc' st' }
  | .downNew => { g with numConns := g.numConns + 1 }
  | .downGone => { g with numConns := g.numConns - 1 }
  | .check => g
  | .flag _ => g

def applyActs (max : Int) (g : G) (l : List Act) : G := l.foldl (applyAct max) g

/-- the whole proxy: threshold, counters, what other users of the resource hold, the sessions -/
structure St where
  max : Nat
  g : G := {}
  amb : Nat := 0
  ss : List Sess := []
  /-- some label left the model's domain (never: `step_ok`) -/
  stuck : Bool := false

inductive Label where
  | sess (i : Nat) (ev : Ev)
  | ambInc | ambDec
  deriving DecidableEq, Repr

def step (st : St) : Label → St
  | .sess i ev =>
    -- `accept` on the index just past the end opens a new session; other indices address existing sessions
    let ss := if i = st.ss.length then (match ev with | .accept .. => st.ss ++ [{}] | _ => st.ss) else st.ss
    match ss[i]? with
    | none => st
    | some s =>
      let c := sstep (Gen.Resource.canCreate st.max st.g.cur) s ev
      { st with g := applyActs st.max st.g c.log, ss := ss.set i c.s, stuck := st.stuck || c.stuck }
  | .ambInc =>
    if Gen.Resource.canCreate st.max st.g.cur then
      { st with g := { st.g with cur := Gen.Resource.increase st.max st.g.cur }, amb := st.amb + 1 }
    else st
  | .ambDec =>
    if st.amb = 0 then st
    else { st with g := { st.g with cur := Gen.Resource.decrease st.max st.g.cur }, amb := st.amb - 1 }

def run (max : Nat) (l : List Label) : St := l.foldl step { max := max }

/-! ### what the theorems count -/

/-- the session has a live upstream connection -/
def Sess.live (s : Sess) : Bool := s.upRaw && !s.upClosed
/-- the session's downstream connection is open -/
def Sess.downLive (s : Sess) : Bool := s.accepted && !s.downClosed
def b2i (b : Bool) : Int := if b then 1 else 0
/-- number of live upstream connections -/
def liveCount : List Sess → Int
  | [] => 0
  | s :: l => b2i s.live + liveCount l
/-- number of open downstream connections -/
def downCount : List Sess → Int
  | [] => 0
  | s :: l => b2i s.downLive + downCount l

/-- net movement of the connections resource in a log (in slots; the resource ignores it when max = 0) -/
def dRes : List Act → Int
  | [] => 0
  | .resInc :: l => 1 + dRes l
  | .resDec :: l => -1 + dRes l
  | _ :: l => dRes l
def dStat (sc : Scope) (st : Stat) : List Act → Int
  | [] => 0
  | .bump sc' st' d :: l => (if sc' = sc ∧ st' = st then d else 0) + dStat sc st l
  | _ :: l => dStat sc st l
def dNum : List Act → Int
  | [] => 0
  | .downNew :: l => 1 + dNum l
  | .downGone :: l => -1 + dNum l
  | _ :: l => dNum l
/-- no resource movement precedes the admission test (if the log has one) -/
def checkFresh : List Act → Bool
  | [] => true
  | .check :: _ => true
  | .resInc :: l => !l.contains .check
  | .resDec :: l => !l.contains .check
  | _ :: l => checkFresh l
def refused (l : List Act) : Bool := l.contains (.flag .UpstreamOverflow)

end MosnVerif.Model.TcpLedger
