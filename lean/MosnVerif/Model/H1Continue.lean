import MosnVerif.Model.H1Seg
import MosnVerif.Model.FrameSpec
import MosnVerif.Gen.H1Continue
/-!
HTTP/1 `Expect: 100-continue`: the TWO-PHASE read of `serverStreamConnection.serve` (C07, kind `h1seg`, side `exp`;
`pkg/stream/http/stream.go`).

One iteration of the loop reads a request from the connection's reader queue (`conn.br`, Model/H1Seg) in two phases:

1. `request.ReadLimitBody(conn.br, …)` — fasthttp reads the head; when the request says `Expect: 100-continue`
   (`MayContinue()`) it returns BEHIND THE HEAD, otherwise it goes on to read the body (internally the same
   `ContinueReadBody`);
2. if `request.MayContinue()`: write the interim response `HTTP/1.1 100 Continue`, read the body with
   `request.ContinueReadBody(conn.br, …)` from the same reader, delete the `Expect` header.

A client need not wait for the interim response (RFC 7231 §5.1.1), so when phase 1 returns the body may already be in
the queue (it came in the read that carried the end of the head), may straddle reads, or may come later.

* `Parser`  : fasthttp as a pair of oracles on the queue prefix — `rl` (ReadLimitBody: need more / error / whole request
              consuming `n` bytes / head only, consuming `n` bytes = MayContinue) and `cb h` (ContinueReadBody for head `h`:
              need more / body consuming `m ≥ 0` bytes / error).  `PStable` is the contract (prefix-stability of both),
              validated by the correspondence run.
* `Plan`    : what the REGENERATED statement sequence of the continue branch does (`Gen.H1Continue`): is the branch
              conditional on anything but `MayContinue()` (`guarded`: modelled as "skipped when bytes are buffered"), is the
              reader destroyed / replaced between the phases (`resetBetween`), is the interim response written, is `Expect`
              deleted.
* `drainC` / `feedC` / `runC` : the serve loop over the queue with the pending-head state (serve() blocked inside
              ContinueReadBody).  After an error the connection is closed: the state is frozen with an empty queue.
* `compose` : the one-phase parser the two phases amount to under the good plan (Lemmas/H1Continue: refinement).
* `refParser` : concrete reference parser of the generated shapes (head up to CRLFCRLF, Content-Length, chunked with
              trailers, `Expect` with the exact value `100-continue`), proved `PStable`.
* `trailerAppends` : model of fasthttp v1.40.0 `ReadTrailer` (every attempt appends the complete trailer lines to the
              header; KNOWN_FINDINGS).
Core Lean only.
-/
namespace MosnVerif.Model.H1Continue
open MosnVerif.Model.Framing MosnVerif.Model.H1Seg

/-! ### the parser oracles -/

/-- answer of phase 1 (`Request.ReadLimitBody`) on the queue prefix -/
inductive R1 (H B : Type) where
  | needMore : R1 H B
  | error : R1 H B
  | full (h : H) (b : B) (n : Nat) : R1 H B   -- a whole request of `n` bytes (MayContinue false)
  | head (h : H) (n : Nat) : R1 H B           -- only the head, `n` bytes: MayContinue true
deriving Repr, DecidableEq

structure Parser (H B : Type) where
  rl : Bytes → R1 H B
  cb : H → Bytes → Step B
  /-- the body of a request whose continue phase was skipped -/
  noBody : B

/-- contract of the oracles: an answer other than need-more is final on every extension of the queue; a request or head
consumes a positive number of buffered bytes, a body at most what is buffered (possibly nothing: no body header,
`Content-Length: 0`). -/
structure PStable {H B : Type} (p : Parser H B) : Prop where
  fullPos : ∀ q h b n, p.rl q = .full h b n → 0 < n ∧ n ≤ q.length
  fullExt : ∀ q h b n e, p.rl q = .full h b n → p.rl (q ++ e) = .full h b n
  headPos : ∀ q h n, p.rl q = .head h n → 0 < n ∧ n ≤ q.length
  headExt : ∀ q h n e, p.rl q = .head h n → p.rl (q ++ e) = .head h n
  errExt  : ∀ q e, p.rl q = .error → p.rl (q ++ e) = .error
  bodyLe  : ∀ h q b m, p.cb h q = .frame b m → m ≤ q.length
  bodyExt : ∀ h q b m e, p.cb h q = .frame b m → p.cb h (q ++ e) = .frame b m
  bodyErrExt : ∀ h q e, p.cb h q = .error → p.cb h (q ++ e) = .error

/-- what the receiver is handed: head, body, whether the continue phase ran, interim responses written for it, how often
`Expect` was deleted from it -/
structure Msg (H B : Type) where
  head : H
  body : B
  continued : Bool
  interims : Nat
  dels : Nat
deriving Repr, DecidableEq

/-! ### the regenerated continue branch -/

structure Plan where
  /-- the branch has a condition other than `MayContinue()`; run as: skipped when bytes are buffered behind the head -/
  guarded : Bool
  /-- the reader is destroyed between the phases, or phase 2 does not read the connection's reader -/
  resetBetween : Bool
  writes : Bool
  dels : Bool
deriving Repr, DecidableEq

def goodPlan : Plan := { guarded := false, resetBetween := false, writes := true, dels := true }

def expectedPhase1 : String := "err := request.ReadLimitBody(conn.br, maxRequestBodySize)"
def expectedPath : List String := ["if:err == nil", "if:request.MayContinue()"]
def expectedCont : String := "err = request.ContinueReadBody(conn.br, maxRequestBodySize, false)"
def writeStmt : String := "conn.conn.Write(buffer.NewIoBufferBytes(strResponseContinue))"
def delStmt : String := "request.Header.Del(\"Expect\")"

/-- classification of the regenerated statement sequence (hand-written) -/
def contPlan : Plan :=
  { guarded := MosnVerif.Gen.H1Continue.contPath != expectedPath
      || MosnVerif.Gen.H1Continue.mayContinueCalls != 1
      || MosnVerif.Gen.H1Continue.contBrUses.any (fun u => opOf u == .look)
    resetBetween := MosnVerif.Gen.H1Continue.contBrUses.any (fun u => opOf u == .destroy)
      || MosnVerif.Gen.H1Continue.contStmt != expectedCont
      || MosnVerif.Gen.H1Continue.phase1Stmt != expectedPhase1
      || MosnVerif.Gen.H1Continue.contCalls != 1
    writes := MosnVerif.Gen.H1Continue.contPre.contains writeStmt
    dels := MosnVerif.Gen.H1Continue.contPost.contains delStmt }

/-- the error of phase 2 reaches the error path of the loop (`if err != nil { …; return }` directly behind the branch) -/
def contErrHandled : Bool :=
  MosnVerif.Gen.H1Continue.contErrCheck == "err != nil" && MosnVerif.Gen.H1Continue.contErrReturns
    && MosnVerif.Gen.H1Continue.contErrGap.isEmpty

def interimExpected : List Nat :=
  [72, 84, 84, 80, 47, 49, 46, 49, 32, 49, 48, 48, 32, 67, 111, 110, 116, 105, 110, 117, 101, 13, 10, 13, 10]

/-! ### the serve loop over the queue, two phases -/

def Msg.plain {H B} (h : H) (b : B) : Msg H B := { head := h, body := b, continued := false, interims := 0, dels := 0 }

def Msg.cont {H B} (pl : Plan) (h : H) (b : B) : Msg H B :=
  { head := h, body := b, continued := true, interims := if pl.writes then 1 else 0, dels := if pl.dels then 1 else 0 }

/-- what the loop did to what is buffered -/
structure DR (H B : Type) where
  out : List (Msg H B)
  buf : Bytes
  pend : Option H
  failed : Bool
deriving Repr, DecidableEq

def DR.push {H B} (m : Msg H B) (r : DR H B) : DR H B := { r with out := m :: r.out }

/-- iterations of `serve()` over the buffered bytes, starting at the top of the loop -/
def drainC {H B} (pl : Plan) (p : Parser H B) : Nat → Bytes → DR H B
  | 0, buf => ⟨[], buf, none, false⟩
  | fuel+1, buf =>
    if buf.isEmpty then ⟨[], buf, none, false⟩ else
    match p.rl buf with
    | .needMore => ⟨[], buf, none, false⟩
    | .error => ⟨[], [], none, true⟩
    | .full h b n => (drainC pl p fuel (buf.drop n)).push (Msg.plain h b)
    | .head h n =>
      let rest := buf.drop n
      if pl.guarded && !rest.isEmpty then
        -- the continue phase is skipped: the request is handed on without a body, its body bytes stay in the queue
        (drainC pl p fuel rest).push (Msg.plain h p.noBody)
      else
        let q := if pl.resetBetween then [] else rest
        match p.cb h q with
        | .needMore => ⟨[], q, some h, false⟩
        | .error => ⟨[], [], none, true⟩
        | .frame b m => (drainC pl p fuel (q.drop m)).push (Msg.cont pl h b)

/-- connection state: reader queue, head of the request whose body is being read (serve() is inside ContinueReadBody),
requests handed on, failed (connection closed by the stream layer) -/
structure CConn (H B : Type) where
  buf : Bytes
  pend : Option H
  out : List (Msg H B)
  failed : Bool
deriving Repr, DecidableEq

def CConn.init {H B} : CConn H B := { buf := [], pend := none, out := [], failed := false }

def CConn.after {H B} (c : CConn H B) (pre : List (Msg H B)) (r : DR H B) : CConn H B :=
  { buf := r.buf, pend := r.pend, out := c.out ++ pre ++ r.out, failed := r.failed }

/-- one read event -/
def feedC {H B} (pl : Plan) (p : Parser H B) (c : CConn H B) (x : Bytes) : CConn H B :=
  if c.failed then c else
  let b := c.buf ++ x
  match c.pend with
  | none => c.after [] (drainC pl p (b.length + 1) b)
  | some h =>
    match p.cb h b with
    | .needMore => { c with buf := b }
    | .error => { c with buf := [], pend := none, failed := true }
    | .frame bd m => c.after [Msg.cont pl h bd] (drainC pl p (b.length + 1) (b.drop m))

def runC {H B} (pl : Plan) (p : Parser H B) (chunks : List Bytes) : CConn H B :=
  chunks.foldl (feedC pl p) CConn.init

/-- interim responses written for a request that is not handed on yet -/
def CConn.tailInterims {H B} (pl : Plan) (c : CConn H B) : Nat := if c.pend.isSome && pl.writes then 1 else 0

/-! ### the one-phase view -/

/-- the parser the two phases amount to -/
def compose {H B} (pl : Plan) (p : Parser H B) (buf : Bytes) : Step (Msg H B) :=
  match p.rl buf with
  | .needMore => .needMore
  | .error => .error
  | .full h b n => .frame (Msg.plain h b) n
  | .head h n =>
    match p.cb h (buf.drop n) with
    | .needMore => .needMore
    | .error => .error
    | .frame b m => .frame (Msg.cont pl h b) (n + m)

/-- where the two-phase loop stands on an unparsed rest: inside ContinueReadBody when the rest is a complete Expect head
whose body is not complete -/
def split {H B} (p : Parser H B) (buf : Bytes) : Option H × Bytes :=
  match p.rl buf with
  | .head h n =>
    (match p.cb h (buf.drop n) with
     | .frame _ _ => (none, buf)
     | _ => (some h, buf.drop n))
  | _ => (none, buf)

def view {H B} (p : Parser H B) (a : Conn (Msg H B)) : CConn H B :=
  if a.failed then { buf := [], pend := none, out := a.out, failed := true }
  else { buf := (split p a.buf).2, pend := (split p a.buf).1, out := a.out, failed := false }

def viewD {H B} (p : Parser H B) (r : List (Msg H B) × Bytes × Bool) : DR H B :=
  if r.2.2 then ⟨r.1, [], none, true⟩ else ⟨r.1, (split p r.2.1).2, (split p r.2.1).1, false⟩

/-! ### reference parser of the generated shapes -/

def kExpect : Bytes := [101, 120, 112, 101, 99, 116, 58]   -- "expect:"
def k100 : Bytes := [49, 48, 48, 45, 99, 111, 110, 116, 105, 110, 117, 101]   -- "100-continue"

def headerLines (head : Bytes) : List Bytes := (splitLines head []).drop 1

/-- the head carries an `Expect` header (name in any case) -/
def hasExpect (head : Bytes) : Bool := (headerLines head).any (fun l => isPrefixB kExpect (l.map lower))

/-- fasthttp `MayContinue()`: the value of the `Expect` header is exactly `100-continue` -/
def expects (head : Bytes) : Bool :=
  (headerLines head).any (fun l => isPrefixB kExpect (l.map lower) && dropSp (l.drop kExpect.length) == k100)

/-- length of the trailer section behind the last chunk (`0 CR LF`): `CR LF`, or header lines up to the empty line -/
def trailerEnd (r : Bytes) : Option Nat :=
  if r.take 2 = [13, 10] then some 2
  else if r.length < 2 then none
  else findEnd r

/-- complete chunked body with trailers: (bytes consumed, data, offset of the trailer section) -/
def chunkedT : Nat → Bytes → Option (Nat × Bytes × Nat)
  | 0, _ => none
  | fuel+1, b =>
    match sizeLine b 0 0 with
    | none => none
    | some (n, l) =>
      if n = 0 then (trailerEnd (b.drop l)).map (fun t => (l + t, [], l))
      else if l + n + 2 ≤ b.length then
        (chunkedT fuel (b.drop (l + n + 2))).map
          (fun r => (r.1 + (l + n + 2), (b.drop l).take n ++ r.2.1, r.2.2 + (l + n + 2)))
      else none

/-- the body a head announces, read from the queue -/
def bodyStep (kind : Body) (q : Bytes) : Step Bytes :=
  match kind with
  | .none => .frame [] 0
  | .bad => .error
  | .cl n => if n ≤ q.length then .frame (q.take n) n else .needMore
  | .chunked =>
    match chunkedT (q.length + 1) q with
    | some r => .frame r.2.1 r.1
    | none => .needMore

def refParser : Parser Bytes Bytes where
  rl q :=
    match findEnd q with
    | none => .needMore
    | some k =>
      if expects (q.take k) then .head (q.take k) k
      else match bodyStep (bodyKind false (q.take k)) (q.drop k) with
        | .needMore => .needMore
        | .error => .error
        | .frame b m => .full (q.take k) b (k + m)
  cb head q := bodyStep (bodyKind false head) q
  noBody := []

/-! ### descriptors of the line protocol -/

def hex8 (v : UInt32) : String :=
  String.ofList ((List.range 8).map (fun i => hexDigit ((v.toNat / 16 ^ (7 - i)) % 16)))

def fnv32 (b : Bytes) : UInt32 := b.foldl MosnVerif.Model.FrameSpec.fnvStep 2166136261

/-- `<method>:<uri>:<body length>:<fnv32a of the body>` -/
def descr4 (m : Msg Bytes Bytes) : String :=
  let line := (splitLines m.head []).headD []
  let mt := line.takeWhile (· ≠ 32)
  let u := (dropSp (line.dropWhile (· ≠ 32))).takeWhile (· ≠ 32)
  s!"{tokOf mt}:{tokOf u}:{m.body.length}:{hex8 (fnv32 m.body)}"

/-- `…:e<forwarded header still has Expect>:i<interim responses written for it>` -/
def descr6 (m : Msg Bytes Bytes) : String :=
  let e := if hasExpect m.head && m.dels == 0 then 1 else 0
  s!"{descr4 m}:e{e}:i{m.interims}"

/-! ### executable property predicate (declarative: reference parser under the good plan; no regenerated code)

`whole` / `got`: the descriptors the receiver produced for the whole stream in one read / in the chunking of the case,
`got4` the `<method>:<uri>:<body length>:<body digest>` projection of `got`, `wstat`/`gstat` the end states, `wtail`/`gtail`
the interim responses written behind the last request.  The chunked delivery must equal the whole-stream delivery, and
both must be the requests (boundaries AND bodies) the stream contains according to the reference. -/
def specH1X (stream : Bytes) (whole got got4 : List String) (wstat gstat wtail gtail : String) : Bool :=
  let ref := run (compose goodPlan refParser) [stream]
  got == whole && gstat == wstat && gtail == wtail && got4 == ref.out.map descr4
    && gstat == (if ref.failed then "err" else "ok")

/-! ### fasthttp v1.40.0 `RequestHeader.ReadTrailer` (KNOWN_FINDINGS: trailer headers are duplicated)

`ReadTrailer` loops over `tryReadTrailer(r, n)`: wait until `n` bytes are buffered, hand EVERYTHING buffered to
`parseTrailer`, which appends every complete `key: value` line to the header (`h.h = appendArgBytes(…)`) while it scans
and answers need-more when it runs out of bytes before the empty line; then `n = r.Buffered() + 1` and again — from the
start of the section, into the same header.  So the header ends up with one copy of a trailer line per attempt that saw
it complete: how many depends on where the reads cut the trailer section. -/

/-- complete trailer lines in what is buffered of the section -/
def completeLines (sec : Bytes) : Nat := (((splitLines sec []).dropLast).takeWhile (fun l => !l.isEmpty)).length

/-- header entries appended for a trailer section `sec`; `arrivals` = how many bytes of the section are buffered at each
attempt (the last attempt sees the whole section) -/
def trailerAppends (sec : Bytes) (arrivals : List Nat) : Nat :=
  (arrivals.map (fun k => completeLines (sec.take k))).foldl (· + ·) 0

/-- the attempts a chunking causes: `s`/`e` = stream offsets of the section, `ends` = offsets at which the non-empty reads
end; an attempt is made whenever something of the section is buffered and the section is incomplete, and once more when it
is complete -/
def attemptsOf (s e : Nat) (ends : List Nat) : List Nat :=
  ((ends.filter (fun p => s < p && p < e)).map (· - s)) ++ [e - s]

/-- (start, end) stream offsets of the trailer sections of the requests of a stream, `none` for a request without one -/
def trailerSections : Nat → Nat → Bytes → List (Option (Nat × Nat))
  | 0, _, _ => []
  | fuel+1, off, b =>
    if b.isEmpty then [] else
    match findEnd b with
    | none => []
    | some k =>
      match bodyKind false (b.take k) with
      | .chunked =>
        (match chunkedT (b.length + 1) (b.drop k) with
         | some r => some (off + k + r.2.2, off + k + r.1) :: trailerSections fuel (off + k + r.1) (b.drop (k + r.1))
         | none => [])
      | kind =>
        (match bodyStep kind (b.drop k) with
         | .frame _ m => none :: trailerSections fuel (off + k + m) (b.drop (k + m))
         | _ => [])

/-- stream offsets at which the non-empty reads end -/
def readEnds : Nat → List Nat → List Nat
  | _, [] => []
  | acc, n :: ns => if n = 0 then readEnds acc ns else (acc + n) :: readEnds (acc + n) ns

/-- header entries a chunking adds to each request compared with the whole stream in one read -/
def trailerDups (stream : Bytes) (chunkLens : List Nat) : List Nat :=
  let ends := readEnds 0 chunkLens
  (trailerSections (stream.length + 1) 0 stream).map (fun s =>
    match s with
    | none => 0
    | some (a, b) =>
      let sec := (stream.drop a).take (b - a)
      trailerAppends sec (attemptsOf a b ends) - trailerAppends sec [b - a])

end MosnVerif.Model.H1Continue
